(* The C++-shaped walker (Codec/CppWalker.v) against the wire specification.

   SERIALIZATION (`cpp_walk_ser_refines_on`).  From two store laws of the bitspan members -
     cset_law    setUxx/setIxx/setBit/setF* of 1..64 bits that fit the span store exactly those bits (same shape as PrimsOn.set_law,
                 relative to the span's base)
     czero_law   setZeros(n), 1 <= n <= 64, that fits the span stores exactly n zero bits
   - for every well-formed composite type, every value that fits the storage types of the generated fields
   (RefineSerBits.storage_ok), every capacity and EVERY initial buffer content: cpp_walk_ser = ser_spec.  The C++ templates have
   no whole-byte fast path, so the invariant is exact: after a node that emitted `bits` from cursor `off` of the span at `base`
   the memory is `stored buf (base + off) bits` (everything else untouched) and the cursor is off + |bits|.

   DESERIALIZATION (`cpp_walk_des_refines_on`).  From the read law (`cget_law`, the shape of PrimsOn.get_law relative to the span),
   for every well-formed type and every whole-byte bit string: cpp_walk_des = des_spec.  The C++ shape hands every nested
   composite a fresh sub-span whose cursor restarts at 0, exactly as the specification hands the nested decoder `skipn off bs`,
   so the induction hypothesis is used at (base', cap', 0).  The cursors of walker and specification are NOT always equal: the
   size a nested sealed routine reports is min(cursor, capacity)/8 (deserialization.j2 60-62), so after a nested object that ran
   past the end of the data the parent's cursor stands at its capacity while the specification's stands beyond; the relation
   `near`/`sim` of RefineDesBase.v is reused for that. *)
From Verif Require Import Wire WireThm WireThmRt WireThmExt Walker Refine RefineDesBase RefineSerBits RefineSerBase CppWalker.
From Coq Require Import Lia ZifyBool ZifyNat ZifyN.
Local Open Scope nat_scope.
Ltac Zify.zify_post_hook ::= Z.div_mod_to_equations.

(* ================================================ serialization ================================================ *)
Definition stored (buf : list bool) (at_ : nat) (bits : list bool) : list bool :=
  firstn at_ buf ++ bits ++ skipn (at_ + length bits) buf.

Definition span_in (L base cap : nat) : Prop := base mod 8 = 0 /\ cap mod 8 = 0 /\ base + cap <= L.

Definition cset_law (Q : cppprims) (L : nat) : Prop :=
  forall buf base cap off v, length buf = L -> span_in L base cap -> 1 <= length v <= 64 -> off + length v <= cap ->
    c_set Q buf base cap off v = Some (stored buf (base + off) v).

Definition czero_law (Q : cppprims) (L : nat) : Prop :=
  forall buf base cap off n, length buf = L -> span_in L base cap -> 1 <= n <= 64 -> off + n <= cap ->
    c_zero Q buf base cap off n = Some (stored buf (base + off) (repeat false n)).

Definition cwrote (buf : list bool) (base off : nat) (bits : list bool) (r : cres) : Prop :=
  r = Ok (stored buf (base + off) bits, off + length bits).

Definition csim (buf : list bool) (base off : nat) (rs : res (list bool)) (rw : cres) : Prop :=
  match rs with Ok bits => cwrote buf base off bits rw | Err e => rw = Err e end.

Lemma stored_length buf a bits : a + length bits <= length buf -> length (stored buf a bits) = length buf.
Proof. intros H. unfold stored. rewrite !app_length, firstn_length, skipn_length. lia. Qed.

Lemma stored_nil buf a : stored buf a [] = buf.
Proof. unfold stored. cbn [length app]. rewrite Nat.add_0_r. apply firstn_skipn. Qed.

Lemma stored_stored buf a b1 b2 : a + length b1 + length b2 <= length buf ->
  stored (stored buf a b1) (a + length b1) b2 = stored buf a (b1 ++ b2).
Proof.
  intros Hfit. unfold stored at 1 3.
  assert (Hf : firstn (a + length b1) (stored buf a b1) = firstn a buf ++ b1).
  { unfold stored. rewrite firstn_app_exact by (rewrite firstn_length; lia). rewrite (firstn_app_left b1) by lia.
    rewrite firstn_all. reflexivity. }
  assert (Hs : skipn (a + length b1 + length b2) (stored buf a b1) = skipn (a + length b1 + length b2) buf).
  { unfold stored. apply set_frame; lia. }
  rewrite Hf, Hs, app_length, <- !app_assoc. do 3 f_equal. f_equal. lia.
Qed.

(* the delimiter header written in front of an already serialized body *)
Lemma stored_before buf a h b : a + length h + length b <= length buf ->
  stored (stored buf (a + length h) b) a h = stored buf a (h ++ b).
Proof.
  intros Hfit. set (buf1 := stored buf (a + length h) b). unfold stored.
  assert (Hf : firstn a buf1 = firstn a buf).
  { unfold buf1, stored. rewrite firstn_app_left by (rewrite firstn_length; lia). apply firstn_firstn_le. lia. }
  assert (Hs : skipn (a + length h) buf1 = b ++ skipn (a + length h + length b) buf).
  { unfold buf1, stored. apply skipn_app_exact. rewrite firstn_length. lia. }
  rewrite Hf, Hs, app_length, <- !app_assoc. do 3 f_equal. f_equal. lia.
Qed.

Lemma cwrote_nil buf base off : cwrote buf base off [] (Ok (buf, off)).
Proof. unfold cwrote. rewrite stored_nil. cbn [length]. rewrite Nat.add_0_r. reflexivity. Qed.

Lemma cwrote_trans buf base off b1 b2 r : base + off + length b1 + length b2 <= length buf ->
  cwrote (stored buf (base + off) b1) base (off + length b1) b2 r -> cwrote buf base off (b1 ++ b2) r.
Proof.
  unfold cwrote. intros Hfit ->. rewrite Nat.add_assoc, stored_stored by exact Hfit. rewrite app_length, Nat.add_assoc. reflexivity.
Qed.

(* bitspan::subspan(bits_at, size_bits) at a byte-aligned position that has room: the window [off + bits_at, + size_bits) *)
Lemma cw_subspan_aligned base cap off hb sz : off mod 8 = 0 -> hb mod 8 = 0 -> sz mod 8 = 0 -> cap mod 8 = 0 ->
  off + hb + sz <= cap -> cw_subspan base cap off hb sz = Some (base + off + hb, sz, 0).
Proof.
  intros Ho Hh Hs Hc Hfit. unfold cw_subspan.
  destruct (Nat.ltb_spec (cap / 8) ((off + hb) / 8)) as [Hbad|_]; [lia|].
  destruct (Nat.ltb_spec ((cap / 8 - (off + hb) / 8) * 8) ((off + hb) mod 8 + sz)) as [Hbad|_]; [lia|].
  f_equal. f_equal; [f_equal|]; lia.
Qed.

Section CppRefineSer.
  Variable Q : cppprims.
  Variable L : nat.
  Hypothesis Hset : cset_law Q L.
  Hypothesis Hzero : czero_law Q L.

  Lemma cw_set_wrote buf base cap off v : length buf = L -> span_in L base cap -> 1 <= length v <= 64 -> off + length v <= cap ->
    cwrote buf base off v (cw_set Q buf base cap off v).
  Proof. intros Hl Hsp Hv Hfit. unfold cwrote, cw_set. rewrite (Hset buf base cap off v Hl Hsp Hv Hfit). reflexivity. Qed.

  Lemma cw_zero_wrote buf base cap off n : length buf = L -> span_in L base cap -> 1 <= n <= 64 -> off + n <= cap ->
    cwrote buf base off (repeat false n) (cw_zero Q buf base cap off n).
  Proof.
    intros Hl Hsp Hn Hfit. unfold cwrote, cw_zero. rewrite (Hzero buf base cap off n Hl Hsp Hn Hfit), repeat_length. reflexivity.
  Qed.

  (* _pad_to_alignment(align t): nothing for alignment 1, padAndMoveToAlignment(8) otherwise *)
  Lemma cw_pad_wrote buf base cap off t : length buf = L -> span_in L base cap -> off + padn off (align t) <= cap ->
    cwrote buf base off (repeat false (padn off (align t))) (cw_pad Q buf base cap off (align t)).
  Proof.
    intros Hl Hsp Hfit. unfold cw_pad.
    destruct (align_cases t) as [E | E]; rewrite E in *.
    - rewrite padn_1. cbn [Nat.leb repeat]. apply cwrote_nil.
    - rewrite padn_8 in *. cbn [Nat.leb].
      destruct (Nat.eqb_spec (8 - off mod 8) 8) as [Hz|Hnz].
      + assert (Hp : pad8 off = 0) by (unfold pad8; lia). rewrite Hp. cbn [repeat]. apply cwrote_nil.
      + assert (Hp : pad8 off = 8 - off mod 8) by (unfold pad8; lia). rewrite Hp in *.
        apply cw_zero_wrote; try assumption; lia.
  Qed.

  Lemma cw_pad8_wrote buf base cap off : length buf = L -> span_in L base cap -> off + pad8 off <= cap ->
    cwrote buf base off (repeat false (pad8 off)) (cw_pad Q buf base cap off 8).
  Proof. intros Hl Hsp H. exact (cw_pad_wrote buf base cap off (TComp false [] None) Hl Hsp H). Qed.

  (* a primitive field: the member is handed the low `w` bits of the storage object *)
  Lemma cw_prim_sim p v buf base cap off : prim_wf p = true -> prim_storage_ok p v = true -> length buf = L ->
    span_in L base cap -> off + prim_bits p <= cap ->
    csim buf base off (enc_prim p v) (cw_prim Q p v buf base cap off).
  Proof.
    intros Hwf Hst Hl Hsp Hfit.
    assert (Hp64 : 1 <= prim_bits p <= 64) by (destruct p; cbn [prim_wf prim_bits] in *; lia).
    pose proof (storage_enc p v Hwf Hst) as H. unfold csim, cw_prim.
    destruct (enc_prim p v) as [bits|e] eqn:E.
    - destruct H as (sb & -> & Hsl & Hb).
      pose proof (enc_prim_length _ _ _ E) as Hlen.
      destruct p as [|w sat|w sat|w sat|w]; cbn [prim_bits] in *;
        try (rewrite Hb; apply cw_set_wrote; try assumption; rewrite Hlen; lia).
      (* void: setZeros(w) *)
      destruct v; cbn [enc_prim] in E; try discriminate. apply Ok_inj in E. subst bits.
      apply cw_zero_wrote; try assumption; lia.
    - destruct H as [-> ->]. reflexivity.
  Qed.

  Definition P_cser (t : ty) : Prop := wf_ty t = true -> forall v buf base cap off, storage_ok t v = true -> length buf = L ->
    span_in L base cap -> off mod align t = 0 -> off + bmax t <= cap ->
    csim buf base off (enc_body t v) (cw_body Q t v buf base cap off).

  Definition P_cserf (t : ty) : Prop := wf_ty t = true -> forall v buf base cap off, storage_ok t v = true -> length buf = L ->
    span_in L base cap -> off mod align t = 0 -> off + fmax t <= cap ->
    csim buf base off (enc_field t v) (cw_field Q (cw_body Q) t v buf base cap off).

  (* _serialize_composite: sub-span, nested routine, (header), advance *)
  Lemma cser_body_to_field t : P_cser t -> P_cserf t.
  Proof.
    intros H Hwf v buf base cap off Hst Hl Hsp Ha Hfit. unfold enc_field, as_field_enc, fmax, as_field_max in *.
    destruct t as [p|e n|e c|u fs ext]; try (apply H; assumption).
    cbn [cw_field]. cbn [align] in Ha. destruct Hsp as (Hb8 & Hc8 & HbL).
    set (t := TComp u fs ext) in *.
    set (hb := match ext with Some _ => header_bits | None => 0 end).
    set (sz := (bmax t + 7) / 8 * 8).
    assert (Hhb : hb mod 8 = 0) by (unfold hb, header_bits; destruct ext; reflexivity).
    assert (Hsz : sz mod 8 = 0 /\ bmax t <= sz < bmax t + 8) by (unfold sz; lia).
    assert (Hroom : off + hb + sz <= cap).
    { unfold hb. destruct ext as [x|].
      - destruct (wf_extent _ _ _ Hwf) as [Hx Hx8]. fold t in Hx. lia.
      - lia. }
    rewrite (cw_subspan_aligned base cap off hb sz Ha Hhb (proj1 Hsz) Hc8 Hroom).
    unfold cw_routine. destruct (Nat.ltb_spec (sz - 0) (bmax t)) as [Hbad|_]; [lia|].
    assert (Hsp' : span_in L (base + off + hb) sz) by (unfold span_in; lia).
    pose proof (H Hwf v buf (base + off + hb) sz 0 Hst Hl Hsp' eq_refl ltac:(lia)) as S. unfold csim in S.
    assert (Hspec : (match ext with
                     | Some _ => bind (enc_body t v) (fun b => Ok (bits_of_N header_bits (N.of_nat (length b / 8)) ++ b))
                     | None => enc_body t v end) =
                    bind (enc_body t v) (fun b => Ok (match ext with
                                                     | Some _ => bits_of_N header_bits (N.of_nat (length b / 8)) ++ b
                                                     | None => b end))).
    { destruct ext; [reflexivity|]. destruct (enc_body t v); reflexivity. }
    rewrite Hspec. clear Hspec.
    destruct (enc_body t v) as [b|e] eqn:E; cbn [bind csim]; [|rewrite S; reflexivity].
    unfold cwrote in S. rewrite S. cbn [bind plus].
    destruct (enc_len_bounds _ _ _ Hwf E) as [[_ Hhi] Hmod]. specialize (Hmod eq_refl).
    assert (Hnb : (length b + 7) / 8 * 8 = length b) by lia.
    assert (Hn8 : (length b + 7) / 8 = length b / 8) by lia.
    rewrite Nat.add_0_r.
    destruct ext as [x|]; unfold hb in *.
    - (* delimited: header at the saved cursor *)
      set (buf1 := stored buf (base + off + header_bits) b).
      assert (Hl1 : length buf1 = L) by (unfold buf1; rewrite stored_length; lia).
      set (hdr := bits_of_N header_bits (N.of_nat ((length b + 7) / 8))).
      assert (Hh : length hdr = header_bits) by apply bits_of_N_length.
      assert (Hsp0 : span_in L base cap) by (unfold span_in; lia).
      pose proof (cw_set_wrote buf1 base cap off hdr Hl1 Hsp0 ltac:(rewrite Hh; unfold header_bits; lia)
                    ltac:(rewrite Hh; lia)) as W.
      unfold cwrote in W. rewrite W. cbn [bind]. unfold cwrote. f_equal. f_equal.
      + unfold buf1. rewrite <- Hh. rewrite stored_before by (rewrite Hh; lia). unfold hdr. rewrite Hn8. reflexivity.
      + rewrite app_length, bits_of_N_length, Hh. lia.
    - (* sealed *)
      unfold cwrote. f_equal. f_equal; [f_equal|]; lia.
  Qed.

  Lemma cser_list e : wf_ty e = true -> P_cserf e -> forall l buf base cap off, forallb (storage_ok e) l = true ->
    length buf = L -> span_in L base cap -> off mod align e = 0 -> off + length l * fmax e <= cap ->
    csim buf base off (enc_list (enc_field e) l)
         (cw_list (fun x b o => cw_field Q (cw_body Q) e x b base cap o) l buf off).
  Proof.
    intros Hwf He. induction l as [|x l IH]; intros buf base cap off Hst Hl Hsp Ha Hfit; cbn [enc_list cw_list].
    - cbn [csim]. apply cwrote_nil.
    - cbn [forallb length] in *. apply andb_prop in Hst. destruct Hst as [Hst1 Hst2].
      rewrite Nat.mul_succ_l in Hfit.
      assert (Hfit1 : off + fmax e <= cap) by lia.
      pose proof (He Hwf x buf base cap off Hst1 Hl Hsp Ha Hfit1) as S. unfold csim in S.
      destruct (enc_field e x) as [b1|err] eqn:E1; cbn [bind]; [|rewrite S; reflexivity].
      unfold cwrote in S. rewrite S. cbn [bind].
      destruct (enc_field_len_bounds _ _ _ Hwf E1) as [[_ Hhi] Hmod].
      assert (Ha1 : (off + length b1) mod align e = 0).
      { destruct (align_cases e) as [A|A]; rewrite A in *; [apply Nat.mod_1_r|]. specialize (Hmod eq_refl). lia. }
      assert (HbL : base + cap <= L) by apply Hsp.
      pose proof (IH (stored buf (base + off) b1) base cap (off + length b1) Hst2 ltac:(rewrite stored_length; lia) Hsp Ha1
                    ltac:(lia)) as S2.
      destruct (enc_list (enc_field e) l) as [b2|err] eqn:E2; cbn [bind csim] in *; [|exact S2].
      apply cwrote_trans; [|exact S2].
      assert (Hl2 : length b2 <= length l * fmax e).
      { pose proof (enc_list_len (enc_field e) e (fmin e) (fmax e) (fun v b => enc_field_len_bounds e v b Hwf) l b2 E2). lia. }
      lia.
  Qed.

  (* the fields of a structure; `first` = no padding call in front of the first field (the routine starts byte-aligned) *)
  Lemma cser_fields fs : Forall P_cserf fs -> forallb wf_ty fs = true -> forall first vs buf base cap off omax,
    storage_fields storage_ok fs vs = true -> length buf = L -> span_in L base cap -> (first = true -> off mod 8 = 0) ->
    off <= omax -> fields_sum fmax fs omax <= cap ->
    csim buf base off (enc_fields enc_field fs vs off)
         (bind (cw_fields Q (cw_field Q (cw_body Q)) first fs vs buf base cap off) (fun '(b, o) => cw_pad Q b base cap o 8)).
  Proof.
    induction 1 as [|f fs Hf Hfs IH]; intros Hwf first vs buf base cap off omax Hst Hl Hsp Hfirst Hle Hfit.
    - destruct vs as [|v vs]; cbn [enc_fields cw_fields csim bind]; [|reflexivity].
      apply cw_pad8_wrote; try assumption. cbn [fields_sum] in Hfit. pose proof (rup8_mono off omax Hle). lia.
    - cbn [forallb] in Hwf. apply andb_prop in Hwf. destruct Hwf as [Hwf1 Hwf2].
      destruct vs as [|v vs]; cbn [enc_fields cw_fields bind]; [reflexivity|].
      cbn [storage_fields] in Hst. apply andb_prop in Hst. destruct Hst as [Hst1 Hst2].
      cbn [fields_sum] in Hfit. set (p := padn off (align f)).
      pose proof (rupn_mono off omax f Hle) as Hmono. fold p in Hmono.
      pose proof (fields_sum_ge fmax fs (omax + padn omax (align f) + fmax f)) as Hge.
      assert (HbL : base + cap <= L) by apply Hsp.
      assert (Hpad : (if first then Ok (buf, off) else cw_pad Q buf base cap off (align f)) =
                     Ok (stored buf (base + off) (repeat false p), off + p)).
      { destruct first.
        - assert (Hp0 : p = 0).
          { unfold p. destruct (align_cases f) as [-> | ->]; rewrite ?padn_1, ?padn_8; [reflexivity|].
            apply pad8_aligned. apply Hfirst. reflexivity. }
          rewrite Hp0. cbn [repeat]. rewrite stored_nil, Nat.add_0_r. reflexivity.
        - pose proof (cw_pad_wrote buf base cap off f Hl Hsp ltac:(fold p; lia)) as W. fold p in W.
          unfold cwrote in W. rewrite repeat_length in W. exact W. }
      rewrite Hpad. cbn [bind].
      set (buf0 := stored buf (base + off) (repeat false p)).
      assert (Hl0 : length buf0 = L) by (unfold buf0; rewrite stored_length; rewrite ?repeat_length; lia).
      assert (Hfit1 : off + p + fmax f <= cap) by lia.
      pose proof (Hf Hwf1 v buf0 base cap (off + p) Hst1 Hl0 Hsp (rupn_aligned off f) Hfit1) as S. unfold csim in S.
      destruct (enc_field f v) as [b1|err] eqn:E1; cbn [bind]; [|rewrite S; reflexivity].
      unfold cwrote in S. rewrite S. cbn [bind].
      destruct (enc_field_len_bounds _ _ _ Hwf1 E1) as [[_ Hhi] _].
      assert (Hle' : off + p + length b1 <= omax + padn omax (align f) + fmax f) by lia.
      pose proof (IH Hwf2 false vs (stored buf0 (base + (off + p)) b1) base cap (off + p + length b1) _ Hst2
                    ltac:(rewrite stored_length; lia) Hsp ltac:(discriminate) Hle' Hfit) as S2.
      destruct (enc_fields enc_field fs vs (off + p + length b1)) as [r|err] eqn:E2; cbn [bind csim] in *; [|exact S2].
      assert (Hr : off + p + length b1 + length r <= cap).
      { pose proof (fields_sum_mono fmax fs _ _ Hle').
        assert (Hb : off + p + length b1 + length r <= fields_sum fmax fs (off + p + length b1)).
        { assert (Hfl : Forall P_lenf fs) by (apply Forall_forall; intros g _; apply body_to_field, enc_len_all).
          destruct (enc_fields_len fs Hfl Hwf2 vs _ (off + p + length b1) (off + p + length b1) r E2 ltac:(lia)) as [[_ Hh] _].
          exact Hh. }
        lia. }
      apply (cwrote_trans buf base off (repeat false p) (b1 ++ r)); rewrite repeat_length, ?app_length; [lia|].
      fold buf0. apply cwrote_trans; [rewrite Hl0; lia | exact S2].
  Qed.

  Lemma cser_sel fs : Forall P_cserf fs -> forallb wf_ty fs = true -> forall k x buf base cap off,
    storage_sel storage_ok fs k x = true -> length buf = L -> span_in L base cap -> off mod 8 = 0 ->
    off + fields_max fmax fs <= cap ->
    csim buf base off (enc_sel enc_field fs k x) (cw_sel (cw_field Q (cw_body Q)) fs k x buf base cap off).
  Proof.
    induction 1 as [|f fs Hf Hfs IH]; intros Hwf k x buf base cap off Hst Hl Hsp Ha Hfit; [destruct k; reflexivity|].
    cbn [forallb] in Hwf. apply andb_prop in Hwf. destruct Hwf as [Hwf1 Hwf2]. cbn [fields_max] in Hfit.
    destruct k as [|k]; cbn [enc_sel cw_sel storage_sel] in *.
    - apply Hf; [assumption | assumption | assumption | assumption | apply mod_align; exact Ha | lia].
    - apply IH; [assumption | assumption | assumption | assumption | assumption | lia].
  Qed.

  Theorem cser_all : forall t, P_cser t.
  Proof.
    induction t as [p|e n IHe|e c IHe|u fs ext H] using ty_nested_ind; unfold P_cser;
      intros Hwf v buf base cap off Hst Hl Hsp Ha Hfit.
    - (* primitive *)
      cbn [cw_body enc_body wf_ty storage_ok bmax] in *. apply cw_prim_sim; assumption.
    - (* fixed array *)
      cbn [cw_body enc_body]. cbn [wf_ty align bmax] in *. fold (fmax e) in Hfit.
      destruct v; try reflexivity.
      destruct (Nat.eqb_spec (length l) n) as [En|En]; [|reflexivity]. subst n.
      cbn [storage_ok] in Hst. change (as_field_enc enc_body e) with (enc_field e).
      apply cser_list; try assumption. apply cser_body_to_field. exact IHe.
    - (* variable array *)
      cbn [cw_body enc_body]. cbn [wf_ty align bmax] in *. fold (fmax e) in Hfit.
      apply andb_prop in Hwf. destruct Hwf as [Hwf _].
      destruct v; try reflexivity.
      destruct (Nat.ltb_spec c (length l)) as [Ec|Ec]; [reflexivity|].
      cbn [storage_ok] in Hst. change (as_field_enc enc_body e) with (enc_field e).
      set (pfx := bits_of_N (prefix_bits c) (N.of_nat (length l))).
      assert (Hpl : length pfx = prefix_bits c) by apply bits_of_N_length.
      assert (Hmul : length l * fmax e <= c * fmax e) by (apply Nat.mul_le_mono_r; exact Ec).
      pose proof (len_width_mod8 c) as Hw8. pose proof (len_width_cases c) as Hwc. unfold prefix_bits in *.
      assert (HbL : base + cap <= L) by apply Hsp.
      pose proof (cw_set_wrote buf base cap off pfx Hl Hsp ltac:(lia) ltac:(lia)) as W. unfold cwrote in W.
      rewrite W. cbn [bind].
      assert (Ha0 : (off + length pfx) mod align e = 0).
      { rewrite Hpl. destruct (align_cases e) as [A | A]; rewrite A in *; [apply Nat.mod_1_r | lia]. }
      pose proof (cser_list e Hwf (cser_body_to_field e IHe) l (stored buf (base + off) pfx) base cap (off + length pfx) Hst
                    ltac:(rewrite stored_length; lia) Hsp Ha0 ltac:(lia)) as S.
      destruct (enc_list (enc_field e) l) as [b|err] eqn:E2; cbn [bind csim] in *; [|exact S].
      apply cwrote_trans; [|exact S].
      pose proof (enc_list_len (enc_field e) e (fmin e) (fmax e) (fun v b => enc_field_len_bounds e v b Hwf) l b E2). lia.
    - (* composite *)
      assert (Hf : Forall P_cserf fs).
      { rewrite Forall_forall in *. intros f Hin. apply cser_body_to_field. apply H. exact Hin. }
      assert (Hwfs : forallb wf_ty fs = true).
      { cbn [wf_ty] in Hwf. apply andb_prop in Hwf. destruct Hwf as [Hwf _]. apply andb_prop in Hwf. destruct Hwf as [Hwf _]. exact Hwf. }
      cbn [align] in Ha. assert (HbL : base + cap <= L) by apply Hsp.
      destruct u; cbn [cw_body enc_body]; change (as_field_enc enc_body) with enc_field.
      + (* union: tag first, then the selected member, final padding *)
        destruct v; try reflexivity.
        cbn [bmax] in Hfit. fold fmax in Hfit.
        set (tw := tag_bits (length fs)) in *.
        set (tg := bits_of_N tw (N.of_nat tag)).
        assert (Htl : length tg = tw) by apply bits_of_N_length.
        assert (Htw : tw mod 8 = 0) by apply tag_bits_mod8.
        pose proof (len_width_cases (length fs - 1)) as Hwc. fold (tag_bits (length fs)) in Hwc. fold tw in Hwc.
        pose proof (cw_set_wrote buf base cap off tg Hl Hsp ltac:(lia) ltac:(lia)) as W. unfold cwrote in W.
        rewrite W. cbn [bind].
        destruct (Nat.leb_spec (length fs) tag) as [Ek|Ek].
        { rewrite enc_sel_oob by exact Ek. cbn [bind csim].
          assert (Hoob : forall g k x b o, length g <= k -> cw_sel (cw_field Q (cw_body Q)) g k x b base cap o = Err EBadTag).
          { induction g as [|f g IHg]; intros k x b o Hk; [destruct k; reflexivity|].
            destruct k as [|k]; cbn [length] in Hk; [lia|]. cbn [cw_sel]. apply IHg. lia. }
          rewrite Hoob by exact Ek. reflexivity. }
        cbn [storage_ok] in Hst.
        pose proof (cser_sel fs Hf Hwfs tag v (stored buf (base + off) tg) base cap (off + length tg) Hst
                      ltac:(rewrite stored_length; lia) Hsp ltac:(lia) ltac:(lia)) as S. unfold csim in S.
        destruct (enc_sel enc_field fs tag v) as [b|err] eqn:Eb; cbn [bind]; [|rewrite S; reflexivity].
        unfold cwrote in S. rewrite S. cbn [bind csim].
        destruct (enc_sel_in _ _ _ _ _ Eb) as (f & Hin & _ & He).
        rewrite forallb_forall in Hwfs.
        destruct (enc_field_len_bounds _ _ _ (Hwfs f Hin) He) as [[_ Hhi] _].
        pose proof (fields_max_ge fmax f fs Hin) as Hmx.
        assert (Hpad : pad8 (off + length tg + length b) = pad8 (tw + length b)) by (unfold pad8; lia).
        pose proof (rup8_mono (tw + length b) (tw + fields_max fmax fs)) as Hr. specialize (Hr ltac:(lia)).
        set (buf0 := stored buf (base + off) tg) in *.
        assert (Hl0 : length buf0 = L) by (unfold buf0; rewrite stored_length; lia).
        set (buf1 := stored buf0 (base + (off + length tg)) b) in *.
        assert (Hl1 : length buf1 = L) by (unfold buf1; rewrite stored_length; lia).
        pose proof (cw_pad8_wrote buf1 base cap (off + length tg + length b) Hl1 Hsp ltac:(lia)) as S2. rewrite Hpad in S2.
        apply cwrote_trans; [rewrite !app_length, repeat_length; lia|]. fold buf0.
        apply cwrote_trans; [rewrite repeat_length; lia|]. fold buf1. exact S2.
      + (* structure *)
        destruct v; try reflexivity.
        cbn [bmax storage_ok] in *. fold fmax in Hfit.
        pose proof (fields_sum_shift fmax fs off Ha 0) as Hs. rewrite Nat.add_0_r in Hs.
        assert (Hfit0 : fields_sum fmax fs off <= cap) by lia.
        pose proof (cser_fields fs Hf Hwfs true l buf base cap off off Hst Hl Hsp (fun _ => Ha) (le_n _) Hfit0) as S.
        pose proof (enc_fields_shift enc_field fs off Ha l 0) as Hsh. rewrite Nat.add_0_r in Hsh.
        rewrite Hsh in S. exact S.
  Qed.
End CppRefineSer.

(* ---- the C++ serialization refinement, from the two store laws ---- *)
Theorem cpp_walk_ser_refines_on : forall Q u fs ext v buf cap, cset_law Q (8 * cap) -> czero_law Q (8 * cap) ->
  wf_ty (TComp u fs ext) = true -> length buf = 8 * cap -> storage_ok (TComp u fs ext) v = true ->
  cpp_walk_ser Q (TComp u fs ext) v buf cap = ser_spec (TComp u fs ext) v cap.
Proof.
  intros Q u fs ext v buf cap Hs Hz Hwf Hl Hst. set (t := TComp u fs ext) in *. unfold cpp_walk_ser, cw_routine, ser_spec.
  rewrite Nat.sub_0_r.
  destruct (Nat.ltb_spec (8 * cap) (bmax t)) as [Hlt|Hge]; [reflexivity|].
  assert (Hsp : span_in (8 * cap) 0 (8 * cap)) by (unfold span_in; lia).
  pose proof (cser_all Q (8 * cap) Hs Hz t Hwf v buf 0 (8 * cap) 0 Hst Hl Hsp eq_refl Hge) as S. unfold csim in S.
  destruct (enc_body t v) as [bits|e] eqn:E; [|rewrite S; reflexivity].
  unfold cwrote in S. rewrite S. cbn [bind plus]. f_equal.
  destruct (enc_len_bounds _ _ _ Hwf E) as [[_ Hhi] Hmod]. specialize (Hmod eq_refl).
  replace (8 * ((length bits + 7) / 8)) with (length bits) by lia.
  unfold stored. cbn [firstn app plus]. rewrite firstn_app_left by lia. apply firstn_all.
Qed.

(* the whole effect on the memory, for every initial content: `bits` followed by the untouched rest *)
Theorem cw_body_effect_on : forall Q u fs ext v buf cap bits, cset_law Q (8 * cap) -> czero_law Q (8 * cap) ->
  wf_ty (TComp u fs ext) = true -> length buf = 8 * cap -> storage_ok (TComp u fs ext) v = true ->
  bmax (TComp u fs ext) <= 8 * cap -> enc_body (TComp u fs ext) v = Ok bits ->
  cw_body Q (TComp u fs ext) v buf 0 (8 * cap) 0 = Ok (bits ++ skipn (length bits) buf, length bits).
Proof.
  intros Q u fs ext v buf cap bits Hs Hz Hwf Hl Hst Hge E. set (t := TComp u fs ext) in *.
  assert (Hsp : span_in (8 * cap) 0 (8 * cap)) by (unfold span_in; lia).
  pose proof (cser_all Q (8 * cap) Hs Hz t Hwf v buf 0 (8 * cap) 0 Hst Hl Hsp eq_refl Hge) as S. unfold csim in S.
  rewrite E in S. unfold cwrote in S. rewrite S. unfold stored. reflexivity.
Qed.

Lemma ref_cppprims_cset L : cset_law ref_cppprims L.
Proof.
  intros buf base cap off v _ _ _ Hfit. cbn [c_set ref_cppprims].
  destruct (Nat.leb_spec (off + length v) cap); [reflexivity | lia].
Qed.

Lemma ref_cppprims_czero L : czero_law ref_cppprims L.
Proof.
  intros buf base cap off n _ _ _ Hfit. cbn [c_zero ref_cppprims].
  destruct (Nat.leb_spec n (cap - off)); [|lia]. unfold stored. rewrite repeat_length. reflexivity.
Qed.

(* ================================================ deserialization ================================================ *)
(* reads of the widths in Wd from a span (base, cap) that lies inside THIS memory - or is empty (abstraction a. of CppWalker.v) -
   return the zero-extended window: the shape of PrimsOn.get_law, relative to the span *)
Definition cget_law (Q : cppprims) (Wd : nat -> Prop) (buf : list bool) : Prop :=
  forall base cap off w, Wd w -> base mod 8 = 0 -> cap mod 8 = 0 -> cap <= length buf - base ->
    c_get Q buf base cap off w = take_ze w (skipn off (firstn cap (skipn base buf))).

Lemma ref_cppprims_cget Wd buf : cget_law ref_cppprims Wd buf.
Proof. intros base cap off w _ _ _ _. reflexivity. Qed.

Lemma cd_subspan_aligned base cap off : off mod 8 = 0 -> cap mod 8 = 0 ->
  cd_subspan base cap off = (base + Nat.min off cap, cap - off, 0).
Proof.
  intros Ho Hc. unfold cd_subspan. destruct (Nat.ltb_spec (off / 8) (cap / 8)); f_equal; try f_equal; lia.
Qed.

Lemma cd_subspan_bytes_aligned base cap off dh : off mod 8 = 0 -> cap mod 8 = 0 -> dh * 8 <= cap - off ->
  cd_subspan_bytes base cap off dh = (base + Nat.min off cap, dh * 8, 0).
Proof.
  intros Ho Hc Hd. unfold cd_subspan_bytes. rewrite cd_subspan_aligned by assumption. cbv beta iota.
  destruct (Nat.ltb_spec dh ((cap - off) / 8)); f_equal; try f_equal; lia.
Qed.

Lemma shift_0 {A} (r : res (A * nat)) : shift 0 r = r.
Proof. destruct r as [[v k]|e]; reflexivity. Qed.

Section CppRefineDes.
  Variable Q : cppprims.
  Variable buf : list bool.
  Variable Wd : nat -> Prop.
  Hypothesis HWd : forall w, 1 <= w <= 64 -> Wd w.
  Hypothesis Hget : cget_law Q Wd buf.

  Definition dspan (base cap : nat) : Prop := base mod 8 = 0 /\ cap mod 8 = 0 /\ cap <= length buf - base.

  Definition cview (base cap : nat) : list bool := firstn cap (skipn base buf).

  Lemma cview_len base cap : dspan base cap -> length (cview base cap) = cap.
  Proof. intros (_ & _ & H). unfold cview. rewrite firstn_length, skipn_length. lia. Qed.

  Lemma cget_view base cap off w : Wd w -> dspan base cap ->
    c_get Q buf base cap off w = take_ze w (skipn off (cview base cap)).
  Proof. intros HW (H1 & H2 & H3). apply Hget; assumption. Qed.

  Lemma cview_beyond base cap off : dspan base cap -> cap <= off -> skipn off (cview base cap) = [].
  Proof. intros Hs H. apply skipn_all2. rewrite (cview_len base cap Hs). exact H. Qed.

  (* the sub-span handed to a nested sealed object sees exactly the rest of the parent's stream *)
  Lemma cview_sub base cap off : cview (base + off) (cap - off) = skipn off (cview base cap).
  Proof. unfold cview. rewrite skipn_firstn_comm, Refine.skipn_add. reflexivity. Qed.

  (* ... and the one handed to a nested delimited object exactly the announced bytes of it *)
  Lemma cview_sub_bytes base cap off n : n <= cap - off -> cview (base + off) n = firstn n (skipn off (cview base cap)).
  Proof.
    intros H. unfold cview. rewrite skipn_firstn_comm, Refine.skipn_add, firstn_firstn. f_equal. lia.
  Qed.

  Lemma dspan_sub base cap off : dspan base cap -> off mod 8 = 0 -> dspan (base + Nat.min off cap) (cap - off).
  Proof. intros (H1 & H2 & H3) Ho. unfold dspan. lia. Qed.

  Lemma dspan_sub_bytes base cap off n : dspan base cap -> off mod 8 = 0 -> n mod 8 = 0 -> n <= cap - off ->
    dspan (base + Nat.min off cap) n.
  Proof. intros (H1 & H2 & H3) Ho Hn Hle. unfold dspan. lia. Qed.

  (* the clamped pointer (current source): past the end of the data the sub-span is empty, wherever it points *)
  Lemma cview_sub_min base cap off : cview (base + Nat.min off cap) (cap - off) = skipn off (cview base cap).
  Proof.
    destruct (Nat.le_gt_cases off cap) as [H|H].
    - rewrite Nat.min_l by exact H. apply cview_sub.
    - replace (cap - off) with 0 by lia. unfold cview at 1. cbn [firstn]. symmetry. apply skipn_all2.
      unfold cview. rewrite firstn_length. lia.
  Qed.

  Lemma cview_sub_bytes_min base cap off n : n <= cap - off ->
    cview (base + Nat.min off cap) n = firstn n (skipn off (cview base cap)).
  Proof.
    intros Hn. destruct (Nat.le_gt_cases off cap) as [H|H].
    - rewrite Nat.min_l by exact H. apply cview_sub_bytes. exact Hn.
    - assert (n = 0) by lia. subst n. reflexivity.
  Qed.

  Lemma bool_of_bit (l : list bool) : N.eqb (N_of_bits (take_ze 1 l)) 1 = match take_ze 1 l with b :: _ => b | [] => false end.
  Proof. destruct l as [|[|] r]; reflexivity. Qed.

  Lemma cd_prim_view p base cap off : prim_wf p = true -> dspan base cap ->
    cd_prim Q p buf base cap off = dec_prim p (skipn off (cview base cap)).
  Proof.
    intros Hwf Hs.
    assert (HWp : Wd (prim_bits p)) by (apply HWd; destruct p; cbn [prim_wf prim_bits] in *; lia).
    assert (HW1 : Wd 1) by (apply HWd; lia).
    destruct p; cbn [cd_prim dec_prim prim_bits] in *;
      rewrite ?(cget_view base cap off _ HWp Hs), ?(cget_view base cap off 1 HW1 Hs); unfold read_N; try reflexivity.
    f_equal. apply bool_of_bit.
  Qed.

  Definition P_cdes (t : ty) : Prop := wf_ty t = true -> forall base cap off, dspan base cap -> off mod align t = 0 ->
    sim cap (cd_body Q t buf base cap off) (shift off (dec_body t (skipn off (cview base cap)))).

  Definition P_cdesf1 (t : ty) : Prop := wf_ty t = true -> forall base cap off, dspan base cap -> off mod align t = 0 ->
    sim cap (cd_field Q (cd_body Q) t buf base cap off) (shift off (dec_field t (skipn off (cview base cap)))).

  Definition P_cdesf (t : ty) : Prop := wf_ty t = true -> forall base cap ow os, dspan base cap -> ow mod align t = 0 ->
    near cap ow os ->
    sim cap (cd_field Q (cd_body Q) t buf base cap ow) (shift os (dec_field t (skipn os (cview base cap)))).

  (* _deserialize_composite: delimited = header, check, subspan_bytes, advance by the header; sealed = subspan, advance by the
     (clamped) size the nested routine reports *)
  Lemma cdes_body_to_field1 t : P_cdes t -> P_cdesf1 t.
  Proof.
    intros H Hwf base cap off Hs Ha. unfold dec_field, as_field_dec.
    destruct t as [p|e n|e c|u fs [x|]]; try (apply H; assumption).
    - (* delimited *)
      cbn [cd_field]. cbn [align] in Ha. pose proof Hs as (Hb8 & Hc8 & HcL).
      assert (HW32 : Wd header_bits) by (apply HWd; unfold header_bits; lia).
      rewrite (cget_view base cap off header_bits HW32 Hs).
      fold (read_N header_bits (skipn off (cview base cap))).
      set (hN := read_N header_bits (skipn off (cview base cap))).
      rewrite Refine.skipn_add, skipn_length, (cview_len base cap Hs).
      assert (Hb : (N.of_nat (cap - (off + header_bits)) <? hN * 8)%N = (N.of_nat (cap - (off + header_bits)) <? 8 * hN)%N)
        by (rewrite N.mul_comm; reflexivity).
      rewrite Hb. destruct (N.ltb_spec (N.of_nat (cap - (off + header_bits))) (8 * hN)) as [Hlt|Hge];
        [cbn [shift sim]; reflexivity|].
      set (h := N.to_nat hN). set (o := off + header_bits) in *.
      assert (Ho : o mod 8 = 0) by (unfold o, header_bits; lia).
      assert (Hh : h * 8 <= cap - o) by (unfold h; lia).
      rewrite (cd_subspan_bytes_aligned base cap o h Ho Hc8 Hh).
      assert (Hs' : dspan (base + Nat.min o cap) (h * 8)) by (apply (dspan_sub_bytes base cap o); try assumption; lia).
      pose proof (H Hwf (base + Nat.min o cap) (h * 8) 0 Hs' eq_refl) as S. cbn [skipn] in S. rewrite shift_0 in S.
      rewrite (cview_sub_bytes_min base cap o (h * 8) Hh) in S.
      replace (8 * h) with (h * 8) by lia. unfold cd_routine.
      destruct (dec_body (TComp u fs (Some x)) (firstn (h * 8) (skipn o (cview base cap)))) as [[v k]|e];
        destruct (cd_body Q (TComp u fs (Some x)) buf (base + Nat.min o cap) (h * 8) 0) as [[v' o']|e'];
        cbn [shift sim bind] in *; try contradiction; [|exact S].
      destruct S as [-> _]. split; [reflexivity|]. unfold near, o. split; [f_equal; lia | left; lia].
    - (* sealed *)
      cbn [cd_field]. cbn [align] in Ha. pose proof Hs as (Hb8 & Hc8 & HcL).
      rewrite (cd_subspan_aligned base cap off Ha Hc8).
      pose proof (H Hwf (base + Nat.min off cap) (cap - off) 0 (dspan_sub base cap off Hs Ha) eq_refl) as S.
      cbn [skipn] in S. rewrite shift_0, cview_sub_min in S. unfold cd_routine.
      destruct (dec_body (TComp u fs None) (skipn off (cview base cap))) as [[v k]|e] eqn:E;
        destruct (cd_body Q (TComp u fs None) buf (base + Nat.min off cap) (cap - off) 0) as [[v' o']|e'];
        cbn [shift sim bind] in *; try contradiction; [|exact S].
      destruct S as [-> [Hmod Hnear]]. split; [reflexivity|].
      pose proof (dec_body_aligned (TComp u fs None) eq_refl _ _ _ E) as Hk.
      unfold near. lia.
  Qed.

  (* two cursors: when they differ both stand at/past the capacity and both decoders see the empty stream *)
  Lemma cdes_field1_to_field t : P_cdesf1 t -> P_cdesf t.
  Proof.
    intros H Hwf base cap ow os Hs Ha [Hmod [->|[H1 H2]]]; [apply H; assumption|].
    pose proof (H Hwf base cap ow Hs Ha) as S.
    rewrite (cview_beyond base cap ow Hs H1) in S. rewrite (cview_beyond base cap os Hs H2).
    destruct (dec_field t []) as [[v k]|e]; destruct (cd_field Q (cd_body Q) t buf base cap ow) as [[v' o']|e'];
      cbn [shift sim] in *; try contradiction; [|exact S].
    destruct S as [-> S]. split; [reflexivity|]. unfold near in *. lia.
  Qed.

  Lemma cdes_body_to_field t : P_cdes t -> P_cdesf t.
  Proof. intros H. apply cdes_field1_to_field, cdes_body_to_field1, H. Qed.

  Lemma cdes_list e : wf_ty e = true -> P_cdesf e -> forall n base cap ow os, dspan base cap -> ow mod align e = 0 ->
    near cap ow os ->
    sim cap (cd_list (fun o => cd_field Q (cd_body Q) e buf base cap o) n ow)
            (shift os (dec_list (dec_field e) n (skipn os (cview base cap)))).
  Proof.
    intros Hwf He. induction n as [|n IH]; intros base cap ow os Hs Ha Hn; cbn [cd_list dec_list].
    - cbn [shift sim]. split; [reflexivity|]. rewrite Nat.add_0_r. exact Hn.
    - pose proof (He Hwf base cap ow os Hs Ha Hn) as S.
      destruct (dec_field e (skipn os (cview base cap))) as [[v k]|err] eqn:E;
        destruct (cd_field Q (cd_body Q) e buf base cap ow) as [[v' o']|err'];
        cbn [shift sim bind] in *; try contradiction; [|exact S].
      destruct S as [-> Hn'].
      assert (Ha' : o' mod align e = 0).
      { destruct (align_cases e) as [A | A]; [rewrite A; apply Nat.mod_1_r|].
        pose proof (dec_field_aligned e A _ _ _ E) as Hk. rewrite A in *. unfold near in *. lia. }
      pose proof (IH base cap o' (os + k) Hs Ha' Hn') as S. rewrite Refine.skipn_add.
      destruct (dec_list (dec_field e) n (skipn (os + k) (cview base cap))) as [[vs m]|err];
        destruct (cd_list (fun o => cd_field Q (cd_body Q) e buf base cap o) n o') as [[vs' o'']|err'];
        cbn [shift sim bind] in *; try contradiction; [|exact S].
      destruct S as [-> S]. split; [reflexivity|]. rewrite Nat.add_assoc. exact S.
  Qed.

  (* the fields of a structure and the final align_offset_to<8>; `first` = no alignment call in front of the first field *)
  Lemma cdes_fields fs : Forall P_cdesf fs -> forallb wf_ty fs = true -> forall first base cap ow os, dspan base cap ->
    (first = true -> ow mod 8 = 0) -> near cap ow os ->
    sim cap (bind (cd_fields (cd_field Q (cd_body Q)) first fs buf base cap ow) (fun '(vs, o) => Ok (vs, o + pad8 o)))
            (dec_fields dec_field fs (skipn os (cview base cap)) os).
  Proof.
    induction 1 as [|f fs Hf Hfs IH]; intros Hwf first base cap ow os Hs Hfirst Hn; cbn [cd_fields dec_fields bind].
    - cbn [sim]. split; [reflexivity|]. unfold near, pad8 in *. lia.
    - cbn [forallb] in Hwf. apply andb_prop in Hwf. destruct Hwf as [Hwf1 Hwf2].
      assert (Hp : padn ow (align f) = padn os (align f)) by (apply padn_cong; apply Hn).
      set (p := padn os (align f)).
      assert (Hcur : (if first then ow else if align f <=? 1 then ow else ow + padn ow (align f)) = ow + p).
      { unfold p. rewrite <- Hp. destruct first.
        - assert (H0 : padn ow (align f) = 0).
          { destruct (align_cases f) as [-> | ->]; rewrite ?padn_1, ?padn_8; [reflexivity|]. apply pad8_aligned. apply Hfirst. reflexivity. }
          lia.
        - destruct (align_cases f) as [-> | ->]; cbn [Nat.leb]; rewrite ?padn_1; lia. }
      rewrite Hcur.
      assert (Hn1 : near cap (ow + p) (os + p)) by (unfold near in *; lia).
      assert (Ha1 : (ow + p) mod align f = 0) by (unfold p; rewrite <- Hp; apply rupn_aligned).
      pose proof (Hf Hwf1 base cap (ow + p) (os + p) Hs Ha1 Hn1) as S. rewrite Refine.skipn_add.
      destruct (dec_field f (skipn (os + p) (cview base cap))) as [[v k]|err];
        destruct (cd_field Q (cd_body Q) f buf base cap (ow + p)) as [[v' o']|err'];
        cbn [shift sim bind] in *; try contradiction; [|exact S].
      destruct S as [-> Hn'].
      pose proof (IH Hwf2 false base cap o' (os + p + k) Hs ltac:(discriminate) Hn') as S.
      rewrite Refine.skipn_add, Nat.add_assoc.
      destruct (dec_fields dec_field fs (skipn (os + p + k) (cview base cap)) (os + p + k)) as [[vs m]|err];
        destruct (cd_fields (cd_field Q (cd_body Q)) false fs buf base cap o') as [[vs' o'']|err'];
        cbn [sim bind] in *; try contradiction; [|exact S].
      destruct S as [-> S]. split; [reflexivity | exact S].
  Qed.

  Lemma cdes_sel fs : Forall P_cdesf fs -> forallb wf_ty fs = true -> forall k base cap off, dspan base cap -> off mod 8 = 0 ->
    sim cap (cd_sel (cd_field Q (cd_body Q)) fs k buf base cap off) (shift off (dec_sel dec_field fs k (skipn off (cview base cap)))).
  Proof.
    induction 1 as [|f fs Hf Hfs IH]; intros Hwf k base cap off Hs Ha; [destruct k; cbn [cd_sel dec_sel shift sim]; reflexivity|].
    cbn [forallb] in Hwf. apply andb_prop in Hwf. destruct Hwf as [Hwf1 Hwf2].
    destruct k as [|k]; cbn [cd_sel dec_sel]; [|apply IH; assumption].
    apply Hf; [assumption | assumption | apply mod_align; exact Ha | apply near_refl].
  Qed.

  Lemma Wd_len_width' m : Wd (len_width m).
  Proof. apply HWd. destruct (len_width_cases m) as [-> | [-> | [-> | ->]]]; lia. Qed.

  Theorem cdes_all : forall t, P_cdes t.
  Proof.
    induction t as [p|e n IHe|e c IHe|u fs ext H] using ty_nested_ind; unfold P_cdes; intros Hwf base cap off Hs Ha.
    - (* primitive *)
      cbn [cd_body dec_body shift sim wf_ty] in *. rewrite cd_prim_view by assumption. split; [reflexivity | apply near_refl].
    - (* fixed array *)
      cbn [cd_body dec_body align wf_ty] in *. change (as_field_dec dec_body) with dec_field.
      pose proof (cdes_list e Hwf (cdes_body_to_field e IHe) n base cap off off Hs Ha (near_refl cap off)) as S.
      destruct (dec_list (dec_field e) n (skipn off (cview base cap))) as [[vs k]|err];
        destruct (cd_list (fun o => cd_field Q (cd_body Q) e buf base cap o) n off) as [[vs' o']|err'];
        cbn [shift sim bind] in *; try contradiction; [|exact S].
      destruct S as [-> S]. split; [reflexivity | exact S].
    - (* variable array *)
      cbn [cd_body dec_body align wf_ty] in *. apply andb_prop in Hwf. destruct Hwf as [Hwf _].
      change (as_field_dec dec_body) with dec_field.
      rewrite (cget_view base cap off (prefix_bits c) (Wd_len_width' c) Hs).
      fold (read_N (prefix_bits c) (skipn off (cview base cap))).
      destruct (N.of_nat c <? read_N (prefix_bits c) (skipn off (cview base cap)))%N; [cbn [shift sim]; reflexivity|].
      set (n := N.to_nat (read_N (prefix_bits c) (skipn off (cview base cap)))).
      assert (Ha' : (off + prefix_bits c) mod align e = 0).
      { pose proof (len_width_mod8 c) as Hw. unfold prefix_bits.
        destruct (align_cases e) as [A | A]; rewrite A in *; [apply Nat.mod_1_r | lia]. }
      pose proof (cdes_list e Hwf (cdes_body_to_field e IHe) n base cap _ _ Hs Ha' (near_refl cap (off + prefix_bits c))) as S.
      rewrite Refine.skipn_add.
      destruct (dec_list (dec_field e) n (skipn (off + prefix_bits c) (cview base cap))) as [[vs k]|err];
        destruct (cd_list (fun o => cd_field Q (cd_body Q) e buf base cap o) n (off + prefix_bits c)) as [[vs' o']|err'];
        cbn [shift sim bind] in *; try contradiction; [|exact S].
      destruct S as [-> S]. split; [reflexivity|]. rewrite Nat.add_assoc. exact S.
    - (* composite *)
      assert (Hf : Forall P_cdesf fs).
      { rewrite Forall_forall in *. intros f Hin. apply cdes_body_to_field. apply H. exact Hin. }
      assert (Hwfs : forallb wf_ty fs = true).
      { cbn [wf_ty] in Hwf. apply andb_prop in Hwf. destruct Hwf as [Hwf _]. apply andb_prop in Hwf. destruct Hwf as [Hwf _]. exact Hwf. }
      cbn [align] in Ha.
      destruct u; cbn [cd_body dec_body]; change (as_field_dec dec_body) with dec_field.
      + (* union *)
        set (tw := tag_bits (length fs)).
        rewrite (cget_view base cap off tw (Wd_len_width' (length fs - 1)) Hs). fold (read_N tw (skipn off (cview base cap))).
        destruct (N.of_nat (length fs) <=? read_N tw (skipn off (cview base cap)))%N; [cbn [shift sim]; reflexivity|].
        set (k := N.to_nat (read_N tw (skipn off (cview base cap)))).
        assert (Htw : tw mod 8 = 0) by apply tag_bits_mod8.
        assert (Ha' : (off + tw) mod 8 = 0) by lia.
        pose proof (cdes_sel fs Hf Hwfs k base cap (off + tw) Hs Ha') as S. rewrite Refine.skipn_add.
        destruct (dec_sel dec_field fs k (skipn (off + tw) (cview base cap))) as [[v m]|err];
          destruct (cd_sel (cd_field Q (cd_body Q)) fs k buf base cap (off + tw)) as [[v' o']|err'];
          cbn [shift sim bind] in *; try contradiction; [|exact S].
        destruct S as [-> S]. split; [reflexivity|]. unfold near, pad8 in *. lia.
      + (* structure *)
        pose proof (cdes_fields fs Hf Hwfs true base cap off off Hs (fun _ => Ha) (near_refl cap off)) as S.
        rewrite (dec_fields_from dec_field fs off _ Ha) in S.
        destruct (dec_fields dec_field fs (skipn off (cview base cap)) 0) as [[vs m]|err];
          destruct (cd_fields (cd_field Q (cd_body Q)) true fs buf base cap off) as [[vs' o']|err'];
          cbn [shift sim bind] in *; try contradiction; [|exact S].
        destruct S as [-> S]. split; [reflexivity | exact S].
  Qed.
End CppRefineDes.

(* ---- the C++ deserialization refinement, from the read law ---- *)
Theorem cpp_walk_des_refines_on : forall Q (Wd : nat -> Prop) t bits,
  (forall w, 1 <= w <= 64 -> Wd w) -> cget_law Q Wd bits -> wf_ty t = true ->
  length bits mod 8 = 0 -> cpp_walk_des Q t bits = des_spec t bits.
Proof.
  intros Q Wd t bits HWd Hget Hwf Hb. unfold cpp_walk_des, cd_routine, des_spec.
  assert (H0 : 0 mod align t = 0) by (destruct (align_cases t) as [-> | ->]; reflexivity).
  assert (Hs : dspan bits 0 (length bits)) by (unfold dspan; lia).
  pose proof (cdes_all Q bits Wd HWd Hget t Hwf 0 (length bits) 0 Hs H0) as S.
  unfold cview in S. cbn [skipn] in S. rewrite firstn_all in S. rewrite Nat.sub_0_r.
  destruct (dec_body t bits) as [[v k]|err]; destruct (cd_body Q t bits 0 (length bits) 0) as [[v' o']|err'];
    cbn [shift sim bind] in *; try contradiction; [|f_equal; exact S].
  destruct S as [-> S]. f_equal. f_equal. unfold near in S. cbn [plus] in S. lia.
Qed.

Theorem cpp_walk_des_ref : forall t bits, wf_ty t = true -> length bits mod 8 = 0 ->
  cpp_walk_des ref_cppprims t bits = des_spec t bits.
Proof.
  intros t bits Hwf Hb. apply (cpp_walk_des_refines_on ref_cppprims (fun _ => True)); try assumption; [trivial|].
  apply ref_cppprims_cget.
Qed.
