(* Error iff invalid: a value is encodable exactly when it is valid (array lengths within capacity, union tag selects a
   field); a decoder never accepts an invalid representation: every value it returns is valid. *)
From Verif Require Import Wire WireThm.
From Coq Require Import Lia.
Local Open Scope nat_scope.

Definition is_ok {A} (r : res A) : bool := match r with Ok _ => true | Err _ => false end.

Lemma is_ok_bind {A B} (r : res A) (f : A -> res B) : (forall a, is_ok (f a) = true) -> is_ok (bind r f) = is_ok r.
Proof. intros H. destruct r; cbn; auto. Qed.

Lemma is_ok_field t v : is_ok (enc_field t v) = is_ok (enc_body t v).
Proof.
  unfold enc_field, as_field_enc. destruct t as [p|e n|e c|u fs [x|]]; try reflexivity.
  apply is_ok_bind. reflexivity.
Qed.

Lemma is_ok_prim p v : is_ok (enc_prim p v) = prim_shape p v.
Proof. destruct p, v; reflexivity. Qed.

Lemma is_ok_list Ee V : (forall x, is_ok (Ee x) = V x) -> forall l, is_ok (enc_list Ee l) = forallb V l.
Proof.
  intros H. induction l as [|x l IH]; cbn [enc_list forallb]; [reflexivity|].
  rewrite <- H, <- IH. destruct (Ee x); cbn [bind is_ok andb]; [|reflexivity].
  destruct (enc_list Ee l); reflexivity.
Qed.

Definition P_valid (t : ty) : Prop := forall v, is_ok (enc_body t v) = valid_val t v.

Lemma is_ok_fields fs : Forall P_valid fs -> forall vs off, is_ok (enc_fields enc_field fs vs off) = valid_fields valid_val fs vs.
Proof.
  induction 1 as [|f fs Hf Hfs IH]; intros [|v vs] off; cbn [enc_fields valid_fields]; try reflexivity.
  rewrite <- Hf, <- is_ok_field. destruct (enc_field f v) as [b|]; cbn [bind is_ok andb]; [|reflexivity].
  rewrite <- (IH vs (off + padn off (align f) + length b)). destruct (enc_fields enc_field fs vs _); reflexivity.
Qed.

Lemma is_ok_sel fs : Forall P_valid fs -> forall k x, is_ok (enc_sel enc_field fs k x) = valid_sel valid_val fs k x.
Proof.
  induction 1 as [|f fs Hf Hfs IH]; intros [|k] x; cbn [enc_sel valid_sel]; try reflexivity.
  - rewrite is_ok_field. apply Hf.
  - apply IH.
Qed.

Theorem valid_all : forall t, P_valid t.
Proof.
  induction t as [p|t n IHt|t c IHt|u fs ext H] using ty_nested_ind; intros v.
  - cbn [enc_body valid_val]. apply is_ok_prim.
  - cbn [enc_body valid_val]. destruct v; try reflexivity.
    destruct (length l =? n); cbn [andb]; [|reflexivity].
    apply is_ok_list. intros x. change (as_field_enc enc_body t x) with (enc_field t x). rewrite is_ok_field. apply IHt.
  - cbn [enc_body valid_val]. destruct v; try reflexivity.
    destruct (Nat.ltb_spec c (length l)) as [Hlt|Hge]; destruct (Nat.leb_spec (length l) c) as [Hle|Hgt]; try lia; cbn [andb is_ok]; [reflexivity|].
    rewrite is_ok_bind by reflexivity.
    apply is_ok_list. intros x. change (as_field_enc enc_body t x) with (enc_field t x). rewrite is_ok_field. apply IHt.
  - destruct u; cbn [enc_body valid_val]; destruct v; try reflexivity; change (as_field_enc enc_body) with enc_field.
    + rewrite is_ok_bind by reflexivity. apply is_ok_sel. exact H.
    + apply is_ok_fields. exact H.
Qed.

(* C01: a value is rejected by the serializer specification exactly when it has no representation *)
Theorem enc_ok_iff_valid : forall t v, (exists b, enc_body t v = Ok b) <-> valid_val t v = true.
Proof.
  intros t v. rewrite <- (valid_all t v). destruct (enc_body t v); cbn [is_ok]; split; intros H; try discriminate; eauto.
  destruct H; discriminate.
Qed.

(* ---- decoded values are valid ---- *)
Lemma dec_prim_shape p bs : prim_shape p (dec_prim p bs) = true.
Proof. destruct p; reflexivity. Qed.

Definition P_dv (t : ty) : Prop := forall bs v n, dec_body t bs = Ok (v, n) -> valid_val t v = true.

Lemma dv_field t : P_dv t -> forall bs v n, dec_field t bs = Ok (v, n) -> valid_val t v = true.
Proof.
  intros H bs v n. unfold dec_field, as_field_dec. destruct t as [p|e m|e c|u fs [x|]]; try apply H.
  destruct (_ <? _)%N; [discriminate|].
  destruct (dec_body _ _) as [[v0 k]|] eqn:E; cbn [bind]; [|discriminate].
  intros Hd. apply Ok_inj in Hd. apply pair_equal_spec in Hd. destruct Hd as [<- _]. eapply H. exact E.
Qed.

Lemma dv_list De V : (forall bs v n, De bs = Ok (v, n) -> V v = true) ->
  forall m bs vs k, dec_list De m bs = Ok (vs, k) -> length vs = m /\ forallb V vs = true.
Proof.
  intros H. induction m as [|m IH]; intros bs vs k Hd; cbn [dec_list] in Hd.
  - apply Ok_inj in Hd. apply pair_equal_spec in Hd. destruct Hd as [<- _]. split; reflexivity.
  - destruct (De bs) as [[v0 k0]|] eqn:E0; cbn [bind] in Hd; [|discriminate].
    destruct (dec_list De m _) as [[vs0 k1]|] eqn:E1; cbn [bind] in Hd; [|discriminate].
    apply Ok_inj in Hd. apply pair_equal_spec in Hd. destruct Hd as [<- _].
    destruct (IH _ _ _ E1) as [Hl Hv]. cbn [length forallb]. rewrite (H _ _ _ E0), Hv, Hl. split; reflexivity.
Qed.

Lemma dv_fields fs : Forall P_dv fs -> forall bs off vs o, dec_fields dec_field fs bs off = Ok (vs, o) -> valid_fields valid_val fs vs = true.
Proof.
  induction 1 as [|f fs Hf Hfs IH]; intros bs off vs o Hd; cbn [dec_fields] in Hd.
  - apply Ok_inj in Hd. apply pair_equal_spec in Hd. destruct Hd as [<- _]. reflexivity.
  - destruct (dec_field f _) as [[v k]|] eqn:E0; cbn [bind] in Hd; [|discriminate].
    destruct (dec_fields dec_field fs _ _) as [[vs0 o0]|] eqn:E1; cbn [bind] in Hd; [|discriminate].
    apply Ok_inj in Hd. apply pair_equal_spec in Hd. destruct Hd as [<- _].
    cbn [valid_fields]. rewrite (dv_field f Hf _ _ _ E0), (IH _ _ _ _ E1). reflexivity.
Qed.

Lemma dv_sel fs : Forall P_dv fs -> forall k bs v n, dec_sel dec_field fs k bs = Ok (v, n) -> valid_sel valid_val fs k v = true.
Proof.
  induction 1 as [|f fs Hf Hfs IH]; intros [|k] bs v n Hd; cbn [dec_sel valid_sel] in *; try discriminate.
  - eapply dv_field; eauto.
  - eapply IH; eauto.
Qed.

Theorem dec_valid_all : forall t, P_dv t.
Proof.
  induction t as [p|t m IHt|t c IHt|u fs ext H] using ty_nested_ind; intros bs v n Hd; cbn [dec_body] in Hd;
    change (as_field_dec dec_body) with dec_field in *.
  - apply Ok_inj in Hd. apply pair_equal_spec in Hd. destruct Hd as [<- _]. apply dec_prim_shape.
  - destruct (dec_list _ m bs) as [[vs k]|] eqn:E; cbn [bind] in Hd; [|discriminate].
    apply Ok_inj in Hd. apply pair_equal_spec in Hd. destruct Hd as [<- _].
    destruct (dv_list _ (valid_val t) (dv_field t IHt) _ _ _ _ E) as [Hl Hv].
    cbn [valid_val]. rewrite Hl, Nat.eqb_refl, Hv. reflexivity.
  - destruct (N.ltb_spec (N.of_nat c) (read_N (prefix_bits c) bs)) as [|Hge]; [discriminate|].
    destruct (dec_list _ _ _) as [[vs k]|] eqn:E; cbn [bind] in Hd; [|discriminate].
    apply Ok_inj in Hd. apply pair_equal_spec in Hd. destruct Hd as [<- _].
    destruct (dv_list _ (valid_val t) (dv_field t IHt) _ _ _ _ E) as [Hl Hv].
    cbn [valid_val]. rewrite Hv, andb_true_r. apply Nat.leb_le. lia.
  - destruct u.
    + destruct (_ <=? _)%N; [discriminate|].
      destruct (dec_sel _ fs _ _) as [[v0 k]|] eqn:E; cbn [bind] in Hd; [|discriminate].
      apply Ok_inj in Hd. apply pair_equal_spec in Hd. destruct Hd as [<- _].
      cbn [valid_val]. eapply dv_sel; eauto.
    + destruct (dec_fields _ fs bs 0) as [[vs k]|] eqn:E; cbn [bind] in Hd; [|discriminate].
      apply Ok_inj in Hd. apply pair_equal_spec in Hd. destruct Hd as [<- _].
      cbn [valid_val]. eapply dv_fields; eauto.
Qed.

(* C02: the deserializer specification never accepts an invalid representation (length above capacity, unknown tag):
   whatever it returns is a valid value of the type, which the serializer specification can encode again *)
Theorem dec_ok_valid : forall t bs v n, dec_body t bs = Ok (v, n) -> valid_val t v = true.
Proof. intros t bs v n. exact (dec_valid_all t bs v n). Qed.

Theorem dec_then_enc_ok : forall t bs v n, dec_body t bs = Ok (v, n) -> exists b, enc_body t v = Ok b.
Proof. intros t bs v n H. apply enc_ok_iff_valid. eapply dec_ok_valid. exact H. Qed.

(* the three error kinds at their head constructor *)
Theorem dec_bad_length : forall e cap bs, (N.of_nat cap < read_N (prefix_bits cap) bs)%N -> dec_body (TVar e cap) bs = Err EBadLen.
Proof. intros e cap bs H. cbn [dec_body]. apply N.ltb_lt in H. rewrite H. reflexivity. Qed.

Theorem dec_bad_tag : forall fs ext bs, (N.of_nat (length fs) <= read_N (tag_bits (length fs)) bs)%N ->
  dec_body (TComp true fs ext) bs = Err EBadTag.
Proof. intros fs ext bs H. cbn [dec_body]. apply N.leb_le in H. rewrite H. reflexivity. Qed.

Theorem dec_bad_header : forall u fs x bs,
  (N.of_nat (length (skipn header_bits bs)) < 8 * read_N header_bits bs)%N ->
  dec_field (TComp u fs (Some x)) bs = Err EBadHdr.
Proof. intros u fs x bs H. unfold dec_field, as_field_dec. apply N.ltb_lt in H. rewrite H. reflexivity. Qed.

(* and the converse: types without variable arrays, unions and delimited nesting never fail *)
Fixpoint no_err_ty (t : ty) : bool :=
  match t with
  | TPrim _ => true
  | TFix e _ => no_err_ty e && negb (is_delimited e)
  | TVar _ _ => false
  | TComp true _ _ => false
  | TComp false fs _ => forallb (fun f => no_err_ty f && negb (is_delimited f)) fs
  end.
