(* Characterisation of decoding errors of the wire specification (Spec/Wire.v).

   Before this file only one-step facts at the root node existed (WireThmValid.dec_bad_length / dec_bad_tag / dec_bad_header).
   Here, for EVERY type (nested induction, no size bound, no well-formedness hypothesis):

   a. dec_err_set / dec_field_err_set : a decoder can only fail with EBadLen, EBadTag or EBadHdr;  dec_total: it either
      succeeds or fails with one of the three.
   b. first_bad : the "first offending node" relation.  It walks the type in decoding order over the stream and names the first
      node whose check fails: a variable-array length prefix above the capacity (EBadLen), a union tag that selects no variant
      (EBadTag), a delimiter header above the remaining bits of the current (sub)stream (EBadHdr).  "First" = every earlier
      sibling on the path from the root (array elements 0..i-1, structure fields 0..i-1) decoded successfully; a union looks
      only into the selected variant; a delimited field is searched in exactly its header*8 bits.
        dec_body_err_iff  : dec_body t bs = Err e <-> first_bad t bs e         (and the same for dec_field / first_bad_field)
      Consequences: the offending node and its error are unique (first_bad_functional), a decode that meets no offending node
      succeeds (dec_ok_iff_no_first_bad).  The per-constructor readings, stated with the decoder only (no first_bad in the
      statement): fixed_array_err_first_element / var_array_err_cases (index i of the failing element, elements 0..i-1 decoded),
      struct_err_first_field, union_err_cases (tag check, else only the selected variant), delimited_field_err_cases
      (header check against the remaining bits, else the body on exactly header*8 bits).
      NOTE on what first_bad is not: it is a relation following the decoding order, its "earlier siblings decoded fine" premises
      are stated with dec_field (the value of a sibling is irrelevant, its consumed length positions the next node).
   c. Zero extension.  Appending zero bits never changes an error other than EBadHdr (dec_err_zero_ext); together with
      WireThmExt.dec_zero_ext: every result other than `Err EBadHdr` is stable (dec_zero_ext_settles).  EBadHdr is NOT stable:
      more data can satisfy the header check, after which the decode succeeds (ebadhdr_becomes_ok) or meets a different error
      (ebadhdr_becomes_badtag); and it need not ever disappear (ebadhdr_persists: a header checked against an enclosing
      delimited substream, whose size is fixed by the enclosing header).  Hence the unrestricted statement is refuted
      (dec_err_zero_ext_unrestricted_refuted). *)
From Verif Require Import Wire WireThm WireThmRt WireThmExt.
From Coq Require Import Lia ZifyBool ZifyNat ZifyN.
Local Open Scope nat_scope.
Ltac Zify.zify_post_hook ::= Z.div_mod_to_equations.

(* ================================================================================================================== *)
(* a. the set of errors                                                                                               *)
(* ================================================================================================================== *)
Definition wire_err (e : derr) : Prop := e = EBadLen \/ e = EBadTag \/ e = EBadHdr.

Definition errs_in {A} (D : list bool -> res (A * nat)) : Prop := forall bs e, D bs = Err e -> wire_err e.

Lemma es_body_to_field t : errs_in (dec_body t) -> errs_in (dec_field t).
Proof.
  intros H bs e. unfold dec_field, as_field_dec. destruct t as [p|e0 n|e0 c|u fs [x|]]; try apply H.
  cbv zeta.
  destruct (N.ltb_spec (N.of_nat (length (skipn header_bits bs))) (8 * read_N header_bits bs)) as [Hlt|Hge].
  - intros Hd. injection Hd as <-. right. right. reflexivity.
  - destruct (dec_body _ _) as [[v k]|e1] eqn:E; cbn [bind]; [discriminate|].
    intros Hd. injection Hd as <-. eapply H. exact E.
Qed.

Lemma es_list {De : list bool -> res (val * nat)} : errs_in De -> forall n, errs_in (dec_list De n).
Proof.
  intros H. induction n as [|n IH]; intros bs e Hd; cbn [dec_list] in Hd; [discriminate|].
  destruct (De bs) as [[v k]|e0] eqn:E0; cbn [bind] in Hd.
  - destruct (dec_list De n (skipn k bs)) as [[vs m]|e1] eqn:E1; cbn [bind] in Hd; [discriminate|].
    injection Hd as <-. eapply IH. exact E1.
  - injection Hd as <-. eapply H. exact E0.
Qed.

Lemma es_fields D fs : Forall (fun f => errs_in (D f)) fs ->
  forall bs off e, dec_fields D fs bs off = Err e -> wire_err e.
Proof.
  induction 1 as [|f fs Hf Hfs IH]; intros bs off e Hd; cbn [dec_fields] in Hd; [discriminate|].
  destruct (D f _) as [[v k]|e0] eqn:E0; cbn [bind] in Hd.
  - destruct (dec_fields D fs _ _) as [[vs o]|e1] eqn:E1; cbn [bind] in Hd; [discriminate|].
    injection Hd as <-. eapply IH. exact E1.
  - injection Hd as <-. eapply Hf. exact E0.
Qed.

Lemma dec_sel_nth D fs : forall k bs,
  dec_sel D fs k bs = match nth_error fs k with Some f => D f bs | None => Err EBadTag end.
Proof. induction fs as [|g r IH]; intros [|k] bs; cbn [dec_sel nth_error]; auto. Qed.

Lemma nth_error_Forall {A} (P : A -> Prop) l : Forall P l -> forall k x, nth_error l k = Some x -> P x.
Proof.
  induction 1 as [|y l Hy Hl IH]; intros [|k] x Hn; cbn [nth_error] in Hn; try discriminate.
  - injection Hn as <-. exact Hy.
  - eapply IH. exact Hn.
Qed.

Definition P_es (t : ty) : Prop := errs_in (dec_body t).

Theorem dec_err_set_all : forall t, P_es t.
Proof.
  induction t as [p|t n0 IHt|t c IHt|u fs ext H] using ty_nested_ind; unfold P_es, errs_in; intros bs e Hd;
    cbn [dec_body] in Hd; change (as_field_dec dec_body) with dec_field in *.
  - discriminate.
  - destruct (dec_list _ n0 bs) as [[vs k]|e0] eqn:E; cbn [bind] in Hd; [discriminate|].
    injection Hd as <-. exact (es_list (es_body_to_field t IHt) n0 bs e0 E).
  - cbv zeta in Hd.
    destruct (N.ltb_spec (N.of_nat c) (read_N (prefix_bits c) bs)) as [Hlt|Hge].
    + injection Hd as <-. left. reflexivity.
    + destruct (dec_list _ _ _) as [[vs k]|e0] eqn:E; cbn [bind] in Hd; [discriminate|].
      injection Hd as <-. exact (es_list (es_body_to_field t IHt) _ _ e0 E).
  - assert (Hf : Forall (fun f => errs_in (dec_field f)) fs).
    { rewrite Forall_forall in *. intros f Hin. apply es_body_to_field. apply H. exact Hin. }
    destruct u; cbv zeta in Hd.
    + destruct (N.leb_spec (N.of_nat (length fs)) (read_N (tag_bits (length fs)) bs)) as [Hle|Hgt].
      * injection Hd as <-. right. left. reflexivity.
      * rewrite dec_sel_nth in Hd.
        destruct (nth_error fs _) as [f|] eqn:En; cbn [bind] in Hd.
        -- destruct (dec_field f _) as [[v k]|e0] eqn:E; cbn [bind] in Hd; [discriminate|].
           injection Hd as <-. exact (nth_error_Forall _ _ Hf _ _ En _ _ E).
        -- injection Hd as <-. right. left. reflexivity.
    + destruct (dec_fields _ fs bs 0) as [[vs k]|e0] eqn:E; cbn [bind] in Hd; [discriminate|].
      injection Hd as <-. exact (es_fields _ fs Hf _ _ _ E).
Qed.

Theorem dec_err_set : forall t bs e, dec_body t bs = Err e -> e = EBadLen \/ e = EBadTag \/ e = EBadHdr.
Proof. intros t bs e. exact (dec_err_set_all t bs e). Qed.

Theorem dec_field_err_set : forall t bs e, dec_field t bs = Err e -> e = EBadLen \/ e = EBadTag \/ e = EBadHdr.
Proof. intros t bs e. exact (es_body_to_field t (dec_err_set_all t) bs e). Qed.

(* totality with the error set: a decode either succeeds or fails with one of the three wire errors *)
Theorem dec_total : forall t bs,
  (exists v n, dec_body t bs = Ok (v, n)) \/ (exists e, dec_body t bs = Err e /\ (e = EBadLen \/ e = EBadTag \/ e = EBadHdr)).
Proof.
  intros t bs. destruct (dec_body t bs) as [[v n]|e] eqn:E.
  - left. exists v, n. reflexivity.
  - right. exists e. split; [reflexivity | exact (dec_err_set t bs e E)].
Qed.

(* the contract-level deserializer never reports a shape / capacity / assertion error *)
Theorem des_spec_err_set : forall t bs e, des_spec t bs = Err e -> e = EBadLen \/ e = EBadTag \/ e = EBadHdr.
Proof.
  unfold des_spec. intros t bs e H. destruct (dec_body t bs) as [[v n]|e0] eqn:E; cbn [bind] in H; [discriminate|].
  injection H as <-. exact (dec_err_set t bs e0 E).
Qed.

(* ================================================================================================================== *)
(* b. which error: the first offending node in decoding order                                                         *)
(* ================================================================================================================== *)
(* first_bad t bs e        : searching the BODY of t on stream bs, the first offending node fails with e
   first_bad_field t bs e  : the same for t used as a field / element (delimited types: header first, then exactly header*8 bits)
   first_bad_elems t n bs e: in n consecutive elements of type t
   first_bad_fields fs bs off e : in the structure fields fs, bs = stream at the current position, off = bits consumed so far *)
Inductive first_bad : ty -> list bool -> derr -> Prop :=
| FB_var_len : forall t cap bs,
    (N.of_nat cap < read_N (prefix_bits cap) bs)%N ->
    first_bad (TVar t cap) bs EBadLen
| FB_var_elem : forall t cap bs e,
    (read_N (prefix_bits cap) bs <= N.of_nat cap)%N ->
    first_bad_elems t (N.to_nat (read_N (prefix_bits cap) bs)) (skipn (prefix_bits cap) bs) e ->
    first_bad (TVar t cap) bs e
| FB_fix_elem : forall t n bs e,
    first_bad_elems t n bs e ->
    first_bad (TFix t n) bs e
| FB_union_tag : forall fs ext bs,
    (N.of_nat (length fs) <= read_N (tag_bits (length fs)) bs)%N ->
    first_bad (TComp true fs ext) bs EBadTag
| FB_union_variant : forall fs ext bs f e,
    nth_error fs (N.to_nat (read_N (tag_bits (length fs)) bs)) = Some f ->
    first_bad_field f (skipn (tag_bits (length fs)) bs) e ->
    first_bad (TComp true fs ext) bs e
| FB_struct : forall fs ext bs e,
    first_bad_fields fs bs 0 e ->
    first_bad (TComp false fs ext) bs e
with first_bad_field : ty -> list bool -> derr -> Prop :=
| FBF_header : forall u fs x bs,
    (N.of_nat (length (skipn header_bits bs)) < 8 * read_N header_bits bs)%N ->
    first_bad_field (TComp u fs (Some x)) bs EBadHdr
| FBF_delimited : forall u fs x bs e,
    (8 * read_N header_bits bs <= N.of_nat (length (skipn header_bits bs)))%N ->
    first_bad (TComp u fs (Some x)) (firstn (8 * N.to_nat (read_N header_bits bs)) (skipn header_bits bs)) e ->
    first_bad_field (TComp u fs (Some x)) bs e
| FBF_plain : forall t bs e,
    is_delimited t = false ->
    first_bad t bs e ->
    first_bad_field t bs e
with first_bad_elems : ty -> nat -> list bool -> derr -> Prop :=
| FBE_here : forall t n bs e,
    first_bad_field t bs e ->
    first_bad_elems t (S n) bs e
| FBE_later : forall t n bs v k e,
    dec_field t bs = Ok (v, k) ->
    first_bad_elems t n (skipn k bs) e ->
    first_bad_elems t (S n) bs e
with first_bad_fields : list ty -> list bool -> nat -> derr -> Prop :=
| FBS_here : forall f fs bs off e,
    first_bad_field f (skipn (padn off (align f)) bs) e ->
    first_bad_fields (f :: fs) bs off e
| FBS_later : forall f fs bs off v k e,
    dec_field f (skipn (padn off (align f)) bs) = Ok (v, k) ->
    first_bad_fields fs (skipn (padn off (align f) + k) bs) (off + padn off (align f) + k) e ->
    first_bad_fields (f :: fs) bs off e.

(* ---------- soundness of the decoder w.r.t. first_bad: an error returned is the first offending node's ---------- *)
Definition P_fb1 (t : ty) : Prop := forall bs e, dec_body t bs = Err e -> first_bad t bs e.
Definition P_fb1f (t : ty) : Prop := forall bs e, dec_field t bs = Err e -> first_bad_field t bs e.

Lemma fb1_body_to_field t : P_fb1 t -> P_fb1f t.
Proof.
  intros H bs e. unfold dec_field, as_field_dec.
  destruct t as [p|e0 n|e0 c|u fs [x|]];
    try (intros Hd; apply FBF_plain; [reflexivity | apply H; exact Hd]).
  cbv zeta.
  destruct (N.ltb_spec (N.of_nat (length (skipn header_bits bs))) (8 * read_N header_bits bs)) as [Hlt|Hge].
  - intros Hd. injection Hd as <-. apply FBF_header. exact Hlt.
  - destruct (dec_body _ _) as [[v k]|e1] eqn:E; cbn [bind]; [discriminate|].
    intros Hd. injection Hd as <-. apply FBF_delimited; [exact Hge | apply H; exact E].
Qed.

Lemma fb1_list t : P_fb1f t -> forall n bs e, dec_list (dec_field t) n bs = Err e -> first_bad_elems t n bs e.
Proof.
  intros H. induction n as [|n IH]; intros bs e Hd; cbn [dec_list] in Hd; [discriminate|].
  destruct (dec_field t bs) as [[v k]|e0] eqn:E0; cbn [bind] in Hd.
  - destruct (dec_list _ n (skipn k bs)) as [[vs m]|e1] eqn:E1; cbn [bind] in Hd; [discriminate|].
    injection Hd as <-. eapply FBE_later; [exact E0 | apply IH; exact E1].
  - injection Hd as <-. apply FBE_here. apply H. exact E0.
Qed.

Lemma fb1_fields fs : Forall P_fb1f fs ->
  forall bs off e, dec_fields dec_field fs bs off = Err e -> first_bad_fields fs bs off e.
Proof.
  induction 1 as [|f fs Hf Hfs IH]; intros bs off e Hd; cbn [dec_fields] in Hd; [discriminate|].
  cbv zeta in Hd.
  destruct (dec_field f (skipn (padn off (align f)) bs)) as [[v k]|e0] eqn:E0; cbn [bind] in Hd.
  - destruct (dec_fields dec_field fs _ _) as [[vs o]|e1] eqn:E1; cbn [bind] in Hd; [discriminate|].
    injection Hd as <-. eapply FBS_later; [exact E0 | apply IH; exact E1].
  - injection Hd as <-. apply FBS_here. apply Hf. exact E0.
Qed.

Lemma nth_error_None_len {A} (l : list A) k : nth_error l k = None -> length l <= k.
Proof. intros H. apply nth_error_None. exact H. Qed.

Theorem first_bad_complete_all : forall t, P_fb1 t.
Proof.
  induction t as [p|t n0 IHt|t c IHt|u fs ext H] using ty_nested_ind; unfold P_fb1; intros bs e Hd;
    cbn [dec_body] in Hd; change (as_field_dec dec_body) with dec_field in *.
  - discriminate.
  - destruct (dec_list _ n0 bs) as [[vs k]|e0] eqn:E; cbn [bind] in Hd; [discriminate|].
    injection Hd as <-. apply FB_fix_elem. exact (fb1_list t (fb1_body_to_field t IHt) n0 bs e0 E).
  - cbv zeta in Hd.
    destruct (N.ltb_spec (N.of_nat c) (read_N (prefix_bits c) bs)) as [Hlt|Hge].
    + injection Hd as <-. apply FB_var_len. exact Hlt.
    + destruct (dec_list _ _ _) as [[vs k]|e0] eqn:E; cbn [bind] in Hd; [discriminate|].
      injection Hd as <-. apply FB_var_elem; [exact Hge|]. exact (fb1_list t (fb1_body_to_field t IHt) _ _ e0 E).
  - assert (Hf : Forall P_fb1f fs).
    { rewrite Forall_forall in *. intros f Hin. apply fb1_body_to_field. apply H. exact Hin. }
    destruct u; cbv zeta in Hd.
    + destruct (N.leb_spec (N.of_nat (length fs)) (read_N (tag_bits (length fs)) bs)) as [Hle|Hgt].
      * injection Hd as <-. apply FB_union_tag. exact Hle.
      * rewrite dec_sel_nth in Hd.
        destruct (nth_error fs _) as [f|] eqn:En; cbn [bind] in Hd.
        -- destruct (dec_field f _) as [[v k]|e0] eqn:E; cbn [bind] in Hd; [discriminate|].
           injection Hd as <-. eapply FB_union_variant; [exact En|]. exact (nth_error_Forall _ _ Hf _ _ En _ _ E).
        -- apply nth_error_None_len in En. lia.
    + destruct (dec_fields _ fs bs 0) as [[vs k]|e0] eqn:E; cbn [bind] in Hd; [discriminate|].
      injection Hd as <-. apply FB_struct. exact (fb1_fields fs Hf _ _ _ E).
Qed.

(* ---------- and conversely: the first offending node's error is what the decoder returns ---------- *)
Definition P_fb2 (t : ty) : Prop := forall bs e, first_bad t bs e -> dec_body t bs = Err e.
Definition P_fb2f (t : ty) : Prop := forall bs e, first_bad_field t bs e -> dec_field t bs = Err e.

Lemma fb2_body_to_field t : P_fb2 t -> P_fb2f t.
Proof.
  intros H bs e Hb. unfold dec_field, as_field_dec.
  inversion Hb as [u fs x bs0 Hlt | u fs x bs0 e0 Hge Hin | t0 bs0 e0 Hnd Hin]; subst.
  - cbv zeta. apply N.ltb_lt in Hlt. rewrite Hlt. reflexivity.
  - cbv zeta.
    destruct (N.ltb_spec (N.of_nat (length (skipn header_bits bs))) (8 * read_N header_bits bs)) as [Hlt|_]; [lia|].
    rewrite (H _ _ Hin). reflexivity.
  - destruct t as [p|e0 n|e0 c|u fs [x|]]; try (apply H; exact Hin). discriminate Hnd.
Qed.

Lemma fb2_list t : P_fb2f t -> forall n bs e, first_bad_elems t n bs e -> dec_list (dec_field t) n bs = Err e.
Proof.
  intros H n bs e Hb. induction Hb as [t n bs e Hh | t n bs v k e Hok Hrest IH]; cbn [dec_list].
  - rewrite (H _ _ Hh). reflexivity.
  - rewrite Hok. cbn [bind]. rewrite (IH H). reflexivity.
Qed.

Lemma fb2_fields fs : Forall P_fb2f fs ->
  forall bs off e, first_bad_fields fs bs off e -> dec_fields dec_field fs bs off = Err e.
Proof.
  intros HF bs off e Hb.
  induction Hb as [f fs bs off e Hh | f fs bs off v k e Hok Hrest IH]; cbn [dec_fields]; cbv zeta;
    inversion HF as [|f' fs' Hf Hfs]; subst.
  - rewrite (Hf _ _ Hh). reflexivity.
  - rewrite Hok. cbn [bind]. rewrite (IH Hfs). reflexivity.
Qed.

Theorem first_bad_sound_all : forall t, P_fb2 t.
Proof.
  induction t as [p|t n0 IHt|t c IHt|u fs ext H] using ty_nested_ind; unfold P_fb2; intros bs e Hb;
    cbn [dec_body]; change (as_field_dec dec_body) with dec_field in *.
  - inversion Hb.
  - inversion Hb; subst.
    match goal with He : first_bad_elems _ _ _ _ |- _ => rewrite (fb2_list t (fb2_body_to_field t IHt) _ _ _ He) end.
    reflexivity.
  - cbv zeta. inversion Hb; subst.
    + match goal with Hl : (_ < _)%N |- _ => apply N.ltb_lt in Hl; rewrite Hl end. reflexivity.
    + destruct (N.ltb_spec (N.of_nat c) (read_N (prefix_bits c) bs)) as [Hlt|_]; [lia|].
      match goal with He : first_bad_elems _ _ _ _ |- _ => rewrite (fb2_list t (fb2_body_to_field t IHt) _ _ _ He) end.
      reflexivity.
  - assert (Hf : Forall P_fb2f fs).
    { rewrite Forall_forall in *. intros f Hin. apply fb2_body_to_field. apply H. exact Hin. }
    destruct u; cbv zeta; inversion Hb; subst.
    + match goal with Hl : (_ <= _)%N |- _ => apply N.leb_le in Hl; rewrite Hl end. reflexivity.
    + match goal with Hn : nth_error fs _ = Some ?f, Hv : first_bad_field ?f _ _ |- _ =>
        assert (Hk : N.to_nat (read_N (tag_bits (length fs)) bs) < length fs) by (apply nth_error_Some; rewrite Hn; discriminate);
        destruct (N.leb_spec (N.of_nat (length fs)) (read_N (tag_bits (length fs)) bs)) as [Hle|_]; [lia|];
        rewrite dec_sel_nth, Hn;
        rewrite (nth_error_Forall _ _ Hf _ _ Hn _ _ Hv)
      end.
      reflexivity.
    + match goal with Hs : first_bad_fields _ _ _ _ |- _ => rewrite (fb2_fields fs Hf _ _ _ Hs) end. reflexivity.
Qed.

(* THE CHARACTERISATION: the decoder fails with e exactly when the first offending node, in decoding order, fails with e *)
Theorem dec_body_err_iff : forall t bs e, dec_body t bs = Err e <-> first_bad t bs e.
Proof. intros t bs e. split; [apply first_bad_complete_all | apply first_bad_sound_all]. Qed.

Theorem dec_field_err_iff : forall t bs e, dec_field t bs = Err e <-> first_bad_field t bs e.
Proof.
  intros t bs e. split; [apply fb1_body_to_field; apply first_bad_complete_all | apply fb2_body_to_field; apply first_bad_sound_all].
Qed.

(* the first offending node is unique, and so is its error *)
Theorem first_bad_functional : forall t bs e e', first_bad t bs e -> first_bad t bs e' -> e = e'.
Proof.
  intros t bs e e' H1 H2. apply dec_body_err_iff in H1. apply dec_body_err_iff in H2. rewrite H1 in H2. injection H2 as ->. reflexivity.
Qed.

(* only the three checks produce errors *)
Theorem first_bad_err_set : forall t bs e, first_bad t bs e -> e = EBadLen \/ e = EBadTag \/ e = EBadHdr.
Proof. intros t bs e H. apply dec_body_err_iff in H. exact (dec_err_set t bs e H). Qed.

(* a decode that reaches the end without meeting an offending node succeeds, and only such a decode does *)
Theorem dec_ok_iff_no_first_bad : forall t bs, (exists v n, dec_body t bs = Ok (v, n)) <-> (forall e, ~ first_bad t bs e).
Proof.
  intros t bs. split.
  - intros (v & n & Hok) e Hb. apply dec_body_err_iff in Hb. rewrite Hok in Hb. discriminate Hb.
  - intros Hno. destruct (dec_body t bs) as [[v n]|e] eqn:E.
    + exists v, n. reflexivity.
    + exfalso. apply (Hno e). apply dec_body_err_iff. exact E.
Qed.

(* field order made explicit for structures: the error of a structure is the error of its first failing field, all earlier
   fields having decoded successfully at the positions the padding rule gives them *)
Lemma padn_0 a : padn 0 a = 0.
Proof. unfold padn. destruct a as [|a]; [reflexivity|]. rewrite Nat.mod_0_l, Nat.sub_0_r, Nat.mod_same by discriminate. reflexivity. Qed.

Theorem struct_err_first_field : forall f fs ext bs e,
  dec_body (TComp false (f :: fs) ext) bs = Err e <->
  dec_field f bs = Err e \/
  (exists v k, dec_field f bs = Ok (v, k) /\ first_bad_fields fs (skipn k bs) k e).
Proof.
  intros f fs ext bs e. rewrite dec_body_err_iff. pose proof (padn_0 (align f)) as Hp. split.
  - intros Hb. inversion Hb as [| | | | |fs0 ext0 bs0 e0 Hfs]; subst.
    inversion Hfs as [f0 fs0 bs0 off0 e0 Hh | f0 fs0 bs0 off0 v k e0 Hok Hrest]; subst; rewrite Hp in *; cbn [skipn plus] in *.
    + left. apply dec_field_err_iff. exact Hh.
    + right. exists v, k. split; [exact Hok | exact Hrest].
  - intros [Hd | (v & k & Hok & Hr)]; apply FB_struct.
    + apply FBS_here. rewrite Hp. apply dec_field_err_iff. exact Hd.
    + eapply FBS_later; rewrite Hp; [exact Hok | exact Hr].
Qed.

Lemma err_skipn_add {A} a : forall b (l : list A), skipn b (skipn a l) = skipn (a + b) l.
Proof.
  induction a as [|a IH]; intros b l; [reflexivity|].
  destruct l as [|x l]; cbn [plus skipn]; [apply skipn_nil | apply IH].
Qed.

(* element order made explicit for arrays: the offending element has an index i, elements 0..i-1 decoded successfully and
   consumed pos bits, element i fails at position pos *)
Theorem first_bad_elems_index : forall t n bs e,
  first_bad_elems t n bs e <->
  exists i vs pos, i < n /\ dec_list (dec_field t) i bs = Ok (vs, pos) /\ first_bad_field t (skipn pos bs) e.
Proof.
  intros t n bs e. split.
  - intros Hb. induction Hb as [t n bs e Hh | t n bs v k e Hok Hrest IH].
    + exists 0, [], 0. split; [lia|]. split; [reflexivity | exact Hh].
    + destruct IH as (i & vs & pos & Hi & Hd & Hf).
      exists (S i), (v :: vs), (k + pos). split; [lia|]. split.
      * cbn [dec_list]. rewrite Hok. cbn [bind]. rewrite Hd. reflexivity.
      * rewrite <- err_skipn_add. exact Hf.
  - intros (i & vs & pos & Hi & Hd & Hf). revert n bs vs pos Hi Hd Hf.
    induction i as [|i IH]; intros n bs vs pos Hi Hd Hf; (destruct n as [|n]; [lia|]); cbn [dec_list] in Hd.
    + injection Hd as <- <-. apply FBE_here. exact Hf.
    + destruct (dec_field t bs) as [[v k]|] eqn:E0; cbn [bind] in Hd; [|discriminate].
      destruct (dec_list _ i (skipn k bs)) as [[vs0 m]|] eqn:E1; cbn [bind] in Hd; [|discriminate].
      injection Hd as <- <-. eapply FBE_later; [exact E0|].
      apply (IH n (skipn k bs) vs0 m); [lia | exact E1|]. rewrite err_skipn_add. exact Hf.
Qed.

Theorem fixed_array_err_first_element : forall t n bs e,
  dec_body (TFix t n) bs = Err e <->
  exists i vs pos, i < n /\ dec_list (dec_field t) i bs = Ok (vs, pos) /\ dec_field t (skipn pos bs) = Err e.
Proof.
  intros t n bs e. rewrite dec_body_err_iff. split.
  - intros Hb. inversion Hb as [| |t0 n1 bs0 e0 He| | |]; subst. apply first_bad_elems_index in He.
    destruct He as (i & vs & pos & Hi & Hd & Hf). exists i, vs, pos. split; [exact Hi|]. split; [exact Hd|].
    apply dec_field_err_iff. exact Hf.
  - intros (i & vs & pos & Hi & Hd & Hf). apply FB_fix_elem. apply first_bad_elems_index.
    exists i, vs, pos. split; [exact Hi|]. split; [exact Hd|]. apply dec_field_err_iff. exact Hf.
Qed.

Theorem var_array_err_cases : forall t cap bs e,
  dec_body (TVar t cap) bs = Err e <->
  ((N.of_nat cap < read_N (prefix_bits cap) bs)%N /\ e = EBadLen) \/
  ((read_N (prefix_bits cap) bs <= N.of_nat cap)%N /\
   exists i vs pos, i < N.to_nat (read_N (prefix_bits cap) bs) /\
     dec_list (dec_field t) i (skipn (prefix_bits cap) bs) = Ok (vs, pos) /\
     dec_field t (skipn (prefix_bits cap + pos) bs) = Err e).
Proof.
  intros t cap bs e. rewrite dec_body_err_iff. split.
  - intros Hb. inversion Hb as [t0 c0 bs0 Hlt | t0 c0 bs0 e0 Hge He | | | |]; subst.
    + left. split; [exact Hlt | reflexivity].
    + right. split; [exact Hge|]. apply first_bad_elems_index in He.
      destruct He as (i & vs & pos & Hi & Hd & Hf). exists i, vs, pos. split; [exact Hi|]. split; [exact Hd|].
      apply dec_field_err_iff. rewrite <- err_skipn_add. exact Hf.
  - intros [[Hlt ->] | (Hge & i & vs & pos & Hi & Hd & Hf)].
    + apply FB_var_len. exact Hlt.
    + apply FB_var_elem; [exact Hge|]. apply first_bad_elems_index.
      exists i, vs, pos. split; [exact Hi|]. split; [exact Hd|]. apply dec_field_err_iff.
      rewrite err_skipn_add. exact Hf.
Qed.

Theorem union_err_cases : forall fs ext bs e,
  dec_body (TComp true fs ext) bs = Err e <->
  ((N.of_nat (length fs) <= read_N (tag_bits (length fs)) bs)%N /\ e = EBadTag) \/
  (exists f, nth_error fs (N.to_nat (read_N (tag_bits (length fs)) bs)) = Some f /\
             dec_field f (skipn (tag_bits (length fs)) bs) = Err e).
Proof.
  intros fs ext bs e. rewrite dec_body_err_iff. split.
  - intros Hb. inversion Hb as [| | |fs0 ext0 bs0 Hle|fs0 ext0 bs0 f e0 Hn Hf|]; subst.
    + left. split; [exact Hle | reflexivity].
    + right. exists f. split; [exact Hn | apply dec_field_err_iff; exact Hf].
  - intros [[Hle ->] | (f & Hn & Hf)].
    + apply FB_union_tag. exact Hle.
    + eapply FB_union_variant; [exact Hn | apply dec_field_err_iff; exact Hf].
Qed.

Theorem delimited_field_err_cases : forall u fs x bs e,
  dec_field (TComp u fs (Some x)) bs = Err e <->
  ((N.of_nat (length (skipn header_bits bs)) < 8 * read_N header_bits bs)%N /\ e = EBadHdr) \/
  ((8 * read_N header_bits bs <= N.of_nat (length (skipn header_bits bs)))%N /\
   dec_body (TComp u fs (Some x)) (firstn (8 * N.to_nat (read_N header_bits bs)) (skipn header_bits bs)) = Err e).
Proof.
  intros u fs x bs e. rewrite dec_field_err_iff. split.
  - intros Hb. inversion Hb as [u0 fs0 x0 bs0 Hlt | u0 fs0 x0 bs0 e0 Hge Hin | t0 bs0 e0 Hnd Hin]; subst.
    + left. split; [exact Hlt | reflexivity].
    + right. split; [exact Hge | apply dec_body_err_iff; exact Hin].
    + discriminate Hnd.
  - intros [[Hlt ->] | [Hge Hin]].
    + apply FBF_header. exact Hlt.
    + apply FBF_delimited; [exact Hge | apply dec_body_err_iff; exact Hin].
Qed.

(* ================================================================================================================== *)
(* c. errors under zero extension                                                                                     *)
(* ================================================================================================================== *)
(* bs' denotes the same zero-extended stream as bs and holds at least as many real bits *)
Definition ext_rel (bs bs' : list bool) : Prop := (forall n, take_ze n bs = take_ze n bs') /\ length bs <= length bs'.

Lemma ext_rel_skipn a bs bs' : ext_rel bs bs' -> ext_rel (skipn a bs) (skipn a bs').
Proof.
  intros [Hz Hl]. split.
  - intros n. exact (agree_at a n (a + n) bs bs' (le_n _) (Hz (a + n))).
  - rewrite !skipn_length. lia.
Qed.

Lemma ext_rel_ok {A} (D : list bool -> res (A * nat)) : ext_ok D ->
  forall bs bs' v n, ext_rel bs bs' -> D bs = Ok (v, n) -> D bs' = Ok (v, n).
Proof. intros H bs bs' v n [Hz Hl] Hd. apply (H bs bs' v n Hd (Hz n)). left. exact Hl. Qed.

Lemma ext_rel_read w bs bs' : ext_rel bs bs' -> read_N w bs' = read_N w bs.
Proof. unfold read_N. intros [Hz _]. rewrite (Hz w). reflexivity. Qed.

Lemma ext_rel_app_zeros bs k : ext_rel bs (bs ++ repeat false k).
Proof. split; [intros n; symmetry; apply take_ze_app_zeros | rewrite app_length; lia]. Qed.

Definition err_stable {A} (D : list bool -> res (A * nat)) : Prop :=
  forall bs bs' e, D bs = Err e -> e <> EBadHdr -> ext_rel bs bs' -> D bs' = Err e.

Lemma stb_body_to_field t : err_stable (dec_body t) -> err_stable (dec_field t).
Proof.
  intros H. unfold dec_field, as_field_dec. destruct t as [p|e0 n|e0 c|u fs [x|]]; try exact H.
  intros bs bs' e Hd Hne Hr. cbv zeta in *.
  set (hb := header_bits) in *. assert (Hhb : hb = 32) by reflexivity. clearbody hb.
  rewrite (ext_rel_read hb bs bs' Hr).
  destruct (N.ltb_spec (N.of_nat (length (skipn hb bs))) (8 * read_N hb bs)) as [Hlt|Hge].
  { injection Hd as <-. exfalso. apply Hne. reflexivity. }
  pose proof (ext_rel_skipn hb bs bs' Hr) as [Hz Hl].
  destruct (N.ltb_spec (N.of_nat (length (skipn hb bs'))) (8 * read_N hb bs)) as [Hlt|_]; [lia|].
  set (h := N.to_nat (read_N hb bs)) in *.
  assert (Hf : firstn (8 * h) (skipn hb bs') = firstn (8 * h) (skipn hb bs)).
  { specialize (Hz (8 * h)). rewrite !take_ze_firstn in Hz by (subst h; lia). symmetry. exact Hz. }
  rewrite Hf. exact Hd.
Qed.

Lemma stb_list {De : list bool -> res (val * nat)} : ext_ok De -> err_stable De -> forall n, err_stable (dec_list De n).
Proof.
  intros Hx H. induction n as [|n IH]; intros bs bs' e Hd Hne Hr; cbn [dec_list] in *; [discriminate|].
  destruct (De bs) as [[v k]|e0] eqn:E0; cbn [bind] in Hd.
  - destruct (dec_list De n (skipn k bs)) as [[vs m]|e1] eqn:E1; cbn [bind] in Hd; [discriminate|].
    injection Hd as <-.
    rewrite (ext_rel_ok De Hx _ _ _ _ Hr E0). cbn [bind].
    rewrite (IH _ (skipn k bs') _ E1 Hne (ext_rel_skipn k _ _ Hr)). reflexivity.
  - injection Hd as <-. rewrite (H _ _ _ E0 Hne Hr). reflexivity.
Qed.

Lemma stb_fields D fs : Forall (fun f => ext_ok (D f) /\ err_stable (D f)) fs ->
  forall bs bs' off e, dec_fields D fs bs off = Err e -> e <> EBadHdr -> ext_rel bs bs' -> dec_fields D fs bs' off = Err e.
Proof.
  induction 1 as [|f fs [Hx Hs] Hfs IH]; intros bs bs' off e Hd Hne Hr; cbn [dec_fields] in *; [discriminate|].
  cbv zeta in *. set (p := padn off (align f)) in *.
  destruct (D f (skipn p bs)) as [[v k]|e0] eqn:E0; cbn [bind] in Hd.
  - destruct (dec_fields D fs (skipn (p + k) bs) (off + p + k)) as [[vs o]|e1] eqn:E1; cbn [bind] in Hd; [discriminate|].
    injection Hd as <-.
    rewrite (ext_rel_ok (D f) Hx _ _ _ _ (ext_rel_skipn p _ _ Hr) E0). cbn [bind].
    rewrite (IH _ (skipn (p + k) bs') _ _ E1 Hne (ext_rel_skipn (p + k) _ _ Hr)). reflexivity.
  - injection Hd as <-. rewrite (Hs _ _ _ E0 Hne (ext_rel_skipn p _ _ Hr)). reflexivity.
Qed.

Theorem err_stable_all : forall t, err_stable (dec_body t).
Proof.
  induction t as [p|t n0 IHt|t c IHt|u fs ext H] using ty_nested_ind; intros bs bs' e Hd Hne Hr;
    cbn [dec_body] in *; change (as_field_dec dec_body) with dec_field in *.
  - discriminate.
  - destruct (dec_list _ n0 bs) as [[vs k]|e0] eqn:E; cbn [bind] in Hd; [discriminate|].
    injection Hd as <-.
    rewrite (stb_list (ext_body_to_field t (dec_ext_all t)) (stb_body_to_field t IHt) n0 _ _ _ E Hne Hr). reflexivity.
  - cbv zeta in *. rewrite (ext_rel_read (prefix_bits c) bs bs' Hr).
    destruct (N.ltb_spec (N.of_nat c) (read_N (prefix_bits c) bs)) as [Hlt|Hge]; [exact Hd|].
    destruct (dec_list _ _ (skipn (prefix_bits c) bs)) as [[vs k]|e0] eqn:E; cbn [bind] in Hd; [discriminate|].
    injection Hd as <-.
    rewrite (stb_list (ext_body_to_field t (dec_ext_all t)) (stb_body_to_field t IHt) _ _ _ _ E Hne
               (ext_rel_skipn (prefix_bits c) _ _ Hr)). reflexivity.
  - assert (Hf : Forall (fun f => ext_ok (dec_field f) /\ err_stable (dec_field f)) fs).
    { rewrite Forall_forall in *. intros f Hin. split; [apply ext_body_to_field; apply dec_ext_all | apply stb_body_to_field; apply H; exact Hin]. }
    destruct u; cbv zeta in *.
    + set (tw := tag_bits (length fs)) in *. rewrite (ext_rel_read tw bs bs' Hr).
      destruct (N.leb_spec (N.of_nat (length fs)) (read_N tw bs)) as [Hle|Hgt]; [exact Hd|].
      rewrite dec_sel_nth in *.
      destruct (nth_error fs _) as [f|] eqn:En; cbn [bind] in *; [|exact Hd].
      destruct (dec_field f (skipn tw bs)) as [[v k]|e0] eqn:E; cbn [bind] in Hd; [discriminate|].
      injection Hd as <-.
      destruct (nth_error_Forall _ _ Hf _ _ En) as [_ Hs].
      rewrite (Hs _ _ _ E Hne (ext_rel_skipn tw _ _ Hr)). reflexivity.
    + destruct (dec_fields _ fs bs 0) as [[vs k]|e0] eqn:E; cbn [bind] in Hd; [discriminate|].
      injection Hd as <-. rewrite (stb_fields _ fs Hf _ _ _ _ E Hne Hr). reflexivity.
Qed.

(* a length or tag error is a property of the zero-extended stream: no amount of appended zero bits changes it *)
Theorem dec_err_zero_ext : forall t bs e k, dec_body t bs = Err e -> e <> EBadHdr ->
  dec_body t (bs ++ repeat false k) = Err e.
Proof. intros t bs e k Hd Hne. exact (err_stable_all t bs _ e Hd Hne (ext_rel_app_zeros bs k)). Qed.

Theorem dec_field_err_zero_ext : forall t bs e k, dec_field t bs = Err e -> e <> EBadHdr ->
  dec_field t (bs ++ repeat false k) = Err e.
Proof. intros t bs e k Hd Hne. exact (stb_body_to_field t (err_stable_all t) bs _ e Hd Hne (ext_rel_app_zeros bs k)). Qed.

(* the strongest form: every result other than `Err EBadHdr` is final under zero extension *)
Theorem dec_zero_ext_settles : forall t bs k, dec_body t bs <> Err EBadHdr ->
  dec_body t (bs ++ repeat false k) = dec_body t bs.
Proof.
  intros t bs k Hne. destruct (dec_body t bs) as [[v n]|e] eqn:E.
  - apply dec_zero_ext. exact E.
  - apply dec_err_zero_ext; [exact E|]. intros ->. apply Hne. reflexivity.
Qed.

(* hence: if extending a stream by zeros changes the result at all, the shorter stream failed with EBadHdr *)
Theorem dec_zero_ext_changes_only_bad_header : forall t bs k,
  dec_body t (bs ++ repeat false k) <> dec_body t bs -> dec_body t bs = Err EBadHdr.
Proof.
  intros t bs k Hc. destruct (dec_body t bs) as [[v n]|e] eqn:E.
  - exfalso. apply Hc. apply dec_zero_ext. exact E.
  - destruct e; try reflexivity; exfalso; apply Hc; apply dec_err_zero_ext; try exact E; discriminate.
Qed.

(* ---------- the EBadHdr exception, by example ---------- *)
Definition err_ex_bar : ty := TComp false [TPrim (PU 8 true); TPrim (PU 8 true)] (Some 64).
Definition err_ex_outer : ty := TComp false [err_ex_bar; TPrim (PU 8 true)] None.

(* header announces 3 bytes, 1 is there: EBadHdr; two more zero bytes satisfy the header and the decode succeeds *)
Example ebadhdr_becomes_ok :
  dec_body err_ex_outer (bits_of_bytes [3; 0; 0; 0; 5]%N) = Err EBadHdr /\
  dec_body err_ex_outer (bits_of_bytes [3; 0; 0; 0; 5]%N ++ repeat false 16) = Ok (VStruct [VStruct [VInt 5; VInt 0]; VInt 0], 64).
Proof. vm_compute. split; reflexivity. Qed.

(* ... or a different error is met: the delimited member is a union whose tag byte (5) selects no variant *)
Definition err_ex_un : ty := TComp true [TPrim (PU 8 true); TPrim (PU 8 true)] (Some 16).
Definition err_ex_outer2 : ty := TComp false [err_ex_un] None.
Example ebadhdr_becomes_badtag :
  dec_body err_ex_outer2 (bits_of_bytes [2; 0; 0; 0; 5]%N) = Err EBadHdr /\
  dec_body err_ex_outer2 (bits_of_bytes [2; 0; 0; 0; 5]%N ++ repeat false 8) = Err EBadTag.
Proof. vm_compute. split; reflexivity. Qed.

(* ... and EBadHdr need not go away: an inner header is checked against the enclosing delimited substream, whose size the outer
   header fixes (outer header 4 bytes = exactly the inner header, which announces 1 byte) *)
Definition err_ex_mid : ty := TComp false [err_ex_bar] (Some 128).
Definition err_ex_outer3 : ty := TComp false [err_ex_mid] None.
Lemma ebadhdr_persists_dec k :
  dec_body err_ex_outer3 (bits_of_bytes [4; 0; 0; 0; 1; 0; 0; 0]%N ++ repeat false k) = Err EBadHdr.
Proof.
  (* the outer header and the 32 bits behind it are real data: the result does not depend on what follows *)
  change (bits_of_bytes [4; 0; 0; 0; 1; 0; 0; 0]%N) with (bits_of_N 32 4 ++ bits_of_N 32 1).
  rewrite <- app_assoc.
  cbn [dec_body err_ex_outer3 dec_fields]. cbv zeta.
  change (padn 0 (align err_ex_mid)) with 0. cbn [skipn].
  unfold err_ex_mid at 1. unfold as_field_dec at 1. cbv zeta.
  change header_bits with 32.
  rewrite read_N_bits by (vm_compute; reflexivity).
  rewrite skipn_bits.
  destruct (N.ltb_spec (N.of_nat (length (bits_of_N 32 1 ++ repeat false k))) (8 * 4)) as [Hlt|_].
  { rewrite app_length, bits_of_N_length in Hlt. lia. }
  change (8 * N.to_nat 4) with (length (bits_of_N 32 1)).
  rewrite firstn_app_len.
  vm_compute. reflexivity.
Qed.

Example ebadhdr_persists : forall k,
  dec_body err_ex_outer3 (bits_of_bytes [4; 0; 0; 0; 1; 0; 0; 0]%N ++ repeat false k) = Err EBadHdr.
Proof. exact ebadhdr_persists_dec. Qed.

(* so the statement without the side condition is false *)
Theorem dec_err_zero_ext_unrestricted_refuted :
  ~ (forall t bs e k, dec_body t bs = Err e -> dec_body t (bs ++ repeat false k) = Err e).
Proof.
  intros H. destruct ebadhdr_becomes_ok as [H1 H2]. rewrite (H _ _ _ 16 H1) in H2. discriminate H2.
Qed.

(* non-vacuity of b.: the three kinds of first offending node, found behind successfully decoded siblings *)
Example first_bad_examples :
  (* second element of a fixed array of variable arrays: prefix 3 > capacity 2, after element 0 (prefix 1) decoded *)
  first_bad (TFix (TVar (TPrim (PU 8 true)) 2) 2) (bits_of_bytes [1; 7; 3]%N) EBadLen /\
  (* structure: u8 field, then a union with 2 variants and tag 2 *)
  first_bad (TComp false [TPrim (PU 8 true); TComp true [TPrim PBool; TPrim PBool] None] None) (bits_of_bytes [9; 2]%N) EBadTag /\
  (* delimited field behind a u8 field: header 3 bytes, 1 remaining *)
  first_bad (TComp false [TPrim (PU 8 true); err_ex_bar] None) (bits_of_bytes [9; 3; 0; 0; 0; 5]%N) EBadHdr.
Proof.
  split; [|split]; apply dec_body_err_iff; vm_compute; reflexivity.
Qed.

Print Assumptions dec_err_set.
Print Assumptions dec_field_err_set.
Print Assumptions dec_total.
Print Assumptions dec_body_err_iff.
Print Assumptions dec_field_err_iff.
Print Assumptions first_bad_functional.
Print Assumptions dec_ok_iff_no_first_bad.
Print Assumptions struct_err_first_field.
Print Assumptions first_bad_elems_index.
Print Assumptions fixed_array_err_first_element.
Print Assumptions var_array_err_cases.
Print Assumptions union_err_cases.
Print Assumptions delimited_field_err_cases.
Print Assumptions dec_err_zero_ext.
Print Assumptions dec_zero_ext_settles.
Print Assumptions dec_zero_ext_changes_only_bad_header.
Print Assumptions ebadhdr_persists.
Print Assumptions dec_err_zero_ext_unrestricted_refuted.
