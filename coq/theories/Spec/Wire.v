(* The DSDL wire format as an executable specification.
   Bit strings are `list bool`, least significant bit first inside a byte, bytes in transmission order.

   enc_body t v : res (list bool)          what the serializer of type t emits for v (no delimiter header)
   enc_field t v                           the same as a field of an enclosing type (32-bit header for delimited types)
   dec_body t bs : res (val * nat)         value and number of bits consumed (may exceed |bs|: implicit zero extension)
   dec_field t bs
   ser_spec / des_spec                     the observable contract of the generated (de)serialization routines
   Values are STORAGE values (any integer, raw float patterns); `cast_prim` maps them to what the wire can carry. *)
From Verif Require Export Dsdl Meta F16.
Local Open Scope nat_scope.

Inductive derr : Type := EBadLen | EBadTag | EBadHdr | EShape | ETooSmall | EAssert.
Inductive res (A : Type) : Type := Ok (a : A) | Err (e : derr).
Arguments Ok {A} a.
Arguments Err {A} e.

Definition bind {A B} (r : res A) (f : A -> res B) : res B :=
  match r with Ok a => f a | Err e => Err e end.

(* ---- numbers <-> bit lists (LSB first) ---- *)
Fixpoint bits_of_N (w : nat) (x : N) : list bool :=
  match w with O => [] | S w' => N.odd x :: bits_of_N w' (N.div2 x) end.

Fixpoint N_of_bits (l : list bool) : N :=
  match l with [] => 0%N | b :: r => (N.b2n b + 2 * N_of_bits r)%N end.

(* first n bits of the implicitly zero-extended stream *)
Fixpoint take_ze (n : nat) (bs : list bool) : list bool :=
  match n with
  | O => []
  | S n' => match bs with [] => false :: take_ze n' [] | b :: r => b :: take_ze n' r end
  end.

Definition read_N (w : nat) (bs : list bool) : N := N_of_bits (take_ze w bs).

(* ---- storage -> wire cast of primitives ---- *)
Definition pow2 (w : nat) : Z := (2 ^ Z.of_nat w)%Z.

Definition clampZ (lo hi z : Z) : Z := if (z <? lo)%Z then lo else if (hi <? z)%Z then hi else z.

Definition cast_u (w : nat) (sat : bool) (z : Z) : N :=
  if sat then Z.to_N (clampZ 0 (pow2 w - 1) z) else Z.to_N (z mod pow2 w).

(* two's complement image of the (saturated or wrapped) signed value *)
Definition cast_s (w : nat) (sat : bool) (z : Z) : N :=
  let z' := if sat then clampZ (- pow2 (w - 1)) (pow2 (w - 1) - 1) z else z in
  Z.to_N (z' mod pow2 w).

Definition signed_of (w : nat) (n : N) : Z :=
  if (Z.of_N n <? pow2 (w - 1))%Z then Z.of_N n else (Z.of_N n - pow2 w)%Z.

(* float16 saturation on the binary32 pattern: finite values beyond +-65504 are clamped (sign kept) *)
Definition F32_65504 : N := 1199562752.   (* 0x477FE000 *)
Definition sat16 (x : N) : N :=
  let sign := N.land x (N.shiftl 1 31) in
  let mag := N.land x 2147483647 in
  if (mag <? F32INF)%N then (if (F32_65504 <? mag)%N then N.lor sign F32_65504 else x) else x.

Definition cast_f (w : nat) (sat : bool) (x : N) : N :=
  if w =? 16 then f16_pack (if sat then sat16 (x mod 2 ^ 32) else x mod 2 ^ 32)%N
  else (x mod 2 ^ N.of_nat w)%N.

Definition enc_prim (p : prim) (v : val) : res (list bool) :=
  match p, v with
  | PBool, VBool b => Ok [b]
  | PU w sat, VInt z => Ok (bits_of_N w (cast_u w sat z))
  | PS w sat, VInt z => Ok (bits_of_N w (cast_s w sat z))
  | PF w sat, VFlt x => Ok (bits_of_N w (cast_f w sat x))
  | PVoid w, VVoid => Ok (repeat false w)
  | _, _ => Err EShape
  end.

Definition dec_prim (p : prim) (bs : list bool) : val :=
  match p with
  | PBool => VBool (match take_ze 1 bs with b :: _ => b | [] => false end)
  | PU w _ => VInt (Z.of_N (read_N w bs))
  | PS w _ => VInt (signed_of w (read_N w bs))
  | PF w _ => VFlt (if w =? 16 then f16_unpack (read_N w bs) else read_N w bs)
  | PVoid _ => VVoid
  end.

(* ---- generic combinators (parametric in the element encoder / decoder so that the nested recursion is structural) ---- *)
Section ListCombinators.
  Variable Ee : val -> res (list bool).
  Variable De : list bool -> res (val * nat).

  Fixpoint enc_list (l : list val) : res (list bool) :=
    match l with
    | [] => Ok []
    | x :: r => bind (Ee x) (fun b => bind (enc_list r) (fun br => Ok (b ++ br)))
    end.

  Fixpoint dec_list (n : nat) (bs : list bool) : res (list val * nat) :=
    match n with
    | O => Ok ([], 0)
    | S n' => bind (De bs) (fun '(v, k) =>
                bind (dec_list n' (skipn k bs)) (fun '(vs, m) => Ok (v :: vs, k + m)))
    end.
End ListCombinators.

Section Combinators.
  Variable E : ty -> val -> res (list bool).
  Variable D : ty -> list bool -> res (val * nat).


  (* off = bits emitted so far since the start of the structure; pads before each field and at the end *)
  Fixpoint enc_fields (fs : list ty) (vs : list val) (off : nat) : res (list bool) :=
    match fs, vs with
    | [], [] => Ok (repeat false (pad8 off))
    | f :: fs', v :: vs' =>
        bind (E f v) (fun b =>
          let p := padn off (align f) in
          bind (enc_fields fs' vs' (off + p + length b)) (fun r => Ok (repeat false p ++ b ++ r)))
    | _, _ => Err EShape
    end.

  Fixpoint enc_sel (fs : list ty) (k : nat) (v : val) : res (list bool) :=
    match fs, k with
    | [], _ => Err EBadTag
    | f :: _, O => E f v
    | _ :: r, S k' => enc_sel r k' v
    end.


  (* bs = the stream at the current position; off = bits consumed since the start of the structure *)
  Fixpoint dec_fields (fs : list ty) (bs : list bool) (off : nat) : res (list val * nat) :=
    match fs with
    | [] => Ok ([], off + pad8 off)
    | f :: fs' =>
        let p := padn off (align f) in
        bind (D f (skipn p bs)) (fun '(v, k) =>
          bind (dec_fields fs' (skipn (p + k) bs) (off + p + k)) (fun '(vs, o) => Ok (v :: vs, o)))
    end.

  Fixpoint dec_sel (fs : list ty) (k : nat) (bs : list bool) : res (val * nat) :=
    match fs, k with
    | [], _ => Err EBadTag
    | f :: _, O => D f bs
    | _ :: r, S k' => dec_sel r k' bs
    end.
End Combinators.

(* a delimited composite as a field: header (body size in bytes) then the body; decoding hands the body decoder exactly
   header*8 bits (zero-extended inside, surplus skipped) and fails when the header exceeds the remaining data *)
Definition is_delimited (t : ty) : bool := match t with TComp _ _ (Some _) => true | _ => false end.

Definition as_field_enc (E : ty -> val -> res (list bool)) (t : ty) (v : val) : res (list bool) :=
  match t with
  | TComp _ _ (Some _) => bind (E t v) (fun b => Ok (bits_of_N header_bits (N.of_nat (length b / 8)) ++ b))
  | _ => E t v
  end.

Definition as_field_dec (D : ty -> list bool -> res (val * nat)) (t : ty) (bs : list bool) : res (val * nat) :=
  match t with
  | TComp _ _ (Some _) =>
      let hN := read_N header_bits bs in
      let rest := skipn header_bits bs in
      if (N.of_nat (length rest) <? 8 * hN)%N then Err EBadHdr
      else let h := N.to_nat hN in
           bind (D t (firstn (8 * h) rest)) (fun '(v, _) => Ok (v, header_bits + 8 * h))
  | _ => D t bs
  end.

Fixpoint enc_body (t : ty) (v : val) : res (list bool) :=
  match t with
  | TPrim p => enc_prim p v
  | TFix e n =>
      match v with
      | VArr l => if length l =? n then enc_list (as_field_enc enc_body e) l else Err EShape
      | _ => Err EShape
      end
  | TVar e cap =>
      match v with
      | VArr l => if cap <? length l then Err EBadLen
                  else bind (enc_list (as_field_enc enc_body e) l)
                         (fun b => Ok (bits_of_N (prefix_bits cap) (N.of_nat (length l)) ++ b))
      | _ => Err EShape
      end
  | TComp false fs _ =>
      match v with
      | VStruct vs => enc_fields (as_field_enc enc_body) fs vs 0
      | _ => Err EShape
      end
  | TComp true fs _ =>
      match v with
      | VUnion k x =>
          bind (enc_sel (as_field_enc enc_body) fs k x) (fun b =>
            let tw := tag_bits (length fs) in
            Ok (bits_of_N tw (N.of_nat k) ++ b ++ repeat false (pad8 (tw + length b))))
      | _ => Err EShape
      end
  end.

Definition enc_field : ty -> val -> res (list bool) := as_field_enc enc_body.

Fixpoint dec_body (t : ty) (bs : list bool) : res (val * nat) :=
  match t with
  | TPrim p => Ok (dec_prim p bs, prim_bits p)
  | TFix e n => bind (dec_list (as_field_dec dec_body e) n bs) (fun '(vs, k) => Ok (VArr vs, k))
  | TVar e cap =>
      let pw := prefix_bits cap in
      let nN := read_N pw bs in
      if (N.of_nat cap <? nN)%N then Err EBadLen
      else let n := N.to_nat nN in
           bind (dec_list (as_field_dec dec_body e) n (skipn pw bs)) (fun '(vs, k) => Ok (VArr vs, pw + k))
  | TComp false fs _ =>
      bind (dec_fields (as_field_dec dec_body) fs bs 0) (fun '(vs, k) => Ok (VStruct vs, k))
  | TComp true fs _ =>
      let tw := tag_bits (length fs) in
      let kN := read_N tw bs in
      if (N.of_nat (length fs) <=? kN)%N then Err EBadTag
      else let k := N.to_nat kN in
           bind (dec_sel (as_field_dec dec_body) fs k (skipn tw bs)) (fun '(v, n) =>
             Ok (VUnion k v, tw + n + pad8 (tw + n)))
  end.

Definition dec_field : ty -> list bool -> res (val * nat) := as_field_dec dec_body.

(* ---- what round-tripping does to a storage value ---- *)
Definition cast_prim (p : prim) (v : val) : val :=
  match enc_prim p v with Ok b => dec_prim p b | Err _ => v end.

Section CastCombinators.
  Variable C : ty -> val -> val.
  Fixpoint cast_fields (fs : list ty) (vs : list val) : list val :=
    match fs, vs with f :: fs', x :: vs' => C f x :: cast_fields fs' vs' | _, _ => [] end.
  Fixpoint cast_sel (fs : list ty) (k : nat) (x : val) : val :=
    match fs, k with
    | [], _ => x
    | f :: _, O => C f x
    | _ :: r, S k' => cast_sel r k' x
    end.
End CastCombinators.

Fixpoint cast_val (t : ty) (v : val) : val :=
  match t, v with
  | TPrim p, _ => cast_prim p v
  | TFix e _, VArr l => VArr (map (cast_val e) l)
  | TVar e _, VArr l => VArr (map (cast_val e) l)
  | TComp false fs _, VStruct vs => VStruct (cast_fields cast_val fs vs)
  | TComp true fs _, VUnion k x => VUnion k (cast_sel cast_val fs k x)
  | _, _ => v
  end.

(* ---- values that have a representation ---- *)
Definition prim_shape (p : prim) (v : val) : bool :=
  match p, v with
  | PBool, VBool _ | PU _ _, VInt _ | PS _ _, VInt _ | PF _ _, VFlt _ | PVoid _, VVoid => true
  | _, _ => false
  end.

Section ValidCombinators.
  Variable V : ty -> val -> bool.
  Fixpoint valid_fields (fs : list ty) (vs : list val) : bool :=
    match fs, vs with
    | [], [] => true
    | f :: fs', v :: vs' => V f v && valid_fields fs' vs'
    | _, _ => false
    end.
  Fixpoint valid_sel (fs : list ty) (k : nat) (x : val) : bool :=
    match fs, k with
    | [], _ => false
    | f :: _, O => V f x
    | _ :: r, S k' => valid_sel r k' x
    end.
End ValidCombinators.

(* shape matches the type, fixed arrays have exactly n elements, variable arrays at most cap, union tags select a field *)
Fixpoint valid_val (t : ty) (v : val) : bool :=
  match t, v with
  | TPrim p, _ => prim_shape p v
  | TFix e n, VArr l => (length l =? n) && forallb (valid_val e) l
  | TVar e cap, VArr l => (length l <=? cap) && forallb (valid_val e) l
  | TComp false fs _, VStruct vs => valid_fields valid_val fs vs
  | TComp true fs _, VUnion k x => valid_sel valid_val fs k x
  | _, _ => false
  end.

(* ---- bytes ---- *)
Fixpoint bits_of_bytes (b : list N) : list bool :=
  match b with [] => [] | x :: r => bits_of_N 8 x ++ bits_of_bytes r end.

(* ---- the observable contract of the generated routines ----
   serialize(obj, buffer of cap bytes): too_small iff 8*cap < bmax t (checked first), else the error of enc_body,
   else the bits (a multiple of 8).  deserialize(bytes): error of dec_body, else value and min(consumed, supplied)/8. *)
Definition ser_spec (t : ty) (v : val) (cap_bytes : nat) : res (list bool) :=
  if 8 * cap_bytes <? bmax t then Err ETooSmall else enc_body t v.

Definition des_spec (t : ty) (bs : list bool) : res (val * nat) :=
  bind (dec_body t bs) (fun '(v, k) => Ok (v, Nat.min k (length bs) / 8)).

(* relaxation mask used by the harness only (never by a theorem): float fields whose storage value is a NaN (any width: targets
   may differ in payload / quiet bit / sign) or, for float16, an exact rounding tie or a subnormal result (either neighbour is a
   faithful rounding) are marked by a 1 on their first and on their last bit; same layout as enc_body *)
Definition flt_relaxable (w : nat) (x : N) : bool :=
  match w with
  | 64 => (9218868437227405312 <? N.land (x mod 2 ^ 64) 9223372036854775807)%N
  | 16 =>
      let x := (x mod 2 ^ 32)%N in
      let mag := N.land x 2147483647 in
      (F32INF <? mag)%N || ((N.land mag 8191 =? 4096)%N && (mag <? F32INF)%N) || ((mag <? 947912704)%N && negb (mag =? 0)%N)
  | _ => (F32INF <? N.land (x mod 2 ^ 32) 2147483647)%N
  end.

Definition mask_prim (p : prim) (v : val) : res (list bool) :=
  match p, v with
  | PF w _, VFlt x => if flt_relaxable w x then Ok (true :: repeat false (w - 2) ++ [true]) else Ok (repeat false w)
  | _, _ => bind (enc_prim p v) (fun b => Ok (repeat false (length b)))
  end.

Fixpoint zero_like (l : list bool) : list bool := match l with [] => [] | _ :: r => false :: zero_like r end.

Definition as_field_mask (E : ty -> val -> res (list bool)) (t : ty) (v : val) : res (list bool) :=
  match t with
  | TComp _ _ (Some _) => bind (E t v) (fun b => Ok (repeat false header_bits ++ b))
  | _ => E t v
  end.

Fixpoint mask_body (t : ty) (v : val) : res (list bool) :=
  match t with
  | TPrim p => mask_prim p v
  | TFix e n =>
      match v with
      | VArr l => if length l =? n then enc_list (as_field_mask mask_body e) l else Err EShape
      | _ => Err EShape
      end
  | TVar e cap =>
      match v with
      | VArr l => if cap <? length l then Err EBadLen
                  else bind (enc_list (as_field_mask mask_body e) l)
                         (fun b => Ok (repeat false (prefix_bits cap) ++ b))
      | _ => Err EShape
      end
  | TComp false fs _ =>
      match v with
      | VStruct vs => enc_fields (as_field_mask mask_body) fs vs 0
      | _ => Err EShape
      end
  | TComp true fs _ =>
      match v with
      | VUnion k x =>
          bind (enc_sel (as_field_mask mask_body) fs k x) (fun b =>
            let tw := tag_bits (length fs) in
            Ok (repeat false tw ++ b ++ repeat false (pad8 (tw + length b))))
      | _ => Err EShape
      end
  end.

(* ---- quirk-faithful variant for finding F-PY-DES-ASSERT (Python target): the generated Python deserializer asserts that a
   composite consumed at most the maximum bit length of its own type, which a nested delimited object whose header exceeds the
   extent known to the receiver legitimately violates ---- *)
Fixpoint dec_body_pa (t : ty) (bs : list bool) : res (val * nat) :=
  match t with
  | TPrim p => Ok (dec_prim p bs, prim_bits p)
  | TFix e n => bind (dec_list (as_field_dec dec_body_pa e) n bs) (fun '(vs, k) => Ok (VArr vs, k))
  | TVar e cap =>
      let pw := prefix_bits cap in
      let nN := read_N pw bs in
      if (N.of_nat cap <? nN)%N then Err EBadLen
      else let n := N.to_nat nN in
           bind (dec_list (as_field_dec dec_body_pa e) n (skipn pw bs)) (fun '(vs, k) => Ok (VArr vs, pw + k))
  | TComp false fs _ =>
      bind (dec_fields (as_field_dec dec_body_pa) fs bs 0) (fun '(vs, k) =>
        if bmax t <? k then Err EAssert else Ok (VStruct vs, k))
  | TComp true fs _ =>
      let tw := tag_bits (length fs) in
      let kN := read_N tw bs in
      if (N.of_nat (length fs) <=? kN)%N then Err EBadTag
      else let k := N.to_nat kN in
           bind (dec_sel (as_field_dec dec_body_pa) fs k (skipn tw bs)) (fun '(v, n) =>
             let c := tw + n + pad8 (tw + n) in
             if bmax t <? c then Err EAssert else Ok (VUnion k v, c))
  end.

Definition des_spec_pa (t : ty) (bs : list bool) : res (val * nat) :=
  bind (dec_body_pa t bs) (fun '(v, k) => Ok (v, Nat.min k (length bs) / 8)).
