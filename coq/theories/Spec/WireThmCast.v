(* Closed forms of the storage -> wire cast of primitives.

   `Wire.cast_prim p v` is DEFINED as `dec_prim p (enc_prim p v)`, which is circular as a description of what saturation and
   truncation do.  This file states what it is, in arithmetic: clamping to the value range (saturated integers), reduction modulo
   2^w (truncated unsigned), two's complement wrap-around (truncated signed), the identity on booleans / voids, reduction modulo
   2^32 / 2^64 of the raw pattern for float32 / float64 fields, pack-then-unpack of the (optionally saturated) binary32 pattern
   for float16 fields, and the identity on values of the wrong shape.  None of the integer statements needs `prim_wf`
   except the signed ones (w >= 1 suffices); the summary theorem assumes `prim_wf p = true`. *)
From Verif Require Import Wire WireThm WireThmRt TargetPreThm F16.
From Coq Require Import Lia ZifyBool ZifyNat ZifyN.
Local Open Scope nat_scope.

Lemma cf_of_to_N z : (0 <= z)%Z -> Z.of_N (Z.to_N z) = z.
Proof. intros H. apply Z2N.id. exact H. Qed.

Lemma cf_pow2_ge1 w : (1 <= pow2 w)%Z.
Proof. pose proof (pow2_pos' w). lia. Qed.

Lemma cf_clamp_range lo hi z : (lo <= hi)%Z -> (lo <= clampZ lo hi z <= hi)%Z.
Proof.
  intros H. unfold clampZ. destruct (z <? lo)%Z eqn:E1; [lia|]. destruct (hi <? z)%Z eqn:E2; lia.
Qed.

(* ---------- unsigned ---------- *)
Theorem cast_prim_u_sat : forall w z, cast_prim (PU w true) (VInt z) = VInt (clampZ 0 (pow2 w - 1) z).
Proof.
  intros w z. unfold cast_prim. cbn [enc_prim dec_prim]. rewrite read_back by apply cast_u_lt.
  unfold cast_u. f_equal. apply cf_of_to_N.
  pose proof (cf_pow2_ge1 w). pose proof (cf_clamp_range 0 (pow2 w - 1) z). lia.
Qed.

Theorem cast_prim_u_trunc : forall w z, cast_prim (PU w false) (VInt z) = VInt (z mod pow2 w).
Proof.
  intros w z. unfold cast_prim. cbn [enc_prim dec_prim]. rewrite read_back by apply cast_u_lt.
  unfold cast_u. f_equal. apply cf_of_to_N. apply Z.mod_pos_bound. apply pow2_pos'.
Qed.

(* ---------- signed ---------- *)
(* the two's complement image of z' read back as a signed number, when z' is already in range *)
Lemma cf_signed_of_in_range w z' : 1 <= w -> (- pow2 (w - 1) <= z' < pow2 (w - 1))%Z ->
  signed_of w (Z.to_N (z' mod pow2 w)) = z'.
Proof.
  intros Hw Hr. pose proof (pow2_half w Hw) as Hh. pose proof (pow2_pos' (w - 1)) as Hp.
  unfold signed_of. set (h := pow2 (w - 1)) in *.
  rewrite cf_of_to_N by (apply Z.mod_pos_bound; lia).
  destruct (Z_lt_le_dec z' 0) as [Hn|Hn].
  - assert (Hm : (z' mod pow2 w = z' + pow2 w)%Z).
    { symmetry. apply (Z.mod_unique z' (pow2 w) (-1)); lia. }
    rewrite Hm. destruct (z' + pow2 w <? h)%Z eqn:E; lia.
  - rewrite Z.mod_small by lia. destruct (z' <? h)%Z eqn:E; lia.
Qed.

Theorem cast_prim_s_sat : forall w z, 1 <= w ->
  cast_prim (PS w true) (VInt z) = VInt (clampZ (- pow2 (w - 1)) (pow2 (w - 1) - 1) z).
Proof.
  intros w z Hw. unfold cast_prim. cbn [enc_prim dec_prim]. rewrite read_back by apply cast_s_lt.
  unfold cast_s. f_equal. apply cf_signed_of_in_range; [exact Hw|].
  pose proof (pow2_pos' (w - 1)). pose proof (cf_clamp_range (- pow2 (w - 1)) (pow2 (w - 1) - 1) z). lia.
Qed.

(* the signed wrap of z: the unique representative of z modulo 2^w in [-2^(w-1), 2^(w-1)) *)
Definition signed_wrap (w : nat) (z : Z) : Z := ((z + pow2 (w - 1)) mod pow2 w - pow2 (w - 1))%Z.

Lemma signed_wrap_range w z : 1 <= w -> (- pow2 (w - 1) <= signed_wrap w z < pow2 (w - 1))%Z.
Proof.
  intros Hw. pose proof (pow2_half w Hw) as Hh. pose proof (pow2_pos' (w - 1)) as Hp. unfold signed_wrap.
  pose proof (Z.mod_pos_bound (z + pow2 (w - 1)) (pow2 w)). lia.
Qed.

Lemma signed_wrap_congr w z : (signed_wrap w z mod pow2 w = z mod pow2 w)%Z.
Proof.
  unfold signed_wrap. pose proof (pow2_pos' w) as Hp.
  rewrite <- Zminus_mod_idemp_l. rewrite Z.mod_mod by lia. rewrite Zminus_mod_idemp_l.
  f_equal. lia.
Qed.

Lemma signed_wrap_unique w z z' : 1 <= w -> (- pow2 (w - 1) <= z' < pow2 (w - 1))%Z -> (z' mod pow2 w = z mod pow2 w)%Z ->
  z' = signed_wrap w z.
Proof.
  intros Hw Hr Hc. pose proof (signed_wrap_range w z Hw) as Hr2. pose proof (signed_wrap_congr w z) as Hc2.
  rewrite <- Hc in Hc2. pose proof (pow2_half w Hw) as Hh. pose proof (pow2_pos' (w - 1)) as Hp.
  set (s := signed_wrap w z) in *.
  (* equal residues, distance below the modulus *)
  assert (Hd : ((s - z') mod pow2 w = 0)%Z).
  { rewrite Zminus_mod, Hc2, Z.sub_diag. apply Z.mod_0_l. lia. }
  apply Z.mod_divide in Hd; [|lia]. destruct Hd as [q Hq].
  assert (q = 0%Z) by nia. subst q. lia.
Qed.

Theorem cast_prim_s_trunc : forall w z, 1 <= w -> cast_prim (PS w false) (VInt z) = VInt (signed_wrap w z).
Proof.
  intros w z Hw. unfold cast_prim. cbn [enc_prim dec_prim]. rewrite read_back by apply cast_s_lt.
  unfold cast_s. f_equal.
  rewrite <- (signed_wrap_congr w z).
  apply cf_signed_of_in_range; [exact Hw | apply signed_wrap_range; exact Hw].
Qed.

(* ---------- bool, void ---------- *)
Theorem cast_prim_bool : forall b, cast_prim PBool (VBool b) = VBool b.
Proof. reflexivity. Qed.

Theorem cast_prim_void : forall w, cast_prim (PVoid w) VVoid = VVoid.
Proof. reflexivity. Qed.

(* ---------- floats (raw patterns) ---------- *)
Theorem cast_prim_f_wide : forall w sat x, (w =? 16) = false ->
  cast_prim (PF w sat) (VFlt x) = VFlt (x mod 2 ^ N.of_nat w).
Proof.
  intros w sat x Ew. unfold cast_prim. cbn [enc_prim dec_prim]. rewrite Ew.
  assert (Hlt : (cast_f w sat x < 2 ^ N.of_nat w)%N).
  { unfold cast_f. rewrite Ew. apply N.mod_lt. apply N.pow_nonzero. discriminate. }
  rewrite read_back by exact Hlt. unfold cast_f. rewrite Ew. reflexivity.
Qed.

Theorem cast_prim_f32 : forall sat x, cast_prim (PF 32 sat) (VFlt x) = VFlt (x mod 2 ^ 32).
Proof. intros sat x. exact (cast_prim_f_wide 32 sat x eq_refl). Qed.

Theorem cast_prim_f64 : forall sat x, cast_prim (PF 64 sat) (VFlt x) = VFlt (x mod 2 ^ 64).
Proof. intros sat x. exact (cast_prim_f_wide 64 sat x eq_refl). Qed.

Theorem cast_prim_f16 : forall sat x,
  cast_prim (PF 16 sat) (VFlt x) = VFlt (f16_unpack (f16_pack (if sat then sat16 (x mod 2 ^ 32) else x mod 2 ^ 32)))%N.
Proof.
  intros sat x. unfold cast_prim. cbn [enc_prim dec_prim Nat.eqb].
  rewrite read_back by (change (2 ^ N.of_nat 16)%N with 65536%N; apply cast_f16_lt).
  reflexivity.
Qed.

(* ---------- wrong shape ---------- *)
Theorem cast_prim_wrong_shape : forall p v, prim_shape p v = false -> cast_prim p v = v.
Proof. intros p v H. destruct p, v; cbn [prim_shape] in H; try discriminate H; reflexivity. Qed.

(* ---------- summary: one non-circular definition and one theorem ---------- *)
Definition cast_closed (p : prim) (v : val) : val :=
  match p, v with
  | PBool, VBool b => VBool b
  | PU w true, VInt z => VInt (clampZ 0 (pow2 w - 1) z)
  | PU w false, VInt z => VInt (z mod pow2 w)
  | PS w true, VInt z => VInt (clampZ (- pow2 (w - 1)) (pow2 (w - 1) - 1) z)
  | PS w false, VInt z => VInt ((z + pow2 (w - 1)) mod pow2 w - pow2 (w - 1))
  | PF w sat, VFlt x =>
      if w =? 16 then VFlt (f16_unpack (f16_pack (if sat then sat16 (x mod 2 ^ 32) else x mod 2 ^ 32)))%N
      else VFlt (x mod 2 ^ N.of_nat w)
  | PVoid _, VVoid => VVoid
  | _, _ => v
  end.

Theorem cast_prim_closed_form : forall p v, prim_wf p = true -> cast_prim p v = cast_closed p v.
Proof.
  intros p v Hwf.
  destruct (prim_shape p v) eqn:Hs.
  - destruct p as [|w sat|w sat|w sat|w], v; cbn [prim_shape] in Hs; try discriminate Hs; cbn [cast_closed].
    + reflexivity.
    + destruct sat; [apply cast_prim_u_sat | apply cast_prim_u_trunc].
    + cbn [prim_wf] in Hwf. apply andb_prop in Hwf as [Hw _]. apply Nat.leb_le in Hw.
      destruct sat; [apply cast_prim_s_sat; lia | apply cast_prim_s_trunc; lia].
    + destruct (w =? 16) eqn:Ew.
      * apply Nat.eqb_eq in Ew. subst w. apply cast_prim_f16.
      * apply cast_prim_f_wide. exact Ew.
    + reflexivity.
  - rewrite (cast_prim_wrong_shape p v Hs).
    destruct p as [|w sat|w sat|w sat|w], v; cbn [prim_shape] in Hs; try discriminate Hs; cbn [cast_closed]; try reflexivity;
      destruct sat; reflexivity.
Qed.

(* the same as a conjunction of the individual closed forms (the shape requested by the audit) *)
Theorem cast_prim_closed_forms :
  (forall w z, cast_prim (PU w true) (VInt z) = VInt (clampZ 0 (pow2 w - 1) z)) /\
  (forall w z, cast_prim (PU w false) (VInt z) = VInt (z mod pow2 w)) /\
  (forall w z, 1 <= w -> cast_prim (PS w true) (VInt z) = VInt (clampZ (- pow2 (w - 1)) (pow2 (w - 1) - 1) z)) /\
  (forall w z, 1 <= w -> cast_prim (PS w false) (VInt z) = VInt ((z + pow2 (w - 1)) mod pow2 w - pow2 (w - 1))) /\
  (forall w z z', 1 <= w -> (- pow2 (w - 1) <= z' < pow2 (w - 1))%Z -> (z' mod pow2 w = z mod pow2 w)%Z ->
     cast_prim (PS w false) (VInt z) = VInt z') /\
  (forall b, cast_prim PBool (VBool b) = VBool b) /\
  (forall w, cast_prim (PVoid w) VVoid = VVoid) /\
  (forall sat x, cast_prim (PF 32 sat) (VFlt x) = VFlt (x mod 2 ^ 32)) /\
  (forall sat x, cast_prim (PF 64 sat) (VFlt x) = VFlt (x mod 2 ^ 64)) /\
  (forall sat x, cast_prim (PF 16 sat) (VFlt x) =
     VFlt (f16_unpack (f16_pack (if sat then sat16 (x mod 2 ^ 32) else x mod 2 ^ 32)))%N) /\
  (forall p v, prim_shape p v = false -> cast_prim p v = v).
Proof.
  split; [exact cast_prim_u_sat|]. split; [exact cast_prim_u_trunc|]. split; [exact cast_prim_s_sat|].
  split; [exact cast_prim_s_trunc|].
  split; [intros w z z' Hw Hr Hc; rewrite (cast_prim_s_trunc w z Hw); f_equal; symmetry; apply signed_wrap_unique; assumption|].
  split; [exact cast_prim_bool|]. split; [exact cast_prim_void|]. split; [exact cast_prim_f32|]. split; [exact cast_prim_f64|].
  split; [exact cast_prim_f16 | exact cast_prim_wrong_shape].
Qed.

(* non-vacuity / sanity: the closed forms evaluate *)
Example cast_closed_examples :
  cast_prim (PU 8 true) (VInt 300) = VInt 255 /\ cast_prim (PU 8 false) (VInt 300) = VInt 44 /\
  cast_prim (PU 8 true) (VInt (-5)) = VInt 0 /\ cast_prim (PU 8 false) (VInt (-5)) = VInt 251 /\
  cast_prim (PS 8 true) (VInt 200) = VInt 127 /\ cast_prim (PS 8 false) (VInt 200) = VInt (-56) /\
  cast_prim (PS 8 true) (VInt (-200)) = VInt (-128) /\ cast_prim (PS 8 false) (VInt (-200)) = VInt 56 /\
  cast_prim (PU 8 true) (VBool true) = VBool true.
Proof. vm_compute. tauto. Qed.

Print Assumptions cast_prim_closed_form.
Print Assumptions cast_prim_closed_forms.
Print Assumptions signed_wrap_unique.
