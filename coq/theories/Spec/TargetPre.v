(* Shared by C01 (Codec/PyWalker.v) and C03: the spec-side description of the value conversions of the generated PYTHON
   serializer.  C and C++ share nunavutFloat16Pack (nearest, ties AWAY from zero: Prims/F16.v `f16_pack`, which is what
   Spec/Wire.v `cast_f` uses); Python packs float16 with struct.pack('<e') (and stores float16 arrays as NumPy float16): nearest,
   ties to EVEN.  So the Python serializer is the ONE wire specification applied to a pre-adjusted value (`py_pre`): a float16
   field holding an exact tie whose away-rounded half is odd gets the exactly representable even neighbour, everything else is
   untouched.  `py_enc_prim` is the explicit Python leaf (clamp, two's complement, mask, round-half-even pack);
   Spec/TargetPreThm.v proves py_enc_prim p v = enc_prim p (py_leaf p v).  No proofs in this file. *)
From Verif Require Export Wire.
Local Open Scope N_scope.

(* ---- exact float16 ties, on the magnitude y < 2^31 of a binary32 pattern ----
   normal half results (E >= 113): the 13 dropped bits are exactly 1000000000000;
   subnormal half results (102 <= E <= 112): the 126-E dropped bits of the 24-bit significand are exactly 10...0;
   below 2^-25 (E <= 101) everything rounds to zero, at and beyond 65520 everything rounds to infinity in both rules
   (the `odd` test below keeps those equal) *)
Definition is_tie16 (y : N) : bool :=
  if F32INF <=? y then false
  else let E := b32_exp y in
       if 113 <=? E then (N.land y 8191 =? 4096)
       else if 102 <=? E then (N.land (N.shiftl 1 23 + b32_man y) (N.ones (126 - E)) =? N.shiftl 1 (125 - E))
            else false.

(* what reaches the pack function: the 32 storage bits, clamped first when the field is saturated *)
Definition f16_in (sat : bool) (x : N) : N := if sat then sat16 (x mod 2 ^ 32) else x mod 2 ^ 32.
Definition f16_tie (sat : bool) (x : N) : bool := is_tie16 (N.land (f16_in sat x) 2147483647).

(* round-half-even result of packing, expressed relative to the ties-away result *)
Definition f16_pack_rne (y : N) : N :=
  let h := f16_pack y in if is_tie16 (N.land y 2147483647) && N.odd h then h - 1 else h.

(* the binary32 value whose ties-away packing equals Python's ties-to-even packing of x *)
Definition py_f16 (sat : bool) (x : N) : N :=
  let h := f16_pack (f16_in sat x) in
  if f16_tie sat x && N.odd h then f16_unpack (h - 1) else x.

Definition is_f16 (w : nat) : bool := Nat.eqb w 16.

Definition py_leaf (p : prim) (v : val) : val :=
  match p, v with
  | PF w sat, VFlt x => if is_f16 w then VFlt (py_f16 sat x) else v
  | _, _ => v
  end.

Definition tie_leaf (p : prim) (v : val) : bool :=
  match p, v with
  | PF w sat, VFlt x => is_f16 w && f16_tie sat x
  | _, _ => false
  end.

(* ---- leaf-wise maps and tests over (type, value); lenient on malformed values (they are left alone / ignored) ---- *)
Section LeafCombinators.
  Variable M : ty -> val -> val.
  Fixpoint map_fields (fs : list ty) (vs : list val) : list val :=
    match fs, vs with f :: fs', x :: vs' => M f x :: map_fields fs' vs' | _, _ => vs end.
  Fixpoint map_sel (fs : list ty) (k : nat) (x : val) : val :=
    match fs, k with
    | [], _ => x
    | f :: _, O => M f x
    | _ :: r, S k' => map_sel r k' x
    end.
  Variable A : ty -> val -> bool.
  Fixpoint all_fields (fs : list ty) (vs : list val) : bool :=
    match fs, vs with f :: fs', x :: vs' => A f x && all_fields fs' vs' | _, _ => true end.
  Fixpoint all_sel (fs : list ty) (k : nat) (x : val) : bool :=
    match fs, k with
    | [], _ => true
    | f :: _, O => A f x
    | _ :: r, S k' => all_sel r k' x
    end.
End LeafCombinators.

Fixpoint map_prims (F : prim -> val -> val) (t : ty) (v : val) : val :=
  match t, v with
  | TPrim p, _ => F p v
  | TFix e _, VArr l => VArr (map (map_prims F e) l)
  | TVar e _, VArr l => VArr (map (map_prims F e) l)
  | TComp false fs _, VStruct vs => VStruct (map_fields (map_prims F) fs vs)
  | TComp true fs _, VUnion k x => VUnion k (map_sel (map_prims F) fs k x)
  | _, _ => v
  end.

Fixpoint all_prims (G : prim -> val -> bool) (t : ty) (v : val) : bool :=
  match t, v with
  | TPrim p, _ => G p v
  | TFix e _, VArr l => forallb (all_prims G e) l
  | TVar e _, VArr l => forallb (all_prims G e) l
  | TComp false fs _, VStruct vs => all_fields (all_prims G) fs vs
  | TComp true fs _, VUnion k x => all_sel (all_prims G) fs k x
  | _, _ => true
  end.

(* the trigger of finding F-F16-TIE as a boolean predicate: no float16 field of v holds an exact tie *)
Definition no_f16_tie (t : ty) (v : val) : bool := all_prims (fun p x => negb (tie_leaf p x)) t v.

(* a decoded float16 NaN is canonical when re-encoding reproduces it (the pack function emits 0x7E00 | sign only) *)
Definition nan_canon_leaf (p : prim) (v : val) : bool :=
  match p, v with
  | PF w _, VFlt x => negb (is_f16 w) || negb (is_nan32 x) || (f16_unpack (f16_pack (x mod 2 ^ 32)) =? x)
  | _, _ => true
  end.
Definition f16_nans_canonical (t : ty) (v : val) : bool := all_prims nan_canon_leaf t v.


(* ---- the Python leaf, explicitly (lang/py/templates/serialization.j2 + nunavut_support.j2): what the generated code hands to the
   Serializer for a primitive field.  Integers: `max(min(x, hi), lo)` when saturated; signed values go through
   `(2**w + x) if x < 0 else x`; `_unsigned_to_bytes` masks with `2**w - 1`.  float16: `if isfinite(x)` clamp to +-65504 when
   saturated, then struct.pack('<e') - round half to EVEN (OverflowError -> inf); float32/64: struct.pack of the stored pattern.
   (Negative values of unsigned fields and values beyond the wire range are rejected by the generated setters before any
   serializer runs; the mask is modelled as `mod`.) ---- *)
Definition py_enc_prim (p : prim) (v : val) : res (list bool) :=
  match p, v with
  | PBool, VBool b => Ok [b]
  | PU w sat, VInt z =>
      let z' := if sat then Z.max (Z.min z (pow2 w - 1)) 0 else z in
      Ok (bits_of_N w (Z.to_N (z' mod pow2 w)))
  | PS w sat, VInt z =>
      let z' := if sat then Z.max (Z.min z (pow2 (w - 1) - 1)) (- pow2 (w - 1)) else z in
      let u := if (z' <? 0)%Z then (pow2 w + z')%Z else z' in
      Ok (bits_of_N w (Z.to_N (u mod pow2 w)))
  | PF w sat, VFlt x =>
      if is_f16 w then Ok (bits_of_N w (f16_pack_rne (f16_in sat x))) else Ok (bits_of_N w (x mod 2 ^ N.of_nat w))
  | PVoid w, VVoid => Ok (repeat false w)
  | _, _ => Err EShape
  end.

(* the value the ONE wire specification has to be applied to in order to describe the Python serializer *)
Definition py_pre (t : ty) (v : val) : val := map_prims py_leaf t v.
