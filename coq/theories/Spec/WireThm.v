(* Spec-level theorems about the DSDL wire format (Spec/Wire.v); all by the nested induction on `ty`, no size bounds. *)
From Verif Require Import Wire.
From Coq Require Import Lia ZifyBool ZifyNat ZifyN.
Local Open Scope nat_scope.
Ltac Zify.zify_post_hook ::= Z.div_mod_to_equations.

Lemma Ok_inj {A} (a b : A) : Ok a = Ok b -> a = b.
Proof. intros H. injection H as H. exact H. Qed.

(* ---------- arithmetic of padding ---------- *)
Lemma padn_1 off : padn off 1 = 0.
Proof. unfold padn. rewrite Nat.mod_1_r. reflexivity. Qed.

Lemma padn_8 off : padn off 8 = pad8 off.
Proof. reflexivity. Qed.

Lemma pad8_spec off : (off + pad8 off) mod 8 = 0 /\ pad8 off < 8.
Proof. unfold pad8. lia. Qed.

Lemma pad8_aligned off : off mod 8 = 0 -> pad8 off = 0.
Proof. unfold pad8. lia. Qed.

Lemma rup8_mono a b : a <= b -> a + pad8 a <= b + pad8 b.
Proof. unfold pad8. lia. Qed.

Lemma align_cases t : align t = 1 \/ align t = 8.
Proof. induction t; cbn; auto. Qed.

Lemma rupn_mono a b t : a <= b -> a + padn a (align t) <= b + padn b (align t).
Proof.
  intros H. destruct (align_cases t) as [-> | ->]; rewrite ?padn_1, ?padn_8; [lia | apply rup8_mono; exact H].
Qed.

Lemma rupn_mod off t : align t = 8 -> (off + padn off (align t)) mod 8 = 0.
Proof. intros ->. rewrite padn_8. apply pad8_spec. Qed.

(* ---------- bit lists ---------- *)
Lemma bits_of_N_length w : forall x, length (bits_of_N w x) = w.
Proof. induction w; intros; cbn; auto. Qed.

Lemma take_ze_length n : forall bs, length (take_ze n bs) = n.
Proof. induction n; intros [|b r]; cbn; auto. Qed.

Lemma zero_like_length l : length (zero_like l) = length l.
Proof. induction l; cbn; auto. Qed.

Lemma len_width_cases m : len_width m = 8 \/ len_width m = 16 \/ len_width m = 32 \/ len_width m = 64.
Proof. unfold len_width. repeat destruct (_ <? _)%N; auto. Qed.

Lemma len_width_mod8 m : len_width m mod 8 = 0.
Proof. destruct (len_width_cases m) as [-> | [-> | [-> | ->]]]; reflexivity. Qed.

(* ---------- enc_prim ---------- *)
Lemma enc_prim_length p v b : enc_prim p v = Ok b -> length b = prim_bits p.
Proof.
  destruct p, v; cbn; intros H; inversion H; subst; rewrite ?bits_of_N_length, ?repeat_length; reflexivity.
Qed.

(* ---------- length bounds of encodings ---------- *)
Definition len_ok (t : ty) (lo hi : nat) (b : list bool) : Prop :=
  lo <= length b <= hi /\ (align t = 8 -> length b mod 8 = 0).

Definition P_len (t : ty) : Prop :=
  wf_ty t = true -> forall v b, enc_body t v = Ok b -> len_ok t (bmin t) (bmax t) b.

Definition P_lenf (t : ty) : Prop :=
  wf_ty t = true -> forall v b, enc_field t v = Ok b -> len_ok t (fmin t) (fmax t) b.

Lemma wf_extent u fs x : wf_ty (TComp u fs (Some x)) = true -> bmax (TComp u fs (Some x)) <= x /\ x mod 8 = 0.
Proof.
  cbn [wf_ty]. intros H. apply andb_prop in H. destruct H as [_ H].
  apply andb_prop in H. destruct H as [H H2]. apply andb_prop in H. destruct H as [H1 _].
  destruct u; cbn [bmax]; split; try apply Nat.eqb_eq; try apply Nat.leb_le; auto.
Qed.

Lemma body_to_field t : P_len t -> P_lenf t.
Proof.
  intros H Hwf v b. unfold enc_field, as_field_enc, fmin, fmax, as_field_min, as_field_max.
  destruct t as [p|e n|e c|u fs [x|]]; try (apply H; exact Hwf).
  destruct (enc_body (TComp u fs (Some x)) v) as [b0|e0] eqn:E; cbn [bind]; intros Hb; [|discriminate Hb].
  apply Ok_inj in Hb. subst b.
  destruct (H Hwf v b0 E) as [[_ Hhi] Hmod].
  destruct (wf_extent _ _ _ Hwf) as [Hx _].
  unfold len_ok. rewrite app_length, bits_of_N_length. unfold header_bits. cbn [align] in *.
  specialize (Hmod eq_refl). lia.
Qed.

Lemma enc_list_len Ee t lo hi :
  (forall v b, Ee v = Ok b -> len_ok t lo hi b) ->
  forall l b, enc_list Ee l = Ok b ->
    length l * lo <= length b <= length l * hi /\ (align t = 8 -> length b mod 8 = 0).
Proof.
  intros H. induction l as [|x r IH]; cbn [enc_list]; intros b Hb.
  - inversion Hb; subst. cbn. split; [lia | reflexivity].
  - destruct (Ee x) as [b1|] eqn:E1; cbn [bind] in Hb; [|discriminate].
    destruct (enc_list Ee r) as [b2|] eqn:E2; cbn [bind] in Hb; [|discriminate].
    inversion Hb; subst. rewrite app_length. cbn [length].
    destruct (H _ _ E1) as [? M1]. destruct (IH _ eq_refl) as [? M2].
    split; [lia|]. intros A. specialize (M1 A). specialize (M2 A). lia.
Qed.

Lemma enc_fields_len fs :
  Forall P_lenf fs -> forallb wf_ty fs = true ->
  forall vs off omin omax b,
    enc_fields enc_field fs vs off = Ok b -> omin <= off <= omax ->
    fields_sum fmin fs omin <= off + length b <= fields_sum fmax fs omax /\ (off + length b) mod 8 = 0.
Proof.
  induction 1 as [|f fs Hf Hfs IH]; intros Hwf vs off omin omax b Hb Ho.
  - destruct vs; cbn [enc_fields] in Hb; [|discriminate]. inversion Hb; subst.
    rewrite repeat_length. cbn [fields_sum]. pose proof (rup8_mono omin off). pose proof (rup8_mono off omax).
    pose proof (pad8_spec off). lia.
  - cbn [forallb] in Hwf. apply andb_prop in Hwf. destruct Hwf as [Hwf1 Hwf2].
    destruct vs as [|v vs]; cbn [enc_fields] in Hb; [discriminate|].
    destruct (enc_field f v) as [b1|] eqn:E1; cbn [bind] in Hb; [|discriminate].
    destruct (enc_fields enc_field fs vs _) as [b2|] eqn:E2; cbn [bind] in Hb; [|discriminate].
    inversion Hb; subst. rewrite !app_length, repeat_length.
    destruct (Hf Hwf1 _ _ E1) as [Hl1 _].
    cbn [fields_sum].
    pose proof (rupn_mono omin off f). pose proof (rupn_mono off omax f).
    specialize (IH Hwf2 vs _ (omin + padn omin (align f) + fmin f) (omax + padn omax (align f) + fmax f) b2 E2).
    destruct IH as [IH1 IH2]; [lia|].
    replace (off + (padn off (align f) + (length b1 + length b2))) with (off + padn off (align f) + length b1 + length b2) by lia.
    split; [lia | exact IH2].
Qed.

Lemma fields_min_le B f fs : In f fs -> fields_min B fs <= B f.
Proof.
  induction fs as [|g r IH]; [intros []|].
  intros [->|Hin]; cbn [fields_min].
  - destruct r; [lia | apply Nat.le_min_l].
  - destruct r as [|g' r']; [destruct Hin|]. etransitivity; [apply Nat.le_min_r | apply IH; exact Hin].
Qed.

Lemma fields_max_ge B f fs : In f fs -> B f <= fields_max B fs.
Proof.
  induction fs as [|g r IH]; [intros []|]. intros [->|Hin]; cbn [fields_max]; [apply Nat.le_max_l|].
  etransitivity; [apply IH; exact Hin | apply Nat.le_max_r].
Qed.

Lemma enc_sel_in E fs : forall k x b, enc_sel E fs k x = Ok b -> exists f, In f fs /\ nth_error fs k = Some f /\ E f x = Ok b.
Proof.
  induction fs as [|g r IH]; intros [|k] x b H; cbn [enc_sel] in H; try discriminate.
  - exists g. cbn. auto.
  - destruct (IH _ _ _ H) as (f & Hin & Hn & He). exists f. cbn. auto.
Qed.

Lemma tag_bits_mod8 n : tag_bits n mod 8 = 0.
Proof. apply len_width_mod8. Qed.

Theorem enc_len_all : forall t, P_len t.
Proof.
  induction t using ty_nested_ind; unfold P_len; intros Hwf v b Hb.
  - (* primitive *)
    cbn [enc_body] in Hb. apply enc_prim_length in Hb. unfold len_ok. cbn [bmin bmax align]. split; [lia | discriminate].
  - (* fixed array *)
    cbn [enc_body] in Hb. destruct v; try discriminate.
    destruct (length l =? n) eqn:En; [|discriminate]. apply Nat.eqb_eq in En.
    cbn [wf_ty] in Hwf.
    pose proof (enc_list_len (as_field_enc enc_body t) t (fmin t) (fmax t) (body_to_field t IHt Hwf) l b Hb) as [H1 H2].
    unfold len_ok. cbn [bmin bmax align]. fold (fmin t) (fmax t). rewrite <- En. split; [lia | exact H2].
  - (* variable array *)
    cbn [enc_body] in Hb. destruct v; try discriminate.
    destruct (c <? length l) eqn:Ec; [discriminate|]. apply Nat.ltb_ge in Ec.
    destruct (enc_list _ l) as [b0|] eqn:E0; cbn [bind] in Hb; [|discriminate]. inversion Hb; subst.
    cbn [wf_ty] in Hwf. apply andb_prop in Hwf. destruct Hwf as [Hwf _].
    pose proof (enc_list_len (as_field_enc enc_body t) t (fmin t) (fmax t) (body_to_field t IHt Hwf) l b0 E0) as [H1 H2].
    unfold len_ok. rewrite app_length, bits_of_N_length. cbn [bmin bmax align]. fold (fmin t) (fmax t).
    pose proof (len_width_mod8 c). unfold prefix_bits.
    split; [nia|]. intros A. specialize (H2 A). lia.
  - (* composite *)
    assert (Hf : Forall P_lenf fs).
    { rewrite Forall_forall in *. intros f Hin. apply body_to_field. apply H. exact Hin. }
    assert (Hwfs : forallb wf_ty fs = true).
    { cbn [wf_ty] in Hwf. apply andb_prop in Hwf. destruct Hwf as [Hwf _]. apply andb_prop in Hwf. destruct Hwf as [Hwf _]. exact Hwf. }
    destruct u; cbn [enc_body] in Hb.
    + (* union *)
      destruct v; try discriminate.
      destruct (enc_sel _ fs tag v) as [b0|] eqn:E0; cbn [bind] in Hb; [|discriminate]. inversion Hb; subst.
      apply enc_sel_in in E0. destruct E0 as (f & Hin & _ & He).
      rewrite Forall_forall in Hf. rewrite forallb_forall in Hwfs.
      destruct (Hf f Hin (Hwfs f Hin) _ _ He) as [[Hlo Hhi] _].
      pose proof (fields_min_le fmin f fs Hin). pose proof (fields_max_ge fmax f fs Hin).
      unfold len_ok. rewrite !app_length, bits_of_N_length, repeat_length. cbn [bmin bmax align].
      fold fmin fmax.
      set (tw := tag_bits (length fs)).
      pose proof (rup8_mono (tw + fields_min fmin fs) (tw + length b0)).
      pose proof (rup8_mono (tw + length b0) (tw + fields_max fmax fs)).
      pose proof (pad8_spec (tw + length b0)).
      split; [lia|]. intros _. lia.
    + (* structure *)
      destruct v; try discriminate.
      pose proof (enc_fields_len fs Hf Hwfs l 0 0 0 b Hb) as [H1 H2]; [lia|].
      unfold len_ok. cbn [bmin bmax align]. fold fmin fmax. cbn [plus] in *. split; [lia | intros _; exact H2].
Qed.

Theorem enc_len_bounds : forall t v b, wf_ty t = true -> enc_body t v = Ok b ->
  bmin t <= length b <= bmax t /\ (align t = 8 -> length b mod 8 = 0).
Proof. intros t v b Hwf Hb. exact (enc_len_all t Hwf v b Hb). Qed.

Theorem enc_field_len_bounds : forall t v b, wf_ty t = true -> enc_field t v = Ok b ->
  fmin t <= length b <= fmax t /\ (align t = 8 -> length b mod 8 = 0).
Proof. intros t v b Hwf Hb. exact (body_to_field t (enc_len_all t) Hwf v b Hb). Qed.

Theorem max_le_extent : forall t, wf_ty t = true -> bmax t <= extent t.
Proof.
  intros t Hwf. destruct t as [p|e n|e c|u fs [x|]]; cbn [extent]; try lia.
  apply (wf_extent _ _ _ Hwf).
Qed.

Theorem ser_spec_ok_size : forall t v cap b, wf_ty t = true -> ser_spec t v cap = Ok b ->
  length b <= 8 * cap /\ bmin t <= length b <= bmax t.
Proof.
  unfold ser_spec. intros t v cap b Hwf H. destruct (8 * cap <? bmax t) eqn:E; [discriminate|].
  apply Nat.ltb_ge in E. destruct (enc_len_bounds _ _ _ Hwf H) as [? _]. lia.
Qed.

Theorem des_consumed_le : forall t bs v c, des_spec t bs = Ok (v, c) -> 8 * c <= length bs.
Proof.
  unfold des_spec. intros t bs v c H. destruct (dec_body t bs) as [[v0 k]|]; cbn [bind] in H; [|discriminate].
  apply Ok_inj in H. apply (f_equal snd) in H. cbn [snd] in H. subst c. lia.
Qed.
