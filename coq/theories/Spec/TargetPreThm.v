(* Theorems about Spec/TargetPre.v (shared by C01's Python walker and C03): float16 leaf facts from the C14 theorems, the leaf-wise
   map/test combinators, "cast values hold no tie", and the explicit Python leaf = enc_prim of the pre-adjusted value. *)
From Verif Require Import Wire WireThm WireThmRt WireThmValid TargetPre F16 F16Thm F16ArithThm.
From Coq Require Import Lia ZifyBool ZifyNat ZifyN.
Local Open Scope nat_scope.
Ltac Zify.zify_post_hook ::= Z.div_mod_to_equations.

(* ================================================================================================================== *)
(* float16 leaf facts                                                                                                 *)
(* ================================================================================================================== *)
Section F16Leaf.
  Local Open Scope N_scope.

  Lemma f16_pack_lt x : x < 4294967296 -> f16_pack x < 65536.
  Proof.
    intros Hx. rewrite (f16_pack_sign x Hx).
    pose proof (pack_mag_lt (x mod 2147483648) ltac:(lia)). assert (x / 2147483648 <= 1) by lia. nia.
  Qed.

  Lemma pack_mag_nan y : y < 2147483648 -> is_nan16 (pack_mag y) = true -> pack_mag y = 32256.
  Proof.
    intros Hy Hn. destruct (N.lt_ge_cases y F32INF) as [Hf|Hf].
    - destruct (f16_rounding_rule y Hf) as [Hb _]. unfold is_nan16 in Hn.
      change 32767 with (N.ones 15) in Hn. rewrite N.land_ones in Hn. change (2 ^ 15) with 32768 in Hn.
      apply N.ltb_lt in Hn. lia.
    - destruct (f16_inf_nan y Hf Hy) as [Hi Hgt].
      destruct (N.eq_dec y F32INF) as [E|E].
      + rewrite (Hi E) in Hn. discriminate Hn.
      + apply Hgt. lia.
  Qed.

  Lemma is_nan16_signed pm s : pm < 32768 -> s <= 1 -> is_nan16 (pm + 32768 * s) = is_nan16 pm.
  Proof.
    intros Hp Hs. unfold is_nan16. change 32767 with (N.ones 15). rewrite !N.land_ones. change (2 ^ 15) with 32768.
    replace ((pm + 32768 * s) mod 32768) with pm by lia. replace (pm mod 32768) with pm by lia. reflexivity.
  Qed.

  (* the image of the pack function: a non-NaN half, or one of the two canonical NaNs *)
  Lemma pack_image x : x < 4294967296 ->
    is_nan16 (f16_pack x) = false \/ f16_pack x = 32256 \/ f16_pack x = 65024.
  Proof.
    intros Hx. rewrite (f16_pack_sign x Hx).
    pose proof (pack_mag_lt (x mod 2147483648) ltac:(lia)) as Hp. assert (Hs : x / 2147483648 <= 1) by lia.
    rewrite is_nan16_signed by assumption.
    destruct (is_nan16 (pack_mag (x mod 2147483648))) eqn:En; [right|left; reflexivity].
    rewrite (pack_mag_nan (x mod 2147483648) ltac:(lia) En).
    assert (x / 2147483648 = 0 \/ x / 2147483648 = 1) as [-> | ->] by lia; [left|right]; reflexivity.
  Qed.

  Theorem pack_unpack_pack x : x < 4294967296 -> f16_pack (f16_unpack (f16_pack x)) = f16_pack x.
  Proof.
    intros Hx. destruct (pack_image x Hx) as [Hn | [-> | ->]].
    - apply f16_roundtrip; [apply f16_pack_lt; exact Hx | exact Hn].
    - vm_compute. reflexivity.
    - vm_compute. reflexivity.
  Qed.

  (* an unpacked half is a fixed point of the saturation and of the 32-bit truncation, and is never a rounding tie *)
  Definition unpack_fix_ok (h : N) : bool :=
    (sat16 (f16_unpack h) =? f16_unpack h) && (f16_unpack h mod 2 ^ 32 =? f16_unpack h)
    && negb (is_tie16 (N.land (f16_unpack h) 2147483647)).
  Lemma sweep_unpack_fix : forall_below 65536 unpack_fix_ok = true.
  Proof. vm_compute. reflexivity. Qed.

  Lemma unpack_fix h : h < 65536 ->
    sat16 (f16_unpack h) = f16_unpack h /\ f16_unpack h mod 2 ^ 32 = f16_unpack h /\
    is_tie16 (N.land (f16_unpack h) 2147483647) = false.
  Proof.
    intros Hh. pose proof (forall_below_spec _ _ sweep_unpack_fix h Hh) as H. unfold unpack_fix_ok in H.
    apply andb_prop in H as [H H3]. apply andb_prop in H as [H1 H2].
    apply N.eqb_eq in H1. apply N.eqb_eq in H2. apply negb_true_iff in H3. auto.
  Qed.

  Lemma f16_in_unpack sat h : h < 65536 -> f16_in sat (f16_unpack h) = f16_unpack h.
  Proof.
    intros Hh. destruct (unpack_fix h Hh) as (H1 & H2 & _). unfold f16_in. rewrite H2. destruct sat; [exact H1 | reflexivity].
  Qed.

  Lemma sat16_lt z : z < 4294967296 -> sat16 z < 4294967296.
  Proof.
    intros Hz. unfold sat16. destruct (_ <? F32INF); [|exact Hz]. destruct (F32_65504 <? _); [|exact Hz].
    change (N.shiftl 1 31) with (2 ^ 31). rewrite land_pow2. destruct (N.testbit z 31); vm_compute; reflexivity.
  Qed.

  Lemma f16_in_lt sat x : f16_in sat x < 4294967296.
  Proof.
    unfold f16_in. change (2 ^ 32) with 4294967296. assert (x mod 4294967296 < 4294967296) by (apply N.mod_lt; discriminate).
    destruct sat; [apply sat16_lt; assumption | assumption].
  Qed.

  Lemma cast_f16_eq sat x : cast_f 16 sat x = f16_pack (f16_in sat x).
  Proof. reflexivity. Qed.

  Lemma cast_f16_lt sat x : cast_f 16 sat x < 65536.
  Proof. rewrite cast_f16_eq. apply f16_pack_lt. apply f16_in_lt. Qed.

  (* cast is idempotent on a float16 field: re-packing the unpacked image gives the image *)
  Lemma cast_f16_idem sat x : cast_f 16 sat (f16_unpack (cast_f 16 sat x)) = cast_f 16 sat x.
  Proof.
    rewrite !cast_f16_eq. rewrite f16_in_unpack by (apply f16_pack_lt; apply f16_in_lt).
    apply pack_unpack_pack. apply f16_in_lt.
  Qed.

  (* ---- the Python rule really is round-half-to-even: on the midpoint between the halves h and h+1 (every finite h, the
     last one being the overflow threshold 65520) the C rule gives h+1, the Python rule the even one of the two ---- *)
  Definition mid16 (h : N) : N :=
    if h <? 1024 then
      let n := 2 * h + 1 in let p := N.log2 n in N.shiftl (p + 102) 23 + N.shiftl (n - N.shiftl 1 p) (23 - p)
    else N.shiftl h 13 + N.shiftl 112 23 + 4096.
  Definition rne_on_tie_ok (h : N) : bool :=
    is_tie16 (mid16 h) && (pack_mag (mid16 h) =? h + 1) && (f16_pack_rne (mid16 h) =? (if N.even h then h else h + 1))
    && (val32 (mid16 h) * 2 =? N.shiftl (val16 h + val16 (h + 1)) 125).
  Lemma sweep_rne_on_tie : forall_below 31744 rne_on_tie_ok = true.
  Proof. vm_compute. reflexivity. Qed.

  Theorem f16_rne_on_ties h : h < 31744 ->
    val32 (mid16 h) * 2 = N.shiftl (val16 h + val16 (h + 1)) 125 /\        (* mid16 h is exactly half way between h and h+1 *)
    is_tie16 (mid16 h) = true /\ pack_mag (mid16 h) = h + 1 /\ f16_pack_rne (mid16 h) = (if N.even h then h else h + 1).
  Proof.
    intros Hh. pose proof (forall_below_spec _ _ sweep_rne_on_tie h Hh) as H. unfold rne_on_tie_ok in H.
    apply andb_prop in H as [H H4]. apply andb_prop in H as [H H3]. apply andb_prop in H as [H1 H2].
    apply N.eqb_eq in H2, H3, H4. auto.
  Qed.
End F16Leaf.

(* ================================================================================================================== *)
(* the cast is idempotent on encodings: enc (cast v) = enc v                                                          *)
(* ================================================================================================================== *)
Lemma pow2_pos' w : (0 < pow2 w)%Z.
Proof. unfold pow2. apply Z.pow_pos_nonneg; lia. Qed.

Lemma pow2_N w : Z.of_N (2 ^ N.of_nat w) = pow2 w.
Proof. unfold pow2. rewrite N2Z.inj_pow, nat_N_Z. reflexivity. Qed.

Lemma to_N_lt w z : (0 <= z < pow2 w)%Z -> (Z.to_N z < 2 ^ N.of_nat w)%N.
Proof. intros H. apply N2Z.inj_lt. rewrite Z2N.id, pow2_N; lia. Qed.

Lemma of_N_lt w n : (n < 2 ^ N.of_nat w)%N -> (0 <= Z.of_N n < pow2 w)%Z.
Proof. intros H. apply N2Z.inj_lt in H. rewrite pow2_N in H. lia. Qed.

Lemma pow2_half w : 1 <= w -> pow2 w = (2 * pow2 (w - 1))%Z.
Proof.
  intros H. unfold pow2. replace (Z.of_nat w) with (Z.succ (Z.of_nat (w - 1))) by lia. rewrite Z.pow_succ_r by lia. reflexivity.
Qed.

Lemma read_back w n : (n < 2 ^ N.of_nat w)%N -> read_N w (bits_of_N w n) = n.
Proof. intros H. rewrite <- (app_nil_r (bits_of_N w n)). apply read_N_bits. exact H. Qed.

Lemma cast_u_lt w sat z : (cast_u w sat z < 2 ^ N.of_nat w)%N.
Proof.
  pose proof (pow2_pos' w) as Hp. unfold cast_u, clampZ.
  destruct sat; apply to_N_lt; [|apply Z.mod_pos_bound; exact Hp].
  destruct (z <? 0)%Z eqn:E1; [lia|]. destruct (pow2 w - 1 <? z)%Z eqn:E2; lia.
Qed.

Lemma cast_u_of_N w sat n : (n < 2 ^ N.of_nat w)%N -> cast_u w sat (Z.of_N n) = n.
Proof.
  intros H. apply of_N_lt in H. unfold cast_u, clampZ. destruct sat.
  - destruct (Z.of_N n <? 0)%Z eqn:E1; [lia|]. destruct (pow2 w - 1 <? Z.of_N n)%Z eqn:E2; [lia|]. apply N2Z.id.
  - rewrite Z.mod_small by lia. apply N2Z.id.
Qed.

Lemma cast_s_lt w sat z : (cast_s w sat z < 2 ^ N.of_nat w)%N.
Proof. unfold cast_s. apply to_N_lt. apply Z.mod_pos_bound. apply pow2_pos'. Qed.

Lemma cast_s_signed_of w sat n : 1 <= w -> (n < 2 ^ N.of_nat w)%N -> cast_s w sat (signed_of w n) = n.
Proof.
  intros Hw H. apply of_N_lt in H. pose proof (pow2_half w Hw) as Hh. pose proof (pow2_pos' (w - 1)) as Hp.
  unfold cast_s, signed_of, clampZ.
  destruct (Z.of_N n <? pow2 (w - 1))%Z eqn:E.
  - assert (Hc : (if sat then (if (Z.of_N n <? - pow2 (w - 1))%Z then (- pow2 (w - 1))%Z
                               else if (pow2 (w - 1) - 1 <? Z.of_N n)%Z then (pow2 (w - 1) - 1)%Z else Z.of_N n) else Z.of_N n)
                  = Z.of_N n).
    { destruct sat; [|reflexivity]. destruct (Z.of_N n <? - pow2 (w - 1))%Z eqn:E1; [lia|].
      destruct (pow2 (w - 1) - 1 <? Z.of_N n)%Z eqn:E2; [lia|reflexivity]. }
    rewrite Hc. rewrite Z.mod_small by lia. apply N2Z.id.
  - set (zz := (Z.of_N n - pow2 w)%Z).
    assert (Hc : (if sat then (if (zz <? - pow2 (w - 1))%Z then (- pow2 (w - 1))%Z
                               else if (pow2 (w - 1) - 1 <? zz)%Z then (pow2 (w - 1) - 1)%Z else zz) else zz) = zz).
    { destruct sat; [|reflexivity]. subst zz. destruct (Z.of_N n - pow2 w <? - pow2 (w - 1))%Z eqn:E1; [lia|].
      destruct (pow2 (w - 1) - 1 <? Z.of_N n - pow2 w)%Z eqn:E2; [lia|reflexivity]. }
    rewrite Hc. subst zz. replace (Z.of_N n - pow2 w)%Z with (Z.of_N n + (-1) * pow2 w)%Z by lia.
    rewrite Z.mod_add by lia. rewrite Z.mod_small by lia. apply N2Z.id.
Qed.

(* ================================================================================================================== *)
(* leaf-wise maps: identity where the leaf predicate says so; cast values satisfy every predicate the cast leaves do   *)
(* ================================================================================================================== *)
Lemma map_fields_id M A fs : Forall (fun f => forall v, A f v = true -> M f v = v) fs ->
  forall vs, all_fields A fs vs = true -> map_fields M fs vs = vs.
Proof.
  induction 1 as [|f fs Hf _ IH]; intros vs Hv; [destruct vs; reflexivity|].
  destruct vs as [|x vs]; [reflexivity|]. cbn [map_fields all_fields] in *. apply andb_prop in Hv as [H1 H2].
  rewrite (Hf _ H1), (IH _ H2). reflexivity.
Qed.

Lemma map_sel_id M A fs : Forall (fun f => forall v, A f v = true -> M f v = v) fs ->
  forall k x, all_sel A fs k x = true -> map_sel M fs k x = x.
Proof.
  induction 1 as [|f fs Hf _ IH]; intros k x Hv; [destruct k; reflexivity|].
  destruct k; cbn [map_sel all_sel] in *; auto.
Qed.

Lemma map_list_id (M : val -> val) (A : val -> bool) : (forall v, A v = true -> M v = v) ->
  forall l, forallb A l = true -> map M l = l.
Proof.
  intros H. induction l as [|x l IH]; cbn [map forallb]; intros Hv; [reflexivity|].
  apply andb_prop in Hv as [H1 H2]. rewrite (H _ H1), (IH H2). reflexivity.
Qed.

Theorem map_prims_id F G : (forall p x, G p x = true -> F p x = x) ->
  forall t v, all_prims G t v = true -> map_prims F t v = v.
Proof.
  intros HL. induction t using ty_nested_ind; intros v Hv.
  - cbn [map_prims all_prims] in *. apply HL. exact Hv.
  - destruct v; cbn [map_prims all_prims] in *; try reflexivity. f_equal. apply (map_list_id _ _ IHt). exact Hv.
  - destruct v; cbn [map_prims all_prims] in *; try reflexivity. f_equal. apply (map_list_id _ _ IHt). exact Hv.
  - destruct u, v; cbn [map_prims all_prims] in *; try reflexivity; f_equal.
    + apply (map_sel_id _ (all_prims G)); [exact H | exact Hv].
    + apply (map_fields_id _ (all_prims G)); [exact H | exact Hv].
Qed.

Lemma all_fields_cast C A fs : Forall (fun f => forall v, A f (C f v) = true) fs ->
  forall vs, all_fields A fs (cast_fields C fs vs) = true.
Proof.
  induction 1 as [|f fs Hf _ IH]; intros vs; [destruct vs; reflexivity|].
  destruct vs as [|x vs]; [reflexivity|]. cbn [cast_fields all_fields]. rewrite Hf, IH. reflexivity.
Qed.

Lemma all_sel_cast C A fs : Forall (fun f => forall v, A f (C f v) = true) fs ->
  forall k x, all_sel A fs k (cast_sel C fs k x) = true.
Proof.
  induction 1 as [|f fs Hf _ IH]; intros k x; [destruct k; reflexivity|].
  destruct k; cbn [cast_sel all_sel]; auto.
Qed.

Theorem cast_all_prims G : (forall p x, G p (cast_prim p x) = true) -> forall t v, all_prims G t (cast_val t v) = true.
Proof.
  intros HL. induction t using ty_nested_ind; intros v.
  - cbn [cast_val all_prims]. apply HL.
  - destruct v; cbn [cast_val all_prims]; try reflexivity; try apply HL.
    apply forallb_forall. intros y Hy. apply in_map_iff in Hy as [x [<- _]]. apply IHt.
  - destruct v; cbn [cast_val all_prims]; try reflexivity.
    apply forallb_forall. intros y Hy. apply in_map_iff in Hy as [x [<- _]]. apply IHt.
  - destruct u, v; cbn [cast_val all_prims]; try reflexivity.
    + apply (all_sel_cast cast_val (all_prims G)). exact H.
    + apply (all_fields_cast cast_val (all_prims G)). exact H.
Qed.

Lemma py_leaf_id p x : negb (tie_leaf p x) = true -> py_leaf p x = x.
Proof.
  destruct p, x; cbn [tie_leaf py_leaf]; try reflexivity. intros H.
  destruct (is_f16 w); [|reflexivity]. cbn [andb] in H. apply negb_true_iff in H. unfold py_f16. rewrite H. reflexivity.
Qed.

Lemma tie_leaf_cast p x : negb (tie_leaf p (cast_prim p x)) = true.
Proof.
  unfold cast_prim. destruct (enc_prim p x) as [b|e] eqn:E.
  - destruct p as [|w sat|w sat|w sat|w], x; cbn [enc_prim] in E; try discriminate; cbn [dec_prim tie_leaf]; try reflexivity.
    apply Ok_inj in E. subst b. unfold is_f16. destruct (w =? 16) eqn:Ew; [|reflexivity].
    apply Nat.eqb_eq in Ew. subst w. rewrite read_back by (change (2 ^ N.of_nat 16)%N with 65536%N; apply cast_f16_lt).
    cbn [andb]. unfold f16_tie. rewrite f16_in_unpack by apply cast_f16_lt.
    destruct (unpack_fix (cast_f 16 sat bits) (cast_f16_lt sat bits)) as (_ & _ & Ht). rewrite Ht. reflexivity.
  - destruct p, x; cbn [enc_prim] in E; try discriminate; reflexivity.
Qed.

(* cast values hold no float16 tie, so the Python pre-adjustment leaves them alone *)
Theorem cast_no_tie : forall t v, no_f16_tie t (cast_val t v) = true.
Proof. intros t v. unfold no_f16_tie. apply cast_all_prims. exact tie_leaf_cast. Qed.

Theorem py_pre_id : forall t v, no_f16_tie t v = true -> py_pre t v = v.
Proof. intros t v H. exact (map_prims_id py_leaf _ py_leaf_id t v H). Qed.


(* ================================================================================================================== *)
(* the explicit Python leaf = the specification's encoding of the pre-adjusted value                                  *)
(* ================================================================================================================== *)
Lemma clamp_max_min lo hi z : (lo <= hi)%Z -> Z.max (Z.min z hi) lo = clampZ lo hi z.
Proof. intros H. unfold clampZ. destruct (z <? lo)%Z eqn:E1; [lia|]. destruct (hi <? z)%Z eqn:E2; lia. Qed.

Lemma f16_rne_leaf sat x : f16_pack_rne (f16_in sat x) = cast_f 16 sat (py_f16 sat x).
Proof.
  unfold f16_pack_rne, py_f16. fold (f16_tie sat x).
  destruct (f16_tie sat x && N.odd (f16_pack (f16_in sat x))) eqn:E; [|reflexivity].
  apply andb_prop in E as [Et Eo].
  assert (Hlt : (f16_pack (f16_in sat x) < 65536)%N) by (apply f16_pack_lt; apply f16_in_lt).
  set (h := f16_pack (f16_in sat x)) in *.
  assert (Hpos : (1 <= h)%N) by (destruct h; [discriminate Eo | lia]).
  rewrite cast_f16_eq. rewrite f16_in_unpack by lia.
  (* h - 1 is not a NaN: the packed magnitude of a finite tie is at most 0x7C00, and an odd one is below it *)
  assert (Hn : is_nan16 (h - 1) = false).
  { unfold f16_tie in Et. set (y := N.land (f16_in sat x) 2147483647) in *.
    assert (Hy : (y < F32INF)%N).
    { unfold is_tie16 in Et. destruct (F32INF <=? y)%N eqn:Ey; [discriminate Et|]. apply N.leb_gt. exact Ey. }
    pose proof (f16_in_lt sat x) as Hin.
    assert (Hym : y = (f16_in sat x mod 2147483648)%N).
    { unfold y. change 2147483647%N with (N.ones 31). rewrite N.land_ones. reflexivity. }
    destruct (f16_rounding_rule y Hy) as [Hb _].
    unfold h in *. rewrite (f16_pack_sign _ Hin) in *. rewrite <- Hym in *.
    assert (Hs : (f16_in sat x / 2147483648 <= 1)%N) by lia.
    set (pm := pack_mag y) in *. set (sg := (f16_in sat x / 2147483648)%N) in *.
    assert (Hpm : (pm <> 31744)%N).
    { intros Eq. rewrite Eq in Eo. assert (sg = 0 \/ sg = 1)%N as [-> | ->] by lia; discriminate Eo. }
    assert (Hpm1 : (1 <= pm)%N).
    { destruct pm; [|lia]. assert (sg = 0 \/ sg = 1)%N as [-> | ->] by lia; discriminate Eo. }
    replace (pm + 32768 * sg - 1)%N with ((pm - 1) + 32768 * sg)%N by lia.
    rewrite is_nan16_signed by lia. unfold is_nan16. change 32767%N with (N.ones 15). rewrite N.land_ones.
    apply N.ltb_ge. change (2 ^ 15)%N with 32768%N. rewrite N.mod_small by lia. lia. }
  symmetry. apply f16_roundtrip; [lia | exact Hn].
Qed.

Theorem py_enc_prim_spec : forall p v, py_enc_prim p v = enc_prim p (py_leaf p v).
Proof.
  intros p v. destruct p as [|w sat|w sat|w sat|w], v; cbn [py_enc_prim enc_prim py_leaf]; try reflexivity.
  - (* unsigned *) f_equal. f_equal. unfold cast_u. pose proof (pow2_pos' w) as Hp. destruct sat; [|reflexivity].
    rewrite clamp_max_min by lia. rewrite Z.mod_small; [reflexivity|].
    unfold clampZ. destruct (z <? 0)%Z eqn:E1; [lia|]. destruct (pow2 w - 1 <? z)%Z eqn:E2; lia.
  - (* signed *) f_equal. f_equal. unfold cast_s. pose proof (pow2_pos' w) as Hp. pose proof (pow2_pos' (w - 1)) as Hq.
    assert (Hm : forall c, ((if (c <? 0)%Z then (pow2 w + c)%Z else c) mod pow2 w = c mod pow2 w)%Z).
    { intros c. destruct (c <? 0)%Z; [|reflexivity]. replace (pow2 w + c)%Z with (c + 1 * pow2 w)%Z by lia.
      apply Z.mod_add. lia. }
    rewrite Hm. destruct sat; [|reflexivity]. rewrite clamp_max_min by lia. reflexivity.
  - (* float *) destruct (is_f16 w) eqn:Ew.
    + unfold is_f16 in Ew. apply Nat.eqb_eq in Ew. subst w. cbn [enc_prim]. rewrite f16_rne_leaf. reflexivity.
    + cbn [enc_prim]. unfold cast_f, is_f16 in *. rewrite Ew. reflexivity.
Qed.
