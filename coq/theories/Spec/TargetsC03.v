(* C03: targets, the code-generation options that reach the codec models, the classification of EVERY language option of
   properties.yaml (tied to the regenerated option list in Codec/ObsC03Tie.v), and the SPEC-SIDE description of each target's
   serializer (`spec_ser`): the ONE wire specification applied to the target's pre-adjusted value (Spec/TargetPre.v: identity for
   C and C++, round-half-even float16 ties for Python).  The observables of the generated code are defined over the target-shaped
   walkers and the shipped primitive models in Codec/ObsC03.v and PROVED equal to these in Codec/ObsC03Thm.v.  No proofs here. *)
From Verif Require Export Wire TargetPre.
From Coq Require Import String Ascii.
Local Open Scope nat_scope.

Inductive target : Type := TgC | TgCpp | TgPy.

(* the real options (lang/properties.yaml, nunavut.lang.c / nunavut.lang.cpp) that select different code in the codec models *)
Inductive endianness : Type := EndAny | EndBig | EndLittle.
Record options : Type := {
  target_endianness : endianness;               (* little: memmove / bulk-copy template paths + direct-load rendering of the C support *)
  omit_float_serialization_support : bool;      (* nunavutSetF16/32/64, GetF*, Float16Pack/Unpack are not emitted *)
  enable_serialization_asserts : bool;          (* NUNAVUT_ASSERT sites are compiled in *)
}.
Definition default_options : options :=
  {| target_endianness := EndAny; omit_float_serialization_support := false; enable_serialization_asserts := false |}.
Definition is_little (o : options) : bool := match target_endianness o with EndLittle => true | _ => false end.

(* how each language option of properties.yaml is covered by C03.  WHETHER an option reaches the (de)serialization code is not
   decided here by hand: Codec/ObsC03Tie.v proves `reaches_codec` of every row equal to "the regenerated scan of the codec templates
   (Generated/Gen_C03Opt.v: `options.<key>` mentions and filters / tests whose implementation reads the option) is non-empty".
   The value lists are the option VALUES some build of the check is made with (tools/harness/c03_pairs.py option_matrix, c03_cfg/). *)
Inductive coverage : Type :=
| Proved                              (* reaches the codec; a field of `options`; independence is a theorem of Properties/C03.v *)
| ProvedGate                          (* reaches the codec; a field of `options`; decides whether the program exists; independence proved where it does *)
| CodecDefaultOnly                    (* reaches the codec templates, not modelled, built under its default value only *)
| CodecPairwise (built : list string) (* reaches the codec templates, not modelled; builds with these values are compared pairwise *)
| DeclPairwise (built : list string)  (* does not reach the codec templates (storage object / declarations only); builds with these values
                                         are compared pairwise *)
| DeclNotExercised.                   (* does not reach the codec templates; only the default is built *)

Definition reaches_codec (c : coverage) : bool :=
  match c with Proved | ProvedGate | CodecDefaultOnly | CodecPairwise _ => true | DeclPairwise _ | DeclNotExercised => false end.

Definition s2n (s : string) : list N := List.map N_of_ascii (list_ascii_of_string s).

Definition c_option_coverage : list (string * coverage) :=
  [("target_endianness", Proved); ("omit_float_serialization_support", ProvedGate); ("enable_serialization_asserts", Proved);
   ("enable_override_variable_array_capacity", CodecPairwise ["false"; "true"]);
       (* built WITHOUT any -D..._ARRAY_CAPACITY_ macro: the up-front capacity test stays compiled in.  With a reduced capacity macro
          AND assertions the pre-f2f61d1 code aborted on a valid call (audit3 D3; fixed, and covered for every option combination by
          Properties/C04.v c04_asserts_option): outside the domain of C03's statements *)
   ("cast_format", CodecDefaultOnly)]%string.
       (* renders the saturation bounds / casts of _serialize_integer/_float through the `literal` filter; what the default renders is
          C05's literal theorem; a custom format string is never built *)

Definition cpp_option_coverage : list (string * coverage) :=
  [("target_endianness", CodecPairwise ["any"; "little"; "big"]);   (* selects the getU16/32/64 / setUxx rendering inside the support header; Prims/CppPrims.v models one *)
   ("omit_float_serialization_support", ProvedGate); ("enable_serialization_asserts", Proved);
   ("enable_override_variable_array_capacity", CodecPairwise ["false"; "true"]);
   ("std", DeclPairwise ["c++14"; "c++17"; "c++20"]); ("std_flavor", DeclPairwise ["std"; "pmr"]);     (* cetl: no headers offline, never built *)
   ("cast_format", CodecDefaultOnly);
   ("variable_array_type_include", DeclPairwise ["<vector>"; """c03_vec.hpp"""]);
   ("variable_array_type_template", DeclPairwise ["std::vector<{TYPE}>"; "::c03stub::vec<{TYPE}, {MAX_SIZE}>"]);   (* harness stub c03_cfg/include/c03_vec.hpp *)
   ("variable_array_type_constructor_args", DeclNotExercised);
   ("allocator_include", DeclPairwise [""; "<memory_resource>"]); ("allocator_type", DeclPairwise [""; "std::pmr::polymorphic_allocator"]);
   ("allocator_is_default_constructible", DeclPairwise ["true"]);    (* false: only with cetl, not buildable offline *)
   ("ctor_convention", CodecPairwise ["default"; "uses-trailing-allocator"; "uses-leading-allocator"])]%string.
       (* reaches the C++ deserializer through `default_construction` of the array-element temporaries *)

(* floats anywhere in the type: with omit_float_serialization_support the generated C / C++ code for such a type does not compile *)
Fixpoint uses_float (t : ty) : bool :=
  match t with
  | TPrim (PF _ _) => true
  | TPrim _ => false
  | TFix e _ | TVar e _ => uses_float e
  | TComp _ fs _ => existsb uses_float fs
  end.
Definition buildable (tg : target) (o : options) (t : ty) : bool :=
  match tg with TgPy => true | _ => negb (omit_float_serialization_support o && uses_float t) end.

Definition target_pre (tg : target) (t : ty) (v : val) : val :=
  match tg with TgPy => py_pre t v | _ => v end.

(* spec-side description of T_serialize_ / serialize() / nunavut_support.serialize of target tg *)
Definition spec_ser (tg : target) (t : ty) (v : val) (cap_bytes : nat) : res (list bool) :=
  ser_spec t (target_pre tg t v) cap_bytes.

(* deserializers report (value, consumed bytes); nunavut_support.deserialize reports the value only *)
Definition dobs : Type := res (val * option nat).
Definition with_size (r : res (val * nat)) : dobs := match r with Ok (v, c) => Ok (v, Some c) | Err e => Err e end.
Definition no_size (r : res val) : dobs := match r with Ok v => Ok (v, None) | Err e => Err e end.
Definition dobs_val (r : dobs) : res val := match r with Ok (v, _) => Ok v | Err e => Err e end.
Definition consumed_of (tg : target) (n : nat) : option nat := match tg with TgPy => None | _ => Some n end.
Definition spec_des (tg : target) (t : ty) (bits : list bool) : dobs :=
  match des_spec t bits with Ok (v, c) => Ok (v, consumed_of tg c) | Err e => Err e end.

(* for the harness: request `pser` *)
Definition py_ser (t : ty) (v : val) (cap_bytes : nat) : res (list bool) := spec_ser TgPy t v cap_bytes.
Definition tie_free (t : ty) (v : val) : bool := no_f16_tie t v.
