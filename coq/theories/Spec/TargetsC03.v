(* C03: targets, the option fields that reach the code-shaped models, and the SPEC-SIDE description of each target's serializer
   (`spec_ser`): the ONE wire specification applied to the target's pre-adjusted value (Spec/TargetPre.v: identity for C and C++,
   round-half-even float16 ties for Python).  The observables of the generated code themselves are defined over the shipped
   primitive models in Codec/ObsC03.v and PROVED equal to these in Codec/ObsC03Thm.v.  No proofs in this file. *)
From Verif Require Export Wire TargetPre.
Local Open Scope nat_scope.

Inductive target : Type := TgC | TgCpp | TgPy.

(* the code-generation options that select different generated code / support-library renderings in the models:
     opt_little    target_endianness = little (memmove / direct loads rendering of nunavutSetUxx / nunavutGetU8..64) vs any|big (portable
                   byte assembly): the `little` argument of Prims/CPrims.v;
     opt_setzeros  C++: zero runs (alignment padding, void fields) written by bitspan::setZeros vs by setUxx(0, n): the `zv`
                   argument of Codec/InstancesCpp.v (both renderings occur in the templates: padAndMoveToAlignment / void fields);
     opt_asserts   enable_serialization_asserts: the epilogue assertions of the generated (de)serializers are compiled in.
   C++ standard / allocator flavour and the variable-array container change the storage OBJECT only (std::vector vs pmr vector,
   variant emulation); the walkers consume abstract values, so these options do not reach the models - they are covered by the
   pairwise correspondence runs of the check, not by a theorem. *)
Record options : Type := { opt_little : bool; opt_setzeros : bool; opt_asserts : bool }.
Definition default_options : options := {| opt_little := false; opt_setzeros := true; opt_asserts := false |}.

Definition target_pre (tg : target) (t : ty) (v : val) : val :=
  match tg with TgPy => py_pre t v | _ => v end.

(* spec-side description of T_serialize_ / serialize() / nunavut_support.serialize of target tg *)
Definition spec_ser (tg : target) (t : ty) (v : val) (cap_bytes : nat) : res (list bool) :=
  ser_spec t (target_pre tg t v) cap_bytes.

(* for the harness: request `pser` *)
Definition py_ser (t : ty) (v : val) (cap_bytes : nat) : res (list bool) := spec_ser TgPy t v cap_bytes.
Definition tie_free (t : ty) (v : val) : bool := no_f16_tie t v.
