(* C03: the three code-generation targets as observable functions, all routed through the ONE wire specification
   (Spec/Wire.v).  A target's observable behaviour = the specification composed with that target's documented float16
   rounding rule:
     C, C++   nunavutFloat16Pack / float16Pack (the same code in both support headers): nearest, ties AWAY from zero
              (Prims/F16.v `f16_pack`, theorem F16ArithThm.f16_rounding_rule) - this is what Spec/Wire.v `cast_f` uses;
     Python   struct.pack('<e', x): nearest, ties to EVEN.
   So the Python target is the specification applied to a pre-adjusted value: a float16 field holding an exact tie whose
   away-rounded half is odd gets the (exactly representable) even neighbour instead; everything else is untouched.
   Code-generation options (target_endianness, asserts, C++ standard / allocator flavour, array container) are a parameter of
   `target_ser` / `target_des` that is not used: the specification takes no option argument.  No proofs in this file. *)
From Verif Require Export Wire.
Local Open Scope N_scope.

(* ---- exact float16 ties, on the magnitude y < 2^31 of a binary32 pattern ----
   normal half results (E >= 113): the 13 dropped bits are exactly 1000000000000;
   subnormal half results (102 <= E <= 112): the 126-E dropped bits of the 24-bit significand are exactly 10...0;
   below 2^-25 (E <= 101) everything rounds to zero, at and beyond 65520 everything rounds to infinity in both rules
   (the `odd` test below keeps those equal) *)
Definition is_tie16 (y : N) : bool :=
  if F32INF <=? y then false
  else let E := b32_exp y in
       if 113 <=? E then (N.land y 8191 =? 4096)
       else if 102 <=? E then (N.land (N.shiftl 1 23 + b32_man y) (N.ones (126 - E)) =? N.shiftl 1 (125 - E))
            else false.

(* what reaches the pack function: the 32 storage bits, clamped first when the field is saturated *)
Definition f16_in (sat : bool) (x : N) : N := if sat then sat16 (x mod 2 ^ 32) else x mod 2 ^ 32.
Definition f16_tie (sat : bool) (x : N) : bool := is_tie16 (N.land (f16_in sat x) 2147483647).

(* round-half-even result of packing, expressed relative to the ties-away result *)
Definition f16_pack_rne (y : N) : N :=
  let h := f16_pack y in if is_tie16 (N.land y 2147483647) && N.odd h then h - 1 else h.

(* the binary32 value whose ties-away packing equals Python's ties-to-even packing of x *)
Definition py_f16 (sat : bool) (x : N) : N :=
  let h := f16_pack (f16_in sat x) in
  if f16_tie sat x && N.odd h then f16_unpack (h - 1) else x.

Definition is_f16 (w : nat) : bool := Nat.eqb w 16.

Definition py_leaf (p : prim) (v : val) : val :=
  match p, v with
  | PF w sat, VFlt x => if is_f16 w then VFlt (py_f16 sat x) else v
  | _, _ => v
  end.

Definition tie_leaf (p : prim) (v : val) : bool :=
  match p, v with
  | PF w sat, VFlt x => is_f16 w && f16_tie sat x
  | _, _ => false
  end.

(* ---- leaf-wise maps and tests over (type, value); lenient on malformed values (they are left alone / ignored) ---- *)
Section LeafCombinators.
  Variable M : ty -> val -> val.
  Fixpoint map_fields (fs : list ty) (vs : list val) : list val :=
    match fs, vs with f :: fs', x :: vs' => M f x :: map_fields fs' vs' | _, _ => vs end.
  Fixpoint map_sel (fs : list ty) (k : nat) (x : val) : val :=
    match fs, k with
    | [], _ => x
    | f :: _, O => M f x
    | _ :: r, S k' => map_sel r k' x
    end.
  Variable A : ty -> val -> bool.
  Fixpoint all_fields (fs : list ty) (vs : list val) : bool :=
    match fs, vs with f :: fs', x :: vs' => A f x && all_fields fs' vs' | _, _ => true end.
  Fixpoint all_sel (fs : list ty) (k : nat) (x : val) : bool :=
    match fs, k with
    | [], _ => true
    | f :: _, O => A f x
    | _ :: r, S k' => all_sel r k' x
    end.
End LeafCombinators.

Fixpoint map_prims (F : prim -> val -> val) (t : ty) (v : val) : val :=
  match t, v with
  | TPrim p, _ => F p v
  | TFix e _, VArr l => VArr (map (map_prims F e) l)
  | TVar e _, VArr l => VArr (map (map_prims F e) l)
  | TComp false fs _, VStruct vs => VStruct (map_fields (map_prims F) fs vs)
  | TComp true fs _, VUnion k x => VUnion k (map_sel (map_prims F) fs k x)
  | _, _ => v
  end.

Fixpoint all_prims (G : prim -> val -> bool) (t : ty) (v : val) : bool :=
  match t, v with
  | TPrim p, _ => G p v
  | TFix e _, VArr l => forallb (all_prims G e) l
  | TVar e _, VArr l => forallb (all_prims G e) l
  | TComp false fs _, VStruct vs => all_fields (all_prims G) fs vs
  | TComp true fs _, VUnion k x => all_sel (all_prims G) fs k x
  | _, _ => true
  end.

(* the trigger of finding F-F16-TIE as a boolean predicate: no float16 field of v holds an exact tie *)
Definition no_f16_tie (t : ty) (v : val) : bool := all_prims (fun p x => negb (tie_leaf p x)) t v.

(* a decoded float16 NaN is canonical when re-encoding reproduces it (the pack function emits 0x7E00 | sign only) *)
Definition nan_canon_leaf (p : prim) (v : val) : bool :=
  match p, v with
  | PF w _, VFlt x => negb (is_f16 w) || negb (is_nan32 x) || (f16_unpack (f16_pack (x mod 2 ^ 32)) =? x)
  | _, _ => true
  end.
Definition f16_nans_canonical (t : ty) (v : val) : bool := all_prims nan_canon_leaf t v.

(* ---- targets and options ---- *)
Inductive target : Type := TgC | TgCpp | TgPy.

Inductive endianness : Type := EndAny | EndLittle | EndBig.
Inductive cpp_std : Type := Cpp14 | Cpp17 | Cpp20 | Cpp17Pmr | CetlPP.
Record options : Type := {
  opt_endianness : endianness;        (* target_endianness; `little`/`big` only valid on a host of that endianness *)
  opt_asserts : bool;                 (* enable_serialization_asserts *)
  opt_std : cpp_std;                  (* C++ std / std_flavor: container, variant and allocator types only *)
  opt_override_vla_capacity : bool;   (* enable_override_variable_array_capacity *)
}.

Definition target_pre (tg : target) (t : ty) (v : val) : val :=
  match tg with TgPy => map_prims py_leaf t v | _ => v end.

(* observable of T_serialize_ / serialize() / nunavut_support.serialize under target tg and option set o *)
Definition target_ser (tg : target) (o : options) (t : ty) (v : val) (cap_bytes : nat) : res (list bool) :=
  ser_spec t (target_pre tg t v) cap_bytes.

(* observable of the deserializers: float16 unpacking is exact in every target *)
Definition target_des (tg : target) (o : options) (t : ty) (bs : list bool) : res (val * nat) :=
  des_spec t bs.

Definition default_options : options :=
  {| opt_endianness := EndAny; opt_asserts := false; opt_std := Cpp14; opt_override_vla_capacity := false |}.

(* for the harness: request `tser py ...` *)
Definition py_ser (t : ty) (v : val) (cap_bytes : nat) : res (list bool) := target_ser TgPy default_options t v cap_bytes.
Definition tie_free (t : ty) (v : val) : bool := no_f16_tie t v.
