(* DSDL serializable types and abstract values (shared by C01-C05).
   Types are trees: a composite carries its field types inline (the harness inlines the pydsdl DAG).
   A composite is a structure or a tagged union, sealed (ext = None) or delimited (ext = Some extent_bits).
   Services are two composites.  Padding fields are void-typed fields. *)
From Coq Require Export List NArith ZArith Bool Lia.
Export ListNotations.

Inductive prim : Type :=
| PBool
| PU (w : nat) (sat : bool)      (* unsigned, 1..64 bits; sat = saturated cast mode, otherwise truncated *)
| PS (w : nat) (sat : bool)      (* signed two's complement, 2..64 bits (pydsdl only admits saturated) *)
| PF (w : nat) (sat : bool)      (* IEEE-754 binary16/32/64 *)
| PVoid (w : nat).

Inductive ty : Type :=
| TPrim (p : prim)
| TFix (e : ty) (n : nat)
| TVar (e : ty) (cap : nat)
| TComp (u : bool) (fs : list ty) (ext : option nat).

(* storage-level values; floats are raw bit patterns of the storage type (binary32 for float16/float32 fields,
   binary64 for float64 fields) *)
Inductive val : Type :=
| VBool (b : bool)
| VInt (z : Z)
| VFlt (bits : N)
| VVoid
| VArr (l : list val)
| VStruct (l : list val)
| VUnion (tag : nat) (v : val).

(* nested induction principle, written by hand *)
Section ty_nested_ind.
  Variable P : ty -> Prop.
  Hypothesis Hp : forall p, P (TPrim p).
  Hypothesis Hf : forall e n, P e -> P (TFix e n).
  Hypothesis Hv : forall e c, P e -> P (TVar e c).
  Hypothesis Hc : forall u fs ext, Forall P fs -> P (TComp u fs ext).
  Fixpoint ty_nested_ind (t : ty) : P t :=
    match t with
    | TPrim p => Hp p
    | TFix e n => Hf e n (ty_nested_ind e)
    | TVar e c => Hv e c (ty_nested_ind e)
    | TComp u fs ext =>
        Hc u fs ext ((fix go (l : list ty) : Forall P l :=
                        match l with
                        | [] => Forall_nil P
                        | x :: r => Forall_cons x (ty_nested_ind x) (go r)
                        end) fs)
    end.
End ty_nested_ind.

Section val_nested_ind.
  Variable P : val -> Prop.
  Hypothesis Hb : forall b, P (VBool b).
  Hypothesis Hi : forall z, P (VInt z).
  Hypothesis Hfl : forall x, P (VFlt x).
  Hypothesis Hvo : P VVoid.
  Hypothesis Ha : forall l, Forall P l -> P (VArr l).
  Hypothesis Hs : forall l, Forall P l -> P (VStruct l).
  Hypothesis Hu : forall k v, P v -> P (VUnion k v).
  Fixpoint val_nested_ind (v : val) : P v :=
    match v with
    | VBool b => Hb b | VInt z => Hi z | VFlt x => Hfl x | VVoid => Hvo
    | VArr l => Ha l ((fix go (l : list val) : Forall P l :=
                         match l with [] => Forall_nil P | x :: r => Forall_cons x (val_nested_ind x) (go r) end) l)
    | VStruct l => Hs l ((fix go (l : list val) : Forall P l :=
                         match l with [] => Forall_nil P | x :: r => Forall_cons x (val_nested_ind x) (go r) end) l)
    | VUnion k x => Hu k x (val_nested_ind x)
    end.
End val_nested_ind.

(* well-formedness of a type as the front end guarantees it *)
Definition prim_wf (p : prim) : bool :=
  match p with
  | PBool => true
  | PU w _ => (1 <=? w) && (w <=? 64)
  | PS w _ => (2 <=? w) && (w <=? 64)
  | PF w _ => (w =? 16) || (w =? 32) || (w =? 64)
  | PVoid w => (1 <=? w) && (w <=? 64)
  end%nat.
