(* C03: round trip, re-serialization, cross-target and option independence - proofs.
   Everything is a corollary of the specification-level theorems (Spec/WireThm*.v) because every target is the ONE wire
   specification composed with its float16 rounding rule (Spec/TargetsC03.v).  New here: enc_cast_idem (the storage->wire
   cast is idempotent on encodings; for float16 this is pack (unpack h) = h on the image of pack, from the C14 theorems
   F16Thm.f16_roundtrip, F16ArithThm.f16_pack_sign / f16_inf_nan / f16_rounding_rule), and "cast values hold no float16 tie". *)
From Verif Require Import Wire WireThm WireThmRt WireThmExt WireThmValid Walker Refine TargetsC03 F16 F16Thm F16ArithThm.
From Coq Require Import Lia ZifyBool ZifyNat ZifyN.
Local Open Scope nat_scope.
Ltac Zify.zify_post_hook ::= Z.div_mod_to_equations.

(* ================================================================================================================== *)
(* float16 leaf facts                                                                                                 *)
(* ================================================================================================================== *)
Section F16Leaf.
  Local Open Scope N_scope.

  Lemma f16_pack_lt x : x < 4294967296 -> f16_pack x < 65536.
  Proof.
    intros Hx. rewrite (f16_pack_sign x Hx).
    pose proof (pack_mag_lt (x mod 2147483648) ltac:(lia)). assert (x / 2147483648 <= 1) by lia. nia.
  Qed.

  Lemma pack_mag_nan y : y < 2147483648 -> is_nan16 (pack_mag y) = true -> pack_mag y = 32256.
  Proof.
    intros Hy Hn. destruct (N.lt_ge_cases y F32INF) as [Hf|Hf].
    - destruct (f16_rounding_rule y Hf) as [Hb _]. unfold is_nan16 in Hn.
      change 32767 with (N.ones 15) in Hn. rewrite N.land_ones in Hn. change (2 ^ 15) with 32768 in Hn.
      apply N.ltb_lt in Hn. lia.
    - destruct (f16_inf_nan y Hf Hy) as [Hi Hgt].
      destruct (N.eq_dec y F32INF) as [E|E].
      + rewrite (Hi E) in Hn. discriminate Hn.
      + apply Hgt. lia.
  Qed.

  Lemma is_nan16_signed pm s : pm < 32768 -> s <= 1 -> is_nan16 (pm + 32768 * s) = is_nan16 pm.
  Proof.
    intros Hp Hs. unfold is_nan16. change 32767 with (N.ones 15). rewrite !N.land_ones. change (2 ^ 15) with 32768.
    replace ((pm + 32768 * s) mod 32768) with pm by lia. replace (pm mod 32768) with pm by lia. reflexivity.
  Qed.

  (* the image of the pack function: a non-NaN half, or one of the two canonical NaNs *)
  Lemma pack_image x : x < 4294967296 ->
    is_nan16 (f16_pack x) = false \/ f16_pack x = 32256 \/ f16_pack x = 65024.
  Proof.
    intros Hx. rewrite (f16_pack_sign x Hx).
    pose proof (pack_mag_lt (x mod 2147483648) ltac:(lia)) as Hp. assert (Hs : x / 2147483648 <= 1) by lia.
    rewrite is_nan16_signed by assumption.
    destruct (is_nan16 (pack_mag (x mod 2147483648))) eqn:En; [right|left; reflexivity].
    rewrite (pack_mag_nan (x mod 2147483648) ltac:(lia) En).
    assert (x / 2147483648 = 0 \/ x / 2147483648 = 1) as [-> | ->] by lia; [left|right]; reflexivity.
  Qed.

  Theorem pack_unpack_pack x : x < 4294967296 -> f16_pack (f16_unpack (f16_pack x)) = f16_pack x.
  Proof.
    intros Hx. destruct (pack_image x Hx) as [Hn | [-> | ->]].
    - apply f16_roundtrip; [apply f16_pack_lt; exact Hx | exact Hn].
    - vm_compute. reflexivity.
    - vm_compute. reflexivity.
  Qed.

  (* an unpacked half is a fixed point of the saturation and of the 32-bit truncation, and is never a rounding tie *)
  Definition unpack_fix_ok (h : N) : bool :=
    (sat16 (f16_unpack h) =? f16_unpack h) && (f16_unpack h mod 2 ^ 32 =? f16_unpack h)
    && negb (is_tie16 (N.land (f16_unpack h) 2147483647)).
  Lemma sweep_unpack_fix : forall_below 65536 unpack_fix_ok = true.
  Proof. vm_compute. reflexivity. Qed.

  Lemma unpack_fix h : h < 65536 ->
    sat16 (f16_unpack h) = f16_unpack h /\ f16_unpack h mod 2 ^ 32 = f16_unpack h /\
    is_tie16 (N.land (f16_unpack h) 2147483647) = false.
  Proof.
    intros Hh. pose proof (forall_below_spec _ _ sweep_unpack_fix h Hh) as H. unfold unpack_fix_ok in H.
    apply andb_prop in H as [H H3]. apply andb_prop in H as [H1 H2].
    apply N.eqb_eq in H1. apply N.eqb_eq in H2. apply negb_true_iff in H3. auto.
  Qed.

  Lemma f16_in_unpack sat h : h < 65536 -> f16_in sat (f16_unpack h) = f16_unpack h.
  Proof.
    intros Hh. destruct (unpack_fix h Hh) as (H1 & H2 & _). unfold f16_in. rewrite H2. destruct sat; [exact H1 | reflexivity].
  Qed.

  Lemma sat16_lt z : z < 4294967296 -> sat16 z < 4294967296.
  Proof.
    intros Hz. unfold sat16. destruct (_ <? F32INF); [|exact Hz]. destruct (F32_65504 <? _); [|exact Hz].
    change (N.shiftl 1 31) with (2 ^ 31). rewrite land_pow2. destruct (N.testbit z 31); vm_compute; reflexivity.
  Qed.

  Lemma f16_in_lt sat x : f16_in sat x < 4294967296.
  Proof.
    unfold f16_in. change (2 ^ 32) with 4294967296. assert (x mod 4294967296 < 4294967296) by (apply N.mod_lt; discriminate).
    destruct sat; [apply sat16_lt; assumption | assumption].
  Qed.

  Lemma cast_f16_eq sat x : cast_f 16 sat x = f16_pack (f16_in sat x).
  Proof. reflexivity. Qed.

  Lemma cast_f16_lt sat x : cast_f 16 sat x < 65536.
  Proof. rewrite cast_f16_eq. apply f16_pack_lt. apply f16_in_lt. Qed.

  (* cast is idempotent on a float16 field: re-packing the unpacked image gives the image *)
  Lemma cast_f16_idem sat x : cast_f 16 sat (f16_unpack (cast_f 16 sat x)) = cast_f 16 sat x.
  Proof.
    rewrite !cast_f16_eq. rewrite f16_in_unpack by (apply f16_pack_lt; apply f16_in_lt).
    apply pack_unpack_pack. apply f16_in_lt.
  Qed.

  (* ---- the Python rule really is round-half-to-even: on the midpoint between the halves h and h+1 (every finite h, the
     last one being the overflow threshold 65520) the C rule gives h+1, the Python rule the even one of the two ---- *)
  Definition mid16 (h : N) : N :=
    if h <? 1024 then
      let n := 2 * h + 1 in let p := N.log2 n in N.shiftl (p + 102) 23 + N.shiftl (n - N.shiftl 1 p) (23 - p)
    else N.shiftl h 13 + N.shiftl 112 23 + 4096.
  Definition rne_on_tie_ok (h : N) : bool :=
    is_tie16 (mid16 h) && (pack_mag (mid16 h) =? h + 1) && (f16_pack_rne (mid16 h) =? (if N.even h then h else h + 1))
    && (val32 (mid16 h) * 2 =? N.shiftl (val16 h + val16 (h + 1)) 125).
  Lemma sweep_rne_on_tie : forall_below 31744 rne_on_tie_ok = true.
  Proof. vm_compute. reflexivity. Qed.

  Theorem f16_rne_on_ties h : h < 31744 ->
    val32 (mid16 h) * 2 = N.shiftl (val16 h + val16 (h + 1)) 125 /\        (* mid16 h is exactly half way between h and h+1 *)
    is_tie16 (mid16 h) = true /\ pack_mag (mid16 h) = h + 1 /\ f16_pack_rne (mid16 h) = (if N.even h then h else h + 1).
  Proof.
    intros Hh. pose proof (forall_below_spec _ _ sweep_rne_on_tie h Hh) as H. unfold rne_on_tie_ok in H.
    apply andb_prop in H as [H H4]. apply andb_prop in H as [H H3]. apply andb_prop in H as [H1 H2].
    apply N.eqb_eq in H2, H3, H4. auto.
  Qed.
End F16Leaf.

(* ================================================================================================================== *)
(* the cast is idempotent on encodings: enc (cast v) = enc v                                                          *)
(* ================================================================================================================== *)
Lemma pow2_pos' w : (0 < pow2 w)%Z.
Proof. unfold pow2. apply Z.pow_pos_nonneg; lia. Qed.

Lemma pow2_N w : Z.of_N (2 ^ N.of_nat w) = pow2 w.
Proof. unfold pow2. rewrite N2Z.inj_pow, nat_N_Z. reflexivity. Qed.

Lemma to_N_lt w z : (0 <= z < pow2 w)%Z -> (Z.to_N z < 2 ^ N.of_nat w)%N.
Proof. intros H. apply N2Z.inj_lt. rewrite Z2N.id, pow2_N; lia. Qed.

Lemma of_N_lt w n : (n < 2 ^ N.of_nat w)%N -> (0 <= Z.of_N n < pow2 w)%Z.
Proof. intros H. apply N2Z.inj_lt in H. rewrite pow2_N in H. lia. Qed.

Lemma pow2_half w : 1 <= w -> pow2 w = (2 * pow2 (w - 1))%Z.
Proof.
  intros H. unfold pow2. replace (Z.of_nat w) with (Z.succ (Z.of_nat (w - 1))) by lia. rewrite Z.pow_succ_r by lia. reflexivity.
Qed.

Lemma read_back w n : (n < 2 ^ N.of_nat w)%N -> read_N w (bits_of_N w n) = n.
Proof. intros H. rewrite <- (app_nil_r (bits_of_N w n)). apply read_N_bits. exact H. Qed.

Lemma cast_u_lt w sat z : (cast_u w sat z < 2 ^ N.of_nat w)%N.
Proof.
  pose proof (pow2_pos' w) as Hp. unfold cast_u, clampZ.
  destruct sat; apply to_N_lt; [|apply Z.mod_pos_bound; exact Hp].
  destruct (z <? 0)%Z eqn:E1; [lia|]. destruct (pow2 w - 1 <? z)%Z eqn:E2; lia.
Qed.

Lemma cast_u_of_N w sat n : (n < 2 ^ N.of_nat w)%N -> cast_u w sat (Z.of_N n) = n.
Proof.
  intros H. apply of_N_lt in H. unfold cast_u, clampZ. destruct sat.
  - destruct (Z.of_N n <? 0)%Z eqn:E1; [lia|]. destruct (pow2 w - 1 <? Z.of_N n)%Z eqn:E2; [lia|]. apply N2Z.id.
  - rewrite Z.mod_small by lia. apply N2Z.id.
Qed.

Lemma cast_s_lt w sat z : (cast_s w sat z < 2 ^ N.of_nat w)%N.
Proof. unfold cast_s. apply to_N_lt. apply Z.mod_pos_bound. apply pow2_pos'. Qed.

Lemma cast_s_signed_of w sat n : 1 <= w -> (n < 2 ^ N.of_nat w)%N -> cast_s w sat (signed_of w n) = n.
Proof.
  intros Hw H. apply of_N_lt in H. pose proof (pow2_half w Hw) as Hh. pose proof (pow2_pos' (w - 1)) as Hp.
  unfold cast_s, signed_of, clampZ.
  destruct (Z.of_N n <? pow2 (w - 1))%Z eqn:E.
  - assert (Hc : (if sat then (if (Z.of_N n <? - pow2 (w - 1))%Z then (- pow2 (w - 1))%Z
                               else if (pow2 (w - 1) - 1 <? Z.of_N n)%Z then (pow2 (w - 1) - 1)%Z else Z.of_N n) else Z.of_N n)
                  = Z.of_N n).
    { destruct sat; [|reflexivity]. destruct (Z.of_N n <? - pow2 (w - 1))%Z eqn:E1; [lia|].
      destruct (pow2 (w - 1) - 1 <? Z.of_N n)%Z eqn:E2; [lia|reflexivity]. }
    rewrite Hc. rewrite Z.mod_small by lia. apply N2Z.id.
  - set (zz := (Z.of_N n - pow2 w)%Z).
    assert (Hc : (if sat then (if (zz <? - pow2 (w - 1))%Z then (- pow2 (w - 1))%Z
                               else if (pow2 (w - 1) - 1 <? zz)%Z then (pow2 (w - 1) - 1)%Z else zz) else zz) = zz).
    { destruct sat; [|reflexivity]. subst zz. destruct (Z.of_N n - pow2 w <? - pow2 (w - 1))%Z eqn:E1; [lia|].
      destruct (pow2 (w - 1) - 1 <? Z.of_N n - pow2 w)%Z eqn:E2; [lia|reflexivity]. }
    rewrite Hc. subst zz. replace (Z.of_N n - pow2 w)%Z with (Z.of_N n + (-1) * pow2 w)%Z by lia.
    rewrite Z.mod_add by lia. rewrite Z.mod_small by lia. apply N2Z.id.
Qed.

Lemma enc_prim_cast_idem p v b : prim_wf p = true -> enc_prim p v = Ok b -> enc_prim p (cast_prim p v) = Ok b.
Proof.
  intros Hwf H. unfold cast_prim. rewrite H.
  destruct p as [|w sat|w sat|w sat|w], v; cbn [enc_prim] in H; try discriminate; apply Ok_inj in H; subst b; cbn [dec_prim enc_prim].
  - reflexivity.
  - rewrite read_back by apply cast_u_lt. rewrite cast_u_of_N by apply cast_u_lt. reflexivity.
  - cbn [prim_wf] in Hwf. apply andb_prop in Hwf as [Hw _]. apply Nat.leb_le in Hw.
    rewrite read_back by apply cast_s_lt. rewrite cast_s_signed_of by (try lia; apply cast_s_lt). reflexivity.
  - destruct (w =? 16) eqn:Ew.
    + apply Nat.eqb_eq in Ew. subst w. rewrite read_back by (change (2 ^ N.of_nat 16)%N with 65536%N; apply cast_f16_lt).
      rewrite cast_f16_idem. reflexivity.
    + assert (Hlt : (cast_f w sat bits < 2 ^ N.of_nat w)%N).
      { unfold cast_f. rewrite Ew. apply N.mod_lt. apply N.pow_nonzero. discriminate. }
      rewrite read_back by exact Hlt. f_equal. f_equal. unfold cast_f. rewrite Ew.
      rewrite N.mod_mod by (apply N.pow_nonzero; discriminate). reflexivity.
  - reflexivity.
Qed.

Definition P_ci (t : ty) : Prop := wf_ty t = true -> forall v b, enc_body t v = Ok b -> enc_body t (cast_val t v) = Ok b.
Definition P_cif (t : ty) : Prop := wf_ty t = true -> forall v b, enc_field t v = Ok b -> enc_field t (cast_val t v) = Ok b.

Lemma ci_body_to_field t : P_ci t -> P_cif t.
Proof.
  intros H Hwf v b. unfold enc_field, as_field_enc.
  destruct t as [p|e n|e c|u fs [x|]]; try (apply H; exact Hwf).
  destruct (enc_body (TComp u fs (Some x)) v) as [b0|] eqn:E; cbn [bind]; intros Hb; [|discriminate Hb].
  rewrite (H Hwf _ _ E). cbn [bind]. exact Hb.
Qed.

Lemma ci_list Ee cv : (forall x b, Ee x = Ok b -> Ee (cv x) = Ok b) ->
  forall l b, enc_list Ee l = Ok b -> enc_list Ee (map cv l) = Ok b.
Proof.
  intros H. induction l as [|x l IH]; cbn [enc_list map]; intros b Hb; [exact Hb|].
  destruct (Ee x) as [b1|] eqn:E1; cbn [bind] in Hb; [|discriminate].
  destruct (enc_list Ee l) as [b2|] eqn:E2; cbn [bind] in Hb; [|discriminate].
  rewrite (H _ _ E1). cbn [bind]. rewrite (IH _ eq_refl). cbn [bind]. exact Hb.
Qed.

Lemma ci_fields fs : Forall P_cif fs -> forallb wf_ty fs = true ->
  forall vs off b, enc_fields enc_field fs vs off = Ok b -> enc_fields enc_field fs (cast_fields cast_val fs vs) off = Ok b.
Proof.
  induction 1 as [|f fs Hf Hfs IH]; intros Hwf vs off b Hb.
  - destruct vs; cbn [enc_fields] in Hb; [|discriminate]. cbn [cast_fields]. exact Hb.
  - cbn [forallb] in Hwf. apply andb_prop in Hwf. destruct Hwf as [Hwf1 Hwf2].
    destruct vs as [|v vs]; cbn [enc_fields] in Hb; [discriminate|].
    destruct (enc_field f v) as [b1|] eqn:E1; cbn [bind] in Hb; [|discriminate].
    destruct (enc_fields enc_field fs vs _) as [b2|] eqn:E2; cbn [bind] in Hb; [|discriminate].
    cbn [cast_fields enc_fields]. rewrite (Hf Hwf1 _ _ E1). cbn [bind]. rewrite (IH Hwf2 _ _ _ E2). cbn [bind]. exact Hb.
Qed.

Lemma ci_sel fs : Forall P_cif fs -> forallb wf_ty fs = true ->
  forall k x b, enc_sel enc_field fs k x = Ok b -> enc_sel enc_field fs k (cast_sel cast_val fs k x) = Ok b.
Proof.
  induction 1 as [|f fs Hf Hfs IH]; intros Hwf k x b Hb; [destruct k; discriminate|].
  cbn [forallb] in Hwf. apply andb_prop in Hwf. destruct Hwf as [Hwf1 Hwf2].
  destruct k as [|k]; cbn [enc_sel cast_sel] in *.
  - apply (Hf Hwf1). exact Hb.
  - apply (IH Hwf2). exact Hb.
Qed.

Theorem enc_cast_idem_all : forall t, P_ci t.
Proof.
  induction t using ty_nested_ind; unfold P_ci; intros Hwf v b Hb.
  - cbn [enc_body cast_val wf_ty] in *. apply enc_prim_cast_idem; assumption.
  - cbn [enc_body] in Hb. destruct v; try discriminate.
    destruct (length l =? n) eqn:En; [|discriminate].
    cbn [cast_val enc_body]. rewrite map_length, En. cbn [wf_ty] in Hwf.
    apply (ci_list _ (cast_val t)); [|exact Hb]. intros x b0. apply (ci_body_to_field t IHt Hwf).
  - cbn [enc_body] in Hb. destruct v; try discriminate.
    destruct (c <? length l) eqn:Ec; [discriminate|].
    destruct (enc_list _ l) as [b0|] eqn:E0; cbn [bind] in Hb; [|discriminate].
    cbn [wf_ty] in Hwf. apply andb_prop in Hwf. destruct Hwf as [Hwf _].
    cbn [cast_val enc_body]. rewrite map_length, Ec.
    rewrite (ci_list (as_field_enc enc_body t) (cast_val t) (fun x b1 => ci_body_to_field t IHt Hwf x b1) l b0 E0). cbn [bind]. exact Hb.
  - assert (Hf : Forall P_cif fs).
    { rewrite Forall_forall in *. intros f Hin. apply ci_body_to_field. apply H. exact Hin. }
    assert (Hwfs : forallb wf_ty fs = true).
    { cbn [wf_ty] in Hwf. apply andb_prop in Hwf. destruct Hwf as [Hwf _]. apply andb_prop in Hwf. destruct Hwf as [Hwf _]. exact Hwf. }
    destruct u; cbn [enc_body] in Hb.
    + destruct v; try discriminate.
      destruct (enc_sel _ fs tag v) as [b0|] eqn:E0; cbn [bind] in Hb; [|discriminate].
      cbn [cast_val enc_body]. change (as_field_enc enc_body) with enc_field in *.
      rewrite (ci_sel fs Hf Hwfs _ _ _ E0). cbn [bind]. exact Hb.
    + destruct v; try discriminate.
      cbn [cast_val enc_body]. change (as_field_enc enc_body) with enc_field in *.
      apply (ci_fields fs Hf Hwfs). exact Hb.
Qed.

(* ser (cast v) = ser v *)
Theorem enc_cast_idem : forall t v b, wf_ty t = true -> enc_body t v = Ok b -> enc_body t (cast_val t v) = Ok b.
Proof. intros t v b Hwf Hb. exact (enc_cast_idem_all t Hwf v b Hb). Qed.

Theorem ser_cast_idem : forall t v cap b, wf_ty t = true -> ser_spec t v cap = Ok b -> ser_spec t (cast_val t v) cap = Ok b.
Proof.
  unfold ser_spec. intros t v cap b Hwf H. destruct (8 * cap <? bmax t); [discriminate|]. apply enc_cast_idem; assumption.
Qed.

(* ================================================================================================================== *)
(* leaf-wise maps: identity where the leaf predicate says so; cast values satisfy every predicate the cast leaves do   *)
(* ================================================================================================================== *)
Lemma map_fields_id M A fs : Forall (fun f => forall v, A f v = true -> M f v = v) fs ->
  forall vs, all_fields A fs vs = true -> map_fields M fs vs = vs.
Proof.
  induction 1 as [|f fs Hf _ IH]; intros vs Hv; [destruct vs; reflexivity|].
  destruct vs as [|x vs]; [reflexivity|]. cbn [map_fields all_fields] in *. apply andb_prop in Hv as [H1 H2].
  rewrite (Hf _ H1), (IH _ H2). reflexivity.
Qed.

Lemma map_sel_id M A fs : Forall (fun f => forall v, A f v = true -> M f v = v) fs ->
  forall k x, all_sel A fs k x = true -> map_sel M fs k x = x.
Proof.
  induction 1 as [|f fs Hf _ IH]; intros k x Hv; [destruct k; reflexivity|].
  destruct k; cbn [map_sel all_sel] in *; auto.
Qed.

Lemma map_list_id (M : val -> val) (A : val -> bool) : (forall v, A v = true -> M v = v) ->
  forall l, forallb A l = true -> map M l = l.
Proof.
  intros H. induction l as [|x l IH]; cbn [map forallb]; intros Hv; [reflexivity|].
  apply andb_prop in Hv as [H1 H2]. rewrite (H _ H1), (IH H2). reflexivity.
Qed.

Theorem map_prims_id F G : (forall p x, G p x = true -> F p x = x) ->
  forall t v, all_prims G t v = true -> map_prims F t v = v.
Proof.
  intros HL. induction t using ty_nested_ind; intros v Hv.
  - cbn [map_prims all_prims] in *. apply HL. exact Hv.
  - destruct v; cbn [map_prims all_prims] in *; try reflexivity. f_equal. apply (map_list_id _ _ IHt). exact Hv.
  - destruct v; cbn [map_prims all_prims] in *; try reflexivity. f_equal. apply (map_list_id _ _ IHt). exact Hv.
  - destruct u, v; cbn [map_prims all_prims] in *; try reflexivity; f_equal.
    + apply (map_sel_id _ (all_prims G)); [exact H | exact Hv].
    + apply (map_fields_id _ (all_prims G)); [exact H | exact Hv].
Qed.

Lemma all_fields_cast C A fs : Forall (fun f => forall v, A f (C f v) = true) fs ->
  forall vs, all_fields A fs (cast_fields C fs vs) = true.
Proof.
  induction 1 as [|f fs Hf _ IH]; intros vs; [destruct vs; reflexivity|].
  destruct vs as [|x vs]; [reflexivity|]. cbn [cast_fields all_fields]. rewrite Hf, IH. reflexivity.
Qed.

Lemma all_sel_cast C A fs : Forall (fun f => forall v, A f (C f v) = true) fs ->
  forall k x, all_sel A fs k (cast_sel C fs k x) = true.
Proof.
  induction 1 as [|f fs Hf _ IH]; intros k x; [destruct k; reflexivity|].
  destruct k; cbn [cast_sel all_sel]; auto.
Qed.

Theorem cast_all_prims G : (forall p x, G p (cast_prim p x) = true) -> forall t v, all_prims G t (cast_val t v) = true.
Proof.
  intros HL. induction t using ty_nested_ind; intros v.
  - cbn [cast_val all_prims]. apply HL.
  - destruct v; cbn [cast_val all_prims]; try reflexivity; try apply HL.
    apply forallb_forall. intros y Hy. apply in_map_iff in Hy as [x [<- _]]. apply IHt.
  - destruct v; cbn [cast_val all_prims]; try reflexivity.
    apply forallb_forall. intros y Hy. apply in_map_iff in Hy as [x [<- _]]. apply IHt.
  - destruct u, v; cbn [cast_val all_prims]; try reflexivity.
    + apply (all_sel_cast cast_val (all_prims G)). exact H.
    + apply (all_fields_cast cast_val (all_prims G)). exact H.
Qed.

Lemma py_leaf_id p x : negb (tie_leaf p x) = true -> py_leaf p x = x.
Proof.
  destruct p, x; cbn [tie_leaf py_leaf]; try reflexivity. intros H.
  destruct (is_f16 w); [|reflexivity]. cbn [andb] in H. apply negb_true_iff in H. unfold py_f16. rewrite H. reflexivity.
Qed.

Lemma tie_leaf_cast p x : negb (tie_leaf p (cast_prim p x)) = true.
Proof.
  unfold cast_prim. destruct (enc_prim p x) as [b|e] eqn:E.
  - destruct p as [|w sat|w sat|w sat|w], x; cbn [enc_prim] in E; try discriminate; cbn [dec_prim tie_leaf]; try reflexivity.
    apply Ok_inj in E. subst b. unfold is_f16. destruct (w =? 16) eqn:Ew; [|reflexivity].
    apply Nat.eqb_eq in Ew. subst w. rewrite read_back by (change (2 ^ N.of_nat 16)%N with 65536%N; apply cast_f16_lt).
    cbn [andb]. unfold f16_tie. rewrite f16_in_unpack by apply cast_f16_lt.
    destruct (unpack_fix (cast_f 16 sat bits) (cast_f16_lt sat bits)) as (_ & _ & Ht). rewrite Ht. reflexivity.
  - destruct p, x; cbn [enc_prim] in E; try discriminate; reflexivity.
Qed.

(* cast values hold no float16 tie, so the Python pre-adjustment leaves them alone *)
Theorem cast_no_tie : forall t v, no_f16_tie t (cast_val t v) = true.
Proof. intros t v. unfold no_f16_tie. apply cast_all_prims. exact tie_leaf_cast. Qed.

Theorem py_pre_id : forall t v, no_f16_tie t v = true -> target_pre TgPy t v = v.
Proof. intros t v H. unfold target_pre. exact (map_prims_id py_leaf _ py_leaf_id t v H). Qed.

Theorem target_pre_cast : forall tg t v, target_pre tg t (cast_val t v) = cast_val t v.
Proof. intros tg t v. destruct tg; try reflexivity. apply py_pre_id. apply cast_no_tie. Qed.

(* ================================================================================================================== *)
(* the C03 statements                                                                                                 *)
(* ================================================================================================================== *)

(* ---------- round trip, per target ---------- *)
Theorem target_roundtrip : forall tg o t v cap b r, wf_ty t = true -> align t = 8 ->
  target_ser tg o t v cap = Ok b ->
  target_des tg o t (b ++ r) = Ok (cast_val t (target_pre tg t v), length b / 8).
Proof. intros tg o t v cap b r Hwf Ha H. unfold target_ser, target_des in *. exact (des_ser_roundtrip _ _ _ _ r Hwf Ha H). Qed.

(* ---------- re-serialization: ser (des (ser v)) = ser v, per target ---------- *)
Theorem target_reser : forall tg o t v cap b v' k, wf_ty t = true -> align t = 8 ->
  target_ser tg o t v cap = Ok b -> target_des tg o t b = Ok (v', k) -> target_ser tg o t v' cap = Ok b.
Proof.
  intros tg o t v cap b v' k Hwf Ha Hs Hd.
  pose proof (target_roundtrip tg o t v cap b [] Hwf Ha Hs) as Hr. rewrite app_nil_r in Hr. rewrite Hr in Hd.
  apply Ok_inj in Hd. injection Hd as <- _.
  unfold target_ser in *. rewrite target_pre_cast. apply ser_cast_idem; assumption.
Qed.

(* ---------- decoding re-encoded decoded data: the bytes are stable from the first re-encoding on, and the value is the
   cast of the decoded value ---------- *)
Theorem target_des_ser_des : forall tg o t bs cap v k b, wf_ty t = true -> align t = 8 ->
  target_des tg o t bs = Ok (v, k) -> target_ser tg o t v cap = Ok b ->
  target_des tg o t b = Ok (cast_val t (target_pre tg t v), length b / 8) /\
  target_ser tg o t (cast_val t (target_pre tg t v)) cap = Ok b.
Proof.
  intros tg o t bs cap v k b Hwf Ha _ Hs.
  pose proof (target_roundtrip tg o t v cap b [] Hwf Ha Hs) as Hr. rewrite app_nil_r in Hr.
  split; [exact Hr | exact (target_reser tg o t v cap b _ _ Hwf Ha Hs Hr)].
Qed.

(* a decoded value can always be re-encoded (C and C++; any buffer that passes the capacity check) *)
Theorem des_then_ser_ok : forall o t bs v k cap, target_des TgC o t bs = Ok (v, k) -> bmax t <= 8 * cap ->
  exists b, target_ser TgC o t v cap = Ok b.
Proof.
  unfold target_des, target_ser, target_pre, des_spec, ser_spec. intros o t bs v k cap H Hc.
  destruct (dec_body t bs) as [[v0 n]|] eqn:E; cbn [bind] in H; [|discriminate]. apply Ok_inj in H. injection H as <- _.
  destruct (8 * cap <? bmax t) eqn:Ec; [apply Nat.ltb_lt in Ec; lia|]. exact (dec_then_enc_ok _ _ _ _ E).
Qed.

(* at the VALUE level the des-ser-des chain is not the identity on arbitrary input: a float16 NaN with a payload decodes to a
   binary32 NaN that re-encodes as the canonical NaN *)
Theorem des_ser_des_value_refuted : exists t bs v k b v' k', wf_ty t = true /\
  des_spec t bs = Ok (v, k) /\ ser_spec t v 2 = Ok b /\ des_spec t b = Ok (v', k') /\ v' <> v.
Proof.
  exists (TComp false [TPrim (PF 16 false)] None), (bits_of_N 16 31745), (VStruct [VFlt (f16_unpack 31745)]), 2,
         (bits_of_N 16 32256), (VStruct [VFlt (f16_unpack 32256)]), 2.
  vm_compute. repeat split; try reflexivity. discriminate.
Qed.

(* ---------- cross target ---------- *)
Theorem cross_target_ser_c_cpp : forall o1 o2 t v cap, target_ser TgC o1 t v cap = target_ser TgCpp o2 t v cap.
Proof. reflexivity. Qed.

Theorem cross_target_des_all : forall tg1 tg2 o1 o2 t bs, target_des tg1 o1 t bs = target_des tg2 o2 t bs.
Proof. reflexivity. Qed.

Definition tie_ty : ty := TComp false [TPrim (PF 16 false)] None.
Definition tie_val : val := VStruct [VFlt 1065357312%N].      (* 0x3F801000 = 1 + 2^-11 *)

Theorem f16_tie_refuted : exists t v cap bc bp, wf_ty t = true /\
  target_ser TgC default_options t v cap = Ok bc /\ target_ser TgPy default_options t v cap = Ok bp /\ bc <> bp.
Proof.
  exists tie_ty, tie_val, 2, (bits_of_N 16 15361), (bits_of_N 16 15360).
  vm_compute. repeat split; try reflexivity. discriminate.
Qed.

Theorem cross_target_ser_partial : forall tg1 tg2 o1 o2 t v cap, no_f16_tie t v = true ->
  target_ser tg1 o1 t v cap = target_ser tg2 o2 t v cap.
Proof.
  intros tg1 tg2 o1 o2 t v cap H. unfold target_ser.
  assert (Hp : forall tg, target_pre tg t v = v) by (intros tg; destruct tg; try reflexivity; apply py_pre_id; exact H).
  rewrite !Hp. reflexivity.
Qed.

(* what every target sends for a value decodes, in every target, to the same value; and targets agree on every value that came out
   of a deserializer or went through a round trip (such values hold no tie) *)
Theorem cross_target_on_cast_values : forall tg1 tg2 o1 o2 t v cap,
  target_ser tg1 o1 t (cast_val t v) cap = target_ser tg2 o2 t (cast_val t v) cap.
Proof. intros. apply cross_target_ser_partial. apply cast_no_tie. Qed.

(* ---------- options ---------- *)
Theorem option_indep_ser : forall tg o1 o2 t v cap, target_ser tg o1 t v cap = target_ser tg o2 t v cap.
Proof. reflexivity. Qed.
Theorem option_indep_des : forall tg o1 o2 t bs, target_des tg o1 t bs = target_des tg o2 t bs.
Proof. reflexivity. Qed.

(* on the code-shaped walker: any two primitive records that satisfy the laws (C `little` / `any|big` variants, C++ bitspan, Python
   Serializer/Deserializer) give the same observable; fragment of Refine.v *)
Theorem walker_des_prims_indep : forall P1 P2 t bits, prims_ok P1 -> prims_ok P2 -> walk_fragment t = true ->
  length bits mod 8 = 0 -> walk_des P1 t bits = walk_des P2 t bits.
Proof.
  intros P1 P2 t bits H1 H2 Hf Hl. rewrite (walk_des_refines_prims P1 t bits H1 Hf Hl), (walk_des_refines_prims P2 t bits H2 Hf Hl).
  reflexivity.
Qed.
