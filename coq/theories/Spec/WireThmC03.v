(* C03: round trip, re-serialization, cross-target and option independence - proofs.
   Everything is a corollary of the specification-level theorems (Spec/WireThm*.v) because every target is the ONE wire
   specification composed with its float16 rounding rule (Spec/TargetsC03.v). *)
From Verif Require Import Wire WireThm WireThmRt WireThmExt WireThmValid Walker Refine TargetsC03 F16 F16Thm F16ArithThm.
From Coq Require Import Lia ZifyBool ZifyNat ZifyN.
Local Open Scope nat_scope.

(* ---------- round trip, per target ---------- *)
Theorem target_roundtrip : forall tg o t v cap b r, wf_ty t = true -> align t = 8 ->
  target_ser tg o t v cap = Ok b ->
  target_des tg o t (b ++ r) = Ok (cast_val t (target_pre tg t v), length b / 8).
Proof. intros tg o t v cap b r Hwf Ha H. unfold target_ser, target_des in *. exact (des_ser_roundtrip _ _ _ _ r Hwf Ha H). Qed.

(* ---------- cross target ---------- *)
Theorem cross_target_ser_c_cpp : forall o1 o2 t v cap, target_ser TgC o1 t v cap = target_ser TgCpp o2 t v cap.
Proof. reflexivity. Qed.

Theorem cross_target_des_all : forall tg1 tg2 o1 o2 t bs, target_des tg1 o1 t bs = target_des tg2 o2 t bs.
Proof. reflexivity. Qed.

(* ---------- options ---------- *)
Theorem option_indep_ser : forall tg o1 o2 t v cap, target_ser tg o1 t v cap = target_ser tg o2 t v cap.
Proof. reflexivity. Qed.
Theorem option_indep_des : forall tg o1 o2 t bs, target_des tg o1 t bs = target_des tg o2 t bs.
Proof. reflexivity. Qed.

(* on the code-shaped walker: any two primitive records that satisfy the laws (C `little`/`any|big` variants, C++ bitspan, Python
   Serializer) give the same observable; fragment of Refine.v *)
Theorem walker_des_prims_indep : forall P1 P2 t bits, prims_ok P1 -> prims_ok P2 -> walk_fragment t = true ->
  length bits mod 8 = 0 -> walk_des P1 t bits = walk_des P2 t bits.
Proof.
  intros P1 P2 t bits H1 H2 Hf Hl. rewrite (walk_des_refines_prims P1 t bits H1 Hf Hl), (walk_des_refines_prims P2 t bits H2 Hf Hl).
  reflexivity.
Qed.

(* ---------- the float16 tie: C/C++ and Python differ ---------- *)
Definition tie_ty : ty := TComp false [TPrim (PF 16 false)] None.
Definition tie_val : val := VStruct [VFlt 1065357312%N].      (* 0x3F801000 = 1 + 2^-11 *)

Theorem f16_tie_refuted : exists t v cap bc bp, wf_ty t = true /\
  target_ser TgC default_options t v cap = Ok bc /\ target_ser TgPy default_options t v cap = Ok bp /\ bc <> bp.
Proof.
  exists tie_ty, tie_val, 2, (bits_of_N 16 15361), (bits_of_N 16 15360).
  vm_compute. repeat split; try reflexivity. discriminate.
Qed.
