(* C03: round trip, re-serialization, cast idempotence - specification-level proofs (the leaf facts are in Spec/TargetPreThm.v). *)
From Verif Require Import Wire WireThm WireThmRt WireThmExt WireThmValid TargetsC03 TargetPreThm F16 F16Thm F16ArithThm.
From Coq Require Import Lia ZifyBool ZifyNat ZifyN.
Local Open Scope nat_scope.
Ltac Zify.zify_post_hook ::= Z.div_mod_to_equations.

Lemma enc_prim_cast_idem p v b : prim_wf p = true -> enc_prim p v = Ok b -> enc_prim p (cast_prim p v) = Ok b.
Proof.
  intros Hwf H. unfold cast_prim. rewrite H.
  destruct p as [|w sat|w sat|w sat|w], v; cbn [enc_prim] in H; try discriminate; apply Ok_inj in H; subst b; cbn [dec_prim enc_prim].
  - reflexivity.
  - rewrite read_back by apply cast_u_lt. rewrite cast_u_of_N by apply cast_u_lt. reflexivity.
  - cbn [prim_wf] in Hwf. apply andb_prop in Hwf as [Hw _]. apply Nat.leb_le in Hw.
    rewrite read_back by apply cast_s_lt. rewrite cast_s_signed_of by (try lia; apply cast_s_lt). reflexivity.
  - destruct (w =? 16) eqn:Ew.
    + apply Nat.eqb_eq in Ew. subst w. rewrite read_back by (change (2 ^ N.of_nat 16)%N with 65536%N; apply cast_f16_lt).
      rewrite cast_f16_idem. reflexivity.
    + assert (Hlt : (cast_f w sat bits < 2 ^ N.of_nat w)%N).
      { unfold cast_f. rewrite Ew. apply N.mod_lt. apply N.pow_nonzero. discriminate. }
      rewrite read_back by exact Hlt. f_equal. f_equal. unfold cast_f. rewrite Ew.
      rewrite N.mod_mod by (apply N.pow_nonzero; discriminate). reflexivity.
  - reflexivity.
Qed.

Definition P_ci (t : ty) : Prop := wf_ty t = true -> forall v b, enc_body t v = Ok b -> enc_body t (cast_val t v) = Ok b.
Definition P_cif (t : ty) : Prop := wf_ty t = true -> forall v b, enc_field t v = Ok b -> enc_field t (cast_val t v) = Ok b.

Lemma ci_body_to_field t : P_ci t -> P_cif t.
Proof.
  intros H Hwf v b. unfold enc_field, as_field_enc.
  destruct t as [p|e n|e c|u fs [x|]]; try (apply H; exact Hwf).
  destruct (enc_body (TComp u fs (Some x)) v) as [b0|] eqn:E; cbn [bind]; intros Hb; [|discriminate Hb].
  rewrite (H Hwf _ _ E). cbn [bind]. exact Hb.
Qed.

Lemma ci_list Ee cv : (forall x b, Ee x = Ok b -> Ee (cv x) = Ok b) ->
  forall l b, enc_list Ee l = Ok b -> enc_list Ee (map cv l) = Ok b.
Proof.
  intros H. induction l as [|x l IH]; cbn [enc_list map]; intros b Hb; [exact Hb|].
  destruct (Ee x) as [b1|] eqn:E1; cbn [bind] in Hb; [|discriminate].
  destruct (enc_list Ee l) as [b2|] eqn:E2; cbn [bind] in Hb; [|discriminate].
  rewrite (H _ _ E1). cbn [bind]. rewrite (IH _ eq_refl). cbn [bind]. exact Hb.
Qed.

Lemma ci_fields fs : Forall P_cif fs -> forallb wf_ty fs = true ->
  forall vs off b, enc_fields enc_field fs vs off = Ok b -> enc_fields enc_field fs (cast_fields cast_val fs vs) off = Ok b.
Proof.
  induction 1 as [|f fs Hf Hfs IH]; intros Hwf vs off b Hb.
  - destruct vs; cbn [enc_fields] in Hb; [|discriminate]. cbn [cast_fields]. exact Hb.
  - cbn [forallb] in Hwf. apply andb_prop in Hwf. destruct Hwf as [Hwf1 Hwf2].
    destruct vs as [|v vs]; cbn [enc_fields] in Hb; [discriminate|].
    destruct (enc_field f v) as [b1|] eqn:E1; cbn [bind] in Hb; [|discriminate].
    destruct (enc_fields enc_field fs vs _) as [b2|] eqn:E2; cbn [bind] in Hb; [|discriminate].
    cbn [cast_fields enc_fields]. rewrite (Hf Hwf1 _ _ E1). cbn [bind]. rewrite (IH Hwf2 _ _ _ E2). cbn [bind]. exact Hb.
Qed.

Lemma ci_sel fs : Forall P_cif fs -> forallb wf_ty fs = true ->
  forall k x b, enc_sel enc_field fs k x = Ok b -> enc_sel enc_field fs k (cast_sel cast_val fs k x) = Ok b.
Proof.
  induction 1 as [|f fs Hf Hfs IH]; intros Hwf k x b Hb; [destruct k; discriminate|].
  cbn [forallb] in Hwf. apply andb_prop in Hwf. destruct Hwf as [Hwf1 Hwf2].
  destruct k as [|k]; cbn [enc_sel cast_sel] in *.
  - apply (Hf Hwf1). exact Hb.
  - apply (IH Hwf2). exact Hb.
Qed.

Theorem enc_cast_idem_all : forall t, P_ci t.
Proof.
  induction t using ty_nested_ind; unfold P_ci; intros Hwf v b Hb.
  - cbn [enc_body cast_val wf_ty] in *. apply enc_prim_cast_idem; assumption.
  - cbn [enc_body] in Hb. destruct v; try discriminate.
    destruct (length l =? n) eqn:En; [|discriminate].
    cbn [cast_val enc_body]. rewrite map_length, En. cbn [wf_ty] in Hwf.
    apply (ci_list _ (cast_val t)); [|exact Hb]. intros x b0. apply (ci_body_to_field t IHt Hwf).
  - cbn [enc_body] in Hb. destruct v; try discriminate.
    destruct (c <? length l) eqn:Ec; [discriminate|].
    destruct (enc_list _ l) as [b0|] eqn:E0; cbn [bind] in Hb; [|discriminate].
    cbn [wf_ty] in Hwf. apply andb_prop in Hwf. destruct Hwf as [Hwf _].
    cbn [cast_val enc_body]. rewrite map_length, Ec.
    rewrite (ci_list (as_field_enc enc_body t) (cast_val t) (fun x b1 => ci_body_to_field t IHt Hwf x b1) l b0 E0). cbn [bind]. exact Hb.
  - assert (Hf : Forall P_cif fs).
    { rewrite Forall_forall in *. intros f Hin. apply ci_body_to_field. apply H. exact Hin. }
    assert (Hwfs : forallb wf_ty fs = true).
    { cbn [wf_ty] in Hwf. apply andb_prop in Hwf. destruct Hwf as [Hwf _]. apply andb_prop in Hwf. destruct Hwf as [Hwf _]. exact Hwf. }
    destruct u; cbn [enc_body] in Hb.
    + destruct v; try discriminate.
      destruct (enc_sel _ fs tag v) as [b0|] eqn:E0; cbn [bind] in Hb; [|discriminate].
      cbn [cast_val enc_body]. change (as_field_enc enc_body) with enc_field in *.
      rewrite (ci_sel fs Hf Hwfs _ _ _ E0). cbn [bind]. exact Hb.
    + destruct v; try discriminate.
      cbn [cast_val enc_body]. change (as_field_enc enc_body) with enc_field in *.
      apply (ci_fields fs Hf Hwfs). exact Hb.
Qed.

(* ser (cast v) = ser v *)
Theorem enc_cast_idem : forall t v b, wf_ty t = true -> enc_body t v = Ok b -> enc_body t (cast_val t v) = Ok b.
Proof. intros t v b Hwf Hb. exact (enc_cast_idem_all t Hwf v b Hb). Qed.

Theorem ser_cast_idem : forall t v cap b, wf_ty t = true -> ser_spec t v cap = Ok b -> ser_spec t (cast_val t v) cap = Ok b.
Proof.
  unfold ser_spec. intros t v cap b Hwf H. destruct (8 * cap <? bmax t); [discriminate|]. apply enc_cast_idem; assumption.
Qed.

Theorem target_pre_cast : forall tg t v, target_pre tg t (cast_val t v) = cast_val t v.
Proof. intros tg t v. destruct tg; try reflexivity. apply py_pre_id. apply cast_no_tie. Qed.

(* ================================================================================================================== *)
(* decoded values are fixed points of the cast, NaN payloads of float16 fields aside                                  *)
(* ================================================================================================================== *)
Lemma N_of_bits_lt' l : (N_of_bits l < 2 ^ N.of_nat (length l))%N.
Proof.
  induction l as [|b r IH]; [cbn; lia|]. cbn [N_of_bits length]. rewrite Nat2N.inj_succ, N.pow_succ_r'.
  destruct b; cbn [N.b2n]; lia.
Qed.

Lemma read_N_lt w bs : (read_N w bs < 2 ^ N.of_nat w)%N.
Proof. unfold read_N. pose proof (N_of_bits_lt' (take_ze w bs)) as H. rewrite take_ze_length in H. exact H. Qed.

Lemma f16_canon_fix sat h : (h < 65536)%N ->
  negb (is_nan32 (f16_unpack h)) || (f16_unpack (f16_pack (f16_unpack h mod 2 ^ 32)) =? f16_unpack h)%N = true ->
  f16_unpack (cast_f 16 sat (f16_unpack h)) = f16_unpack h.
Proof.
  intros Hr Hn. rewrite cast_f16_eq, f16_in_unpack by exact Hr.
  destruct (is_nan32 (f16_unpack h)) eqn:En; cbn [negb orb] in Hn.
  - apply N.eqb_eq in Hn. destruct (unpack_fix h Hr) as (_ & Hm & _). rewrite Hm in Hn. exact Hn.
  - destruct (f16_nan_preserved h Hr) as [H1 _]. destruct (is_nan16 h) eqn:E16.
    + destruct (H1 eq_refl) as [H2 _]. rewrite H2 in En. discriminate En.
    + rewrite f16_roundtrip by assumption. reflexivity.
Qed.

Lemma dec_flt_cast_fix w sat n : (n < 2 ^ N.of_nat w)%N ->
  nan_canon_leaf (PF w sat) (VFlt (if w =? 16 then f16_unpack n else n)) = true ->
  (if w =? 16 then f16_unpack (read_N w (bits_of_N w (cast_f w sat (if w =? 16 then f16_unpack n else n))))
   else read_N w (bits_of_N w (cast_f w sat (if w =? 16 then f16_unpack n else n)))) = (if w =? 16 then f16_unpack n else n).
Proof.
  intros Hr Hn. cbn [nan_canon_leaf] in Hn. unfold is_f16 in Hn. destruct (w =? 16) eqn:Ew.
  - apply Nat.eqb_eq in Ew. subst w. change (2 ^ N.of_nat 16)%N with 65536%N in Hr. cbn [negb orb] in Hn.
    rewrite read_back by (change (2 ^ N.of_nat 16)%N with 65536%N; apply cast_f16_lt).
    apply f16_canon_fix; assumption.
  - assert (Hc : cast_f w sat n = n) by (unfold cast_f; rewrite Ew; apply N.mod_small; exact Hr).
    rewrite Hc. apply read_back. exact Hr.
Qed.

Lemma dec_prim_cast_fix p bs : prim_wf p = true -> nan_canon_leaf p (dec_prim p bs) = true ->
  cast_prim p (dec_prim p bs) = dec_prim p bs.
Proof.
  intros Hwf Hn. unfold cast_prim.
  destruct p as [|w sat|w sat|w sat|w]; cbn [dec_prim enc_prim].
  - (* bool *) destruct (take_ze 1 bs) as [|b r]; reflexivity.
  - pose proof (read_N_lt w bs) as Hr. rewrite cast_u_of_N by exact Hr. cbn [dec_prim]. rewrite read_back by exact Hr. reflexivity.
  - pose proof (read_N_lt w bs) as Hr. cbn [prim_wf] in Hwf. apply andb_prop in Hwf as [Hw _]. apply Nat.leb_le in Hw.
    rewrite cast_s_signed_of by (try lia; exact Hr). cbn [dec_prim]. rewrite read_back by exact Hr. reflexivity.
  - pose proof (read_N_lt w bs) as Hr. cbn [dec_prim] in Hn. revert Hr Hn. generalize (read_N w bs). intros n Hr Hn.
    cbn [dec_prim]. f_equal. apply dec_flt_cast_fix; assumption.
  - reflexivity.
Qed.

Definition P_fx (t : ty) : Prop := wf_ty t = true -> forall bs v n, dec_body t bs = Ok (v, n) ->
  f16_nans_canonical t v = true -> cast_val t v = v.

Lemma fx_field t : P_fx t -> wf_ty t = true -> forall bs v n, dec_field t bs = Ok (v, n) -> f16_nans_canonical t v = true -> cast_val t v = v.
Proof.
  intros H Hwf bs v n. unfold dec_field, as_field_dec. destruct t as [p|e m|e c|u fs [x|]]; try apply (H Hwf).
  destruct (_ <? _)%N; [discriminate|].
  destruct (dec_body _ _) as [[v0 k]|] eqn:E; cbn [bind]; [|discriminate].
  intros Hd. apply Ok_inj in Hd. apply pair_equal_spec in Hd. destruct Hd as [<- _]. eapply (H Hwf). exact E.
Qed.

Lemma fx_list De (C : val -> val) (A : val -> bool) : (forall bs v n, De bs = Ok (v, n) -> A v = true -> C v = v) ->
  forall m bs vs k, dec_list De m bs = Ok (vs, k) -> forallb A vs = true -> map C vs = vs.
Proof.
  intros H. induction m as [|m IH]; intros bs vs k Hd Ha; cbn [dec_list] in Hd.
  - apply Ok_inj in Hd. apply pair_equal_spec in Hd. destruct Hd as [<- _]. reflexivity.
  - destruct (De bs) as [[v0 k0]|] eqn:E0; cbn [bind] in Hd; [|discriminate].
    destruct (dec_list De m _) as [[vs0 k1]|] eqn:E1; cbn [bind] in Hd; [|discriminate].
    apply Ok_inj in Hd. apply pair_equal_spec in Hd. destruct Hd as [<- _].
    cbn [forallb] in Ha. apply andb_prop in Ha as [A1 A2]. cbn [map]. rewrite (H _ _ _ E0 A1), (IH _ _ _ E1 A2). reflexivity.
Qed.

Lemma fx_fields fs : Forall P_fx fs -> forallb wf_ty fs = true -> forall bs off vs o, dec_fields dec_field fs bs off = Ok (vs, o) ->
  all_fields f16_nans_canonical fs vs = true -> cast_fields cast_val fs vs = vs.
Proof.
  induction 1 as [|f fs Hf Hfs IH]; intros Hwf bs off vs o Hd Ha; cbn [dec_fields] in Hd.
  - apply Ok_inj in Hd. apply pair_equal_spec in Hd. destruct Hd as [<- _]. reflexivity.
  - cbn [forallb] in Hwf. apply andb_prop in Hwf as [Hw1 Hw2].
    destruct (dec_field f _) as [[v k]|] eqn:E0; cbn [bind] in Hd; [|discriminate].
    destruct (dec_fields dec_field fs _ _) as [[vs0 o0]|] eqn:E1; cbn [bind] in Hd; [|discriminate].
    apply Ok_inj in Hd. apply pair_equal_spec in Hd. destruct Hd as [<- _].
    cbn [all_fields] in Ha. apply andb_prop in Ha as [A1 A2].
    cbn [cast_fields]. rewrite (fx_field f Hf Hw1 _ _ _ E0 A1), (IH Hw2 _ _ _ _ E1 A2). reflexivity.
Qed.

Lemma fx_sel fs : Forall P_fx fs -> forallb wf_ty fs = true -> forall k bs v n, dec_sel dec_field fs k bs = Ok (v, n) ->
  all_sel f16_nans_canonical fs k v = true -> cast_sel cast_val fs k v = v.
Proof.
  induction 1 as [|f fs Hf Hfs IH]; intros Hwf [|k] bs v n Hd Ha; cbn [dec_sel all_sel cast_sel forallb] in *; try discriminate;
    apply andb_prop in Hwf as [Hw1 Hw2].
  - eapply fx_field; eauto.
  - eapply IH; eauto.
Qed.

Theorem dec_cast_fix_all : forall t, P_fx t.
Proof.
  induction t as [p|t m IHt|t c IHt|u fs ext H] using ty_nested_ind; intros Hwf bs v n Hd Hn; cbn [dec_body] in Hd;
    change (as_field_dec dec_body) with dec_field in *; unfold f16_nans_canonical in *.
  - apply Ok_inj in Hd. apply pair_equal_spec in Hd. destruct Hd as [<- _]. cbn [cast_val all_prims wf_ty] in *.
    apply dec_prim_cast_fix; assumption.
  - destruct (dec_list _ m bs) as [[vs k]|] eqn:E; cbn [bind] in Hd; [|discriminate].
    apply Ok_inj in Hd. apply pair_equal_spec in Hd. destruct Hd as [<- _].
    cbn [cast_val all_prims wf_ty] in *. f_equal.
    exact (fx_list _ (cast_val t) (all_prims nan_canon_leaf t) (fx_field t IHt Hwf) _ _ _ _ E Hn).
  - destruct (N.ltb_spec (N.of_nat c) (read_N (prefix_bits c) bs)) as [|Hge]; [discriminate|].
    destruct (dec_list _ _ _) as [[vs k]|] eqn:E; cbn [bind] in Hd; [|discriminate].
    apply Ok_inj in Hd. apply pair_equal_spec in Hd. destruct Hd as [<- _].
    cbn [wf_ty] in Hwf. apply andb_prop in Hwf as [Hwf _].
    cbn [cast_val all_prims] in *. f_equal.
    exact (fx_list _ (cast_val t) (all_prims nan_canon_leaf t) (fx_field t IHt Hwf) _ _ _ _ E Hn).
  - assert (Hwfs : forallb wf_ty fs = true).
    { cbn [wf_ty] in Hwf. apply andb_prop in Hwf. destruct Hwf as [Hwf _]. apply andb_prop in Hwf. destruct Hwf as [Hwf _]. exact Hwf. }
    destruct u.
    + destruct (_ <=? _)%N; [discriminate|].
      destruct (dec_sel _ fs _ _) as [[v0 k]|] eqn:E; cbn [bind] in Hd; [|discriminate].
      apply Ok_inj in Hd. apply pair_equal_spec in Hd. destruct Hd as [<- _].
      cbn [cast_val all_prims] in *. f_equal. eapply fx_sel; eauto.
    + destruct (dec_fields _ fs bs 0) as [[vs k]|] eqn:E; cbn [bind] in Hd; [|discriminate].
      apply Ok_inj in Hd. apply pair_equal_spec in Hd. destruct Hd as [<- _].
      cbn [cast_val all_prims] in *. f_equal. eapply fx_fields; eauto.
Qed.

(* a decoded value whose float16 NaNs are canonical is a fixed point of the cast (and, being a cast value, holds no tie) *)
Theorem dec_cast_fix : forall t bs v n, wf_ty t = true -> dec_body t bs = Ok (v, n) -> f16_nans_canonical t v = true ->
  cast_val t v = v.
Proof. intros t bs v n Hwf Hd Hn. exact (dec_cast_fix_all t Hwf bs v n Hd Hn). Qed.

(* des . ser . des = des at the VALUE level, float16 NaN payload canonicalisation excluded *)
Theorem des_ser_des_value_partial : forall t bs v k cap b, wf_ty t = true -> align t = 8 ->
  des_spec t bs = Ok (v, k) -> f16_nans_canonical t v = true -> ser_spec t v cap = Ok b ->
  des_spec t b = Ok (v, length b / 8).
Proof.
  intros t bs v k cap b Hwf Ha Hd Hn Hs.
  pose proof (des_ser_roundtrip t v cap b [] Hwf Ha Hs) as Hr. rewrite app_nil_r in Hr. rewrite Hr.
  unfold des_spec in Hd. destruct (dec_body t bs) as [[v0 n]|] eqn:E; cbn [bind] in Hd; [|discriminate].
  apply Ok_inj in Hd. apply pair_equal_spec in Hd. destruct Hd as [<- _].
  rewrite (dec_cast_fix t bs v0 n Hwf E Hn). reflexivity.
Qed.

(* ================================================================================================================== *)
(* the C03 statements at specification level (the code-level ones are in Codec/ObsC03Thm.v)                           *)
(* ================================================================================================================== *)

Theorem spec_roundtrip : forall tg t v cap b r, wf_ty t = true -> align t = 8 ->
  spec_ser tg t v cap = Ok b -> des_spec t (b ++ r) = Ok (cast_val t (target_pre tg t v), length b / 8).
Proof. intros tg t v cap b r Hwf Ha H. unfold spec_ser in *. exact (des_ser_roundtrip _ _ _ _ r Hwf Ha H). Qed.

Theorem spec_reser : forall tg t v cap b, wf_ty t = true -> align t = 8 ->
  spec_ser tg t v cap = Ok b -> spec_ser tg t (cast_val t (target_pre tg t v)) cap = Ok b.
Proof.
  intros tg t v cap b Hwf Ha Hs. unfold spec_ser in *. rewrite target_pre_cast. apply ser_cast_idem; assumption.
Qed.

Theorem des_then_ser_ok : forall t bs v k cap, des_spec t bs = Ok (v, k) -> bmax t <= 8 * cap ->
  exists b, ser_spec t v cap = Ok b.
Proof.
  unfold des_spec, ser_spec. intros t bs v k cap H Hc.
  destruct (dec_body t bs) as [[v0 n]|] eqn:E; cbn [bind] in H; [|discriminate]. apply Ok_inj in H. injection H as <- _.
  destruct (8 * cap <? bmax t) eqn:Ec; [apply Nat.ltb_lt in Ec; lia|]. exact (dec_then_enc_ok _ _ _ _ E).
Qed.

(* decoded values hold no float16 tie once their NaNs are canonical (they are cast values) - and in general: *)
Theorem dec_no_tie : forall t bs v n, wf_ty t = true -> dec_body t bs = Ok (v, n) -> f16_nans_canonical t v = true ->
  no_f16_tie t v = true.
Proof. intros t bs v n Hwf Hd Hn. rewrite <- (dec_cast_fix t bs v n Hwf Hd Hn). apply cast_no_tie. Qed.

(* at the VALUE level the des-ser-des chain is not the identity on arbitrary input: a float16 NaN with a payload decodes to a
   binary32 NaN that re-encodes as the canonical NaN *)
Theorem des_ser_des_value_refuted : exists t bs v k b v' k', wf_ty t = true /\
  des_spec t bs = Ok (v, k) /\ ser_spec t v 2 = Ok b /\ des_spec t b = Ok (v', k') /\ v' <> v /\ f16_nans_canonical t v = false.
Proof.
  exists (TComp false [TPrim (PF 16 false)] None), (bits_of_N 16 31745), (VStruct [VFlt (f16_unpack 31745)]), 2,
         (bits_of_N 16 32256), (VStruct [VFlt (f16_unpack 32256)]), 2.
  vm_compute. repeat split; try reflexivity. discriminate.
Qed.

Definition tie_ty : ty := TComp false [TPrim (PF 16 false)] None.
Definition tie_val : val := VStruct [VFlt 1065357312%N].      (* 0x3F801000 = 1 + 2^-11 *)

Theorem spec_f16_tie_refuted : wf_ty tie_ty = true /\
  spec_ser TgC tie_ty tie_val 2 = Ok (bits_of_N 16 15361) /\ spec_ser TgPy tie_ty tie_val 2 = Ok (bits_of_N 16 15360).
Proof. vm_compute. repeat split; reflexivity. Qed.

Theorem spec_cross_target_partial : forall tg1 tg2 t v cap, no_f16_tie t v = true -> spec_ser tg1 t v cap = spec_ser tg2 t v cap.
Proof.
  intros tg1 tg2 t v cap H. unfold spec_ser.
  assert (Hp : forall tg, target_pre tg t v = v) by (intros tg; destruct tg; try reflexivity; apply py_pre_id; exact H).
  rewrite !Hp. reflexivity.
Qed.
