(* Round trip: decoding an encoding gives back the value up to the storage->wire cast, consuming exactly the encoding. *)
From Verif Require Import Wire WireThm.
From Coq Require Import Lia ZifyBool ZifyNat ZifyN.
Local Open Scope nat_scope.
Ltac Zify.zify_post_hook ::= Z.div_mod_to_equations.

Lemma take_ze_app l : forall r, take_ze (length l) (l ++ r) = l.
Proof. induction l as [|x l IH]; intros r; cbn; [reflexivity | rewrite IH; reflexivity]. Qed.

Lemma skipn_app_len {A} (l r : list A) : skipn (length l) (l ++ r) = r.
Proof. induction l; cbn; auto. Qed.

Lemma firstn_app_len {A} (l r : list A) : firstn (length l) (l ++ r) = l.
Proof. induction l; cbn; [reflexivity | f_equal; auto]. Qed.

Lemma N_of_bits_of_N w : forall x, (x < 2 ^ N.of_nat w)%N -> N_of_bits (bits_of_N w x) = x.
Proof.
  induction w as [|w IH]; intros x Hx.
  - cbn in *. lia.
  - cbn [bits_of_N N_of_bits]. rewrite Nat2N.inj_succ, N.pow_succ_r' in Hx.
    rewrite IH by (rewrite N.div2_div; lia).
    pose proof (N.div2_odd x) as Hd. lia.
Qed.

Lemma read_N_bits w x r : (x < 2 ^ N.of_nat w)%N -> read_N w (bits_of_N w x ++ r) = x.
Proof.
  intros Hx. unfold read_N. rewrite <- (bits_of_N_length w x) at 1. rewrite take_ze_app. apply N_of_bits_of_N. exact Hx.
Qed.

Lemma skipn_bits w x r : skipn w (bits_of_N w x ++ r) = r.
Proof. rewrite <- (bits_of_N_length w x) at 1. apply skipn_app_len. Qed.

Lemma len_width_bound m : (N.of_nat m < 18446744073709551616)%N -> (N.of_nat m < 2 ^ N.of_nat (len_width m))%N.
Proof.
  unfold len_width. intros H.
  destruct (N.ltb_spec (N.of_nat m) 256); [exact H0|].
  destruct (N.ltb_spec (N.of_nat m) 65536); [exact H1|].
  destruct (N.ltb_spec (N.of_nat m) 4294967296); [exact H2|]. exact H.
Qed.

Lemma dec_prim_app p b r : length b = prim_bits p -> dec_prim p (b ++ r) = dec_prim p b.
Proof.
  intros Hl. rewrite <- (app_nil_r b) at 2.
  destruct p; cbn [dec_prim prim_bits] in *; unfold read_N; try rewrite <- !Hl; rewrite ?take_ze_app; reflexivity.
Qed.

Definition P_rt (t : ty) : Prop :=
  wf_ty t = true -> forall v b r, enc_body t v = Ok b -> dec_body t (b ++ r) = Ok (cast_val t v, length b).
Definition P_rtf (t : ty) : Prop :=
  wf_ty t = true -> forall v b r, enc_field t v = Ok b -> dec_field t (b ++ r) = Ok (cast_val t v, length b).

Lemma wf_header u fs x : wf_ty (TComp u fs (Some x)) = true -> (N.of_nat x < 34359738368)%N.
Proof.
  cbn [wf_ty]. intros H. apply andb_prop in H. destruct H as [_ H].
  apply andb_prop in H. destruct H as [H _]. apply andb_prop in H. destruct H as [_ H]. apply N.ltb_lt. exact H.
Qed.

Lemma rt_body_to_field t : P_rt t -> P_rtf t.
Proof.
  intros H Hwf v b r. unfold enc_field, dec_field, as_field_enc, as_field_dec.
  destruct t as [p|e n|e c|u fs [x|]]; try (apply H; exact Hwf).
  destruct (enc_body (TComp u fs (Some x)) v) as [b0|e0] eqn:E; cbn [bind]; intros Hb; [|discriminate Hb].
  apply Ok_inj in Hb. subst b.
  destruct (enc_len_bounds _ _ _ Hwf E) as [[_ Hhi] Hmod]. specialize (Hmod eq_refl).
  destruct (wf_extent _ _ _ Hwf) as [Hx _]. pose proof (wf_header _ _ _ Hwf) as Hh.
  rewrite <- app_assoc.
  rewrite read_N_bits by (change (2 ^ N.of_nat header_bits)%N with 4294967296%N; lia).
  rewrite !skipn_bits.
  destruct (N.ltb_spec (N.of_nat (length (b0 ++ r))) (8 * N.of_nat (length b0 / 8))) as [Hlt|Hge].
  { rewrite app_length in Hlt. lia. }
  rewrite Nat2N.id.
  replace (8 * (length b0 / 8)) with (length b0) by lia.
  rewrite firstn_app_len.
  pose proof (H Hwf v b0 [] E) as Hd. rewrite app_nil_r in Hd. rewrite Hd. cbn [bind].
  rewrite app_length, bits_of_N_length. reflexivity.
Qed.

Lemma rt_list Ee De cv :
  (forall x b r, Ee x = Ok b -> De (b ++ r) = Ok (cv x, length b)) ->
  forall l b r, enc_list Ee l = Ok b -> dec_list De (length l) (b ++ r) = Ok (map cv l, length b).
Proof.
  intros H. induction l as [|x l IH]; cbn [enc_list length dec_list map]; intros b r Hb.
  - apply Ok_inj in Hb. subst. reflexivity.
  - destruct (Ee x) as [b1|] eqn:E1; cbn [bind] in Hb; [|discriminate].
    destruct (enc_list Ee l) as [b2|] eqn:E2; cbn [bind] in Hb; [|discriminate].
    apply Ok_inj in Hb. subst b. rewrite <- app_assoc. rewrite (H _ _ _ E1). cbn [bind].
    rewrite skipn_app_len. rewrite (IH _ _ eq_refl). cbn [bind]. rewrite app_length. reflexivity.
Qed.

Lemma skipn_repeat_app {A} (a : A) n l : skipn n (repeat a n ++ l) = l.
Proof. rewrite <- (repeat_length a n) at 1. apply skipn_app_len. Qed.

Lemma rt_fields fs :
  Forall P_rtf fs -> forallb wf_ty fs = true ->
  forall vs off b r, enc_fields enc_field fs vs off = Ok b ->
    dec_fields dec_field fs (b ++ r) off = Ok (cast_fields cast_val fs vs, off + length b).
Proof.
  induction 1 as [|f fs Hf Hfs IH]; intros Hwf vs off b r Hb.
  - destruct vs; cbn [enc_fields] in Hb; [|discriminate]. apply Ok_inj in Hb. subst b.
    cbn [dec_fields cast_fields]. rewrite repeat_length. reflexivity.
  - cbn [forallb] in Hwf. apply andb_prop in Hwf. destruct Hwf as [Hwf1 Hwf2].
    destruct vs as [|v vs]; cbn [enc_fields] in Hb; [discriminate|].
    destruct (enc_field f v) as [b1|] eqn:E1; cbn [bind] in Hb; [|discriminate].
    destruct (enc_fields enc_field fs vs _) as [b2|] eqn:E2; cbn [bind] in Hb; [|discriminate].
    apply Ok_inj in Hb. subst b. cbn [dec_fields cast_fields].
    rewrite <- !app_assoc. rewrite skipn_repeat_app.
    rewrite (Hf Hwf1 _ _ _ E1). cbn [bind].
    replace (padn off (align f) + length b1) with (length (repeat false (padn off (align f)) ++ b1))
      by (rewrite app_length, repeat_length; reflexivity).
    rewrite (app_assoc (repeat false _) b1), skipn_app_len.
    rewrite app_length, repeat_length.
    rewrite (IH Hwf2 _ _ _ _ E2). cbn [bind]. rewrite ?app_length, ?repeat_length. f_equal. f_equal. lia.
Qed.

Lemma rt_sel fs :
  Forall P_rtf fs -> forallb wf_ty fs = true ->
  forall k x b r, enc_sel enc_field fs k x = Ok b ->
    dec_sel dec_field fs k (b ++ r) = Ok (cast_sel cast_val fs k x, length b) /\ k < length fs.
Proof.
  induction 1 as [|f fs Hf Hfs IH]; intros Hwf k x b r Hb; [destruct k; discriminate|].
  cbn [forallb] in Hwf. apply andb_prop in Hwf. destruct Hwf as [Hwf1 Hwf2].
  destruct k as [|k]; cbn [enc_sel dec_sel cast_sel length] in *.
  - split; [apply (Hf Hwf1); exact Hb | lia].
  - destruct (IH Hwf2 _ _ _ r Hb) as [H1 H2]. split; [exact H1 | lia].
Qed.

Theorem dec_enc_all : forall t, P_rt t.
Proof.
  induction t using ty_nested_ind; unfold P_rt; intros Hwf v b r Hb.
  - (* primitive *)
    cbn [enc_body dec_body cast_val] in *. unfold cast_prim. rewrite Hb.
    pose proof (enc_prim_length _ _ _ Hb) as Hl. rewrite dec_prim_app by exact Hl. rewrite Hl. reflexivity.
  - (* fixed array *)
    cbn [enc_body] in Hb. destruct v; try discriminate.
    destruct (length l =? n) eqn:En; [|discriminate]. apply Nat.eqb_eq in En. subst n.
    cbn [wf_ty] in Hwf. cbn [dec_body cast_val].
    rewrite (rt_list _ (as_field_dec dec_body t) (cast_val t) (rt_body_to_field t IHt Hwf) l b r Hb). reflexivity.
  - (* variable array *)
    cbn [enc_body] in Hb. destruct v; try discriminate.
    destruct (c <? length l) eqn:Ec; [discriminate|]. apply Nat.ltb_ge in Ec.
    destruct (enc_list _ l) as [b0|] eqn:E0; cbn [bind] in Hb; [|discriminate]. apply Ok_inj in Hb. subst b.
    cbn [wf_ty] in Hwf. apply andb_prop in Hwf. destruct Hwf as [Hwf Hc]. apply N.ltb_lt in Hc.
    cbn [dec_body cast_val]. rewrite <- app_assoc.
    pose proof (len_width_bound c Hc) as Hb1. fold (prefix_bits c) in Hb1.
    rewrite read_N_bits by lia.
    destruct (N.ltb_spec (N.of_nat c) (N.of_nat (length l))) as [Hlt|Hge]; [lia|].
    rewrite Nat2N.id.
    rewrite skipn_bits.
    rewrite (rt_list _ (as_field_dec dec_body t) (cast_val t) (rt_body_to_field t IHt Hwf) l b0 r E0). cbn [bind].
    rewrite app_length, bits_of_N_length. reflexivity.
  - (* composite *)
    assert (Hf : Forall P_rtf fs).
    { rewrite Forall_forall in *. intros f Hin. apply rt_body_to_field. apply H. exact Hin. }
    assert (Hwfs : forallb wf_ty fs = true).
    { cbn [wf_ty] in Hwf. apply andb_prop in Hwf. destruct Hwf as [Hwf _]. apply andb_prop in Hwf. destruct Hwf as [Hwf _]. exact Hwf. }
    destruct u; cbn [enc_body] in Hb.
    + (* union *)
      destruct v; try discriminate.
      destruct (enc_sel _ fs tag v) as [b0|] eqn:E0; cbn [bind] in Hb; [|discriminate]. apply Ok_inj in Hb. subst b.
      assert (Hn : (N.of_nat (length fs) < 18446744073709551616)%N).
      { cbn [wf_ty] in Hwf. apply andb_prop in Hwf. destruct Hwf as [Hwf _]. apply andb_prop in Hwf. destruct Hwf as [_ Hwf].
        apply andb_prop in Hwf. destruct Hwf as [_ Hwf]. apply N.ltb_lt. exact Hwf. }
      destruct (rt_sel fs Hf Hwfs _ _ _ (repeat false (pad8 (tag_bits (length fs) + length b0)) ++ r) E0) as [Hs Hk].
      cbn [dec_body cast_val]. rewrite <- !app_assoc.
      assert (Hb1 : (N.of_nat (length fs - 1) < 2 ^ N.of_nat (tag_bits (length fs)))%N) by (apply len_width_bound; lia).
      rewrite read_N_bits by lia.
      destruct (N.leb_spec (N.of_nat (length fs)) (N.of_nat tag)) as [Hle|Hgt]; [lia|].
      rewrite Nat2N.id.
      rewrite skipn_bits. change (as_field_dec dec_body) with dec_field.
      rewrite Hs. cbn [bind]. rewrite !app_length, bits_of_N_length, repeat_length. f_equal. f_equal. lia.
    + (* structure *)
      destruct v; try discriminate.
      cbn [dec_body cast_val]. change (as_field_dec dec_body) with dec_field.
      rewrite (rt_fields fs Hf Hwfs l 0 b r Hb). reflexivity.
Qed.

(* decode . encode = cast (round trip), for every type, value and trailing data *)
Theorem dec_enc : forall t v b r, wf_ty t = true -> enc_body t v = Ok b ->
  dec_body t (b ++ r) = Ok (cast_val t v, length b).
Proof. intros t v b r Hwf Hb. exact (dec_enc_all t Hwf v b r Hb). Qed.

Theorem dec_enc_field : forall t v b r, wf_ty t = true -> enc_field t v = Ok b ->
  dec_field t (b ++ r) = Ok (cast_val t v, length b).
Proof. intros t v b r Hwf Hb. exact (rt_body_to_field t (dec_enc_all t) Hwf v b r Hb). Qed.

(* the contract level: what a serializer emits, a deserializer given exactly those bytes (or more) maps back *)
Theorem des_ser_roundtrip : forall t v cap b r, wf_ty t = true -> align t = 8 -> ser_spec t v cap = Ok b ->
  des_spec t (b ++ r) = Ok (cast_val t v, length b / 8).
Proof.
  unfold ser_spec, des_spec. intros t v cap b r Hwf Ha H.
  destruct (8 * cap <? bmax t); [discriminate|].
  rewrite (dec_enc _ _ _ r Hwf H). cbn [bind]. rewrite app_length. f_equal. f_equal. f_equal. lia.
Qed.
