(* Layout metadata of DSDL types as functions of the type: alignment, length-prefix / tag / header widths,
   minimum and maximum bit length (of the body and as a field), extent.  Cross-checked on every run against
   the numbers pydsdl reports (astdump.py). *)
From Verif Require Export Dsdl.

Definition prim_bits (p : prim) : nat :=
  match p with PBool => 1 | PU w _ | PS w _ | PF w _ | PVoid w => w end.

Fixpoint align (t : ty) : nat :=
  match t with
  | TPrim _ => 1
  | TFix e _ | TVar e _ => align e
  | TComp _ _ _ => 8
  end.

(* pydsdl: 2 ** ceil(log2(max(8, bit_length(m)))) *)
Definition len_width (m : nat) : nat :=
  let x := N.of_nat m in
  if (x <? 256)%N then 8 else if (x <? 65536)%N then 16 else if (x <? 4294967296)%N then 32 else 64.

Definition prefix_bits (cap : nat) : nat := len_width cap.
Definition tag_bits (nfields : nat) : nat := len_width (nfields - 1).
Definition header_bits : nat := 32.

Definition pad8 (off : nat) : nat := (8 - off mod 8) mod 8.
Definition padn (off a : nat) : nat := (a - off mod a) mod a.

(* a delimited composite used as a field occupies header + at most its extent *)
Definition as_field_max (B : ty -> nat) (e : ty) : nat :=
  match e with TComp _ _ (Some x) => header_bits + x | _ => B e end.
Definition as_field_min (B : ty -> nat) (e : ty) : nat :=
  match e with TComp _ _ (Some x) => header_bits | _ => B e end.

Section FieldsMeta.
  Variable B : ty -> nat.
  Fixpoint fields_sum (fs : list ty) (off : nat) : nat :=
    match fs with
    | [] => off + pad8 off
    | f :: r => let o := off + padn off (align f) in fields_sum r (o + B f)
    end.
  Fixpoint fields_max (fs : list ty) : nat :=
    match fs with [] => 0 | f :: r => Nat.max (B f) (fields_max r) end.
  Fixpoint fields_min (fs : list ty) : nat :=
    match fs with [] => 0 | [f] => B f | f :: r => Nat.min (B f) (fields_min r) end.
End FieldsMeta.

(* maximum / minimum bit length of the BODY of a type (what T_serialize_ of the type itself emits; for arrays and
   primitives body = field) *)
Fixpoint bmax (t : ty) : nat :=
  match t with
  | TPrim p => prim_bits p
  | TFix e n => n * as_field_max bmax e
  | TVar e cap => prefix_bits cap + cap * as_field_max bmax e
  | TComp false fs _ => fields_sum (as_field_max bmax) fs 0
  | TComp true fs _ => let o := tag_bits (length fs) + fields_max (as_field_max bmax) fs in o + pad8 o
  end.

Fixpoint bmin (t : ty) : nat :=
  match t with
  | TPrim p => prim_bits p
  | TFix e n => n * as_field_min bmin e
  | TVar e cap => prefix_bits cap
  | TComp false fs _ => fields_sum (as_field_min bmin) fs 0
  | TComp true fs _ => let o := tag_bits (length fs) + fields_min (as_field_min bmin) fs in o + pad8 o
  end.

Definition fmax : ty -> nat := as_field_max bmax.
Definition fmin : ty -> nat := as_field_min bmin.

(* extent in bits: the declared one for delimited types, the maximum body length for sealed ones *)
Definition extent (t : ty) : nat :=
  match t with TComp _ _ (Some x) => x | _ => bmax t end.

(* front-end guarantees: widths in range, unions have >= 2 variants, extent is a multiple of 8 and not smaller than
   the body, fixed arrays are non-empty *)
Fixpoint wf_ty (t : ty) : bool :=
  match t with
  | TPrim p => prim_wf p
  | TFix e n => wf_ty e
  | TVar e cap => wf_ty e && (N.of_nat cap <? 18446744073709551616)%N
  | TComp u fs ext =>
      forallb wf_ty fs
      && (if u then (2 <=? length fs)%nat && (N.of_nat (length fs) <? 18446744073709551616)%N else true)
      && match ext with
         | None => true
         | Some x => (x mod 8 =? 0)%nat && (N.of_nat x <? 34359738368)%N      (* body size in bytes fits the 32-bit header *)
                     && ((if u then let o := tag_bits (length fs) + fields_max (as_field_max bmax) fs in o + pad8 o
                          else fields_sum (as_field_max bmax) fs 0) <=? x)%nat
         end
  end.
