(* What a decoder looks at: the result depends only on the (zero-extended) bits it consumes, plus - for delimiter headers -
   on there being enough real data.  Corollaries: implicit zero extension and implicit truncation. *)
From Verif Require Import Wire WireThm.
From Coq Require Import Lia ZifyBool ZifyNat ZifyN.
Local Open Scope nat_scope.
Ltac Zify.zify_post_hook ::= Z.div_mod_to_equations.

Lemma take_ze_nil n : take_ze n [] = repeat false n.
Proof. induction n; cbn; [reflexivity | rewrite IHn; reflexivity]. Qed.

Lemma take_ze_add a : forall b bs, take_ze (a + b) bs = take_ze a bs ++ take_ze b (skipn a bs).
Proof.
  induction a as [|a IH]; intros b bs; [reflexivity|].
  destruct bs as [|x bs]; cbn [plus take_ze skipn app].
  - rewrite (IH b []). rewrite skipn_nil. reflexivity.
  - rewrite IH. reflexivity.
Qed.

Lemma app_eq_len {A} (a : list A) : forall c b d, length a = length c -> a ++ b = c ++ d -> a = c /\ b = d.
Proof.
  induction a as [|x a IH]; intros [|y c] b d Hl H; cbn in *; try discriminate; [auto|].
  injection H as -> H. destruct (IH c b d) as [-> ->]; auto.
Qed.

Definition agree (n : nat) (bs bs' : list bool) : Prop := take_ze n bs = take_ze n bs'.
Definition enough (n : nat) (bs bs' : list bool) : Prop := length bs <= length bs' \/ n <= length bs'.

Lemma agree_split a b bs bs' : agree (a + b) bs bs' -> agree a bs bs' /\ agree b (skipn a bs) (skipn a bs').
Proof.
  unfold agree. rewrite !take_ze_add. intros H.
  apply app_eq_len in H; [exact H|]. rewrite !take_ze_length. reflexivity.
Qed.

Lemma agree_le n m bs bs' : m <= n -> agree n bs bs' -> agree m bs bs'.
Proof. intros H A. replace n with (m + (n - m)) in A by lia. apply agree_split in A. apply A. Qed.

Lemma agree_at a m n bs bs' : a + m <= n -> agree n bs bs' -> agree m (skipn a bs) (skipn a bs').
Proof. intros H A. apply (agree_le _ (a + m)) in A; [|exact H]. apply agree_split in A. apply A. Qed.

Lemma enough_at a m n bs bs' : a + m <= n -> enough n bs bs' -> enough m (skipn a bs) (skipn a bs').
Proof. unfold enough. rewrite !skipn_length. lia. Qed.

Lemma take_ze_firstn m : forall bs, m <= length bs -> take_ze m bs = firstn m bs.
Proof.
  induction m as [|m IH]; intros [|x bs] H; cbn in *; try reflexivity; [lia|]. rewrite IH by lia. reflexivity.
Qed.


Lemma dec_prim_agree p bs bs' : agree (prim_bits p) bs bs' -> dec_prim p bs = dec_prim p bs'.
Proof.
  unfold agree. destruct p; cbn [dec_prim prim_bits]; unfold read_N; intros H; rewrite ?H; reflexivity.
Qed.

(* the extensionality statement, for a decoder D at a type *)
Definition ext_ok {A} (D : list bool -> res (A * nat)) : Prop :=
  forall bs bs' v n, D bs = Ok (v, n) -> agree n bs bs' -> enough n bs bs' -> D bs' = Ok (v, n).

Definition P_ext (t : ty) : Prop := ext_ok (dec_body t).
Definition P_extf (t : ty) : Prop := ext_ok (dec_field t).

Lemma ext_body_to_field t : P_ext t -> P_extf t.
Proof.
  intros H. unfold P_extf, dec_field, as_field_dec.
  destruct t as [p|e n|e c|u fs [x|]]; try exact H.
  intros bs bs' v n Hd Ha He. set (hb := header_bits) in *. assert (Hhb : hb = 32) by reflexivity. clearbody hb.
  destruct (N.ltb_spec (N.of_nat (length (skipn hb bs))) (8 * read_N hb bs)) as [Hlt|Hge]; [discriminate|].
  set (h := N.to_nat (read_N hb bs)) in *.
  destruct (dec_body (TComp u fs (Some x)) (firstn (8 * h) (skipn hb bs))) as [[v0 k]|] eqn:E; cbn [bind] in Hd; [|discriminate].
  apply Ok_inj in Hd. injection Hd as Hv Hn. subst v0.
  assert (Hh : read_N hb bs' = read_N hb bs).
  { unfold read_N. apply (agree_le _ hb) in Ha; [|lia]. unfold agree in Ha. rewrite Ha. reflexivity. }
  rewrite Hh. fold h.
  rewrite skipn_length in Hge.
  assert (Hlen : 8 * h <= length (skipn hb bs')).
  { rewrite skipn_length. unfold enough in He. subst h. lia. }
  destruct (N.ltb_spec (N.of_nat (length (skipn hb bs'))) (8 * read_N hb bs)) as [Hlt|_]; [subst h; lia|].
  assert (Hf : firstn (8 * h) (skipn hb bs') = firstn (8 * h) (skipn hb bs)).
  { assert (Hle : hb + 8 * h <= n) by lia.
    pose proof (agree_at hb (8 * h) _ _ _ Hle Ha) as A. unfold agree in A.
    rewrite !take_ze_firstn in A; [symmetry; exact A | exact Hlen | rewrite skipn_length; subst h; lia]. }
  rewrite Hf, E. cbn [bind]. f_equal. f_equal. lia.
Qed.

Lemma ext_list De : ext_ok De -> forall n, ext_ok (dec_list De n).
Proof.
  intros H. induction n as [|n IH]; intros bs bs' v m Hd Ha He; cbn [dec_list] in *.
  - exact Hd.
  - destruct (De bs) as [[v0 k]|] eqn:E0; cbn [bind] in Hd; [|discriminate].
    destruct (dec_list De n (skipn k bs)) as [[vs m0]|] eqn:E1; cbn [bind] in Hd; [|discriminate].
    apply Ok_inj in Hd. injection Hd as <- <-.
    rewrite (H _ bs' _ _ E0); [|eapply agree_le; [|exact Ha]; lia | unfold enough in *; lia]. cbn [bind].
    rewrite (IH _ (skipn k bs') _ _ E1); [reflexivity | eapply agree_at; [|exact Ha]; lia | eapply enough_at; [|exact He]; lia].
Qed.

Lemma dec_fields_mono D fs : forall bs off vs o, dec_fields D fs bs off = Ok (vs, o) -> off <= o.
Proof.
  induction fs as [|f fs IH]; intros bs off vs o Hd; cbn [dec_fields] in Hd.
  - apply Ok_inj in Hd. injection Hd as _ <-. lia.
  - destruct (D f _) as [[v k]|]; cbn [bind] in Hd; [|discriminate].
    destruct (dec_fields D fs _ _) as [[vs0 o0]|] eqn:E; cbn [bind] in Hd; [|discriminate].
    apply Ok_inj in Hd. injection Hd as _ <-. apply IH in E. lia.
Qed.

Lemma ext_fields D fs : Forall (fun f => ext_ok (D f)) fs ->
  forall bs bs' off vs o, dec_fields D fs bs off = Ok (vs, o) ->
    agree (o - off) bs bs' -> enough (o - off) bs bs' -> dec_fields D fs bs' off = Ok (vs, o).
Proof.
  induction 1 as [|f fs Hf Hfs IH]; intros bs bs' off vs o Hd Ha He; cbn [dec_fields] in *.
  - exact Hd.
  - set (p := padn off (align f)) in *.
    destruct (D f (skipn p bs)) as [[v k]|] eqn:E0; cbn [bind] in Hd; [|discriminate].
    destruct (dec_fields D fs (skipn (p + k) bs) (off + p + k)) as [[vs0 o0]|] eqn:E1; cbn [bind] in Hd; [|discriminate].
    apply Ok_inj in Hd. injection Hd as <- <-.
    pose proof (dec_fields_mono _ _ _ _ _ _ E1) as Hm.
    rewrite (Hf _ (skipn p bs') _ _ E0); [|eapply agree_at; [|exact Ha]; lia | eapply enough_at; [|exact He]; lia]. cbn [bind].
    rewrite (IH _ (skipn (p + k) bs') _ _ _ E1); [reflexivity | eapply agree_at; [|exact Ha]; lia | eapply enough_at; [|exact He]; lia].
Qed.

Lemma ext_sel D fs : Forall (fun f => ext_ok (D f)) fs -> forall k, ext_ok (dec_sel D fs k).
Proof.
  induction 1 as [|f fs Hf Hfs IH]; intros k; [intros bs bs' v n Hd; destruct k; discriminate|].
  destruct k as [|k]; cbn [dec_sel]; [exact Hf | apply IH].
Qed.

Theorem dec_ext_all : forall t, P_ext t.
Proof.
  induction t as [p|t n0 IHt|t c IHt|u fs ext H] using ty_nested_ind; unfold P_ext, ext_ok; intros bs bs' v n Hd Ha He.
  - (* primitive *)
    cbn [dec_body] in *. apply Ok_inj in Hd. injection Hd as <- <-. rewrite (dec_prim_agree p bs bs' Ha). reflexivity.
  - (* fixed array *)
    cbn [dec_body] in *. change (as_field_dec dec_body) with dec_field in *.
    destruct (dec_list _ n0 bs) as [[vs k]|] eqn:E; cbn [bind] in Hd; [|discriminate].
    apply Ok_inj in Hd. injection Hd as <- <-.
    rewrite (ext_list _ (ext_body_to_field t IHt) n0 _ bs' _ _ E Ha He). reflexivity.
  - (* variable array *)
    cbn [dec_body] in *. change (as_field_dec dec_body) with dec_field in *.
    destruct (N.ltb_spec (N.of_nat c) (read_N (prefix_bits c) bs)) as [|Hge]; [discriminate|].
    destruct (dec_list _ _ (skipn (prefix_bits c) bs)) as [[vs k]|] eqn:E; cbn [bind] in Hd; [|discriminate].
    apply Ok_inj in Hd. injection Hd as <- <-.
    assert (Hp : read_N (prefix_bits c) bs' = read_N (prefix_bits c) bs).
    { unfold read_N. apply (agree_le _ (prefix_bits c)) in Ha; [|lia]. unfold agree in Ha. rewrite Ha. reflexivity. }
    rewrite Hp. destruct (N.ltb_spec (N.of_nat c) (read_N (prefix_bits c) bs)) as [|_]; [lia|].
    rewrite (ext_list _ (ext_body_to_field t IHt) _ _ (skipn (prefix_bits c) bs') _ _ E);
      [reflexivity | eapply agree_at; [|exact Ha]; lia | eapply enough_at; [|exact He]; lia].
  - (* composite *)
    assert (Hf : Forall (fun f => ext_ok (dec_field f)) fs).
    { rewrite Forall_forall in *. intros f Hin. apply ext_body_to_field. apply H. exact Hin. }
    destruct u; cbn [dec_body] in *.
    + set (tw := tag_bits (length fs)) in *.
      destruct (N.leb_spec (N.of_nat (length fs)) (read_N tw bs)) as [|Hlt]; [discriminate|].
      destruct (dec_sel _ fs _ (skipn tw bs)) as [[v0 k]|] eqn:E; cbn [bind] in Hd; [|discriminate].
      apply Ok_inj in Hd. injection Hd as <- <-.
      assert (Hp : read_N tw bs' = read_N tw bs).
      { unfold read_N. apply (agree_le _ tw) in Ha; [|lia]. unfold agree in Ha. rewrite Ha. reflexivity. }
      rewrite Hp. destruct (N.leb_spec (N.of_nat (length fs)) (read_N tw bs)) as [|_]; [lia|].
      change (as_field_dec dec_body) with dec_field in *.
      rewrite (ext_sel _ fs Hf _ _ (skipn tw bs') _ _ E);
        [reflexivity | eapply agree_at; [|exact Ha]; lia | eapply enough_at; [|exact He]; lia].
    + destruct (dec_fields _ fs bs 0) as [[vs k]|] eqn:E; cbn [bind] in Hd; [|discriminate].
      apply Ok_inj in Hd. injection Hd as <- <-.
      change (as_field_dec dec_body) with dec_field in *.
      rewrite (ext_fields _ fs Hf _ bs' _ _ _ E); [reflexivity | rewrite Nat.sub_0_r; exact Ha | rewrite Nat.sub_0_r; exact He].
Qed.

(* the decoder only looks at the bits it consumes (zero-extended), plus "enough real data" for delimiter headers *)
Theorem dec_ext : forall t bs bs' v n, dec_body t bs = Ok (v, n) ->
  take_ze n bs = take_ze n bs' -> (length bs <= length bs' \/ n <= length bs') -> dec_body t bs' = Ok (v, n).
Proof. intros t bs bs' v n. exact (dec_ext_all t bs bs' v n). Qed.

Lemma take_ze_app_zeros n : forall bs k, take_ze n (bs ++ repeat false k) = take_ze n bs.
Proof.
  induction n as [|n IH]; intros bs k; [reflexivity|].
  destruct bs as [|x bs]; cbn [app take_ze].
  - destruct k; cbn [repeat take_ze]; [reflexivity|]. f_equal. rewrite <- (IH [] k). reflexivity.
  - rewrite IH. reflexivity.
Qed.

(* implicit zero extension: appending zero bits never changes a successful decoding *)
Theorem dec_zero_ext : forall t bs k v n, dec_body t bs = Ok (v, n) -> dec_body t (bs ++ repeat false k) = Ok (v, n).
Proof.
  intros t bs k v n H. apply (dec_ext t bs _ v n H).
  - symmetry. apply take_ze_app_zeros.
  - left. rewrite app_length. lia.
Qed.

Lemma take_ze_app_le n : forall p g, n <= length p -> take_ze n (p ++ g) = take_ze n p.
Proof.
  induction n as [|n IH]; intros [|x p] g H; cbn in *; try reflexivity; [lia|]. rewrite IH by lia. reflexivity.
Qed.

(* implicit truncation: bits past what the type consumed are ignored *)
Theorem dec_prefix_indep : forall t p g g' v n, dec_body t (p ++ g) = Ok (v, n) -> n <= length p ->
  dec_body t (p ++ g') = Ok (v, n).
Proof.
  intros t p g g' v n H Hn. apply (dec_ext t _ _ v n H).
  - rewrite !take_ze_app_le by exact Hn. reflexivity.
  - right. rewrite app_length. lia.
Qed.

(* at the contract level: zero extension does not change the decoded value *)
Theorem des_zero_ext_value : forall t bs k v c, des_spec t bs = Ok (v, c) ->
  exists c', des_spec t (bs ++ repeat false k) = Ok (v, c') /\ c <= c'.
Proof.
  unfold des_spec. intros t bs k v c H.
  destruct (dec_body t bs) as [[v0 n]|] eqn:E; cbn [bind] in H; [|discriminate].
  apply Ok_inj in H. apply pair_equal_spec in H. destruct H as [-> <-].
  rewrite (dec_zero_ext _ _ k _ _ E). cbn [bind]. eexists. split; [reflexivity|].
  rewrite app_length. apply Nat.div_le_mono; lia.
Qed.
