(* C09 -- identifier stropping.  Statements only; proofs in Gen/StropThm*.v.
   strop_c / strop_cpp / strop_py = the model Gen/Strop.v of TokenEncoder.strop instantiated with the
   configuration that tools/translators/gen_c09.py regenerates from /repo on every run
   (Generated/Gen_Strop.v: reserved lists incl. Python's keywords+builtins, reserved patterns and
   encoding rules as regex ASTs, prefixes, handler kinds) and with the interpreter's \s \d isspace tables.
   Strings are lists of code points; identifier types are arbitrary strings. *)
From Verif Require Import StropInst StropThmRe StropThmEnc StropThm StropThmPipe StropThmCache StropThmInst Gen_Pin_strop_methods.
Open Scope N_scope.

(* ---- source tie of the model itself ----
   (a) the body of TokenEncoder.strop is translated statement by statement into the step list Gen_Strop.strop_pipeline
       (walker gen_c09.strop_pipeline: order of the stages, which transform each dry-run check re-runs, which handler attribute
       each `except` consults, the final re-verification); it IS the list the model was written for, and the model's `strop`
       is its interpretation (run_pipeline) -- for the shipped and for every override configuration;
   (b) the methods the steps call (_encode, _strop_by_keyword, _strop_by_pattern, _do_for_type_and_all, _matches,
       _encoding_filter, encode_character, __init__, the `any` synthesis) and Language.filter_id / _token_encoder of c, cpp, py,
       default_filter_id_for_target, filter_short_reference_name have the normalised AST the hand model was written for. *)
Theorem pipeline_is_model : strop_pipeline = model_pipeline strop_reverifies.
Proof. exact pipeline_is_model_thm. Qed.
Print Assumptions pipeline_is_model.

Theorem strop_is_regenerated_pipeline : forall k l ty s,
  strop_sel k l ty s = run_pipeline py_uni py_isspace (cfg_sel k l) strop_pipeline ty s.
Proof. exact strop_is_regenerated_pipeline_thm. Qed.
Print Assumptions strop_is_regenerated_pipeline.

(* (c) the C / C++ failure handlers are translated (regex parts as ASTs, the returned string as a template); interpreted with
       the regex semantics of Common/Regex.v they are the function `handler_und` the model uses for kind HUnd *)
Theorem handlers_translated_are_model : forall h, In h handlers_translated ->
  forall s, handler_gen py_uni (fst (fst h)) (snd (fst h)) (snd h) s = handler_und s.
Proof. exact handlers_translated_und_thm. Qed.
Print Assumptions handlers_translated_are_model.

Example nv_handlers_translated : handlers_translated <> [].
Proof. discriminate. Qed.

Example C09_strop_methods_shape_pinned : pin_strop_methods_ok = true.
Proof. reflexivity. Qed.

(* the same soundness statement for each of the FINITELY many configurations the correspondence run exercises: cfg_sel k is the
   shipped configuration for k = 0 and for k beyond the dumped overrides, override k-1 of Gen_Strop.cfgs_ov otherwise -- a sweep,
   not a statement about all configurations (that is strop_sound_any_config / _partial above) *)
Theorem strop_sound_overrides : forall k l (ty s t : str), s <> [] -> strop_sel k l ty s = Ok t ->
  valid_ident t = true /\ reserved_sel k l t = false /\ pattern_sel k l ty t = false.
Proof. exact strop_sound_sel. Qed.
Print Assumptions strop_sound_overrides.

(* ---- TOTALITY: a token is ALWAYS returned -- every non-empty code-point string, every identifier type but `all`.
   The model can fail only where the code raises (no fuel, no engine limit), so this says TokenEncoder.strop cannot raise
   RuntimeError under the shipped configuration.  Side conditions recomputed from the regenerated data (StropThmTotal.v). ---- *)
Theorem strop_total_c : forall (ty s : str), s <> [] -> str_eqb (lower ty) ty_all = false -> exists t, strop_c ty s = Ok t.
Proof. exact strop_total_c_thm. Qed.
Print Assumptions strop_total_c.

Theorem strop_total_cpp : forall (ty s : str), s <> [] -> str_eqb (lower ty) ty_all = false -> exists t, strop_cpp ty s = Ok t.
Proof. exact strop_total_cpp_thm. Qed.
Print Assumptions strop_total_cpp.

Theorem strop_total_py : forall (ty s : str), s <> [] -> str_eqb (lower ty) ty_all = false -> exists t, strop_py ty s = Ok t.
Proof. exact strop_total_py_thm. Qed.
Print Assumptions strop_total_py.

(* every DSDL name -- valid_ident = [A-Za-z_][A-Za-z0-9_]*, NO length bound (pydsdl only removes names from this set) --
   reserved or not, for every language and identifier type: a token comes back and it is legal and unreserved *)
Theorem strop_dsdl_identifier : forall l (ty s : str), valid_ident s = true -> str_eqb (lower ty) ty_all = false ->
  exists t, strop_lang l ty s = Ok t /\ valid_ident t = true /\ reserved_lang l t = false /\ pattern_lang l ty t = false.
Proof. exact strop_dsdl_ident_thm. Qed.
Print Assumptions strop_dsdl_identifier.

(* the exact outcome set *)
Theorem strop_outcomes : forall l (ty s : str), s <> [] ->
  (str_eqb (lower ty) ty_all = true /\ strop_lang l ty s = ErrValue)
  \/ (str_eqb (lower ty) ty_all = false /\ exists t, strop_lang l ty s = Ok t).
Proof. exact strop_outcomes_thm. Qed.
Print Assumptions strop_outcomes.

(* ---- soundness: whatever is returned is a valid, unreserved identifier -- ALL strings, ALL id types ---- *)
Theorem strop_sound_c : forall (ty s t : str), s <> [] -> strop_c ty s = Ok t ->
  valid_ident t = true /\ reserved_lang LC t = false /\ pattern_lang LC ty t = false.
Proof. exact (strop_sound_lang LC). Qed.
Print Assumptions strop_sound_c.

Theorem strop_sound_cpp : forall (ty s t : str), s <> [] -> strop_cpp ty s = Ok t ->
  valid_ident t = true /\ reserved_lang LCpp t = false /\ pattern_lang LCpp ty t = false.
Proof. exact (strop_sound_lang LCpp). Qed.
Print Assumptions strop_sound_cpp.

Theorem strop_sound_py : forall (ty s t : str), s <> [] -> strop_py ty s = Ok t ->
  valid_ident t = true /\ reserved_lang LPy t = false /\ pattern_lang LPy ty t = false.
Proof. exact (strop_sound_lang LPy). Qed.
Print Assumptions strop_sound_py.

(* the side conditions the generic theorem needs hold of the configuration /repo has now *)
Theorem config_side_conditions : forall l, chk_sound py_uni (cfg_of l) = true.
Proof. exact chk_sound_lang. Qed.
Print Assumptions config_side_conditions.

(* ---- all configurations (overrides): sound whenever the boolean side condition holds; false without it ---- *)
Theorem strop_sound_any_config_partial : forall (cfg : strop_cfg), chk_sound py_uni cfg = true ->
  forall (ty s t : str), s <> [] -> strop py_uni py_isspace cfg ty s = Ok t ->
  valid_ident t = true /\ is_reserved cfg t = false /\ matches_reserved_pattern py_uni cfg ty t = false.
Proof. exact (strop_sound_gen py_uni py_isspace). Qed.
Print Assumptions strop_sound_any_config_partial.

(* a tree whose strop re-verifies the token it returns (sc_reverify, recognised by T1 with ast) needs NO condition on the
   handlers: for every configuration with the validity conditions chk_base the full statement holds *)
Theorem strop_sound_any_config : forall (cfg : strop_cfg), sc_reverify cfg = true -> chk_base py_uni cfg = true ->
  forall (ty s t : str), s <> [] -> strop py_uni py_isspace cfg ty s = Ok t ->
  valid_ident t = true /\ is_reserved cfg t = false /\ matches_reserved_pattern py_uni cfg ty t = false.
Proof. exact strop_sound_reverify_gen. Qed.
Print Assumptions strop_sound_any_config.

(* /repo has that re-verification NOW (the flag is regenerated by T1 from the source of strop); the refutation for the tree
   before the fix lives in History/C09_history.v *)
Theorem strop_final_token_reverified : strop_reverifies = true /\ forall l, sc_reverify (cfg_of l) = true.
Proof. exact strop_reverified_now_thm. Qed.
Print Assumptions strop_final_token_reverified.

(* Python's reserved list contains keyword.kwlist + dir(builtins) of the interpreter that runs nunavut (a table the translator
   takes from the interpreter itself, not from nunavut.lang.py) *)
Theorem py_reserved_covers_interpreter :
  forall w, In w (py_kwlist ++ py_interpreter_reserved) -> reserved_lang LPy w = true.
Proof. exact py_reserved_covers_interpreter_thm. Qed.
Print Assumptions py_reserved_covers_interpreter.

(* ---- identity: a valid identifier that is not reserved and matches no reserved pattern is returned unchanged ---- *)
(* clean_lang l ty t = valid_ident t && not reserved && matches no reserved pattern of `all`/ty *)
Theorem strop_id_c : forall (ty t : str), str_eqb (lower ty) ty_all = false -> clean_lang LC ty t = true -> strop_c ty t = Ok t.
Proof. exact strop_id_c_thm. Qed.
Print Assumptions strop_id_c.

Theorem strop_id_py : forall (ty t : str), str_eqb (lower ty) ty_all = false -> clean_lang LPy ty t = true -> strop_py ty t = Ok t.
Proof. exact strop_id_py_thm. Qed.
Print Assumptions strop_id_py.

(* cpp: the unrestricted statement is false of the faithful model (witness `__x`, any): the configuration encodes leading and
   trailing runs of underscores (rules ^_{2,} and _{2,}$).  Excluded trigger: has_dunder t (the token contains `__`). *)
Theorem strop_id_cpp_refuted :
  exists ty t, str_eqb (lower ty) ty_all = false /\ clean_lang LCpp ty t = true /\ strop_cpp ty t <> Ok t.
Proof. exact strop_id_cpp_refuted_thm. Qed.
Print Assumptions strop_id_cpp_refuted.

Theorem strop_id_cpp_partial : forall (ty t : str),
  str_eqb (lower ty) ty_all = false -> clean_lang LCpp ty t = true -> has_dunder t = false -> strop_cpp ty t = Ok t.
Proof. exact strop_id_cpp_partial_thm. Qed.
Print Assumptions strop_id_cpp_partial.

(* ---- distinctness is NOT claimed by C09 and does not hold: two different DSDL names (first [A-Za-z_], then any number of [A-Za-z0-9_]) can be given the
   same token -- witness c, any: `if` and `_if` both become `_if` (reproduced on /repo: a DSDL type with fields `if` and `_if`
   yields a C struct with two members `_if`).  What holds, over the full identifier alphabet with no length bound: on clean
   names (valid, unreserved, pattern-free; for cpp without `__`) strop is the identity and therefore injective. ---- *)
Theorem strop_injective_refuted :
  exists l ty s1 s2 t, s1 <> s2 /\ valid_ident s1 = true /\ valid_ident s2 = true
                       /\ strop_lang l ty s1 = Ok t /\ strop_lang l ty s2 = Ok t.
Proof. exact strop_injective_refuted_thm. Qed.
Print Assumptions strop_injective_refuted.

Theorem strop_injective_partial : forall l (ty s1 s2 : str),
  str_eqb (lower ty) ty_all = false -> clean_lang l ty s1 = true -> clean_lang l ty s2 = true ->
  (l = LCpp -> has_dunder s1 = false /\ has_dunder s2 = false) ->
  strop_lang l ty s1 = strop_lang l ty s2 -> s1 = s2.
Proof. exact strop_injective_on_clean_thm. Qed.
Print Assumptions strop_injective_partial.

(* ---- determinism / cache isolation.  strop is a function of (configuration, type, token).  The only memoisation on the path
   of Language.filter_id is functools.lru_cache on TokenEncoder.strop: one cache shared by ALL encoders of the process, keyed
   by the decorated function's arguments -- regenerated: (self, token, token_type), `self` by identity, configuration frozen
   after __init__.  For any family of configurations and ANY interleaving of calls, starting from the empty cache, every
   call returns its own encoder's uncached answer; no hypothesis about the cache. ---- *)
Theorem cache_key_is_model :
  strop_cache_key = model_cache_key /\ strop_self_by_identity = true /\ encoder_attrs_frozen = true.
Proof. repeat split; reflexivity. Qed.

Theorem lru_shared_transparent : forall (enc : nat -> strop_cfg) maxsize calls,
  run_calls py_uni py_isspace enc maxsize [] calls = map (uncached py_uni py_isspace enc) calls.
Proof. exact lru_shared_transparent_thm. Qed.
Print Assumptions lru_shared_transparent.

(* two encoders with ANY two configurations (different prefix, reserved tables, ...) in one process never get each other's results *)
Theorem two_encoders_isolated : forall (A B : strop_cfg) maxsize (calls : list skey),
  run_calls py_uni py_isspace (enc2 A B) maxsize [] calls
  = map (fun k : skey => strop py_uni py_isspace (match fst (fst k) with O => A | S _ => B end) (snd k) (snd (fst k))) calls.
Proof. exact two_encoders_isolated_thm. Qed.
Print Assumptions two_encoders_isolated.

(* 'all' is rejected with ValueError for every token *)
Theorem strop_type_all : forall l ty s, lower ty = ty_all -> strop_lang l ty s = ErrValue.
Proof. exact strop_all_lang. Qed.
Print Assumptions strop_type_all.

(* ---- non-vacuity: the hypotheses are satisfiable and every branch of the model is live ---- *)
(* "if" -> "_if" (c, keyword) *)
Example nv_c_keyword : strop_c ty_any [105; 102] = Ok [95; 105; 102].
Proof. vm_compute; reflexivity. Qed.
(* "_Reserved" -> "_reserved" (c, pattern + failure handler) *)
Example nv_c_handler : strop_c ty_any [95; 82; 101] = Ok [95; 114; 101].
Proof. vm_compute; reflexivity. Qed.
(* "_Ab" -> "_ab" (cpp, encoding-failure handler) *)
Example nv_cpp_enc_handler : strop_cpp ty_any [95; 65; 98] = Ok [95; 97; 98].
Proof. vm_compute; reflexivity. Qed.
(* "1a" -> "_1a" (cpp, pattern) *)
Example nv_cpp_digit : strop_cpp ty_any [49; 97] = Ok [95; 49; 97].
Proof. vm_compute; reflexivity. Qed.
(* "if" -> "if_" (py, keyword), "a b" -> "a_b", "1" -> "zX0031" *)
Example nv_py_keyword : strop_py ty_any [105; 102] = Ok [105; 102; 95].
Proof. vm_compute; reflexivity. Qed.
Example nv_py_encode : strop_py ty_any [49] = Ok [122; 88; 48; 48; 51; 49].
Proof. vm_compute; reflexivity. Qed.
(* identity hypotheses are satisfiable: "qz_7" is clean for every language; "a__b" is clean for cpp but has a dunder *)
Example nv_clean_c : clean_lang LC ty_any [113; 122; 95; 55] = true /\ strop_c ty_any [113; 122; 95; 55] = Ok [113; 122; 95; 55].
Proof. vm_compute; split; reflexivity. Qed.
Example nv_clean_cpp : clean_lang LCpp ty_any [113; 122; 95; 55] = true /\ has_dunder [113; 122; 95; 55] = false.
Proof. vm_compute; split; reflexivity. Qed.
Example nv_clean_py : clean_lang LPy ty_any [113; 122; 95; 55] = true.
Proof. vm_compute; reflexivity. Qed.
(* interleaved calls on the shipped C encoder and the one with prefix _pre_/suffix _post_, cache of 2 entries (evictions) *)
Example nv_two_encoders :
  run_calls py_uni py_isspace (enc2 cfg_c (cfg_sel 1 LC)) (Some 2%nat) []
            [(0%nat, [105; 102], ty_any); (1%nat, [105; 102], ty_any); (0%nat, [105; 102], ty_any); (1%nat, [97], ty_any);
             (0%nat, [97], ty_any); (1%nat, [105; 102], ty_any)]
  = [Ok [95; 105; 102]; Ok [95; 112; 114; 101; 95; 105; 102; 95; 112; 111; 115; 116; 95]; Ok [95; 105; 102]; Ok [97]; Ok [97];
     Ok [95; 112; 114; 101; 95; 105; 102; 95; 112; 111; 115; 116; 95]].
Proof. vm_compute; reflexivity. Qed.
(* totality hypotheses are satisfiable on reserved words: "if" is a DSDL-shaped name that is reserved everywhere *)
Example nv_total_reserved : valid_ident [105; 102] = true /\ reserved_lang LC [105; 102] = true /\ reserved_lang LPy [105; 102] = true.
Proof. vm_compute; repeat split; reflexivity. Qed.
(* "__debug__" is in the interpreter table, hence reserved, hence stropped for py *)
Example nv_py_dunder_builtin : strop_py ty_any [95; 95; 100; 101; 98; 117; 103; 95; 95] = Ok [95; 95; 100; 101; 98; 117; 103; 95; 95; 95].
Proof. vm_compute; reflexivity. Qed.
