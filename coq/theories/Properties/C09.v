(* C09 -- identifier stropping.  Statements only; proofs in Gen/StropThm*.v.
   strop_c / strop_cpp / strop_py = the model Gen/Strop.v of TokenEncoder.strop instantiated with the
   configuration that tools/translators/gen_c09.py regenerates from /repo on every run
   (Generated/Gen_Strop.v: reserved lists incl. Python's keywords+builtins, reserved patterns and
   encoding rules as regex ASTs, prefixes, handler kinds) and with the interpreter's \s \d isspace tables.
   Strings are lists of code points; identifier types are arbitrary strings. *)
From Verif Require Import StropInst StropThmRe StropThmEnc StropThm StropThmPipe StropThmCache StropThmFull StropThmInst StropKeywords StropThmKw StropThmTrail Gen_Pin_strop_methods.
Open Scope N_scope.

(* ---- source tie of the model itself ----
   (a) the body of TokenEncoder.strop is translated statement by statement into the step list Gen_Strop.strop_pipeline
       (walker gen_c09.strop_pipeline: order of the stages, which transform each dry-run check re-runs, which handler attribute
       each `except` consults, the final re-verification); it IS the list the model was written for, and the model's `strop`
       is its interpretation (run_pipeline) -- for the shipped and for every override configuration;
   (b) the methods the steps call (_encode, _strop_by_keyword, _strop_by_pattern, _do_for_type_and_all, _matches,
       _encoding_filter, encode_character, __init__, the `any` synthesis), Language._token_encoder of c, cpp, py and
       filter_short_reference_name have the normalised AST the hand model was written for (filter_id: see (d)). *)
Theorem pipeline_is_model : strop_pipeline = model_pipeline strop_reverifies strop_full_check.
Proof. exact pipeline_is_model_thm. Qed.
Print Assumptions pipeline_is_model.

Theorem strop_is_regenerated_pipeline : forall k l ty s,
  strop_sel k l ty s = run_pipeline py_uni py_isspace (cfg_sel k l) strop_pipeline ty s.
Proof. exact strop_is_regenerated_pipeline_thm. Qed.
Print Assumptions strop_is_regenerated_pipeline.

(* (c) the C / C++ failure handlers are translated (regex parts as ASTs, the returned string as a template); interpreted with
       the regex semantics of Common/Regex.v they are the function `handler_und` the model uses for kind HUnd *)
Theorem handlers_translated_are_model : forall h, In h handlers_translated ->
  forall s, handler_gen py_uni (fst (fst h)) (snd (fst h)) (snd h) s = handler_und s.
Proof. exact handlers_translated_und_thm. Qed.
Print Assumptions handlers_translated_are_model.

Example nv_handlers_translated : handlers_translated <> [].
Proof. discriminate. Qed.

(* (d) the property's observable Language.filter_id(instance, id_type): default_filter_id_for_target and the filter_id bodies of
       c, cpp, py are translated (cases / steps as data) and ARE the model StropInst.filter_id =
       strop(default_filter_id(instance), id_type); `instance` is an object with a `name` attribute or anything else (str()). *)
Theorem filter_id_is_model :
  default_id_rule = model_default_rule
  /\ filter_id_steps_c = model_filter_id_steps /\ filter_id_steps_cpp = model_filter_id_steps /\ filter_id_steps_py = model_filter_id_steps
  /\ forall i, run_default default_id_rule i = Some (default_filter_id i).
Proof. exact filter_id_is_model_thm. Qed.
Print Assumptions filter_id_is_model.

(* the whole property on the observable: whatever the instance, if its name is non-empty a token is returned, and it is a valid
   identifier, not reserved, free of reserved patterns and not a keyword of the language *)
Theorem filter_id_total_and_sound : forall l (i : inst) (ty : str), default_filter_id i <> [] -> str_eqb (lower ty) ty_all = false ->
  exists t, filter_id l i ty = Ok t /\ valid_ident t = true /\ reserved_lang l t = false /\ pattern_lang l ty t = false
            /\ ~ In t (lang_keywords l).
Proof. intros l i ty; exact (filter_id_total_sound_thm l i ty cpp_whole_token_premise_holds). Qed.
Print Assumptions filter_id_total_and_sound.

Example C09_strop_methods_shape_pinned : pin_strop_methods_ok = true.
Proof. reflexivity. Qed.

(* the same soundness statement for each of the FINITELY many configurations the correspondence run exercises: cfg_sel k is the
   shipped configuration for k = 0 and for k beyond the dumped overrides, override k-1 of Gen_Strop.cfgs_ov otherwise -- a sweep,
   not a statement about all configurations (that is strop_sound_any_config / _partial above) *)
Theorem strop_sound_overrides : forall k l (ty s t : str), s <> [] -> strop_sel k l ty s = Ok t ->
  valid_ident t = true /\ reserved_sel k l t = false /\ pattern_sel k l ty t = false.
Proof. exact strop_sound_sel. Qed.
Print Assumptions strop_sound_overrides.

(* ---- TOTALITY: a token is ALWAYS returned -- every non-empty code-point string, every identifier type but `all`.
   The model can fail only where the code raises (no fuel, no engine limit), so this says TokenEncoder.strop cannot raise
   RuntimeError under the shipped configuration.  Side conditions recomputed from the regenerated data (StropThmTotal.v). ---- *)
(* The whole-token loop of _reverified (fix of F-STROP-ILLEGAL-AFFIX) accepts every token the cpp encoder returns: the former
   named premise cpp_whole_token_premise is PROVED (Gen/StropThmTrail.v): exact semantics of the rule _{2,}$ on alphabet strings,
   closed form of re.sub with it (so the encoder's output never ends in `__`), "does not end in `__`" carried through the
   keyword / pattern / handler stages (cpp: suffix empty), rules \s+ and [^a-zA-Z0-9_]+ by the look-ahead analysis, ^_{2,} by the
   anchored dry-run.  The totality theorems below are therefore unconditional for all three languages. *)
Theorem cpp_whole_token_premise_discharged : cpp_whole_token_premise.
Proof. exact cpp_whole_token_premise_holds. Qed.
Print Assumptions cpp_whole_token_premise_discharged.

Theorem strop_total_c : forall (ty s : str), s <> [] -> str_eqb (lower ty) ty_all = false -> exists t, strop_c ty s = Ok t.
Proof. exact strop_total_c_thm. Qed.
Print Assumptions strop_total_c.

Theorem strop_total_cpp : forall (ty s : str), s <> [] -> str_eqb (lower ty) ty_all = false -> exists t, strop_cpp ty s = Ok t.
Proof. intros ty s; exact (strop_total_cpp_thm ty s cpp_whole_token_premise_holds). Qed.
Print Assumptions strop_total_cpp.

Theorem strop_total_py : forall (ty s : str), s <> [] -> str_eqb (lower ty) ty_all = false -> exists t, strop_py ty s = Ok t.
Proof. exact strop_total_py_thm. Qed.
Print Assumptions strop_total_py.

(* every DSDL name -- valid_ident = [A-Za-z_][A-Za-z0-9_]*, NO length bound (pydsdl only removes names from this set) --
   reserved or not, for every language and identifier type: a token comes back and it is legal and unreserved *)
Theorem strop_dsdl_identifier : forall l (ty s : str), valid_ident s = true -> str_eqb (lower ty) ty_all = false ->
  exists t, strop_lang l ty s = Ok t /\ valid_ident t = true /\ reserved_lang l t = false /\ pattern_lang l ty t = false.
Proof. intros l ty s; exact (strop_dsdl_ident_thm l ty s cpp_whole_token_premise_holds). Qed.
Print Assumptions strop_dsdl_identifier.

(* the exact outcome set *)
Theorem strop_outcomes : forall l (ty s : str), s <> [] ->
  (str_eqb (lower ty) ty_all = true /\ strop_lang l ty s = ErrValue)
  \/ (str_eqb (lower ty) ty_all = false /\ exists t, strop_lang l ty s = Ok t).
Proof. intros l ty s; exact (strop_outcomes_thm l ty s cpp_whole_token_premise_holds). Qed.
Print Assumptions strop_outcomes.

(* ---- soundness: whatever is returned is a valid, unreserved identifier -- ALL strings, ALL id types ---- *)
Theorem strop_sound_c : forall (ty s t : str), s <> [] -> strop_c ty s = Ok t ->
  valid_ident t = true /\ reserved_lang LC t = false /\ pattern_lang LC ty t = false.
Proof. exact (strop_sound_lang LC). Qed.
Print Assumptions strop_sound_c.

Theorem strop_sound_cpp : forall (ty s t : str), s <> [] -> strop_cpp ty s = Ok t ->
  valid_ident t = true /\ reserved_lang LCpp t = false /\ pattern_lang LCpp ty t = false.
Proof. exact (strop_sound_lang LCpp). Qed.
Print Assumptions strop_sound_cpp.

Theorem strop_sound_py : forall (ty s t : str), s <> [] -> strop_py ty s = Ok t ->
  valid_ident t = true /\ reserved_lang LPy t = false /\ pattern_lang LPy ty t = false.
Proof. exact (strop_sound_lang LPy). Qed.
Print Assumptions strop_sound_py.

(* the side conditions the generic theorem needs hold of the configuration /repo has now *)
Theorem config_side_conditions : forall l, chk_sound py_uni (cfg_of l) = true.
Proof. exact chk_sound_lang. Qed.
Print Assumptions config_side_conditions.

(* ---- all configurations (overrides): sound whenever the boolean side condition holds; false without it ---- *)
Theorem strop_sound_any_config_partial : forall (cfg : strop_cfg), chk_sound py_uni cfg = true ->
  forall (ty s t : str), s <> [] -> strop py_uni py_isspace cfg ty s = Ok t ->
  valid_ident t = true /\ is_reserved cfg t = false /\ matches_reserved_pattern py_uni cfg ty t = false.
Proof. exact (strop_sound_gen py_uni py_isspace). Qed.
Print Assumptions strop_sound_any_config_partial.

(* WHICH configurations (overrides) are covered: chk_base is this decidable predicate over the configuration record -- nothing
   opaque: identifier-alphabet affixes and encoding prefix / whitespace char, an X+ rule whose complement is the identifier
   alphabet, and a leading-digit guard.  strop_sound_any_config proves the property for EVERY configuration satisfying it. *)
Theorem chk_base_spelled_out : forall cfg,
  chk_base py_uni cfg = true <->
  (   affix_ok (sc_enc_prefix cfg) /\ head_ok (sc_enc_prefix cfg)
   /\ match sc_ws_char cfg with Some w => affix_ok w /\ head_ok w | None => True end
   /\ affix_ok (sc_prefix cfg) /\ affix_ok (sc_suffix cfg) /\ (sc_prefix cfg = [] \/ head_ok (sc_prefix cfg))
   /\ existsb good_clsplus (rules_of cfg ty_all) = true
   /\ (existsb (good_boldigit py_uni) (rules_of cfg ty_all) = true \/ existsb (good_boldigit py_uni) (pats_of cfg ty_all) = true)).
Proof. exact chk_base_spelled_out_thm. Qed.
Print Assumptions chk_base_spelled_out.

(* With the whole-token loop in _reverified (sc_full_check; fix of F-STROP-ILLEGAL-AFFIX) soundness needs NOTHING about the affixes,
   the encoding prefix or the handlers: for EVERY configuration with chk_full = an `all` rule X a* whose complement is within
   [A-Za-z0-9_], a leading-digit guard (rule or pattern ^X with 0-9 in X), and whitespace_encoding_char <> "". *)
Theorem strop_sound_any_config_full : forall (cfg : strop_cfg),
  sc_reverify cfg = true -> sc_full_check cfg = true -> chk_full py_uni cfg = true ->
  forall (ty s t : str), s <> [] -> strop py_uni py_isspace cfg ty s = Ok t ->
  valid_ident t = true /\ is_reserved cfg t = false /\ matches_reserved_pattern py_uni cfg ty t = false.
Proof.
  intros cfg H1 H2 H3. pose proof H3 as H4. unfold chk_full in H4. apply andb_prop in H4 as [_ Hws].
  exact (strop_sound_full_gen py_uni py_isspace cfg Hws H1 H2 H3).
Qed.
Print Assumptions strop_sound_any_config_full.

(* live as soon as /repo has the loop (strop_full_check is regenerated): the property for the ten illegal-affix override
   configurations of the sweep (suffix -, /, /../x, .., space, empty, U+00E9, prefix -, both empty, $x), all languages *)
Theorem strop_sound_affix_overrides : strop_full_check = true ->
  forall k l (ty s t : str), s <> [] -> strop_aff k l ty s = Ok t ->
  valid_ident t = true /\ is_reserved (cfg_aff k l) t = false /\ matches_reserved_pattern py_uni (cfg_aff k l) ty t = false.
Proof. exact strop_sound_affix_overrides_thm. Qed.
Print Assumptions strop_sound_affix_overrides.

(* OUTSIDE chk_base the property is FALSE of a tree WITHOUT that loop (cfg_c_suffix has sc_full_check := false): the encoding dry-run uses
   pattern.match (first character only), so an override with a stropping suffix outside the identifier alphabet returns an
   INVALID token instead of raising.  Known finding F-STROP-ILLEGAL-AFFIX (witness reproduced on /repo f2f61d1; proposed fix
   design_notes/C09_dryrun_fullmatch_fix.patch).  Partial: strop_sound_any_config. *)
Theorem strop_illegal_affix_refuted :
  strop py_uni py_isspace (cfg_c_suffix [45]) ty_any [105; 102] = Ok [95; 105; 102; 45]
  /\ valid_ident [95; 105; 102; 45] = false
  /\ strop py_uni py_isspace (cfg_c_suffix [47; 46; 46; 47; 120]) [112; 97; 116; 104] [105; 102] = Ok [95; 105; 102; 47; 46; 46; 47; 120]
  /\ valid_ident [95; 105; 102; 47; 46; 46; 47; 120] = false
  /\ chk_base py_uni (cfg_c_suffix [45]) = false.
Proof. exact strop_illegal_affix_refuted_thm. Qed.
Print Assumptions strop_illegal_affix_refuted.

(* a tree whose strop re-verifies the token it returns (sc_reverify, recognised by T1 with ast) needs NO condition on the
   handlers: for every configuration with the validity conditions chk_base the full statement holds *)
Theorem strop_sound_any_config : forall (cfg : strop_cfg), sc_reverify cfg = true -> chk_base py_uni cfg = true ->
  forall (ty s t : str), s <> [] -> strop py_uni py_isspace cfg ty s = Ok t ->
  valid_ident t = true /\ is_reserved cfg t = false /\ matches_reserved_pattern py_uni cfg ty t = false.
Proof. exact strop_sound_reverify_gen. Qed.
Print Assumptions strop_sound_any_config.

(* /repo has that re-verification NOW (the flag is regenerated by T1 from the source of strop); the refutation for the tree
   before the fix lives in History/C09_history.v *)
Theorem strop_final_token_reverified : strop_reverifies = true /\ forall l, sc_reverify (cfg_of l) = true.
Proof. exact strop_reverified_now_thm. Qed.
Print Assumptions strop_final_token_reverified.

(* Python's reserved list contains keyword.kwlist + dir(builtins) of the interpreter that runs nunavut (a table the translator
   takes from the interpreter itself, not from nunavut.lang.py) *)
Theorem py_reserved_covers_interpreter :
  forall w, In w (py_kwlist ++ py_interpreter_reserved) -> reserved_lang LPy w = true.
Proof. exact py_reserved_covers_interpreter_thm. Qed.
Print Assumptions py_reserved_covers_interpreter.

(* ---- NOT A KEYWORD OF THE LANGUAGE (independent of properties.yaml).  Gen/StropKeywords.v is a committed table: ISO C11 6.4.1,
   ISO C++20 [lex.key] + alternative tokens, keyword.kwlist of Python 3.12 (mirrored by tools/checks/c09_keywords.py, which
   c06_dsdlgen.pools can import).  lang_keywords LC = lang_keywords LCpp = C11 + C++20 + alternative tokens (C headers are
   included from C++), lang_keywords LPy = the 35 hard keywords.  Stated on the regenerated configuration: removing a keyword
   from properties.yaml or from PYTHON_RESERVED_IDENTIFIERS breaks these obligations. ---- *)
Theorem language_keywords_are_reserved : forall l w, In w (lang_keywords l) -> reserved_lang l w = true /\ valid_ident w = true.
Proof. exact keywords_reserved_thm. Qed.
Print Assumptions language_keywords_are_reserved.

(* whatever is returned, for ANY input string and id type, is not a keyword of the language *)
Theorem strop_never_keyword : forall l (ty s t : str), s <> [] -> strop_lang l ty s = Ok t -> ~ In t (lang_keywords l).
Proof. exact strop_never_keyword_thm. Qed.
Print Assumptions strop_never_keyword.

(* a keyword used as a name comes back as a DIFFERENT token, which is not a keyword either *)
Theorem keyword_is_stropped : forall l (ty w : str), In w (lang_keywords l) -> str_eqb (lower ty) ty_all = false ->
  exists t, strop_lang l ty w = Ok t /\ t <> w /\ ~ In t (lang_keywords l).
Proof. intros l ty w; exact (keyword_is_stropped_thm l ty w cpp_whole_token_premise_holds). Qed.
Print Assumptions keyword_is_stropped.

(* self-test of the committed Python table: the interpreter that runs nunavut has exactly these hard keywords *)
Theorem py_keywords_match_interpreter :
  (forall w, In w py_kwlist -> In w py312_keywords) /\ (forall w, In w py312_keywords -> In w py_kwlist).
Proof. exact py_keywords_match_interpreter_thm. Qed.
Print Assumptions py_keywords_match_interpreter.

(* identifiers reserved by the standards whatever the configuration says -- C11 7.1.3 / C++ [lex.name] 3.2: `_` followed by an
   upper-case letter or another `_` (und_reserved, Gen/Strop.v): never returned by the C or the C++ encoder *)
Theorem strop_never_und_reserved : forall l (ty s t : str), (l = LC \/ l = LCpp) -> s <> [] ->
  strop_lang l ty s = Ok t -> und_reserved t = false.
Proof. exact strop_never_und_reserved_thm. Qed.
Print Assumptions strop_never_und_reserved.

(* C++ [lex.name] 3.1 also reserves identifiers that CONTAIN `__`; "no `__` in the output of the cpp encoder" is FALSE: an inner
   `__` survives (a__b -> a__b).  Disposition: outside C09's wording ("reserved under that language's configuration" -- the
   configuration has no such pattern; leading and trailing runs are encoded); excluded in MANIFEST.text, reported to the lead as
   a candidate configuration change ('__' as a reserved/encoded pattern for cpp).  Partial: strop_never_und_reserved (no leading
   `__`) above. *)
Theorem strop_cpp_no_dunder_refuted : exists ty s t, strop_cpp ty s = Ok t /\ has_dunder t = true.
Proof. exact strop_cpp_inner_dunder_thm. Qed.
Print Assumptions strop_cpp_no_dunder_refuted.

(* ---- clause 3: "strings that are already valid, unreserved identifiers are returned unchanged" -- stated for the documented
   alphabet.  clean_ascii l ty t  =  t is ASCII [A-Za-z_][A-Za-z0-9_]*  /\  not in the reserved list  /\  matches no reserved
   pattern of `all`/ty  /\  (cpp only) contains no `__` (C++ [lex.name] 3.1 reserves every such identifier; the configuration
   encodes leading/trailing runs with the rules ^_{2,}, _{2,}$, so `__x` and `x__` are rewritten -- correctly).
   NOT claimed: identifiers outside ASCII.  DSDL names are ASCII and the encoder's output alphabet is ASCII by design
   ([^a-zA-Z0-9_]+ is encoded), so a Unicode name that Python 3 itself would accept (`é`) is encoded (`zX00E9`): see
   nv_py_non_ascii_is_encoded; MANIFEST.text and design_notes/C09.md state this restriction of the clause. ---- *)
Theorem strop_id_c_ascii : forall (ty t : str), str_eqb (lower ty) ty_all = false -> clean_ascii LC ty t = true -> strop_c ty t = Ok t.
Proof. exact (strop_id_ascii_thm LC). Qed.
Print Assumptions strop_id_c_ascii.

Theorem strop_id_cpp_ascii : forall (ty t : str), str_eqb (lower ty) ty_all = false -> clean_ascii LCpp ty t = true -> strop_cpp ty t = Ok t.
Proof. exact (strop_id_ascii_thm LCpp). Qed.
Print Assumptions strop_id_cpp_ascii.

Theorem strop_id_py_ascii : forall (ty t : str), str_eqb (lower ty) ty_all = false -> clean_ascii LPy ty t = true -> strop_py ty t = Ok t.
Proof. exact (strop_id_ascii_thm LPy). Qed.
Print Assumptions strop_id_py_ascii.

(* ---- distinctness is NOT claimed by C09 and does not hold: two different DSDL names (first [A-Za-z_], then any number of [A-Za-z0-9_]) can be given the
   same token -- witness c, any: `if` and `_if` both become `_if` (reproduced on /repo: a DSDL type with fields `if` and `_if`
   yields a C struct with two members `_if`).  What holds, over the full identifier alphabet with no length bound: on clean
   names (clean_ascii) strop is the identity and therefore injective. ---- *)
Theorem strop_injective_refuted :
  exists l ty s1 s2 t, s1 <> s2 /\ valid_ident s1 = true /\ valid_ident s2 = true
                       /\ strop_lang l ty s1 = Ok t /\ strop_lang l ty s2 = Ok t.
Proof. exact strop_injective_refuted_thm. Qed.
Print Assumptions strop_injective_refuted.

Theorem strop_injective_partial : forall l (ty s1 s2 : str),
  str_eqb (lower ty) ty_all = false -> clean_ascii l ty s1 = true -> clean_ascii l ty s2 = true ->
  strop_lang l ty s1 = strop_lang l ty s2 -> s1 = s2.
Proof. exact strop_injective_on_clean_ascii_thm. Qed.
Print Assumptions strop_injective_partial.

(* ---- determinism / cache isolation.  strop is a function of (configuration, type, token).  The only memoisation on the path
   of Language.filter_id is functools.lru_cache on TokenEncoder.strop: one cache shared by ALL encoders of the process, keyed
   by the decorated function's arguments -- regenerated: (self, token, token_type), `self` by identity, configuration frozen
   after __init__.  For any family of configurations and ANY interleaving of calls, starting from the empty cache, every
   call returns its own encoder's uncached answer; no hypothesis about the cache. ---- *)
Theorem cache_key_is_model :
  strop_cache_key = model_cache_key /\ strop_self_by_identity = true /\ encoder_attrs_frozen = true.
Proof. repeat split; reflexivity. Qed.

Theorem lru_shared_transparent : forall (enc : nat -> strop_cfg) maxsize calls,
  run_calls py_uni py_isspace enc maxsize [] calls = map (uncached py_uni py_isspace enc) calls.
Proof. exact lru_shared_transparent_thm. Qed.
Print Assumptions lru_shared_transparent.

(* two encoders with ANY two configurations (different prefix, reserved tables, ...) in one process never get each other's results *)
Theorem two_encoders_isolated : forall (A B : strop_cfg) maxsize (calls : list skey),
  run_calls py_uni py_isspace (enc2 A B) maxsize [] calls
  = map (fun k : skey => strop py_uni py_isspace (match fst (fst k) with O => A | S _ => B end) (snd k) (snd (fst k))) calls.
Proof. exact two_encoders_isolated_thm. Qed.
Print Assumptions two_encoders_isolated.

(* 'all' is rejected with ValueError for every token *)
Theorem strop_type_all : forall l ty s, lower ty = ty_all -> strop_lang l ty s = ErrValue.
Proof. exact strop_all_lang. Qed.
Print Assumptions strop_type_all.

(* ---- non-vacuity: the hypotheses are satisfiable and every branch of the model is live ---- *)
(* "if" -> "_if" (c, keyword) *)
Example nv_c_keyword : strop_c ty_any [105; 102] = Ok [95; 105; 102].
Proof. vm_compute; reflexivity. Qed.
(* "_Reserved" -> "_reserved" (c, pattern + failure handler) *)
Example nv_c_handler : strop_c ty_any [95; 82; 101] = Ok [95; 114; 101].
Proof. vm_compute; reflexivity. Qed.
(* "_Ab" -> "_ab" (cpp, encoding-failure handler) *)
Example nv_cpp_enc_handler : strop_cpp ty_any [95; 65; 98] = Ok [95; 97; 98].
Proof. vm_compute; reflexivity. Qed.
(* "1a" -> "_1a" (cpp, pattern) *)
Example nv_cpp_digit : strop_cpp ty_any [49; 97] = Ok [95; 49; 97].
Proof. vm_compute; reflexivity. Qed.
(* "if" -> "if_" (py, keyword), "a b" -> "a_b", "1" -> "zX0031" *)
Example nv_py_keyword : strop_py ty_any [105; 102] = Ok [105; 102; 95].
Proof. vm_compute; reflexivity. Qed.
Example nv_py_encode : strop_py ty_any [49] = Ok [122; 88; 48; 48; 51; 49].
Proof. vm_compute; reflexivity. Qed.
(* identity hypotheses are satisfiable: "qz_7" is clean for every language; "a__b" is clean for cpp but has a dunder *)
Example nv_clean_c : clean_ascii LC ty_any [113; 122; 95; 55] = true /\ strop_c ty_any [113; 122; 95; 55] = Ok [113; 122; 95; 55].
Proof. vm_compute; split; reflexivity. Qed.
Example nv_clean_cpp : clean_ascii LCpp ty_any [113; 122; 95; 55] = true /\ has_dunder [113; 122; 95; 55] = false.
Proof. vm_compute; split; reflexivity. Qed.
Example nv_clean_py : clean_ascii LPy ty_any [113; 122; 95; 55] = true.
Proof. vm_compute; reflexivity. Qed.
(* interleaved calls on the shipped C encoder and the one with prefix _pre_/suffix _post_, cache of 2 entries (evictions) *)
Example nv_two_encoders :
  run_calls py_uni py_isspace (enc2 cfg_c (cfg_sel 1 LC)) (Some 2%nat) []
            [(0%nat, [105; 102], ty_any); (1%nat, [105; 102], ty_any); (0%nat, [105; 102], ty_any); (1%nat, [97], ty_any);
             (0%nat, [97], ty_any); (1%nat, [105; 102], ty_any)]
  = [Ok [95; 105; 102]; Ok [95; 112; 114; 101; 95; 105; 102; 95; 112; 111; 115; 116; 95]; Ok [95; 105; 102]; Ok [97]; Ok [97];
     Ok [95; 112; 114; 101; 95; 105; 102; 95; 112; 111; 115; 116; 95]].
Proof. vm_compute; reflexivity. Qed.
(* totality hypotheses are satisfiable on reserved words: "if" is a DSDL-shaped name that is reserved everywhere *)
Example nv_total_reserved : valid_ident [105; 102] = true /\ reserved_lang LC [105; 102] = true /\ reserved_lang LPy [105; 102] = true.
Proof. vm_compute; repeat split; reflexivity. Qed.
(* "__debug__" is in the interpreter table, hence reserved, hence stropped for py *)
Example nv_py_dunder_builtin : strop_py ty_any [95; 95; 100; 101; 98; 117; 103; 95; 95] = Ok [95; 95; 100; 101; 98; 117; 103; 95; 95; 95].
Proof. vm_compute; reflexivity. Qed.
(* `__x` is reserved in C++ (contains `__`): not clean_ascii, and rewritten *)
Example nv_cpp_dunder_is_reserved_and_rewritten :
  clean_ascii LCpp ty_any [95; 95; 120] = false /\ strop_cpp ty_any [95; 95; 120] = Ok [122; 88; 48; 48; 53; 70; 122; 88; 48; 48; 53; 70; 120].
Proof. vm_compute; split; reflexivity. Qed.
(* U+00E9 is outside the documented alphabet: not valid_ident, encoded to zX00E9 *)
Example nv_py_non_ascii_is_encoded : valid_ident [233] = false /\ strop_py ty_any [233] = Ok [122; 88; 48; 48; 69; 57].
Proof. vm_compute; split; reflexivity. Qed.
(* keywords: `co_yield` is in the independent table and is stropped by c and cpp; soft keyword `match` is left alone by py *)
Example nv_keyword_tables : In [99; 111; 95; 121; 105; 101; 108; 100] (lang_keywords LCpp)
  /\ strop_cpp ty_any [99; 111; 95; 121; 105; 101; 108; 100] = Ok [95; 99; 111; 95; 121; 105; 101; 108; 100]
  /\ strop_py ty_any [109; 97; 116; 99; 104] = Ok [109; 97; 116; 99; 104].
Proof. vm_compute. repeat split; try reflexivity. tauto. Qed.
