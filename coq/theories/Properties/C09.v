(* C09 -- identifier stropping.  Statements only; proofs in Gen/StropThm*.v.
   strop_c / strop_cpp / strop_py = the model Gen/Strop.v of TokenEncoder.strop instantiated with the
   configuration that tools/translators/gen_c09.py regenerates from /repo on every run
   (Generated/Gen_Strop.v: reserved lists incl. Python's keywords+builtins, reserved patterns and
   encoding rules as regex ASTs, prefixes, handler kinds) and with the interpreter's \s \d isspace tables.
   Strings are lists of code points; identifier types are arbitrary strings. *)
From Verif Require Import StropInst StropThmRe StropThmEnc StropThm StropThmPipe StropThmInst Gen_Pin_strop_methods.
Open Scope N_scope.

(* ---- source tie of the model itself ----
   (a) the body of TokenEncoder.strop is translated statement by statement into the step list Gen_Strop.strop_pipeline
       (walker gen_c09.strop_pipeline: order of the stages, which transform each dry-run check re-runs, which handler attribute
       each `except` consults, the final re-verification); it IS the list the model was written for, and the model's `strop`
       is its interpretation (run_pipeline) -- for the shipped and for every override configuration;
   (b) the methods the steps call (_encode, _strop_by_keyword, _strop_by_pattern, _do_for_type_and_all, _matches,
       _encoding_filter, encode_character, __init__, the `any` synthesis) and Language.filter_id / _token_encoder of c, cpp, py,
       default_filter_id_for_target, filter_short_reference_name have the normalised AST the hand model was written for. *)
Theorem pipeline_is_model : strop_pipeline = model_pipeline strop_reverifies.
Proof. exact pipeline_is_model_thm. Qed.
Print Assumptions pipeline_is_model.

Theorem strop_is_regenerated_pipeline : forall k l ty s,
  strop_sel k l ty s = run_pipeline py_uni py_isspace (cfg_sel k l) strop_pipeline ty s.
Proof. exact strop_is_regenerated_pipeline_thm. Qed.
Print Assumptions strop_is_regenerated_pipeline.

(* (c) the C / C++ failure handlers are translated (regex parts as ASTs, the returned string as a template); interpreted with
       the regex semantics of Common/Regex.v they are the function `handler_und` the model uses for kind HUnd *)
Theorem handlers_translated_are_model : forall h, In h handlers_translated ->
  forall s, handler_gen py_uni (fst (fst h)) (snd (fst h)) (snd h) s = handler_und s.
Proof. exact handlers_translated_und_thm. Qed.
Print Assumptions handlers_translated_are_model.

Example nv_handlers_translated : handlers_translated <> [].
Proof. discriminate. Qed.

Example C09_strop_methods_shape_pinned : pin_strop_methods_ok = true.
Proof. reflexivity. Qed.

(* the same soundness statement for every configuration override the correspondence run exercises (cfg_sel k, k >= 1) *)
Theorem strop_sound_overrides : forall k l (ty s t : str), s <> [] -> strop_sel k l ty s = Ok t ->
  valid_ident t = true /\ reserved_sel k l t = false /\ pattern_sel k l ty t = false.
Proof. exact strop_sound_sel. Qed.
Print Assumptions strop_sound_overrides.

(* ---- soundness: whatever is returned is a valid, unreserved identifier -- ALL strings, ALL id types ---- *)
Theorem strop_sound_c : forall (ty s t : str), s <> [] -> strop_c ty s = Ok t ->
  valid_ident t = true /\ reserved_lang LC t = false /\ pattern_lang LC ty t = false.
Proof. exact (strop_sound_lang LC). Qed.
Print Assumptions strop_sound_c.

Theorem strop_sound_cpp : forall (ty s t : str), s <> [] -> strop_cpp ty s = Ok t ->
  valid_ident t = true /\ reserved_lang LCpp t = false /\ pattern_lang LCpp ty t = false.
Proof. exact (strop_sound_lang LCpp). Qed.
Print Assumptions strop_sound_cpp.

Theorem strop_sound_py : forall (ty s t : str), s <> [] -> strop_py ty s = Ok t ->
  valid_ident t = true /\ reserved_lang LPy t = false /\ pattern_lang LPy ty t = false.
Proof. exact (strop_sound_lang LPy). Qed.
Print Assumptions strop_sound_py.

(* the side conditions the generic theorem needs hold of the configuration /repo has now *)
Theorem config_side_conditions : forall l, chk_sound py_uni (cfg_of l) = true.
Proof. exact chk_sound_lang. Qed.
Print Assumptions config_side_conditions.

(* ---- all configurations (overrides): sound whenever the boolean side condition holds; false without it ---- *)
Theorem strop_sound_any_config_partial : forall (cfg : strop_cfg), chk_sound py_uni cfg = true ->
  forall (ty s t : str), s <> [] -> strop py_uni py_isspace cfg ty s = Ok t ->
  valid_ident t = true /\ is_reserved cfg t = false /\ matches_reserved_pattern py_uni cfg ty t = false.
Proof. exact (strop_sound_gen py_uni py_isspace). Qed.
Print Assumptions strop_sound_any_config_partial.

(* a tree whose strop re-verifies the token it returns (sc_reverify, recognised by T1 with ast) needs NO condition on the
   handlers: for every configuration with the validity conditions chk_base the full statement holds *)
Theorem strop_sound_any_config : forall (cfg : strop_cfg), sc_reverify cfg = true -> chk_base py_uni cfg = true ->
  forall (ty s t : str), s <> [] -> strop py_uni py_isspace cfg ty s = Ok t ->
  valid_ident t = true /\ is_reserved cfg t = false /\ matches_reserved_pattern py_uni cfg ty t = false.
Proof. exact strop_sound_reverify_gen. Qed.
Print Assumptions strop_sound_any_config.

(* quirk model (sc_reverify := false, the tree without the fix): the C configuration with reserved_identifiers overridden to
   [a; _a] returns the reserved `_a` for `a` -- known finding F-STROP-HANDLER-UNVERIFIED *)
Theorem strop_sound_override_refuted :
  exists ty s t, s <> [] /\ strop py_uni py_isspace cfg_c_override ty s = Ok t /\ is_reserved cfg_c_override t = true.
Proof. exact strop_sound_override_refuted_thm. Qed.
Print Assumptions strop_sound_override_refuted.

(* which of the two is live for /repo as it is NOW (decided by the regenerated flag strop_reverifies): with the fix all three
   languages re-verify, the witness override is sound and `a` is rejected; without it the witness override returns `_a` *)
Theorem strop_override_state : override_state.
Proof. exact override_state_thm. Qed.
Print Assumptions strop_override_state.

(* Python's reserved list contains keyword.kwlist + dir(builtins) of the interpreter that runs nunavut (a table the translator
   takes from the interpreter itself, not from nunavut.lang.py) *)
Theorem py_reserved_covers_interpreter :
  forall w, In w (py_kwlist ++ py_interpreter_reserved) -> reserved_lang LPy w = true.
Proof. exact py_reserved_covers_interpreter_thm. Qed.
Print Assumptions py_reserved_covers_interpreter.

(* ---- identity: a valid identifier that is not reserved and matches no reserved pattern is returned unchanged ---- *)
(* clean_lang l ty t = valid_ident t && not reserved && matches no reserved pattern of `all`/ty *)
Theorem strop_id_c : forall (ty t : str), str_eqb (lower ty) ty_all = false -> clean_lang LC ty t = true -> strop_c ty t = Ok t.
Proof. exact strop_id_c_thm. Qed.
Print Assumptions strop_id_c.

Theorem strop_id_py : forall (ty t : str), str_eqb (lower ty) ty_all = false -> clean_lang LPy ty t = true -> strop_py ty t = Ok t.
Proof. exact strop_id_py_thm. Qed.
Print Assumptions strop_id_py.

(* cpp: the unrestricted statement is false of the faithful model (witness `__x`, any): the configuration encodes leading and
   trailing runs of underscores (rules ^_{2,} and _{2,}$).  Excluded trigger: has_dunder t (the token contains `__`). *)
Theorem strop_id_cpp_refuted :
  exists ty t, str_eqb (lower ty) ty_all = false /\ clean_lang LCpp ty t = true /\ strop_cpp ty t <> Ok t.
Proof. exact strop_id_cpp_refuted_thm. Qed.
Print Assumptions strop_id_cpp_refuted.

Theorem strop_id_cpp_partial : forall (ty t : str),
  str_eqb (lower ty) ty_all = false -> clean_lang LCpp ty t = true -> has_dunder t = false -> strop_cpp ty t = Ok t.
Proof. exact strop_id_cpp_partial_thm. Qed.
Print Assumptions strop_id_cpp_partial.

(* ---- determinism: strop is a function of (configuration, type, token); the lru_cache in front of it returns
        exactly what the uncached call returns as long as every cached entry was produced by strop ---- *)
Theorem lru_transparent : forall l n c ty s,
  cache_ok l c -> snd (strop_cached py_uni py_isspace (cfg_of l) n c ty s) = strop_lang l ty s.
Proof. exact strop_cached_result. Qed.
Print Assumptions lru_transparent.

(* 'all' is rejected with ValueError for every token *)
Theorem strop_type_all : forall l ty s, lower ty = ty_all -> strop_lang l ty s = ErrValue.
Proof. exact strop_all_lang. Qed.
Print Assumptions strop_type_all.

(* ---- non-vacuity: the hypotheses are satisfiable and every branch of the model is live ---- *)
(* "if" -> "_if" (c, keyword) *)
Example nv_c_keyword : strop_c ty_any [105; 102] = Ok [95; 105; 102].
Proof. vm_compute; reflexivity. Qed.
(* "_Reserved" -> "_reserved" (c, pattern + failure handler) *)
Example nv_c_handler : strop_c ty_any [95; 82; 101] = Ok [95; 114; 101].
Proof. vm_compute; reflexivity. Qed.
(* "_Ab" -> "_ab" (cpp, encoding-failure handler) *)
Example nv_cpp_enc_handler : strop_cpp ty_any [95; 65; 98] = Ok [95; 97; 98].
Proof. vm_compute; reflexivity. Qed.
(* "1a" -> "_1a" (cpp, pattern) *)
Example nv_cpp_digit : strop_cpp ty_any [49; 97] = Ok [95; 49; 97].
Proof. vm_compute; reflexivity. Qed.
(* "if" -> "if_" (py, keyword), "a b" -> "a_b", "1" -> "zX0031" *)
Example nv_py_keyword : strop_py ty_any [105; 102] = Ok [105; 102; 95].
Proof. vm_compute; reflexivity. Qed.
Example nv_py_encode : strop_py ty_any [49] = Ok [122; 88; 48; 48; 51; 49].
Proof. vm_compute; reflexivity. Qed.
(* identity hypotheses are satisfiable: "qz_7" is clean for every language; "a__b" is clean for cpp but has a dunder *)
Example nv_clean_c : clean_lang LC ty_any [113; 122; 95; 55] = true /\ strop_c ty_any [113; 122; 95; 55] = Ok [113; 122; 95; 55].
Proof. vm_compute; split; reflexivity. Qed.
Example nv_clean_cpp : clean_lang LCpp ty_any [113; 122; 95; 55] = true /\ has_dunder [113; 122; 95; 55] = false.
Proof. vm_compute; split; reflexivity. Qed.
Example nv_clean_py : clean_lang LPy ty_any [113; 122; 95; 55] = true.
Proof. vm_compute; reflexivity. Qed.
Example nv_cache_ok : cache_ok LC [].
Proof. intros tok ty v H; discriminate. Qed.
(* "__debug__" is in the interpreter table, hence reserved, hence stropped for py *)
Example nv_py_dunder_builtin : strop_py ty_any [95; 95; 100; 101; 98; 117; 103; 95; 95] = Ok [95; 95; 100; 101; 98; 117; 103; 95; 95; 95].
Proof. vm_compute; reflexivity. Qed.
