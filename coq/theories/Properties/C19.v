(* C19 -- the bundled template engine is a conservative extension of stock Jinja2.
   Statements only; every proof is `exact <lemma>` (or a short composition).  Models: Gen/JinjaScan.v (root-state
   scanner, auto-indent desugaring, assert/ifuses shapes) over Generated/Gen_JinjaScan.v (root-state regular
   expressions, do_lineprefix and the auto-indent constants re-translated from /repo on every run).
   Whole-engine equivalence with stock Jinja2 is NOT a theorem (no Gallina semantics of Jinja): it is probed by
   differential rendering in tools/checks/c19.py (partial). *)
From Coq Require Import String.
From Verif Require Import JinjaScan JinjaScanThm JinjaLinePrefixThm JinjaRules Gen_JinjaRules JinjaRulesThm JinjaPins JinjaPinsThm.
From Verif Require Import JinjaVendorPins Gen_JinjaVendor JinjaVendorThm JinjaRx Gen_JinjaRx JinjaRxThm JinjaPipe JinjaPipeThm JinjaMarkerThm JinjaMini JinjaMiniThm.
Open Scope N_scope.

(* (1) Conservativity of the lexer modification.  For EVERY source that contains no occurrence of an opener followed by
   `*` ("{%*", "{{*", "{#*") and for EVERY behaviour `inner` of the unmodified lexer states (block, variable, comment,
   raw), the bundled root-state scanner -- the rules regenerated from lexer.py -- yields exactly the token sequence
   (kinds, values, boundaries, errors) of the stock scanner, i.e. the same rule without the `[ \t]*{X\*` alternative. *)
Theorem C19_scan_conservative :
  forall (inner : str -> str -> option (list tok * nat)) (src : str),
    has_marker src = false -> scan_bundled inner src = scan_stock inner src.
Proof. exact scan_conservative_lemma. Qed.
Print Assumptions C19_scan_conservative.

(* (the refutation of the weaker hypothesis for the pre-8b27d3f comment rule now lives in History/C19_history.v) *)

(* non-vacuity: sources with every delimiter kind, whitespace control and raw satisfy the hypothesis, and the scanners
   produce tokens on them *)
Example C19_conservative_premise_satisfiable :
  has_marker [97; 32; 123; 37; 45; 32; 120; 32; 37; 125; 10; 32; 123; 123; 32; 42; 32; 125; 125; 123; 35; 32; 42; 35; 125] = false.
Proof. vm_compute. reflexivity. Qed.

Example C19_scanner_example :
  scan_bundled (fun _ _ => Some ([], 3%nat)) [97; 32; 10; 9; 123; 37; 45; 120; 37; 125; 98; 32; 32; 123; 123; 42; 121; 125; 125]
  = Some [(k_data, [97]); (n_block, [32; 10; 9; 123; 37; 45]); (k_data, [98]); (n_variable, [32; 32; 123; 123; 42])].
Proof. vm_compute. reflexivity. Qed.

(* (2) A marker token captures exactly the run of blanks before its opener: whenever the bundled root rule yields a
   block/variable/comment begin token whose value ends in `*`, the value is  w ++ "{X*"  with w consisting of spaces and
   tabs only, it sits right after the data, and the data does not end in a space or tab (w is the WHOLE run). *)
Theorem C19_marker_prefix_captured :
  forall (s d n v rest : str),
    root_search py_uni bundled_root_rules [] s = Some (d, n, v, rest) ->
    n <> n_raw -> ends_with (fun c => c =? STAR) v = true ->
    exists w x, is_delim_char x = true /\ v = w ++ [LBRACE; x; STAR] /\ forallb is_blank w = true /\
                s = d ++ v ++ rest /\ ends_with is_blank d = false.
Proof. exact marker_prefix_captured_lemma. Qed.
Print Assumptions C19_marker_prefix_captured.

Example C19_marker_example :
  root_search py_uni bundled_root_rules [] [120; 10; 32; 9; 123; 123; 42; 32; 121]
  = Some ([120; 10], n_variable, [32; 9; 123; 123; 42], [32; 121]).
Proof. vm_compute. reflexivity. Qed.

(* ... and for such a token the parser's marker decision (as the code in /repo makes it now: `code_marker`, legacy or
   delimiter-aware, flag regenerated from parser.py) is "auto-indent with exactly that run as prefix" *)
Theorem C19_autoindent_prefix_is_the_run :
  forall (w : str) (x : N), code_marker [[LBRACE; x]] (w ++ [LBRACE; x; STAR]) = Some w.
Proof. intros w x. exact (marker_default_token_lemma autoindent_delimiter_aware w x). Qed.
Print Assumptions C19_autoindent_prefix_is_the_run.

(* the DELIMITER-AWARE marker code (design_notes/C19_marker_delimiter_fix.patch): for EVERY list of start strings the prefix is
   exactly what precedes `<start>*`, <start> one of the environment's own non-empty start strings; and every start string works *)
Theorem C19_marker_prefix_every_start_string :
  (forall (starts : list str) (v p : str), marker_m true starts v = Some p -> exists st, In st starts /\ st <> [] /\ v = p ++ st ++ [42]) /\
  (forall (D w : str), D <> [] -> marker_m true [D] (w ++ D ++ [42]) = Some w).
Proof. split; [exact marker_aware_sound_lemma | exact marker_aware_single_lemma]. Qed.
Print Assumptions C19_marker_prefix_every_start_string.

(* the code in /repo IS the delimiter-aware one (a6cc424): a regression to the legacy test flips this obligation.  (The refutations
   of the legacy `endswith('*')` / `[:-3]` code -- finding F-JINJA-MARKER-DELIM, fixed -- live in History/C19_history.v.) *)
Example C19_marker_code_is_delimiter_aware : autoindent_delimiter_aware = true.
Proof. reflexivity. Qed.

(* (3) lineprefix.  The filter in /repo is the terminator-keeping shape (fix "lineprefix_terminator", landed):
   ''.join(prefix + l if l.splitlines()[0] else l for l in soft_unicode(s).splitlines(True)).
   The theorems about the legacy shape ('\n'.join over splitlines(): final terminator dropped, terminators rewritten to LF --
   finding F-JINJA-LINEPREFIX-TERMINATOR, fixed) live in History/C19_history.v. *)
(* which shape the code in /repo has, and the facts about the fixes already landed *)
Theorem C19_lineprefix_code_is : do_lineprefix = lineprefix_m lineprefix_keepends.
Proof. exact do_lineprefix_is. Qed.
Print Assumptions C19_lineprefix_code_is.

Example C19_lineprefix_soft_unicode_live : lineprefix_soft_unicode = true.
Proof. reflexivity. Qed.

(* regressions of the two fixes landed with 5a15038 flip these obligations *)
Example C19_lineprefix_keepends_live : lineprefix_keepends = true.
Proof. reflexivity. Qed.

Example C19_marker_minus_guard_live : autoindent_minus_guard = true.
Proof. reflexivity. Qed.

(* hence the filter in /repo IS the terminator-keeping one: identity for an empty prefix, nothing dropped or rewritten *)
Theorem C19_lineprefix_live_text_preserved : forall s : str, do_lineprefix s [] = s.
Proof. exact lineprefix_keep_text_preserved. Qed.
Print Assumptions C19_lineprefix_live_text_preserved.

(* the output is the concatenation of the input's lines WITH their terminators (which concatenate back to the input:
   nothing dropped, no terminator rewritten), each preceded by the prefix iff its content is non-empty; with an empty prefix the
   filter is the identity *)
Theorem C19_lineprefix_keep_spec :
  forall s p : str, lineprefix_keep s p = concat (map (prefix_line_keep p) (py_splitlines_keep s)) /\ concat (py_splitlines_keep s) = s.
Proof. exact lineprefix_keep_spec. Qed.
Print Assumptions C19_lineprefix_keep_spec.

Theorem C19_lineprefix_keep_text_preserved : forall s : str, lineprefix_keep s [] = s.
Proof. exact lineprefix_keep_text_preserved. Qed.
Print Assumptions C19_lineprefix_keep_text_preserved.

Example C19_lineprefix_keep_example :
  lineprefix_keep [97; 13; 10; 10; 98; 11; 99; 10] [32; 32] = [32; 32; 97; 13; 10; 10; 32; 32; 98; 11; 32; 32; 99; 10].
Proof. vm_compute. reflexivity. Qed.

(* (4) auto-indent desugaring: what Parser.subparse builds for `{{* e }}` / `{%* stmt %}` renders as the lineprefix filter
   applied to the rendering of the plain construct, with the token's blank run as prefix; any other begin token leaves
   the parsed node(s) untouched. *)
Theorem C19_autoindent_desugar_variable :
  forall (E : Type) (ev : E -> str) (mk : option str) (rv : E),
    render_node ev builtin_filters (subparse_variable mk rv) =
    Some (match mk with Some p => do_lineprefix (ev rv) p | None => ev rv end).
Proof. exact autoindent_var_lemma. Qed.
Print Assumptions C19_autoindent_desugar_variable.

Theorem C19_autoindent_desugar_block :
  forall (E : Type) (ev : E -> str) (mk : option str) (rv : list E),
    render_all ev (subparse_block mk rv) =
    Some (match mk with Some p => do_lineprefix (concat (map ev rv)) p | None => concat (map ev rv) end).
Proof. exact autoindent_block_lemma. Qed.
Print Assumptions C19_autoindent_desugar_block.

(* (5) the extension tags are ordinary conditionals over their argument *)
Theorem C19_assert_is_conditional :
  forall t : bool, render_assert t = eval_if (IfN t (Out []) [] Raise).
Proof. exact assert_is_conditional_lemma. Qed.
Print Assumptions C19_assert_is_conditional.

Theorem C19_ifuses_is_conditional :
  forall (B : Type) (first : bool * bool * B) (rest : list (bool * bool * B)) (else_ : B),
    eval_if (parse_ifuses first rest else_) = cascade (first :: rest) else_.
Proof. exact ifuses_is_conditional_lemma. Qed.
Print Assumptions C19_ifuses_is_conditional.

Example C19_ifuses_example :
  eval_if (parse_ifuses (false, false, 1) [(true, true, 2); (true, false, 3)] 4) = 3.
Proof. reflexivity. Qed.

(* (6) EVERY rule of EVERY lexer state (root, comment, block, variable, raw, line statement, line comment; pattern text,
   token spec, state transition), for every listed Environment option combination (lstrip_blocks x trim_blocks, line
   statement/comment prefixes, non-default delimiters), regenerated from the live bundled lexer, is the upstream 2.x rule --
   the ONLY deviation is the marker alternative in the root rule.  Any edit of any rule breaks this obligation. *)
Theorem C19_bundled_rules_are_upstream_plus_marker :
  bundled_lexer_tables = map (fun c => build bundled_gen c tag_rules_2x) lexer_combos.
Proof. exact bundled_tables_lemma. Qed.
Print Assumptions C19_bundled_rules_are_upstream_plus_marker.

(* ... and the non-root rules relate to the rules of the installed stock Jinja2 for the same options: both are instances of
   ONE table builder; the generations differ only by the three documented upstream switches of `gen` ('+' sign in end
   rules, sign group + stripping in code instead of \s*D\-|PREFIX, position of trim_blocks' \n?). *)
Theorem C19_nonroot_rules_equal_stock :
  map nonroot bundled_lexer_tables = map (fun c => nonroot (build upstream2x_gen c tag_rules_2x)) lexer_combos /\
  map (fun t => nonroot (drop_tag_rules t)) stock_lexer_tables = map (fun c => nonroot (build stock_gen c [])) lexer_combos.
Proof. exact nonroot_rules_equal_stock_lemma. Qed.
Print Assumptions C19_nonroot_rules_equal_stock.

Theorem C19_stock_rules_are_3x :
  map drop_tag_rules stock_lexer_tables = map (fun c => build stock_gen c []) lexer_combos.
Proof. exact stock_tables_lemma. Qed.
Print Assumptions C19_stock_rules_are_3x.

Theorem C19_marker_switch_is_root_only :
  forall (c : combo) (tags : list rule), nonroot (build bundled_gen c tags) = nonroot (build upstream2x_gen c tags).
Proof. exact nonroot_marker_free. Qed.
Print Assumptions C19_marker_switch_is_root_only.

Example C19_option_combinations_cover_the_switches :
  existsb (fun c => c_lstrip c && c_trim c) lexer_combos = true /\
  existsb (fun c => c_lstrip c && negb (c_trim c)) lexer_combos = true /\
  existsb (fun c => negb (c_lstrip c) && c_trim c) lexer_combos = true /\
  existsb (fun c => negb (c_lstrip c) && negb (c_trim c)) lexer_combos = true /\
  existsb (fun c => Nat.ltb 3 (length (c_order_bundled c))) lexer_combos = true /\
  existsb (fun c => negb (str_eqb (c_bs c) (s2l "\{%"))) lexer_combos = true.
Proof. exact combos_cover. Qed.

(* (7) ifuses/ifnuses/elifuses/elifnuses when the answer of a query changes between and during renders in one long-lived
   environment: for every world S and every `ask`, every sequence of renders behaves like the ordinary conditional chains over
   the same world -- same outputs AND same final world (the same queries are asked, in the same order, equally often). *)
Theorem C19_ifuses_changing_answers :
  forall (S B : Type) (ask : S -> N -> bool * S) (steps : list ((bool * N * B) * list (bool * N * B) * B)) (s : S),
    render_seq (map (fun st => eval_ifT (parse_ifusesT ask (fst (fst st)) (snd (fst st)) (snd st))) steps) s =
    render_seq (map (fun st => run_chain ask (fst (fst st) :: snd (fst st)) (snd st)) steps) s.
Proof. exact ifuses_seq_is_chain_seq_lemma. Qed.
Print Assumptions C19_ifuses_changing_answers.

Example C19_ifuses_changing_answers_example :
  (* q0 answers true, false, false, true: render 1 asks once (1), render 2 asks twice (2), render 3 sees true again (1) *)
  render_ifuses_script [((false, 0, 1), [(true, 0, 2)], 9); ((false, 0, 1), [(true, 0, 2)], 9); ((false, 0, 1), [(false, 0, 2)], 9)]
                       [(0, [true; false; false; true])] = [1; 2; 1].
Proof. vm_compute. reflexivity. Qed.

(* (8) source pins of the modified python outside the lexer tables (regenerated on every run, Generated/Gen_JinjaPins.v):
   Parser.subparse minus the three marker-specific pieces IS the stock Parser.subparse (so print statements are parsed with
   parse_tuple(with_condexpr=True), block statements with parse_statement, exactly as upstream); every other Parser method
   has the stock method's shape or a reviewed upstream-version difference; JinjaAssert / UseQuery have exactly the pinned
   members and method shapes and store nothing on self/cls/module level. *)
Theorem C19_subparse_demarked_is_stock : subparse_bundled_demarked = subparse_stock.
Proof. exact subparse_demarked_is_stock_lemma. Qed.
Print Assumptions C19_subparse_demarked_is_stock.

Theorem C19_parser_methods_pinned :
  forallb method_ok parser_methods_bundled = true /\ parser_rest_bundled = expected_parser_rest.
Proof. exact parser_methods_pinned_lemma. Qed.
Print Assumptions C19_parser_methods_pinned.

Theorem C19_extensions_pinned_and_stateless :
  pairs_eqb ext_methods expected_ext_methods = true /\
  pairs_eqb ext_class_members expected_ext_class_members = true /\
  ext_toplevel = expected_ext_toplevel /\
  ext_state_stores = [].
Proof. exact extensions_pinned_lemma. Qed.
Print Assumptions C19_extensions_pinned_and_stateless.


(* (9) THE WHOLE VENDORED COPY.  What "conservative extension" is proved against, and what is only pinned:
   - proved (theorems (1)-(8), (10)): the DOCUMENTED deltas -- lexer root rule (marker alternative), Parser.subparse (autoindent),
     filters.do_lineprefix + its FILTERS entry, and nunavut/jinja/extensions.py -- against a model of upstream behaviour in which
     every unmodified part is a parameter;
   - pinned only: every other function of the 27 vendored modules has a committed shape digest (733 entries,
     Gen/JinjaVendorPins.v): any edit breaks this obligation and must be classified {documented-delta, neutral} there.  The
     upstream commit of /repo/subtree.json is not available offline, so the digests are NOT compared with upstream 2.11; the
     installed 3.1.x is a structural reference only (version caveat): 272 functions are shape-identical to it.
   - the documented-delta list is SELF-EVIDENCED: it is re-derived on every run from markers in the very tree it describes (marker
     comments / docstrings / identifiers, package-rename strings, commits of the directory's git log -- for lexer:Lexer.__init__ the
     evidence is this effort's own fix commit) and must equal the committed list.  That detects an UNDOCUMENTED new delta site
     relative to the committed baseline; it is no evidence that the baseline's modification set is complete (trusted base). *)
Theorem C19_vendored_copy_pinned : pairs_eqb vendored_digests expected_vendored = true.
Proof. exact vendored_all_pinned_lemma. Qed.
Print Assumptions C19_vendored_copy_pinned.

Theorem C19_documented_deltas_are_the_self_documented_sites : map fst documented_sites = documented_delta_keys.
Proof. exact documented_sites_lemma. Qed.
Print Assumptions C19_documented_deltas_are_the_self_documented_sites.

Example C19_vendored_reference_counts :
  (length (filter eq_stock31 vendored_digests) >= 270)%nat /\ length vendored_digests = 774%nat.
Proof. exact verbatim_reference_count_lemma. Qed.

(* (10) END TO END over the template text (Gen/JinjaPipe.v): scanner (ANY rule list, so every regenerated option combination:
   lstrip_blocks x trim_blocks, line statement prefixes, other delimiters; keep_trailing_newline only changes the source) ->
   wrap -> subparse (with nested bodies) -> rendering with a context.
   (10a) scanner: deleting the auto-indent alternatives changes nothing where none of them matches (exact hypothesis). *)
Theorem C19_scanner_conservative_every_rule_set :
  forall (rules : xrules) (inner : str -> option N -> str -> option (list xtok * nat)) (src : str),
    marker_free py_uni rules None src = true ->
    scanx_all py_uni rules inner src = scanx_all py_uni (demarkx rules) inner src.
Proof. intros rules inner src H. exact (scanx_conservative_lemma py_uni rules inner _ None src H). Qed.
Print Assumptions C19_scanner_conservative_every_rule_set.

(* the regenerated rule lists of all 8 option combinations carry marker alternatives exactly on raw/variable/block (and line
   prefixes), never on comments; and the theorem is about them in particular *)
Example C19_regenerated_rule_sets :
  length root_rules_x = 9%nat /\
  forallb (fun rs => forallb (fun nr => Bool.eqb (match marker_of (snd nr) with Some _ => true | None => false end)
                                                 (negb (str_eqb (fst nr) n_comment))) rs) root_rules_x = true.
Proof. vm_compute. split; reflexivity. Qed.

Example C19_marker_free_examples :
  marker_free py_uni (nth 3 root_rules_x []) None [97; 10; 32; 32; 123; 37; 43; 32; 120; 32; 37; 125; 10; 123; 35; 42; 42; 32; 35; 125; 123; 123; 32; 121; 32; 125; 125] = true /\
  marker_free py_uni (nth 3 root_rules_x []) None [32; 123; 123; 42; 32; 121; 32; 125; 125] = false.
Proof. vm_compute. split; reflexivity. Qed.

(* (10b) WITHOUT the marker: bundled rules + bundled parser + rendering = upstream rules + upstream parser + rendering, for every
   rule list, every behaviour of the unmodified lexer states / parse_tuple / parse_statement (assumed only to consume tokens
   forwards and to use the recursive subparse on their own input, given that the subparse handed in consumes forwards too;
   discharged for the concrete instance Gen/JinjaMini.v: C19_pipeline_hypotheses_hold_for_the_mini_instance), every evaluation, text conversion, statement semantics and
   context.  Second hypothesis: no begin token of the upstream token stream ends in `*` (true unless a delimiter itself does). *)
Theorem C19_pipeline_conservative :
  forall (E St C V : Type)
         (pt : list xtok -> option (E * list xtok))
         (ps : (list str -> list xtok -> option (list (pnode E St) * list xtok)) -> list xtok -> option (list St * list xtok)),
    (forall toks e rest, pt toks = Some (e, rest) -> tsuffix rest toks) ->
    (forall cb toks ss rest, (forall ends t ns r, cb ends t = Some (ns, r) -> tsuffix r t) -> ps cb toks = Some (ss, rest) -> tsuffix rest toks) ->
    (forall cb1 cb2 toks, (forall ends t ns r, cb2 ends t = Some (ns, r) -> tsuffix r t) ->
                          (forall ends t, tsuffix t toks -> cb1 ends t = cb2 ends t) -> ps cb1 toks = ps cb2 toks) ->
    forall (ev : E -> C -> option V) (text : V -> str)
           (rs : (list (pnode E St) -> C -> option (str * C)) -> St -> C -> option (str * C))
           (mv mb : str -> option str) (g : bool)
           (rules : xrules) (inner : str -> option N -> str -> option (list xtok * nat)) (fuel : nat) (src : str) (c : C),
      marker_free py_uni rules None src = true ->
      (forall toks, scanx_all py_uni (demarkx rules) inner src = Some toks -> no_marker_tokens mv mb (wrap toks) = true) ->
      pipeline E St C V mv mb g pt ps ev text rs py_uni rules inner fuel src c =
      pipeline E St C V never never g pt ps ev text rs py_uni (demarkx rules) inner fuel src c.
Proof.
  intros E St C V pt ps H1 H2 H3 ev text rs mv mb g rules inner fuel src c.
  exact (pipeline_conservative_lemma E St C V pt ps H1 H2 H3 ev text rs mv mb g py_uni rules inner fuel src c).
Qed.
Print Assumptions C19_pipeline_conservative.

(* (10b') with the DELIMITER-AWARE marker decision the second hypothesis is no longer assumed: it follows from a decidable
   condition on the rule list (`covers`: for every start string handed to marker_start there is a marker alternative
   `[..]*<start>\*` spelled with literal characters) and from the pushed lexer states yielding no root begin tokens.
   For the legacy decision it was FALSE (History/C19_history.v: delimiters / prefixes ending in `*`). *)
Theorem C19_pipeline_conservative_delimiter_aware :
  forall (E St C V : Type)
         (pt : list xtok -> option (E * list xtok))
         (ps : (list str -> list xtok -> option (list (pnode E St) * list xtok)) -> list xtok -> option (list St * list xtok)),
    (forall toks e rest, pt toks = Some (e, rest) -> tsuffix rest toks) ->
    (forall cb toks ss rest, (forall ends t ns r, cb ends t = Some (ns, r) -> tsuffix r t) -> ps cb toks = Some (ss, rest) -> tsuffix rest toks) ->
    (forall cb1 cb2 toks, (forall ends t ns r, cb2 ends t = Some (ns, r) -> tsuffix r t) ->
                          (forall ends t, tsuffix t toks -> cb1 ends t = cb2 ends t) -> ps cb1 toks = ps cb2 toks) ->
    forall (ev : E -> C -> option V) (text : V -> str)
           (rs : (list (pnode E St) -> C -> option (str * C)) -> St -> C -> option (str * C))
           (sv sb : list str) (g : bool)
           (rules : xrules) (inner : str -> option N -> str -> option (list xtok * nat)) (fuel : nat) (src : str) (c : C),
      (forall st, In st (sv ++ sb) -> st <> [] -> covers rules st = true) ->
      (forall n p rest toks k, inner n p rest = Some (toks, k) -> forallb (fun t => negb (root_begin (fst t))) toks = true) ->
      marker_free py_uni rules None src = true ->
      pipeline E St C V (marker_m true sv) (marker_m true sb) g pt ps ev text rs py_uni rules inner fuel src c =
      pipeline E St C V never never g pt ps ev text rs py_uni (demarkx rules) inner fuel src c.
Proof.
  intros E St C V pt ps H1 H2 H3 ev text rs sv sb g rules inner fuel src c Hcov Hin Hfree.
  apply (pipeline_conservative_lemma E St C V pt ps H1 H2 H3 ev text rs _ _ g py_uni rules inner fuel src c Hfree).
  intros toks Hs. exact (aware_no_marker_tokens_lemma py_uni inner Hin rules (demarkx rules) sv sb src toks Hcov Hfree Hs).
Qed.
Print Assumptions C19_pipeline_conservative_delimiter_aware.

(* ... and this is the LIVE statement: `code_marker` is what Parser.subparse in /repo does now *)
Theorem C19_pipeline_conservative_live :
  forall (E St C V : Type)
         (pt : list xtok -> option (E * list xtok))
         (ps : (list str -> list xtok -> option (list (pnode E St) * list xtok)) -> list xtok -> option (list St * list xtok)),
    (forall toks e rest, pt toks = Some (e, rest) -> tsuffix rest toks) ->
    (forall cb toks ss rest, (forall ends t ns r, cb ends t = Some (ns, r) -> tsuffix r t) -> ps cb toks = Some (ss, rest) -> tsuffix rest toks) ->
    (forall cb1 cb2 toks, (forall ends t ns r, cb2 ends t = Some (ns, r) -> tsuffix r t) ->
                          (forall ends t, tsuffix t toks -> cb1 ends t = cb2 ends t) -> ps cb1 toks = ps cb2 toks) ->
    forall (ev : E -> C -> option V) (text : V -> str)
           (rs : (list (pnode E St) -> C -> option (str * C)) -> St -> C -> option (str * C))
           (sv sb : list str) (g : bool)
           (rules : xrules) (inner : str -> option N -> str -> option (list xtok * nat)) (fuel : nat) (src : str) (c : C),
      (forall st, In st (sv ++ sb) -> st <> [] -> covers rules st = true) ->
      (forall n p rest toks k, inner n p rest = Some (toks, k) -> forallb (fun t => negb (root_begin (fst t))) toks = true) ->
      marker_free py_uni rules None src = true ->
      pipeline E St C V (code_marker sv) (code_marker sb) g pt ps ev text rs py_uni rules inner fuel src c =
      pipeline E St C V never never g pt ps ev text rs py_uni (demarkx rules) inner fuel src c.
Proof.
  intros E St C V pt ps H1 H2 H3 ev text rs sv sb g rules inner fuel src c Hcov Hin Hfree.
  change (code_marker sv) with (marker_m true sv). change (code_marker sb) with (marker_m true sb).
  exact (C19_pipeline_conservative_delimiter_aware E St C V pt ps H1 H2 H3 ev text rs sv sb g rules inner fuel src c Hcov Hin Hfree).
Qed.
Print Assumptions C19_pipeline_conservative_live.

(* the regenerated rule lists cover their block / variable start strings (default "{%" "{{", ASP "<%" "${").  NOT covered: a
   line-statement prefix ("%%": its marker alternative carries `^` anchors, `covers` is false) -- for the two line-prefix
   combinations only C19_pipeline_conservative with its explicit second hypothesis applies. *)
Example C19_regenerated_rule_sets_cover_their_start_strings :
  forallb (fun i => covers (nth i root_rules_x []) [123; 37] && covers (nth i root_rules_x []) [123; 123]) [0; 1; 2; 3; 4; 5]%nat = true /\
  forallb (fun i => covers (nth i root_rules_x []) [60; 37] && covers (nth i root_rules_x []) [36; 123]) [6; 7]%nat = true /\
  forallb (fun i => negb (covers (nth i root_rules_x []) [37; 37])) [4; 5]%nat = true.
Proof. vm_compute. repeat split. Qed.

(* (10c) WITH the marker, print statement: a begin token the parser takes for a marker with prefix w (C19_autoindent_prefix_is_the_run,
   C19_marker_prefix_every_start_string) makes the bundled parser build Filter(e, lineprefix, w) where the upstream parser builds e, and the output is the text of the value -- ANY value (non-strings, multi-line, empty,
   Markup: whatever `text` = soft_unicode/to_string yields) -- with every non-empty line prefixed by w (C19_lineprefix_spec),
   followed by the identical rest in the identical context. *)
Theorem C19_autoindent_print_parse :
  forall (E St : Type) pt ps (mv mb : str -> option str) (g : bool) f ends v w te (e : E) ve rest,
    mv v = Some w -> g && minus_first te = false ->
    pt te = Some (e, (K_VAREND, ve) :: rest) ->
    subparse E St mv mb g pt ps (S f) ends ((n_variable, v) :: te) =
    match subparse E St mv mb g pt ps f ends rest with
    | Some (ns, r) => Some (PPrint (NFilter e autoindent_filter_name w) :: ns, r)
    | None => None
    end.
Proof. intros E St pt ps mv mb g. exact (subparse_marker_print E St pt ps mv mb g). Qed.
Print Assumptions C19_autoindent_print_parse.

Theorem C19_autoindent_print_render :
  forall (E St C V : Type) (ev : E -> C -> option V) (text : V -> str) rs cb (e : E) (w : str) ns (c : C),
    render_list E St C V ev text rs cb (PPrint (NFilter e autoindent_filter_name w) :: ns) c =
    match ev e c with
    | Some v => match render_list E St C V ev text rs cb ns c with Some (o, c') => Some (do_lineprefix (text v) w ++ o, c') | None => None end
    | None => None
    end /\
    render_list E St C V ev text rs cb (PPrint (NPlain e) :: ns) c =
    match ev e c with
    | Some v => match render_list E St C V ev text rs cb ns c with Some (o, c') => Some (text v ++ o, c') | None => None end
    | None => None
    end.
Proof. exact autoindent_print_render. Qed.
Print Assumptions C19_autoindent_print_render.

(* (10d) WITH the marker, block statement: output of the statements prefixed line by line, but rendered in an inner frame: the
   rest of the template is rendered in the context BEFORE the block (upstream: in the context the statements leave behind). *)
Theorem C19_autoindent_block_render :
  forall (E St C V : Type) (ev : E -> C -> option V) (text : V -> str) rs cb (ss : list St) (w : str) ns (c : C),
    render_list E St C V ev text rs cb (PFilterBlock ss autoindent_filter_name w :: ns) c =
    match render_stmts E St C rs cb ss c with
    | Some (o, _) => match render_list E St C V ev text rs cb ns c with Some (o2, c2) => Some (do_lineprefix o w ++ o2, c2) | None => None end
    | None => None
    end /\
    render_list E St C V ev text rs cb (map PStmt ss ++ ns) c =
    match render_stmts E St C rs cb ss c with
    | Some (o, c') => match render_list E St C V ev text rs cb ns c' with Some (o2, c2) => Some (o ++ o2, c2) | None => None end
    | None => None
    end.
Proof. exact autoindent_block_render. Qed.
Print Assumptions C19_autoindent_block_render.

(* hence "renders as the plain construct, prefixed" is FALSE for marker block statements that bind names (set, macro, import):
   finding F-JINJA-AUTOINDENT-SCOPE, reproduced on the real engine (`  {%* set y = 5 %}[{{ y }}]` renders `[]`, plain `[5]`) *)
Theorem C19_autoindent_block_scope_refuted :
  exists (cb : list (pnode unit N) -> N -> option (str * N)),
    let ev := fun (_ : unit) (c : N) => Some c in
    let text := fun (v : N) => [v] in
    let rs := fun (_ : list (pnode unit N) -> N -> option (str * N)) (s : N) (_ : N) => Some (@nil N, s) in
    option_map fst (render_list unit N N N ev text rs cb (PFilterBlock [5] autoindent_filter_name [32] :: [PPrint (NPlain tt)]) 0) <>
    option_map fst (render_list unit N N N ev text rs cb (map PStmt [5] ++ [PPrint (NPlain tt)]) 0).
Proof. exact autoindent_block_scope_refuted. Qed.
Print Assumptions C19_autoindent_block_scope_refuted.


(* (10e) the pipeline model is not an arbitrary hand function: Gen/JinjaMini.v instantiates every parameter concretely (primaries,
   if/else, set, for; int/str/list/undefined values), is extracted, and is run by the check against the bundled engine for all
   regenerated option combinations; the three hypotheses on parse_tuple / parse_statement hold for it, and it computes. *)
Theorem C19_pipeline_hypotheses_hold_for_the_mini_instance :
  (forall toks e rest, mpt toks = Some (e, rest) -> tsuffix rest toks) /\
  (forall cb toks ss rest, (forall ends t ns r, cb ends t = Some (ns, r) -> tsuffix r t) -> mps cb toks = Some (ss, rest) -> tsuffix rest toks) /\
  (forall cb1 cb2 toks, (forall ends t ns r, cb2 ends t = Some (ns, r) -> tsuffix r t) ->
                        (forall ends t, tsuffix t toks -> cb1 ends t = cb2 ends t) -> mps cb1 toks = mps cb2 toks).
Proof. split; [exact mpt_fwd|split; [exact mps_fwd|exact mps_local]]. Qed.
Print Assumptions C19_pipeline_hypotheses_hold_for_the_mini_instance.

Example C19_pipeline_model_computes :
  mini_bundled 0 [[123; 123]] [[123; 37]] ex_tags 50 [97; 10; 32; 32; 123; 123; 42; 32; 120; 32; 125; 125; 124] [([120], VStr [108; 49; 10; 108; 50])]
  = Some [97; 10; 32; 32; 108; 49; 10; 32; 32; 108; 50; 124] /\
  mini_upstream 0 ex_tags 50 [97; 10; 32; 32; 123; 123; 32; 120; 32; 125; 125; 124] [([120], VStr [108; 49; 10; 108; 50])]
  = Some [97; 10; 32; 32; 108; 49; 10; 108; 50; 124].
Proof. exact mini_pipeline_marker_example. Qed.
