(* C17 -- headers generated with different language options cannot be compiled together.
   Statements only; every proof is `exact <lemma>` (or a short composition).
   Model: Gen/OptGuard.v (support header defines one symbol per option, every type header asserts
   equality for each of its options).  Regenerated from /repo on every run (Generated/Gen_OptGuard.v):
   `sav` = T2 translation of filter_to_static_assertion_value; `*_support_side` / `*_type_side` =
   what the template scanner found in the four guard loops; `*_domain` = documented values of every
   option (properties.yaml options + std shorthand groups, CLI choices, ConstructorConvention);
   `*_names` = symbols rendered by the real macrofy / id filters. *)
From Verif Require Import Str Crc32 Crc32Thm OptGuard Gen_OptGuard OptGuardThm.
From Coq Require Import ZArith.
Open Scope N_scope.

(* (0) MAIN.  A support header generated under option set o_s and type headers generated under o_t (with
   serialization support, i.e. including that support header: see (8')), compiled in one translation unit: every type header yields a list ds of guard diagnostics (key-set assertion, then one
   per option); EITHER the build is rejected (ds <> [], each element a failing "different language options"
   assertion or an undeclared guard symbol) OR o_s ~ o_t on every layout / ABI / wire / support-API / source
   relevant option, where  o_s ~ o_t  :=  forall k, relevant k = true -> lookup_key k o_s = lookup_key k o_t
   (same value, or absent on both sides); and ds = [] holds exactly for the same option set.  No assumption relates
   the two key lists.  Quantification: all option sets over the documented values (`*_domain`, regenerated) whose
   key sets are documented key sets (`*_keysets`: the options of properties.yaml plus any subset of the optional
   ones), duplicate-free keys.  The verdicts are verdicts of the compiler MODEL of Gen/OptGuard.v (a symbol is
   (name expression, key), `==` on integers; C++ uint32_t narrowing and <assert.h> are outside), tied to gcc/g++
   by the compile runs of the check.  The facts about the templates the proof uses -- the fingerprint exists on
   both sides (c_keyset_guarded), the statements are live C (side_live), both loops cover every option, the
   messages are literal-safe -- are computed from the regenerated `*_side` records, so the theorem stops
   compiling when a template loses one of them. *)
Theorem C17_main_c :
  forall o_s o_t : opts,
    in_domainb c_domain o_s = true -> in_domainb c_domain o_t = true ->
    keys_documentedb c_keysets o_s = true -> keys_documentedb c_keysets o_t = true ->
    nodupb (map fst o_s) = true -> nodupb (map fst o_t) = true ->
    exists ds, compile_full sav c_support_side c_type_side o_s o_t = Some ds /\
               (ds <> [] \/ opt_equiv o_s o_t) /\
               (ds = [] <-> (forall kv, In kv o_s <-> In kv o_t)).
Proof.
  intros o_s o_t Hs Ht Ds Dt Ns Nt.
  destruct (main_general sav c_domain c_support_side c_type_side c_domain_ok c_sides_agree c_keysets o_s o_t
              c_keyset_guarded c_keysets_ok Hs Ht Ds Dt Ns Nt) as (ds & E & Hiff).
  exists ds. split; [exact E|]. split; [|exact Hiff].
  destruct ds as [|d ds]; [right; apply same_set_opt_equiv; [assumption | assumption | apply Hiff; reflexivity] | left; discriminate].
Qed.
Print Assumptions C17_main_c.

Theorem C17_main_cpp :
  forall o_s o_t : opts,
    in_domainb cpp_domain o_s = true -> in_domainb cpp_domain o_t = true ->
    keys_documentedb cpp_keysets o_s = true -> keys_documentedb cpp_keysets o_t = true ->
    nodupb (map fst o_s) = true -> nodupb (map fst o_t) = true ->
    exists ds, compile_full sav cpp_support_side cpp_type_side o_s o_t = Some ds /\
               (ds <> [] \/ opt_equiv o_s o_t) /\
               (ds = [] <-> (forall kv, In kv o_s <-> In kv o_t)).
Proof.
  intros o_s o_t Hs Ht Ds Dt Ns Nt.
  destruct (main_general sav cpp_domain cpp_support_side cpp_type_side cpp_domain_ok cpp_sides_agree cpp_keysets o_s o_t
              cpp_keyset_guarded cpp_keysets_ok Hs Ht Ds Dt Ns Nt) as (ds & E & Hiff).
  exists ds. split; [exact E|]. split; [|exact Hiff].
  destruct ds as [|d ds]; [right; apply same_set_opt_equiv; [assumption | assumption | apply Hiff; reflexivity] | left; discriminate].
Qed.
Print Assumptions C17_main_cpp.

(* (0a) "rejected by a static assertion": whenever the diagnostics of (0) are not empty they contain a FAILING
   ASSERTION (key-set or per-option) carrying the "different language options" message (the scanner requires that
   text in both assertion statements), never only undeclared symbols -- which is what F-OPTGUARD-KEYSET was.  The
   message is the generic one: it does not name the option; which option failed is visible to the user only through
   the compiler's echo of the failing expression (`..._OPTION_<KEY> == <number>`), which is how the check attributes it. *)
Theorem C17_rejected_by_assertion :
  (forall (o_s o_t : opts) ds,
     in_domainb c_domain o_s = true -> in_domainb c_domain o_t = true ->
     keys_documentedb c_keysets o_s = true -> keys_documentedb c_keysets o_t = true ->
     compile_full sav c_support_side c_type_side o_s o_t = Some ds -> ds <> [] ->
     In KeySetMismatch ds \/ exists k, In (Mismatch k) ds) /\
  (forall (o_s o_t : opts) ds,
     in_domainb cpp_domain o_s = true -> in_domainb cpp_domain o_t = true ->
     keys_documentedb cpp_keysets o_s = true -> keys_documentedb cpp_keysets o_t = true ->
     compile_full sav cpp_support_side cpp_type_side o_s o_t = Some ds -> ds <> [] ->
     In KeySetMismatch ds \/ exists k, In (Mismatch k) ds).
Proof.
  split; intros o_s o_t ds.
  - exact (reject_by_assertion_general sav c_domain c_support_side c_type_side c_domain_ok c_sides_agree c_keysets o_s o_t ds
             c_keyset_guarded c_keysets_ok).
  - exact (reject_by_assertion_general sav cpp_domain cpp_support_side cpp_type_side cpp_domain_ok cpp_sides_agree cpp_keysets o_s o_t ds
             cpp_keyset_guarded cpp_keysets_ok).
Qed.
Print Assumptions C17_rejected_by_assertion.

(* on option sets made of relevant options only (all documented ones are), ~ is equality of the option sets *)
Theorem C17_equiv_is_same_set :
  forallb (fun kc => relevant (fst kc)) option_classes = true /\
  (forall o1 o2 : opts,
     nodupb (map fst o1) = true -> nodupb (map fst o2) = true ->
     forallb (fun kv => relevant (fst kv)) o1 = true -> forallb (fun kv => relevant (fst kv)) o2 = true ->
     (opt_equiv o1 o2 <-> (forall kv, In kv o1 <-> In kv o2))).
Proof.
  split; [exact all_classified_relevant|]. intros o1 o2 N1 N2 R1 R2. split.
  - exact (opt_equiv_same_set o1 o2 N1 N2 R1 R2).
  - exact (same_set_opt_equiv o1 o2 N1 N2).
Qed.
Print Assumptions C17_equiv_is_same_set.

(* (0') Every option that properties.yaml defines for c / cpp (and the optional `std` of C) is classified in
   Gen/OptGuard.v option_classes -- a newly added option breaks this until someone classifies it -- and is
   rendered by both loops (a #define / constexpr and an assertion exist for it). *)
Theorem C17_options_classified_and_fingerprinted :
  (classifiedb (map fst c_domain) = true /\ classifiedb (map fst cpp_domain) = true /\
   classifiedb (map fst c_defaults) = true /\ classifiedb (map fst cpp_defaults) = true) /\
  (rendered_keys c_support_side c_defaults = Some (map fst c_defaults) /\
   rendered_keys c_type_side c_defaults = Some (map fst c_defaults) /\
   rendered_keys cpp_support_side cpp_defaults = Some (map fst cpp_defaults) /\
   rendered_keys cpp_type_side cpp_defaults = Some (map fst cpp_defaults)).
Proof. exact (conj options_classified every_option_fingerprinted). Qed.
Print Assumptions C17_options_classified_and_fingerprinted.

(* (0'') The guard statements are live C / C++ on both sides of both languages: not inside a comment, not under
   a preprocessor conditional other than the include guard, and (type side) after the #include loop that brings
   in the support header; and every concrete pydsdl composite class (struct, union, delimited, service) is
   rendered by a template that reaches the guard of base.j2 (extends chain / unconditional top-level include;
   the guard itself is outside every overridable block, otherwise the scanner fails closed). *)
Theorem C17_guard_live_in_every_type_header :
  forallb side_live [c_support_side; c_type_side; cpp_support_side; cpp_type_side] = true /\
  composite_classes <> [] /\
  forallb (class_reaches c_entry_templates) composite_classes = true /\
  forallb (class_reaches cpp_entry_templates) composite_classes = true.
Proof. exact (conj all_sides_live every_class_reaches_guard). Qed.
Print Assumptions C17_guard_live_in_every_type_header.

(* the fingerprint is on both sides of both languages under the same symbol; it is defined and injective on the
   documented key sets; its reserved symbol is not the symbol of a documented option *)
Theorem C17_keyset_facts :
  (keyset_guarded c_support_side c_type_side = true /\ keyset_guarded cpp_support_side cpp_type_side = true) /\
  (keysets_ok sav c_keysets = true /\ keysets_ok sav cpp_keysets = true) /\
  (keyset_symbol_free c_support_side c_symbols = true /\ keyset_symbol_free c_type_side c_symbols = true /\
   keyset_symbol_free cpp_support_side cpp_symbols = true /\ keyset_symbol_free cpp_type_side cpp_symbols = true).
Proof.
  exact (conj (conj c_keyset_guarded cpp_keyset_guarded) (conj (conj c_keysets_ok cpp_keysets_ok) keyset_symbols_free)).
Qed.
Print Assumptions C17_keyset_facts.

(* (1) The guard accepts exactly the identical option sets: for all option sets over the documented
   values with the same (duplicate-free) key list -- C. *)
Theorem C17_guard_rejects_iff_differ_c :
  forall o_s o_t : opts,
    in_domainb c_domain o_s = true -> in_domainb c_domain o_t = true ->
    map fst o_s = map fst o_t -> nodupb (map fst o_s) = true ->
    (compiles_together sav c_support_side c_type_side o_s o_t = true <-> o_s = o_t).
Proof. exact (guard_iff_general sav c_domain c_support_side c_type_side c_domain_ok c_sides_agree). Qed.
Print Assumptions C17_guard_rejects_iff_differ_c.

(* ... and C++ *)
Theorem C17_guard_rejects_iff_differ_cpp :
  forall o_s o_t : opts,
    in_domainb cpp_domain o_s = true -> in_domainb cpp_domain o_t = true ->
    map fst o_s = map fst o_t -> nodupb (map fst o_s) = true ->
    (compiles_together sav cpp_support_side cpp_type_side o_s o_t = true <-> o_s = o_t).
Proof. exact (guard_iff_general sav cpp_domain cpp_support_side cpp_type_side cpp_domain_ok cpp_sides_agree). Qed.
Print Assumptions C17_guard_rejects_iff_differ_cpp.

(* (2) Which assertions fire: a type header reports a mismatch for option k exactly when the two
   option sets give k different values, and an undeclared symbol exactly when k is missing from the
   support header's option set. *)
Theorem C17_diagnostics_exact_c :
  forall (o_s o_t : opts) (ds : list diag),
    in_domainb c_domain o_s = true -> in_domainb c_domain o_t = true -> nodupb (map fst o_s) = true ->
    compile sav c_support_side c_type_side o_s o_t = Some ds ->
    forall k,
      (In (Mismatch k) ds <-> exists v_s v_t, In (k, v_s) o_s /\ In (k, v_t) o_t /\ v_s <> v_t) /\
      (In (Undeclared k) ds <-> In k (map fst o_t) /\ ~ In k (map fst o_s)).
Proof. exact (diagnostics_exact_general sav c_domain c_support_side c_type_side c_domain_ok c_sides_agree). Qed.
Print Assumptions C17_diagnostics_exact_c.

Theorem C17_diagnostics_exact_cpp :
  forall (o_s o_t : opts) (ds : list diag),
    in_domainb cpp_domain o_s = true -> in_domainb cpp_domain o_t = true -> nodupb (map fst o_s) = true ->
    compile sav cpp_support_side cpp_type_side o_s o_t = Some ds ->
    forall k,
      (In (Mismatch k) ds <-> exists v_s v_t, In (k, v_s) o_s /\ In (k, v_t) o_t /\ v_s <> v_t) /\
      (In (Undeclared k) ds <-> In k (map fst o_t) /\ ~ In k (map fst o_s)).
Proof. exact (diagnostics_exact_general sav cpp_domain cpp_support_side cpp_type_side cpp_domain_ok cpp_sides_agree). Qed.
Print Assumptions C17_diagnostics_exact_cpp.

(* (3) The filter is defined and injective on the documented values of every option. *)
Theorem C17_sav_injective_on_documented_domain :
  forall dom, dom = c_domain \/ dom = cpp_domain ->
  forall k vs, lookup_key k dom = Some vs ->
    (forall v, In v vs -> sav v <> None) /\
    (forall v w, In v vs -> In w vs -> sav v = sav w -> v = w).
Proof.
  intros dom [->| ->]; [exact (sav_injective_on c_domain c_domain_ok) | exact (sav_injective_on cpp_domain cpp_domain_ok)].
Qed.
Print Assumptions C17_sav_injective_on_documented_domain.

(* (4) Both loops cover every option: nothing is skipped on either side and both render the same keys. *)
Theorem C17_keys_equal :
  forall o : opts,
    (emitted c_type_side o = o /\ map fst (emitted c_support_side o) = map fst (emitted c_type_side o)) /\
    (emitted cpp_type_side o = o /\ map fst (emitted cpp_support_side o) = map fst (emitted cpp_type_side o)).
Proof.
  intros o. split; [exact (keys_equal_general c_support_side c_type_side c_sides_agree o)
                   | exact (keys_equal_general cpp_support_side cpp_type_side cpp_sides_agree o)].
Qed.
Print Assumptions C17_keys_equal.

(* distinct options are distinct C / C++ symbols (rendered by the real filters), one per documented key *)
Theorem C17_symbols_distinct :
  (nodupb (map snd c_names) = true /\ map fst c_names = map fst c_domain) /\
  (nodupb (map snd cpp_names) = true /\ map fst cpp_names = map fst cpp_domain).
Proof. exact (conj c_names_nodup cpp_names_nodup). Qed.
Print Assumptions C17_symbols_distinct.

(* (5) The per-option assertions alone (without the key-set assertion) give one inclusion: whatever they accept, every
   option of the type headers has the same value on the support side ... *)
Theorem C17_accept_implies_subset_partial :
  forall o_s o_t : opts,
    (in_domainb c_domain o_s = true -> in_domainb c_domain o_t = true ->
     compiles_together sav c_support_side c_type_side o_s o_t = true -> forall kv, In kv o_t -> In kv o_s) /\
    (in_domainb cpp_domain o_s = true -> in_domainb cpp_domain o_t = true ->
     compiles_together sav cpp_support_side cpp_type_side o_s o_t = true -> forall kv, In kv o_t -> In kv o_s).
Proof.
  intros o_s o_t. split;
    [exact (accept_implies_subset_general sav c_domain c_support_side c_type_side c_domain_ok c_sides_agree o_s o_t)
    |exact (accept_implies_subset_general sav cpp_domain cpp_support_side cpp_type_side cpp_domain_ok cpp_sides_agree o_s o_t)].
Qed.
Print Assumptions C17_accept_implies_subset_partial.

(* (6) The restriction to documented values is necessary: on free-form strings the filter is CRC-32
   and not injective, and values of different types collide ("" and false). *)
Theorem C17_sav_not_injective_outside_domain :
  (exists s1 s2 : str, s1 <> s2 /\ sav (VStr s1) = sav (VStr s2)) /\ sav (VStr []) = sav (VBool false).
Proof.
  split; [exists s_plumless, s_buckeroo; exact sav_not_injective_on_strings | exact sav_empty_string_is_false].
Qed.
Print Assumptions C17_sav_not_injective_outside_domain.

(* (7) CRC-32 model: standard check value, empty input, streaming law, 32-bit range; the translated
   filter reproduces the examples of its docstring, maps booleans to 0/1, strings into 32 bits and
   fails on anything else. *)
Theorem C17_crc32_facts :
  crc32 [49; 50; 51; 52; 53; 54; 55; 56; 57] = 3421780262 /\ crc32 [] = 0 /\
  (forall c a b, crc_update c (a ++ b) = crc_update (crc_update c a) b) /\
  (forall bs, crc32 bs < 2 ^ 32).
Proof. exact (conj crc32_check_value (conj crc32_nil (conj crc_update_app crc32_lt))). Qed.
Print Assumptions C17_crc32_facts.

Theorem C17_filter_facts :
  forallb (fun e => match sav (fst e) with Some z => Z.eqb z (snd e) | None => false end) sav_doc_examples = true /\
  (forall b, sav (VBool b) = Some (if b then 1 else 0)%Z) /\
  (forall s z, sav (VStr s) = Some z -> (0 <= z < 2 ^ 32)%Z) /\
  sav VOther = None.
Proof. exact (conj sav_doc_examples_hold (conj sav_bool (conj sav_str_range sav_other_fails))). Qed.
Print Assumptions C17_filter_facts.

(* (8) --omit-serialization-support: C++ type headers drop the assertions; a type template whose
   loop is not wrapped in `if not nunavut.support.omit` (C in the pinned tree) keeps them although
   nothing defines the symbols. *)
Theorem C17_omit_support :
  (forall o, compile_omit sav cpp_type_side o = Some []) /\
  (forall typ o, sd_unless_omit typ = false ->
     compile_omit sav typ o
     = option_map (fun t => (match sd_keyset typ with Some _ => [KeySetUndeclared] | None => [] end)
                            ++ map (fun a => Undeclared (snd (fst a))) t) (rendered sav typ o)).
Proof. exact (conj omit_cpp_no_asserts omit_unguarded_all_undeclared). Qed.
Print Assumptions C17_omit_support.

(* (8') guard_requires_support_header (regenerated fact): in both languages the assertions are rendered exactly
   when the type header includes a support header (`if not nunavut.support.omit` / the else-branch of
   `if nunavut.support.omit`).  (0) is therefore a statement about translation units that contain a support
   header.  Type headers generated with --omit-serialization-support ("pod" headers) assert nothing, whatever
   the options: the model accepts any mix of them.  They still depend on options (C: array-capacity override
   macros; C++: container / allocator / constructor-convention types), so pod headers generated under different
   option sets can be combined silently -- outside the property, which relates type headers to THE support
   header; recorded in design_notes/C17.md as a limitation, reproduced with the real generator. *)
Theorem C17_guard_requires_support_header :
  (sd_unless_omit c_type_side = true /\ sd_unless_omit cpp_type_side = true) /\
  (forall o, compile_omit sav c_type_side o = Some []) /\ (forall o, compile_omit sav cpp_type_side o = Some []).
Proof. exact (conj guard_requires_support_header (conj omit_c_no_asserts omit_cpp_no_asserts)). Qed.
Print Assumptions C17_guard_requires_support_header.

(* (9) The string literals of the assertion messages interpolate only literal-safe pieces: the DSDL file name, the
   option key, and the DSDL path passed through the regenerated chain of `replace` filters (sd_path_escape); never
   an option value (conjunct of sides_agree).  The chain is MODELLED (apply_escape) and checked exhaustively on every
   path of at most 5 characters over the hostile alphabet (double quote, backslash, question mark, slash, apostrophe,
   right parenthesis, a letter) against a lexer of string-literal bodies (lit_ok): no bare double quote, every
   backslash starts one of the escapes the chain emits.  Fix of F-OPTGUARD-MSG-PATH; live. *)
Theorem C17_messages_literal_safe :
  (forall sd, In sd [c_support_side; c_type_side; cpp_support_side; cpp_type_side] ->
     forall e, In e (sd_msg_exprs sd) -> In e safe_msg_exprs) /\
  str_in [118; 97; 108; 117; 101] (* value *) safe_msg_exprs = false /\ str_in sav_expr safe_msg_exprs = false.
Proof.
  split; [|exact value_not_literal_safe].
  intros sd Hsd. apply msg_safe_spec.
  exact (proj1 (forallb_forall _ _) all_messages_literal_safe sd Hsd).
Qed.
Print Assumptions C17_messages_literal_safe.

Example C17_message_path_escaped_live :
  forallb path_escape_ok [c_support_side; c_type_side; cpp_support_side; cpp_type_side] = true.
Proof. exact all_paths_escaped. Qed.

(* (9') Under the ISO modes (-std=c11, -std=c++14) trigraphs are replaced first: ??/ is a backslash.  Escaping
   backslash and double quote alone leaves `a??/u` an invalid literal (finding F-OPTGUARD-TRIGRAPH, fixed by f2f61d1, which
   adds the step ? -> backslash ?).  Facts about the two chains, independent of the tree; the live obligation is
   C17_path_trigraph_safe_live below, and path_trigraph_ok / path_chain_expected (exactly the three-step chain) are
   conjuncts of sides_agree. *)
Theorem C17_escape_chain_facts :
  escape_quote_safe chain_bq = true /\ escape_trigraph_safe chain_bq = false /\
  lit_ok (detrigraph (apply_escape chain_bq [97; 63; 63; 47; 117])) = false /\
  escape_quote_safe chain_bqq = true /\ escape_trigraph_safe chain_bqq = true /\
  escape_quote_safe [] = false.
Proof. exact chain_facts. Qed.
Print Assumptions C17_escape_chain_facts.

Example C17_path_trigraph_safe_live :
  forallb (fun sd => path_trigraph_ok sd && path_chain_expected sd) [c_support_side; c_type_side; cpp_support_side; cpp_type_side] = true.
Proof. exact all_paths_trigraph_safe. Qed.

(* ---- non-vacuity ---- *)
(* the hypotheses of (1) are satisfied by the defaults of properties.yaml ... *)
Example C17_defaults_in_domain :
  (in_domainb c_domain c_defaults = true /\ nodupb (map fst c_defaults) = true) /\
  (in_domainb cpp_domain cpp_defaults = true /\ nodupb (map fst cpp_defaults) = true).
Proof. exact (conj c_defaults_in_domain cpp_defaults_in_domain). Qed.

(* ... their key sets (and C defaults + std) are documented key sets ... *)
Example C17_default_keys_documented :
  keys_documentedb c_keysets c_defaults = true /\ keys_documentedb c_keysets (set_key k_std v_c11 c_defaults) = true /\
  keys_documentedb cpp_keysets cpp_defaults = true.
Proof. exact default_keys_documented. Qed.

(* ... the domains offer a choice, the docstring examples exist ... *)
Example C17_domains_nontrivial :
  existsb (fun kvs => 2 <=? N.of_nat (length (snd kvs))) c_domain = true /\
  existsb (fun kvs => 2 <=? N.of_nat (length (snd kvs))) cpp_domain = true /\ sav_doc_examples <> [].
Proof. exact (conj (proj1 domains_nontrivial) (conj (proj2 domains_nontrivial) sav_doc_examples_nonempty)). Qed.

(* ... and a concrete rejected pair: C defaults against C defaults with target_endianness = little *)
Example C17_reject_example :
  let k := [116; 97; 114; 103; 101; 116; 95; 101; 110; 100; 105; 97; 110; 110; 101; 115; 115] in
  let o_t := (k, VStr [108; 105; 116; 116; 108; 101]) :: tl c_defaults in
  in_domainb c_domain o_t = true /\ map fst o_t = map fst c_defaults /\
  compile sav c_support_side c_type_side c_defaults o_t = Some [Mismatch k] /\
  compile sav c_support_side c_type_side c_defaults c_defaults = Some [].
Proof. vm_compute. repeat split; reflexivity. Qed.

(* both branches of (0) occur: defaults vs defaults is accepted and equivalent; a value difference and a key-set
   difference (support generated with --language-standard c11) are rejected, the latter by the key-set assertion *)
Example C17_main_branches :
  compile_full sav c_support_side c_type_side c_defaults c_defaults = Some [] /\
  (let k := [116; 97; 114; 103; 101; 116; 95; 101; 110; 100; 105; 97; 110; 110; 101; 115; 115] in
   compile_full sav c_support_side c_type_side c_defaults
     ((k, VStr [108; 105; 116; 116; 108; 101]) :: tl c_defaults) = Some [Mismatch k]) /\
  compile_full sav c_support_side c_type_side (set_key k_std v_c11 c_defaults) c_defaults = Some [KeySetMismatch] /\
  compile_full sav c_support_side c_type_side c_defaults (set_key k_std v_c11 c_defaults) = Some [KeySetMismatch; Undeclared k_std] /\
  compile_full sav cpp_support_side cpp_type_side cpp_defaults cpp_defaults = Some [].
Proof.
  vm_compute. repeat split; reflexivity.
Qed.
