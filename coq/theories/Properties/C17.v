(* C17 -- headers generated with different language options cannot be compiled together.
   Statements only; every proof is `exact <lemma>` (or a short composition).
   Model: Gen/OptGuard.v (support header defines one symbol per option, every type header asserts
   equality for each of its options).  Regenerated from /repo on every run (Generated/Gen_OptGuard.v):
   `sav` = T2 translation of filter_to_static_assertion_value; `*_support_side` / `*_type_side` =
   what the template scanner found in the four guard loops; `*_domain` = documented values of every
   option (properties.yaml options + std shorthand groups, CLI choices, ConstructorConvention);
   `*_names` = symbols rendered by the real macrofy / id filters. *)
From Verif Require Import Str Crc32 Crc32Thm OptGuard Gen_OptGuard OptGuardThm.
From Coq Require Import ZArith.
Open Scope N_scope.

(* (1) The guard accepts exactly the identical option sets: for all option sets over the documented
   values with the same (duplicate-free) key list -- C. *)
Theorem C17_guard_rejects_iff_differ_c :
  forall o_s o_t : opts,
    in_domainb c_domain o_s = true -> in_domainb c_domain o_t = true ->
    map fst o_s = map fst o_t -> nodupb (map fst o_s) = true ->
    (compiles_together sav c_support_side c_type_side o_s o_t = true <-> o_s = o_t).
Proof. exact (guard_iff_general sav c_domain c_support_side c_type_side c_domain_ok c_sides_agree). Qed.
Print Assumptions C17_guard_rejects_iff_differ_c.

(* ... and C++ *)
Theorem C17_guard_rejects_iff_differ_cpp :
  forall o_s o_t : opts,
    in_domainb cpp_domain o_s = true -> in_domainb cpp_domain o_t = true ->
    map fst o_s = map fst o_t -> nodupb (map fst o_s) = true ->
    (compiles_together sav cpp_support_side cpp_type_side o_s o_t = true <-> o_s = o_t).
Proof. exact (guard_iff_general sav cpp_domain cpp_support_side cpp_type_side cpp_domain_ok cpp_sides_agree). Qed.
Print Assumptions C17_guard_rejects_iff_differ_cpp.

(* (2) Which assertions fire: a type header reports a mismatch for option k exactly when the two
   option sets give k different values, and an undeclared symbol exactly when k is missing from the
   support header's option set. *)
Theorem C17_diagnostics_exact_c :
  forall (o_s o_t : opts) (ds : list diag),
    in_domainb c_domain o_s = true -> in_domainb c_domain o_t = true -> nodupb (map fst o_s) = true ->
    compile sav c_support_side c_type_side o_s o_t = Some ds ->
    forall k,
      (In (Mismatch k) ds <-> exists v_s v_t, In (k, v_s) o_s /\ In (k, v_t) o_t /\ v_s <> v_t) /\
      (In (Undeclared k) ds <-> In k (map fst o_t) /\ ~ In k (map fst o_s)).
Proof. exact (diagnostics_exact_general sav c_domain c_support_side c_type_side c_domain_ok c_sides_agree). Qed.
Print Assumptions C17_diagnostics_exact_c.

Theorem C17_diagnostics_exact_cpp :
  forall (o_s o_t : opts) (ds : list diag),
    in_domainb cpp_domain o_s = true -> in_domainb cpp_domain o_t = true -> nodupb (map fst o_s) = true ->
    compile sav cpp_support_side cpp_type_side o_s o_t = Some ds ->
    forall k,
      (In (Mismatch k) ds <-> exists v_s v_t, In (k, v_s) o_s /\ In (k, v_t) o_t /\ v_s <> v_t) /\
      (In (Undeclared k) ds <-> In k (map fst o_t) /\ ~ In k (map fst o_s)).
Proof. exact (diagnostics_exact_general sav cpp_domain cpp_support_side cpp_type_side cpp_domain_ok cpp_sides_agree). Qed.
Print Assumptions C17_diagnostics_exact_cpp.

(* (3) The filter is defined and injective on the documented values of every option. *)
Theorem C17_sav_injective_on_documented_domain :
  forall dom, dom = c_domain \/ dom = cpp_domain ->
  forall k vs, lookup_key k dom = Some vs ->
    (forall v, In v vs -> sav v <> None) /\
    (forall v w, In v vs -> In w vs -> sav v = sav w -> v = w).
Proof.
  intros dom [->| ->]; [exact (sav_injective_on c_domain c_domain_ok) | exact (sav_injective_on cpp_domain cpp_domain_ok)].
Qed.
Print Assumptions C17_sav_injective_on_documented_domain.

(* (4) Both loops cover every option: nothing is skipped on either side and both render the same keys. *)
Theorem C17_keys_equal :
  forall o : opts,
    (emitted c_type_side o = o /\ map fst (emitted c_support_side o) = map fst (emitted c_type_side o)) /\
    (emitted cpp_type_side o = o /\ map fst (emitted cpp_support_side o) = map fst (emitted cpp_type_side o)).
Proof.
  intros o. split; [exact (keys_equal_general c_support_side c_type_side c_sides_agree o)
                   | exact (keys_equal_general cpp_support_side cpp_type_side cpp_sides_agree o)].
Qed.
Print Assumptions C17_keys_equal.

(* distinct options are distinct C / C++ symbols (rendered by the real filters), one per documented key *)
Theorem C17_symbols_distinct :
  (nodupb (map snd c_names) = true /\ map fst c_names = map fst c_domain) /\
  (nodupb (map snd cpp_names) = true /\ map fst cpp_names = map fst cpp_domain).
Proof. exact (conj c_names_nodup cpp_names_nodup). Qed.
Print Assumptions C17_symbols_distinct.

(* (5) Without the assumption on the key lists only one inclusion holds: whatever is accepted, every
   option of the type headers has the same value on the support side ... *)
Theorem C17_accept_implies_subset_partial :
  forall o_s o_t : opts,
    (in_domainb c_domain o_s = true -> in_domainb c_domain o_t = true ->
     compiles_together sav c_support_side c_type_side o_s o_t = true -> forall kv, In kv o_t -> In kv o_s) /\
    (in_domainb cpp_domain o_s = true -> in_domainb cpp_domain o_t = true ->
     compiles_together sav cpp_support_side cpp_type_side o_s o_t = true -> forall kv, In kv o_t -> In kv o_s).
Proof.
  intros o_s o_t. split;
    [exact (accept_implies_subset_general sav c_domain c_support_side c_type_side c_domain_ok c_sides_agree o_s o_t)
    |exact (accept_implies_subset_general sav cpp_domain cpp_support_side cpp_type_side cpp_domain_ok cpp_sides_agree o_s o_t)].
Qed.
Print Assumptions C17_accept_implies_subset_partial.

(* ... and in a tree whose templates do not carry the key-set fingerprint the full statement (any two
   documented option sets) is false of the faithful model: a support header generated with
   `--language-standard c11` (which adds the option `std`) is accepted by C type headers generated
   without it.  Known finding F-OPTGUARD-KEYSET. *)
Theorem C17_guard_full_refuted :
  sd_keyset c_type_side = None ->
  exists o_s o_t : opts,
    in_domainb c_domain o_s = true /\ in_domainb c_domain o_t = true /\
    keys_documentedb c_keysets o_s = true /\ keys_documentedb c_keysets o_t = true /\
    compiles_together_full sav c_support_side c_type_side o_s o_t = true /\ ~ (forall kv, In kv o_s <-> In kv o_t).
Proof. exact full_refuted_without_keyset. Qed.
Print Assumptions C17_guard_full_refuted.

(* (5') With the key-set fingerprint (support header defines, every type header asserts the CRC of the
   sorted, comma-joined key list under a reserved symbol) the FULL statement holds: for all option sets
   over the documented values and documented key sets, no assumption relating the two key lists:
   everything a type header checks passes <-> the two option sets are the same set.  Live when the
   scanner finds the fingerprint on both sides (keyset_guarded = true), vacuous otherwise. *)
Theorem C17_guard_rejects_iff_differ_full_c :
  keyset_guarded c_support_side c_type_side = true ->
  forall o_s o_t : opts,
    in_domainb c_domain o_s = true -> in_domainb c_domain o_t = true ->
    keys_documentedb c_keysets o_s = true -> keys_documentedb c_keysets o_t = true ->
    nodupb (map fst o_s) = true -> nodupb (map fst o_t) = true ->
    (compiles_together_full sav c_support_side c_type_side o_s o_t = true <-> (forall kv, In kv o_s <-> In kv o_t)).
Proof.
  intros G o_s o_t.
  exact (guard_full_general sav c_domain c_support_side c_type_side c_domain_ok c_sides_agree c_keysets o_s o_t G c_keysets_ok).
Qed.
Print Assumptions C17_guard_rejects_iff_differ_full_c.

Theorem C17_guard_rejects_iff_differ_full_cpp :
  keyset_guarded cpp_support_side cpp_type_side = true ->
  forall o_s o_t : opts,
    in_domainb cpp_domain o_s = true -> in_domainb cpp_domain o_t = true ->
    keys_documentedb cpp_keysets o_s = true -> keys_documentedb cpp_keysets o_t = true ->
    nodupb (map fst o_s) = true -> nodupb (map fst o_t) = true ->
    (compiles_together_full sav cpp_support_side cpp_type_side o_s o_t = true <-> (forall kv, In kv o_s <-> In kv o_t)).
Proof.
  intros G o_s o_t.
  exact (guard_full_general sav cpp_domain cpp_support_side cpp_type_side cpp_domain_ok cpp_sides_agree cpp_keysets o_s o_t G cpp_keysets_ok).
Qed.
Print Assumptions C17_guard_rejects_iff_differ_full_cpp.

(* the fingerprint is either on both sides of a language or on neither; it is defined and injective on
   the documented key sets; its reserved symbol is not the symbol of a documented option; without it
   the complete diagnostics are the per-option ones of (1), (2) *)
Theorem C17_keyset_facts :
  ((keyset_guarded c_support_side c_type_side || keyset_absent c_support_side c_type_side = true) /\
   (keyset_guarded cpp_support_side cpp_type_side || keyset_absent cpp_support_side cpp_type_side = true)) /\
  (keysets_ok sav c_keysets = true /\ keysets_ok sav cpp_keysets = true) /\
  (keyset_symbol_free c_support_side c_symbols = true /\ keyset_symbol_free c_type_side c_symbols = true /\
   keyset_symbol_free cpp_support_side cpp_symbols = true /\ keyset_symbol_free cpp_type_side cpp_symbols = true) /\
  (forall sup typ o_s o_t, sd_keyset typ = None -> compile_full sav sup typ o_s o_t = compile sav sup typ o_s o_t).
Proof.
  exact (conj keyset_consistent (conj (conj c_keysets_ok cpp_keysets_ok) (conj keyset_symbols_free (compile_full_without_keyset sav)))).
Qed.
Print Assumptions C17_keyset_facts.

(* the opposite order: the per-option assertions hit an undeclared symbol instead of failing (with the
   fingerprint the key-set assertion fails first, see compile_full) *)
Theorem C17_extra_type_key_undeclared :
  compile sav c_support_side c_type_side c_defaults (set_key k_std v_c11 c_defaults) = Some [Undeclared k_std].
Proof. exact extra_type_key_undeclared. Qed.
Print Assumptions C17_extra_type_key_undeclared.

(* (6) The restriction to documented values is necessary: on free-form strings the filter is CRC-32
   and not injective, and values of different types collide ("" and false). *)
Theorem C17_sav_not_injective_outside_domain :
  (exists s1 s2 : str, s1 <> s2 /\ sav (VStr s1) = sav (VStr s2)) /\ sav (VStr []) = sav (VBool false).
Proof.
  split; [exists s_plumless, s_buckeroo; exact sav_not_injective_on_strings | exact sav_empty_string_is_false].
Qed.
Print Assumptions C17_sav_not_injective_outside_domain.

(* (7) CRC-32 model: standard check value, empty input, streaming law, 32-bit range; the translated
   filter reproduces the examples of its docstring, maps booleans to 0/1, strings into 32 bits and
   fails on anything else. *)
Theorem C17_crc32_facts :
  crc32 [49; 50; 51; 52; 53; 54; 55; 56; 57] = 3421780262 /\ crc32 [] = 0 /\
  (forall c a b, crc_update c (a ++ b) = crc_update (crc_update c a) b) /\
  (forall bs, crc32 bs < 2 ^ 32).
Proof. exact (conj crc32_check_value (conj crc32_nil (conj crc_update_app crc32_lt))). Qed.
Print Assumptions C17_crc32_facts.

Theorem C17_filter_facts :
  forallb (fun e => match sav (fst e) with Some z => Z.eqb z (snd e) | None => false end) sav_doc_examples = true /\
  (forall b, sav (VBool b) = Some (if b then 1 else 0)%Z) /\
  (forall s z, sav (VStr s) = Some z -> (0 <= z < 2 ^ 32)%Z) /\
  sav VOther = None.
Proof. exact (conj sav_doc_examples_hold (conj sav_bool (conj sav_str_range sav_other_fails))). Qed.
Print Assumptions C17_filter_facts.

(* (8) --omit-serialization-support: C++ type headers drop the assertions; a type template whose
   loop is not wrapped in `if not nunavut.support.omit` (C in the pinned tree) keeps them although
   nothing defines the symbols. *)
Theorem C17_omit_support :
  (forall o, compile_omit sav cpp_type_side o = Some []) /\
  (forall typ o, sd_unless_omit typ = false ->
     compile_omit sav typ o
     = option_map (fun t => (match sd_keyset typ with Some _ => [KeySetUndeclared] | None => [] end)
                            ++ map (fun a => Undeclared (snd (fst a))) t) (rendered sav typ o)).
Proof. exact (conj omit_cpp_no_asserts omit_unguarded_all_undeclared). Qed.
Print Assumptions C17_omit_support.

(* (9) The string literals of the assertion messages interpolate only literal-safe template expressions
   (DSDL file name / path, option key), never an option value: documented values contain double quotes
   (quoted include paths) and free text may contain backslashes, either of which would end or corrupt the
   literal and break the build of IDENTICAL option sets.  (Also a conjunct of sides_agree, on which (1),
   (2), (5), (5') rest.) *)
Theorem C17_messages_literal_safe :
  (forall sd, In sd [c_support_side; c_type_side; cpp_support_side; cpp_type_side] ->
     forall e, In e (sd_msg_exprs sd) -> In e safe_msg_exprs) /\
  str_in [118; 97; 108; 117; 101] (* value *) safe_msg_exprs = false /\ str_in sav_expr safe_msg_exprs = false.
Proof.
  split; [|exact value_not_literal_safe].
  intros sd Hsd. apply msg_safe_spec.
  exact (proj1 (forallb_forall _ _) all_messages_literal_safe sd Hsd).
Qed.
Print Assumptions C17_messages_literal_safe.

(* ---- non-vacuity ---- *)
(* the hypotheses of (1) are satisfied by the defaults of properties.yaml ... *)
Example C17_defaults_in_domain :
  (in_domainb c_domain c_defaults = true /\ nodupb (map fst c_defaults) = true) /\
  (in_domainb cpp_domain cpp_defaults = true /\ nodupb (map fst cpp_defaults) = true).
Proof. exact (conj c_defaults_in_domain cpp_defaults_in_domain). Qed.

(* ... their key sets (and C defaults + std) are documented key sets ... *)
Example C17_default_keys_documented :
  keys_documentedb c_keysets c_defaults = true /\ keys_documentedb c_keysets (set_key k_std v_c11 c_defaults) = true /\
  keys_documentedb cpp_keysets cpp_defaults = true.
Proof. exact default_keys_documented. Qed.

(* ... the domains offer a choice, the docstring examples exist ... *)
Example C17_domains_nontrivial :
  existsb (fun kvs => 2 <=? N.of_nat (length (snd kvs))) c_domain = true /\
  existsb (fun kvs => 2 <=? N.of_nat (length (snd kvs))) cpp_domain = true /\ sav_doc_examples <> [].
Proof. exact (conj (proj1 domains_nontrivial) (conj (proj2 domains_nontrivial) sav_doc_examples_nonempty)). Qed.

(* ... and a concrete rejected pair: C defaults against C defaults with target_endianness = little *)
Example C17_reject_example :
  let k := [116; 97; 114; 103; 101; 116; 95; 101; 110; 100; 105; 97; 110; 110; 101; 115; 115] in
  let o_t := (k, VStr [108; 105; 116; 116; 108; 101]) :: tl c_defaults in
  in_domainb c_domain o_t = true /\ map fst o_t = map fst c_defaults /\
  compile sav c_support_side c_type_side c_defaults o_t = Some [Mismatch k] /\
  compile sav c_support_side c_type_side c_defaults c_defaults = Some [].
Proof. vm_compute. repeat split; reflexivity. Qed.
