(* C15 -- line post-processing is chunking-independent and changes only what it documents.
   Statements only; every proof is `exact <lemma>` so nothing here can be weakened quietly.
   Models: Gen/LinePP.v (hand model of _generate_with_line_buffer, tied by correspondence),
   Generated/Gen_LinePP.v (T2 translation of the two built-in processors and of the
   newline pattern, regenerated from /repo on every run). *)
From Verif Require Import LinePP LinePPThm LinePPRejoinThm LinePPInst LinePPInstThm LinePPFiles LinePPFilesThm LinePPOrder LinePPOrderThm LinePPResplitThm Gen_Pin_linebuf.
Open Scope N_scope.

(* (0) Tie of the hand model Gen/LinePP.v to the source: the shape pin (tools/translators/shape_pin.py) regenerates
   Gen_Pin_linebuf.v from /repo on every run; `pin_linebuf_ok` is only defined when the normalised AST of
   CodeGenerator._generate_with_line_buffer, _filter_and_write_line, _rejoin_split_crlf,
   SupportGenerator._copy_header_using_line_pps, _generate_code, _reset_line_pp, _handle_post_processors with its two
   subroutines and ArgparseRunner._build_post_processor_list_from_args is the one the models were written for. *)
Example C15_linebuf_shape_pinned : pin_linebuf_ok = true.
Proof. reflexivity. Qed.

(* (1) Writing through ANY pipeline of line processors (arbitrary state machine `step`, user processors included)
   equals applying the pipeline line by line to the complete text -- for EVERY chunking, including empty chunks and
   cuts between the CR and the LF of a terminator.  `write_rj` is the function as it is since fix 982f275 (the
   chunk stream passes through _rejoin_split_crlf first). *)
Theorem C15_chunk_independence :
  forall (S : Type) (step : S -> line -> S * line) (chunks : list str) (st : S),
    write_rj step chunks st = linewise step st (concat chunks).
Proof. exact write_rj_linewise. Qed.
Print Assumptions C15_chunk_independence.

Theorem C15_same_text_same_file :
  forall (S : Type) (step : S -> line -> S * line) (chunks1 chunks2 : list str) (st : S),
    concat chunks1 = concat chunks2 -> write_rj step chunks1 st = write_rj step chunks2 st.
Proof. exact write_rj_chunk_indep. Qed.
Print Assumptions C15_same_text_same_file.

(* Why the rejoin stage is needed: History/C15_history.v (C15_chunk_independence_partial / _refuted about the loop alone). *)
(* the same witness through the repaired function *)
Example C15_witness_repaired :
  snd (write_rj pipe_step [[97; 98; 99; 32; 13]; [10; 100; 101; 102]] [PTrim])
  = snd (linewise pipe_step [PTrim] [97; 98; 99; 32; 13; 10; 100; 101; 102]).
Proof. vm_compute. reflexivity. Qed.

(* (2) With processors that change nothing the file is the concatenated output, for EVERY
   chunking (also cuts inside a terminator). *)
Theorem C15_no_processor_identity :
  forall (S : Type) (step : S -> line -> S * line),
    (forall st l, step st l = (st, l)) ->
    forall chunks st, snd (write step chunks st) = concat chunks.
Proof. exact identity_pipeline. Qed.
Print Assumptions C15_no_processor_identity.

Theorem C15_no_processor_identity_rj :
  forall (S : Type) (step : S -> line -> S * line),
    (forall st l, step st l = (st, l)) ->
    forall chunks st, snd (write_rj step chunks st) = concat chunks.
Proof. exact identity_pipeline_rj. Qed.
Print Assumptions C15_no_processor_identity_rj.

(* (2b) SupportGenerator._copy_header_using_line_pps: iterating the resource file line by line (opened with newline="\n"
   since fix b0be4ff: lines end at LF only and arrive untranslated = `py_lines`) and pushing each (content, terminator) tuple
   through the pipeline equals line-by-line application to the whole text: CRLF terminators are kept (repaired finding
   F-COPY-UNIVERSAL-NEWLINES) and an unterminated last line keeps its last character (repaired finding F-COPY-LASTCHAR). *)
Theorem C15_copy_header_linewise :
  forall (S : Type) (step : S -> line -> S * line) (text : str) (st : S),
    copy_header step (py_lines text) st = linewise step st text.
Proof. exact copy_header_linewise. Qed.
Print Assumptions C15_copy_header_linewise.

(* (2c) Files of one generator run: the line processors are shared objects, reset before every file (_generate_code calls
   _reset_line_pp; LimitEmptyLines.reset is translated).  Hence EVERY file of ANY sequence of files, each chunked in any
   way, is the line-by-line application of the pipeline in its constructed state to that file's complete text: what was
   written before does not matter (repaired finding F-LEL-LEAK, shared with C10). *)
Theorem C15_every_file_processed_afresh :
  forall (files : list (list str)) (ps : list pp),
    gen_files ps files = map (fun f => snd (linewise pipe_step (map pp_reset ps) (concat f))) files.
Proof. exact gen_files_independent. Qed.
Print Assumptions C15_every_file_processed_afresh.

(* (3) TrimTrailingWhitespace (translated) removes exactly the maximal trailing run of
   Python-whitespace code points of the line content and keeps the terminator. *)
Theorem C15_trim_exact :
  forall content term : str,
    TrimTrailingWhitespace_call py_uni (content, term) = (rstrip py_ws content, term).
Proof. exact trim_exact_lemma. Qed.
Print Assumptions C15_trim_exact.

Theorem C15_rstrip_characterisation :
  forall (p : chr -> bool) (s : str),
    (exists w, s = rstrip p s ++ w /\ forallb p w = true) /\
    (forall x c, rstrip p s = x ++ [c] -> p c = false).
Proof.
  intros p s. split; [exact (rstrip_decomp p s) | exact (rstrip_no_trailing p s)].
Qed.
Print Assumptions C15_rstrip_characterisation.

(* (4) LimitEmptyLines (translated), for every limit N >= 0 and every stream of lines. *)
Theorem C15_limit_bound :
  forall (N : Z) (ls : list line),
    (0 <= N)%Z -> runs_ok N 0 (limit_lines (LimitEmptyLines_init N) ls) = true.
Proof. exact limit_bound_lemma. Qed.
Print Assumptions C15_limit_bound.

Theorem C15_limit_keeps_nonempty :
  forall s l,
    (0 <= LimitEmptyLines_max_empty_lines s)%Z -> empty_content l = false ->
    snd (LimitEmptyLines_call s l) = l /\
    LimitEmptyLines_max_empty_lines (fst (LimitEmptyLines_call s l)) = LimitEmptyLines_max_empty_lines s.
Proof. exact limit_keeps_nonempty_lemma. Qed.
Print Assumptions C15_limit_keeps_nonempty.

Theorem C15_limit_nonempty_subsequence :
  forall (N : Z) (ls : list line),
    (0 <= N)%Z ->
    filter (fun l => negb (empty_content l)) (limit_lines (LimitEmptyLines_init N) ls)
    = filter (fun l => negb (empty_content l)) ls.
Proof. exact limit_nonempty_subsequence_lemma. Qed.
Print Assumptions C15_limit_nonempty_subsequence.

(* EXACTLY: of every run of consecutive empty lines the first N are kept unaltered and the rest elided (`limit_spec`, written
   independently of the code) -- the bound and keeps-non-empty statements above are corollaries; a limiter eliding every
   empty line would satisfy those but not this. *)
Theorem C15_limit_exact :
  forall (N : Z) (ls : list line),
    (0 <= N)%Z -> limit_lines (LimitEmptyLines_init N) ls = limit_spec N 0 ls.
Proof. exact limit_lines_exact. Qed.
Print Assumptions C15_limit_exact.

(* boundary: the property quantifies over N >= 0; a negative limit (argparse accepts one) elides every line *)
Theorem C15_limit_negative_deletes_all :
  forall (N : Z) (ls : list line),
    (N < 0)%Z -> limit_lines (LimitEmptyLines_init N) ls = map (fun _ => ([], [])) ls.
Proof. exact limit_negative_deletes_all. Qed.
Print Assumptions C15_limit_negative_deletes_all.

(* (5) the translated newline pattern `\n|\r\n` finds the first LF or CR-LF (ties the
   character scan of the hand model to the regular expression in the source) *)
Theorem C15_newline_pattern :
  forall s, re_search py_uni newline_pattern s = first_nl 0 s.
Proof. exact newline_pattern_spec. Qed.
Print Assumptions C15_newline_pattern.

(* (5b) ... and the buffering loop of the source IS a loop around that pattern: `feed_loop` is the `while True` loop of
   _generate_with_line_buffer with newline_pattern.search, `feed` the character scan all theorems above are about. *)
Theorem C15_regex_loop_is_scan :
  forall (S : Type) (step : S -> line -> S * line) (part lb : str) (st : S) (out : str),
    feed_loop step (Datatypes.S (length part)) part lb st out = Some (feed step part lb st out).
Proof. exact feed_loop_part. Qed.
Print Assumptions C15_regex_loop_is_scan.

(* (6) THE FILE.  (4) is about the stream the limiter returns; what the user sees is the file.  Lines that are blank
   (empty or whitespace-only) count: for every pipeline of built-in processors in which a trimmer runs somewhere before a
   final limiter, the lines written contain at most N consecutive blank ones ... *)
Theorem C15_file_blank_bound :
  forall (N : Z) (pre mid : list pp) (ls : list line),
    (0 <= N)%Z ->
    blank_runs_ok N 0 (emitted pipe_step (pre ++ PTrim :: mid ++ [PLimit (LimitEmptyLines_init N)]) ls) = true.
Proof. exact file_blank_bound. Qed.
Print Assumptions C15_file_blank_bound.

Theorem C15_file_is_concat_of_emitted_lines :
  forall (S : Type) (step : S -> line -> S * line) (chunks : list str) (st : S),
    snd (write_rj step chunks st) = concat (map flat (emitted step st (split_lines (concat chunks)))).
Proof. intros S step chunks st. rewrite write_rj_linewise. apply linewise_is_concat_emitted. Qed.
Print Assumptions C15_file_is_concat_of_emitted_lines.

(* ... for the pipeline nnvg builds by default, read back from the written file, for EVERY chunking: *)
Theorem C15_default_file_blank_bound :
  forall (N : Z) (chunks : list str),
    (0 <= N)%Z ->
    blank_runs_ok N 0 (split_lines (snd (write_builtin [PTrim; PLimit (LimitEmptyLines_init N)] chunks))) = true.
Proof. exact default_file_blank_bound. Qed.
Print Assumptions C15_default_file_blank_bound.

(* ... and no non-blank line is removed or altered beyond its trailing whitespace *)
Theorem C15_default_file_nonblank_lines :
  forall (N : Z) (chunks : list str),
    (0 <= N)%Z ->
    filter (fun l => negb (empty_content l)) (split_lines (snd (write_builtin [PTrim; PLimit (LimitEmptyLines_init N)] chunks)))
    = map trim_line (filter (fun l => negb (blank l)) (split_lines (concat chunks))).
Proof. exact default_file_nonblank_lines. Qed.
Print Assumptions C15_default_file_nonblank_lines.

(* ... and for the limiter ALONE (--pp-max-emptylines with a language that does not trim): at most N consecutive EMPTY lines
   in the file read back (whitespace-only lines are not empty: nothing trimmed them), every non-empty line kept unaltered *)
Theorem C15_limit_only_file_empty_bound :
  forall (N : Z) (chunks : list str),
    (0 <= N)%Z ->
    runs_ok N 0 (split_lines (snd (write_builtin [PLimit (LimitEmptyLines_init N)] chunks))) = true /\
    filter (fun l => negb (empty_content l)) (split_lines (snd (write_builtin [PLimit (LimitEmptyLines_init N)] chunks)))
    = filter (fun l => negb (empty_content l)) (split_lines (concat chunks)).
Proof. exact limit_only_file_empty_bound. Qed.
Print Assumptions C15_limit_only_file_empty_bound.

(* the order matters: with the limiter first, whitespace-only lines pass it as non-empty and are emptied afterwards *)
Example C15_order_matters :
  blank_runs_ok 1 0 (emitted pipe_step [PLimit (LimitEmptyLines_init 1); PTrim]
                            (split_lines [97; 10; 32; 10; 32; 10; 32; 10; 98; 10])) = false.
Proof. exact limit_before_trim_unbounded. Qed.

(* (7) _handle_post_processors (language options limit_empty_lines / trim_trailing_whitespace): when trimming is configured
   and the caller supplied no trimmer of their own, the trimmer is placed before every limiter (repaired finding
   F-LIMIT-BEFORE-TRIM) ... *)
Theorem C15_handle_trim_before_limit :
  forall (cfg_limit : option Z) (given : option (list pk)) (l : list pk),
    (forall g, given = Some g -> existsb is_trim g = false) ->
    handle_pps cfg_limit true given = Some l ->
    exists pre post, l = pre ++ KTrim :: post /\ existsb is_limit pre = false.
Proof. exact handle_trim_before_limit. Qed.
Print Assumptions C15_handle_trim_before_limit.

(* ... nothing the caller supplied is dropped or reordered ... *)
Theorem C15_handle_keeps_given :
  forall cfg_limit cfg_trim g l,
    handle_pps cfg_limit cfg_trim (Some g) = Some l ->
    filter (fun k => negb (is_trim k) && negb (is_limit k)) l = filter (fun k => negb (is_trim k) && negb (is_limit k)) g.
Proof. exact handle_keeps_given. Qed.
Print Assumptions C15_handle_keeps_given.

(* ... with both options on and no line processor from the caller the pipeline is exactly [Trim; Limit N], the one (6) is about ... *)
Theorem C15_handle_default :
  forall N g,
    existsb is_trim g = false -> existsb is_limit g = false ->
    exists l, handle_pps (Some N) true (Some g) = Some l /\ to_pps l = [PTrim; PLimit (LimitEmptyLines_init N)].
Proof. exact handle_default. Qed.
Print Assumptions C15_handle_default.

(* ... and for nnvg as a whole (command-line list, then language configuration): a list that trims, trims before it limits *)
Theorem C15_cli_then_handle_order :
  forall t lim ext cfg_limit cfg_trim l,
    handle_pps cfg_limit cfg_trim (Some (cli_list t lim ext)) = Some l ->
    existsb is_trim l = true ->
    exists pre post, l = pre ++ KTrim :: post /\ existsb is_limit pre = false.
Proof. exact cli_then_handle_order. Qed.
Print Assumptions C15_cli_then_handle_order.

Example C15_handle_nonvacuous :
  handle_pps (Some 2%Z) true (Some [KOther; KLimit 1%Z]) = Some [KOther; KTrim; KLimit 1%Z].
Proof. reflexivity. Qed.
