(* C15 -- line post-processing is chunking-independent and changes only what it documents.
   Statements only; every proof is `exact <lemma>` so nothing here can be weakened quietly.
   Models: Gen/LinePP.v (hand model of _generate_with_line_buffer, tied by correspondence),
   Generated/Gen_LinePP.v (T2 translation of the two built-in processors and of the
   newline pattern, regenerated from /repo on every run). *)
From Verif Require Import LinePP LinePPThm LinePPRejoinThm LinePPInst LinePPInstThm LinePPFiles LinePPFilesThm Gen_Pin_linebuf.
Open Scope N_scope.

(* (0) Tie of the hand model Gen/LinePP.v to the source: the shape pin (tools/translators/shape_pin.py) regenerates
   Gen_Pin_linebuf.v from /repo on every run; `pin_linebuf_ok` is only defined when the normalised AST of
   CodeGenerator._generate_with_line_buffer, _filter_and_write_line, _rejoin_split_crlf and
   SupportGenerator._copy_header_using_line_pps is the one the model was written for. *)
Example C15_linebuf_shape_pinned : pin_linebuf_ok = true.
Proof. reflexivity. Qed.

(* (1) Writing through ANY pipeline of line processors (arbitrary state machine `step`, user processors included)
   equals applying the pipeline line by line to the complete text -- for EVERY chunking, including empty chunks and
   cuts between the CR and the LF of a terminator.  `write_rj` is the function as it is since fix 982f275 (the
   chunk stream passes through _rejoin_split_crlf first). *)
Theorem C15_chunk_independence :
  forall (S : Type) (step : S -> line -> S * line) (chunks : list str) (st : S),
    write_rj step chunks st = linewise step st (concat chunks).
Proof. exact write_rj_linewise. Qed.
Print Assumptions C15_chunk_independence.

Theorem C15_same_text_same_file :
  forall (S : Type) (step : S -> line -> S * line) (chunks1 chunks2 : list str) (st : S),
    concat chunks1 = concat chunks2 -> write_rj step chunks1 st = write_rj step chunks2 st.
Proof. exact write_rj_chunk_indep. Qed.
Print Assumptions C15_same_text_same_file.

(* Why the rejoin stage is needed (documentation of the repaired finding F-CRLF-SPLIT): the buffering loop alone
   (`write`, the code before the fix) is chunking-independent only when no chunk boundary separates CR from LF ... *)
Theorem C15_chunk_independence_partial :
  forall (S : Type) (step : S -> line -> S * line) (chunks : list str) (st : S),
    no_split_crlf false chunks = true ->
    write step chunks st = linewise step st (concat chunks).
Proof.
  intros S step chunks st H.
  rewrite (write_chunks_partial S step chunks st H).
  exact (write_single_linewise S step (concat chunks) st).
Qed.
Print Assumptions C15_chunk_independence_partial.

(* ... and is refuted otherwise.  Witness: "abc \r" | "\ndef" through TrimTrailingWhitespace. *)
Theorem C15_chunk_independence_refuted :
  exists chunks : list str,
    snd (write pipe_step chunks [PTrim]) <> snd (linewise pipe_step [PTrim] (concat chunks)).
Proof.
  exists [[97; 98; 99; 32; 13]; [10; 100; 101; 102]]. vm_compute. discriminate.
Qed.
Print Assumptions C15_chunk_independence_refuted.

(* the same witness through the repaired function *)
Example C15_witness_repaired :
  snd (write_rj pipe_step [[97; 98; 99; 32; 13]; [10; 100; 101; 102]] [PTrim])
  = snd (linewise pipe_step [PTrim] [97; 98; 99; 32; 13; 10; 100; 101; 102]).
Proof. vm_compute. reflexivity. Qed.

(* non-vacuity of the partial statement: a chunking with empty chunks, a CRLF inside a chunk and a cut right after a CR-less line *)
Example C15_partial_premise_satisfiable :
  no_split_crlf false [[97; 13; 10]; []; [98; 32]; [10; 10]; [99]] = true.
Proof. vm_compute. reflexivity. Qed.

(* (2) With processors that change nothing the file is the concatenated output, for EVERY
   chunking (also cuts inside a terminator). *)
Theorem C15_no_processor_identity :
  forall (S : Type) (step : S -> line -> S * line),
    (forall st l, step st l = (st, l)) ->
    forall chunks st, snd (write step chunks st) = concat chunks.
Proof. exact identity_pipeline. Qed.
Print Assumptions C15_no_processor_identity.

Theorem C15_no_processor_identity_rj :
  forall (S : Type) (step : S -> line -> S * line),
    (forall st l, step st l = (st, l)) ->
    forall chunks st, snd (write_rj step chunks st) = concat chunks.
Proof. exact identity_pipeline_rj. Qed.
Print Assumptions C15_no_processor_identity_rj.

(* (2b) SupportGenerator._copy_header_using_line_pps: iterating the resource file line by line (Python text mode:
   `py_lines`) and pushing each (content, terminator) tuple through the pipeline equals line-by-line application to the
   whole text; in particular an unterminated last line keeps its last character (repaired finding F-COPY-LASTCHAR). *)
Theorem C15_copy_header_linewise :
  forall (S : Type) (step : S -> line -> S * line) (text : str) (st : S),
    copy_header step (py_lines text) st = linewise step st text.
Proof. exact copy_header_linewise. Qed.
Print Assumptions C15_copy_header_linewise.

(* (2c) Files of one generator run: the line processors are shared objects, reset before every file (_generate_code calls
   _reset_line_pp; LimitEmptyLines.reset is translated).  Hence EVERY file of ANY sequence of files, each chunked in any
   way, is the line-by-line application of the pipeline in its constructed state to that file's complete text: what was
   written before does not matter (repaired finding F-LEL-LEAK, shared with C10). *)
Theorem C15_every_file_processed_afresh :
  forall (files : list (list str)) (ps : list pp),
    gen_files ps files = map (fun f => snd (linewise pipe_step (map pp_reset ps) (concat f))) files.
Proof. exact gen_files_independent. Qed.
Print Assumptions C15_every_file_processed_afresh.

Example C15_reset_is_needed :
  gen_files_noreset [PLimit (LimitEmptyLines_init 1)] [[[97; 10; 10]]; [[10; 98]]]
  <> gen_files [PLimit (LimitEmptyLines_init 1)] [[[97; 10; 10]]; [[10; 98]]].
Proof. exact gen_files_noreset_leaks. Qed.

(* (3) TrimTrailingWhitespace (translated) removes exactly the maximal trailing run of
   Python-whitespace code points of the line content and keeps the terminator. *)
Theorem C15_trim_exact :
  forall content term : str,
    TrimTrailingWhitespace_call py_uni (content, term) = (rstrip py_ws content, term).
Proof. exact trim_exact_lemma. Qed.
Print Assumptions C15_trim_exact.

Theorem C15_rstrip_characterisation :
  forall (p : chr -> bool) (s : str),
    (exists w, s = rstrip p s ++ w /\ forallb p w = true) /\
    (forall x c, rstrip p s = x ++ [c] -> p c = false).
Proof.
  intros p s. split; [exact (rstrip_decomp p s) | exact (rstrip_no_trailing p s)].
Qed.
Print Assumptions C15_rstrip_characterisation.

(* (4) LimitEmptyLines (translated), for every limit N >= 0 and every stream of lines. *)
Theorem C15_limit_bound :
  forall (N : Z) (ls : list line),
    (0 <= N)%Z -> runs_ok N 0 (limit_lines (LimitEmptyLines_init N) ls) = true.
Proof. exact limit_bound_lemma. Qed.
Print Assumptions C15_limit_bound.

Theorem C15_limit_keeps_nonempty :
  forall s l,
    (0 <= LimitEmptyLines_max_empty_lines s)%Z -> empty_content l = false ->
    snd (LimitEmptyLines_call s l) = l /\
    LimitEmptyLines_max_empty_lines (fst (LimitEmptyLines_call s l)) = LimitEmptyLines_max_empty_lines s.
Proof. exact limit_keeps_nonempty_lemma. Qed.
Print Assumptions C15_limit_keeps_nonempty.

Theorem C15_limit_nonempty_subsequence :
  forall (N : Z) (ls : list line),
    (0 <= N)%Z ->
    filter (fun l => negb (empty_content l)) (limit_lines (LimitEmptyLines_init N) ls)
    = filter (fun l => negb (empty_content l)) ls.
Proof. exact limit_nonempty_subsequence_lemma. Qed.
Print Assumptions C15_limit_nonempty_subsequence.

(* (5) the translated newline pattern `\n|\r\n` finds the first LF or CR-LF (ties the
   character scan of the hand model to the regular expression in the source) *)
Theorem C15_newline_pattern :
  forall s, re_search py_uni newline_pattern s = first_nl 0 s.
Proof. exact newline_pattern_spec. Qed.
Print Assumptions C15_newline_pattern.
