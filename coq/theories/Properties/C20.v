(* C20 -- generated HTML documentation is well-formed, escaped and internally linked.
   Statements only; every proof is `exact <lemma>` (or a short composition).
   Models: Gen/HtmlBase.v, Gen/HtmlModel.v (hand models, tied by correspondence with real nnvg output);
   Generated/Gen_Html.v (T2 translation of filter_tag_id, filter_url_from_type, filter_make_unique,
   filter_namespace_doc, markupsafe escape, select_autoescape configuration, template names, explicit escape
   filters at documentation sinks -- regenerated from /repo on every run). *)
From Verif Require Import HtmlModel HtmlThm HtmlThmTree HtmlThmLinks HtmlSkel HtmlThmSkel.
Open Scope N_scope.

(* (1) escape_no_markup: for EVERY string, the result of either escape function in use (html.escape inside make_unique,
   markupsafe escape = Jinja autoescape / `|e`) contains no <, >, double or single quote, and every ampersand starts one of
   the character references the function emits. *)
Theorem C20_escape_no_markup :
  forall s, no_markup (html_escape s) = true /\ no_markup (markupsafe_escape s) = true.
Proof. intros s. split; [exact (escape_no_markup_html s) | exact (escape_no_markup_ms s)]. Qed.
Print Assumptions C20_escape_no_markup.

(* (2) unescape_escape: decoding character references inverts both escape functions: no text is lost or altered. *)
Theorem C20_unescape_escape :
  forall s, unescape (html_escape s) = s /\ unescape (markupsafe_escape s) = s.
Proof. intros s. split; [exact (unescape_escape_html s) | exact (unescape_escape_ms s)]. Qed.
Print Assumptions C20_unescape_escape.

(* (3) doc_text_is_text b: whatever the documentation text and whatever follows it, the sink <pre class="docs">{{ doc }}</pre>
   scans as open tag, character tokens decoding to the text, close tag.  It holds exactly for sinks that escape. *)
Theorem C20_doc_text_is_text_iff : forall b, doc_text_is_text b <-> b = true.
Proof. exact doc_text_is_text_iff. Qed.
Print Assumptions C20_doc_text_is_text_iff.

(* html_autoescape_refuted: the full statement is false of a sink that does not escape; witness <script>alert(1)</script>
   (known finding F-HTML-ESCAPE).  Whether the working tree's sinks escape is `cfg_docs_escaped faithful_cfg`, computed from
   the regenerated template names, autoescape extensions and sink filters; the check reads it from the extracted model and
   records it in the evidence. *)
Theorem C20_html_autoescape_refuted : ~ doc_text_is_text false.
Proof. exact doc_sink_raw_refuted. Qed.
Print Assumptions C20_html_autoescape_refuted.

Theorem C20_html_autoescape_decision :
  forall b, b = de_ti faithful_cfg ->
    (b = false -> ~ doc_text_is_text (de_ti faithful_cfg)) /\ (b = true -> doc_text_is_text (de_ti faithful_cfg)).
Proof.
  intros b ->. split; intros E; rewrite E; [exact doc_sink_raw_refuted | exact doc_sink_escaped_is_text].
Qed.
Print Assumptions C20_html_autoescape_decision.

(* the autoescape decision is a function of the template name alone: *.html / *.htm / *.xml / *.json names escape,
   and every name under which the HTML templates are loaded now gets the same decision as `type_info.j2` *)
Theorem C20_autoescape_uniform_over_templates :
  forallb (fun n => Bool.eqb (autoescape_selected n) (autoescape_selected n_type_info)) html_template_names = true.
Proof. vm_compute. reflexivity. Qed.
Print Assumptions C20_autoescape_uniform_over_templates.

(* (3') the part of (3) that holds without escaping: texts free of the five special characters *)
Theorem C20_doc_text_is_text_partial : forall d, no_special d = true -> doc_text_is_text_for false d.
Proof. exact doc_sink_raw_partial. Qed.
Print Assumptions C20_doc_text_is_text_partial.

(* (3'') positions that pass through an explicit escape filter: ids of nested elements come out of make_unique
   (translated) free of <, >, quotes for EVERY input and EVERY generator state *)
Theorem C20_make_unique_no_markup : forall st s, quote_free (snd (filter_make_unique st s)) = true.
Proof. exact make_unique_quote_free. Qed.
Print Assumptions C20_make_unique_no_markup.

(* (4) emit_tree_wf: for every configuration, every namespace tree (hence every type tree in it) and every type,
   the emitted element sequence is balanced and properly nested ... *)
Theorem C20_emit_tree_wf_pieces :
  forall cf n c, balanced_frag (ns_page cf n) /\ balanced_frag (type_page cf c).
Proof. intros cf n c. split; [exact (ns_page_frag cf n) | exact (type_page_frag cf c)]. Qed.
Print Assumptions C20_emit_tree_wf_pieces.

Theorem C20_emit_type_wf :
  forall cf t up st attr_name nested, balanced_frag (snd (emit_ty cf up st t attr_name nested)).
Proof. exact emit_ty_frag. Qed.
Print Assumptions C20_emit_type_wf.

(* ... and so is the token stream obtained by rendering the page to characters and scanning it, whenever the inserted texts
   cannot open markup and attribute values cannot close their tag (a decidable condition the driver evaluates per page) *)
Theorem C20_scan_render :
  forall ps, pieces_ok ps = true ->
    forall stk rest, bal stk (scan None (render ps ++ rest))
                     = match bal_p stk ps with Some s => bal s (scan None rest) | None => None end.
Proof. exact scan_render. Qed.
Print Assumptions C20_scan_render.

Theorem C20_emit_tree_wf :
  forall cf n, pieces_ok (ns_page cf n) = true -> wf_tokens (scan None (render (ns_page cf n))) = true.
Proof. exact emit_tree_wf. Qed.
Print Assumptions C20_emit_tree_wf.

(* (5) links.  The anchor inside a type URL is the id filter_tag_id gives (both translated from the source). *)
Theorem C20_url_targets_tag_id :
  forall t, ti_is_array t = false -> ti_has_parent t = false ->
    filter_url_from_type t = s_up ++ ti_root_ns t ++ s_slash_hash ++ filter_tag_id t.
Proof. exact url_targets_tag_id. Qed.
Print Assumptions C20_url_targets_tag_id.

Theorem C20_listed_ids_on_page :
  forall cf n c, In c (all_listed n) -> In (tx (ae_ti cf) (filter_tag_id (ci_t c))) (page_ids cf n).
Proof. exact listed_ids_on_page. Qed.
Print Assumptions C20_listed_ids_on_page.

(* links_resolve, the part that holds: on a root namespace's index page the link for a reference to composite type c resolves
   to a generated page and an id on it, for every site that generates c's root namespace and lists a type with c's id there *)
Theorem C20_links_resolve_partial :
  forall cf roots r c r' c',
    ae_ti cf = false -> seg_ok (ns_name r) = true -> ti_is_array (ci_t c) = false -> ti_has_parent (ci_t c) = false ->
    In r' roots -> ns_name r' = ti_root_ns (ci_t c) -> seg_ok (ns_name r') = true ->
    In c' (all_listed r') -> filter_tag_id (ci_t c') = filter_tag_id (ci_t c) ->
    link_ok cf roots r (filter_url_from_type (ci_t c)) = true.
Proof. exact links_resolve_partial. Qed.
Print Assumptions C20_links_resolve_partial.

(* links_resolve on nested-namespace pages (F-HTML-LINK-SUBNS): false of the model without the depth prefix, true with it
   (design_notes/C20_links_fix.patch); the working tree is in the state `lk_up faithful_cfg`, regenerated from the templates *)
Theorem C20_links_resolve_subns_by_state :
  page_links_ok (set_lk_up faithful_cfg false) [w_site_subns] w_sub = false
  /\ page_links_ok (set_lk_up faithful_cfg true) [w_site_subns] w_sub = true
  /\ page_links_ok faithful_cfg [w_site_subns] w_site_subns = true
  /\ page_links_ok faithful_cfg [w_site_subns] w_sub = lk_up faithful_cfg.
Proof. exact links_subns_by_state. Qed.
Print Assumptions C20_links_resolve_subns_by_state.

(* links_resolve for the request/response halves of services (F-HTML-LINK-SVC): holds exactly when the translated
   filter_url_from_type sends them to the service's anchor *)
Theorem C20_links_resolve_svc_by_state : page_links_ok faithful_cfg [w_site_svc] w_site_svc = url_links_service.
Proof. exact links_svc_by_state. Qed.
Print Assumptions C20_links_resolve_svc_by_state.

(* (6) the REAL templates.  Generated/Gen_HtmlSkel.v holds, for every template and macro of lang/html/templates, the skeleton of
   literal tags with the Jinja control structure, and the table of `{{ }}` output sites (regenerated on every run).
   Soundness of the checker: if every skeleton of a table passes, every expansion of a passing skeleton -- any branch choices,
   any loop counts, any attributes and text, any balanced fragment at an output site, macro calls and includes expanded
   through the table -- is balanced and properly nested. *)
Theorem C20_skeleton_balanced_sound :
  forall tbl s, table_balanced tbl = true -> skeleton_balanced tbl s = true ->
    forall ps, expands tbl s ps -> wf_pieces ps = true /\ balanced_frag ps.
Proof. exact skeleton_balanced_sound. Qed.
Print Assumptions C20_skeleton_balanced_sound.

(* every regenerated template skeleton passes ... *)
Theorem C20_html_templates_balanced : table_balanced html_skeletons = true.
Proof. exact html_templates_balanced. Qed.
Print Assumptions C20_html_templates_balanced.

(* ... so every page the templates can produce is balanced, and well-formed as a scanned character stream when the values
   inserted at the output sites cannot open markup *)
Theorem C20_html_page_wf :
  forall key s ps, sk_lookup html_skeletons key = Some s -> expands html_skeletons s ps ->
    balanced_frag ps /\ (pieces_ok ps = true -> wf_tokens (scan None (render ps)) = true).
Proof. exact html_page_wf. Qed.
Print Assumptions C20_html_page_wf.

(* all_dsdl_text_sinks_escaped: every output site of every template inserts a template constant, a number, a DSDL identifier,
   a value that went through an escaping filter applied to the WHOLE expression, or (text positions only) display_type markup;
   or its template is autoescaped.  (F-HTML-ESCAPE was: the five documentation sinks had class 8.) *)
Theorem C20_all_dsdl_text_sinks_escaped : all_dsdl_text_sinks_escaped = true.
Proof. exact html_sinks_escaped. Qed.
Print Assumptions C20_all_dsdl_text_sinks_escaped.

(* the inlining / recursion structure of the real macros (every call and include with the loops and conditions guarding it,
   regenerated) is exactly the one the emitter model mirrors: every nested namespace is inlined unconditionally, every type
   other than `_` is listed, generate_type_info recurses under exactly the ArrayType / CompositeType tests *)
Theorem C20_html_inlining_structure : html_call_guards = expected_call_guards.
Proof. exact html_inlining_structure. Qed.
Print Assumptions C20_html_inlining_structure.

(* non-vacuity: a two-root site with a cross-root reference in which every page's links resolve; the hypotheses of
   C20_links_resolve_partial hold for it; a page within the hypotheses of C20_emit_tree_wf *)
Example C20_links_ok_witness : forallb (page_links_ok faithful_cfg w_site_ok) (site_pages w_site_ok) = true.
Proof. exact links_ok_witness. Qed.
Example C20_pieces_ok_witness : forallb (fun n => pieces_ok (ns_page faithful_cfg n)) (site_pages w_site_ok) = true.
Proof. vm_compute. reflexivity. Qed.
Example C20_entry_templates_in_table :
  forallb (fun k => match sk_lookup html_skeletons k with Some _ => true | None => false end) html_entry_templates = true
  /\ (length html_entry_templates > 0)%nat.
Proof. split; vm_compute; [reflexivity | lia]. Qed.
Example C20_partial_premises_satisfiable :
  seg_ok (ns_name w_site_subns) = true /\ no_special [97; 32; 98; 46] = true /\ ae_ti conformant_cfg = false.
Proof. vm_compute. repeat split. Qed.
