(* C20 -- generated HTML documentation is well-formed, escaped and internally linked.
   Statements only; every proof is `exact <lemma>` (or a short composition).
   Models: Gen/HtmlBase.v, Gen/HtmlModel.v (hand models, tied by correspondence with real nnvg output);
   Generated/Gen_Html.v (T2 translation of filter_tag_id, filter_url_from_type, filter_make_unique,
   filter_namespace_doc, markupsafe escape, select_autoescape configuration, template names, explicit escape
   filters at documentation sinks -- regenerated from /repo on every run). *)
From Coq Require Import String.
From Verif Require Import HtmlModel HtmlThm HtmlThmTree HtmlThmLinks HtmlThmLinksAll HtmlThmOk HtmlThmIds HtmlThmNoDup HtmlSkel HtmlThmSkel.
Open Scope N_scope.

(* (1) escape_no_markup: for EVERY string, the result of either escape function in use (html.escape inside make_unique,
   markupsafe escape = Jinja autoescape / `|e`) contains no <, >, double or single quote, and every ampersand starts one of
   the character references the function emits. *)
Theorem C20_escape_no_markup :
  forall s, no_markup (html_escape s) = true /\ no_markup (markupsafe_escape s) = true.
Proof. intros s. split; [exact (escape_no_markup_html s) | exact (escape_no_markup_ms s)]. Qed.
Print Assumptions C20_escape_no_markup.

(* (2) unescape_escape: decoding character references inverts both escape functions: no text is lost or altered. *)
Theorem C20_unescape_escape :
  forall s, unescape (html_escape s) = s /\ unescape (markupsafe_escape s) = s.
Proof. intros s. split; [exact (unescape_escape_html s) | exact (unescape_escape_ms s)]. Qed.
Print Assumptions C20_unescape_escape.

(* (3) doc_text_is_text b: whatever the documentation text and whatever follows it, the sink <pre class="docs">{{ doc }}</pre>
   scans as open tag, character tokens decoding to the text, close tag.  It holds exactly for sinks that escape. *)
Theorem C20_doc_text_is_text_iff : forall b, doc_text_is_text b <-> b = true.
Proof. exact doc_text_is_text_iff. Qed.
Print Assumptions C20_doc_text_is_text_iff.

(* (3'') positions that pass through an explicit escape filter: ids of nested elements come out of make_unique
   (translated) free of <, >, quotes for EVERY input and EVERY generator state *)
Theorem C20_make_unique_no_markup : forall st s, quote_free (snd (filter_make_unique st s)) = true.
Proof. exact make_unique_quote_free. Qed.
Print Assumptions C20_make_unique_no_markup.

(* (4) emit_tree_wf: for every configuration, every namespace tree (hence every type tree in it) and every type,
   the emitted element sequence is balanced and properly nested ... *)
Theorem C20_emit_tree_wf_pieces :
  forall cf n c, balanced_frag (ns_page cf n) /\ balanced_frag (type_page cf c).
Proof. intros cf n c. split; [exact (ns_page_frag cf n) | exact (type_page_frag cf c)]. Qed.
Print Assumptions C20_emit_tree_wf_pieces.

Theorem C20_emit_type_wf :
  forall cf t up st attr_name nested, balanced_frag (snd (emit_ty cf up st t attr_name nested)).
Proof. exact emit_ty_frag. Qed.
Print Assumptions C20_emit_type_wf.

(* ... and so is the token stream obtained by rendering the page to characters and scanning it, whenever the inserted texts
   cannot open markup and attribute values cannot close their tag (a decidable condition the driver evaluates per page) *)
Theorem C20_scan_render :
  forall ps, pieces_ok ps = true ->
    forall stk rest, bal stk (scan None (render ps ++ rest))
                     = match bal_p stk ps with Some s => bal s (scan None rest) | None => None end.
Proof. exact scan_render. Qed.
Print Assumptions C20_scan_render.

Theorem C20_emit_tree_wf :
  forall cf n, pieces_ok (ns_page cf n) = true -> wf_tokens (scan None (render (ns_page cf n))) = true.
Proof. exact emit_tree_wf. Qed.
Print Assumptions C20_emit_tree_wf.

(* (4') emit_tree_wf WITHOUT a per-page check: when the documentation sinks escape and every other DSDL-derived string is free
   of < > and quotes (identifiers, type expressions, printed numbers: DSDL grammar), every namespace page is within the
   hypotheses of scan_render, hence well-formed as a character stream -- for arbitrary documentation text *)
Theorem C20_ns_page_pieces_ok :
  forall cf n, de_ti cf = true -> de_ni cf = true -> de_sb cf = true -> nst_ok n = true -> pieces_ok (ns_page cf n) = true.
Proof. intros cf n A B C. exact (ns_page_pieces_ok cf A B C n). Qed.
Print Assumptions C20_ns_page_pieces_ok.

Theorem C20_ns_page_wf_unconditional :
  forall cf n, cfg_docs_escaped cf = true -> nst_ok n = true -> wf_tokens (scan None (render (ns_page cf n))) = true.
Proof. exact ns_page_wf_unconditional. Qed.
Print Assumptions C20_ns_page_wf_unconditional.

Theorem C20_ns_page_wf_now : forall n, nst_ok n = true -> wf_tokens (scan None (render (ns_page faithful_cfg n))) = true.
Proof. intros n. apply ns_page_wf_unconditional. vm_compute. reflexivity. Qed.
Print Assumptions C20_ns_page_wf_now.

(* filter_display_type (translated from the source) renders exactly the pieces the emitter uses, for every type / attribute *)
Theorem C20_display_type_render :
  (forall d, filter_display_type (node_of_dtype d) = render (disp_type d))
  /\ (forall di, filter_display_type (node_of_dinst di) = render (disp_inst di)).
Proof. split; [exact display_type_render | exact display_inst_render]. Qed.
Print Assumptions C20_display_type_render.

(* (5) links.  The anchor inside a type URL is the id filter_tag_id gives (both translated from the source). *)
Theorem C20_url_targets_tag_id :
  forall t, ti_is_array t = false -> ti_has_parent t = false ->
    filter_url_from_type t = s_up ++ ti_root_ns t ++ s_slash_hash ++ filter_tag_id t.
Proof. exact url_targets_tag_id. Qed.
Print Assumptions C20_url_targets_tag_id.

Theorem C20_listed_ids_on_page :
  forall cf n c, In c (all_listed n) -> In (tx (ae_ti cf) (filter_tag_id (ci_t c))) (page_ids cf n).
Proof. exact listed_ids_on_page. Qed.
Print Assumptions C20_listed_ids_on_page.

(* links_resolve, UNIVERSAL: for every set of generated root namespaces, every page of the site (the index page of ANY
   namespace, at any depth), every hyperlink the page carries -- sidebar links to namespaces and types, and the type link of
   every nested composite incl. array elements and the request/response halves of services -- resolves: relative links,
   resolved against the page's directory (one path component per name component; `..` pops, RFC 3986 5.2 = normpath(join)),
   land on the index page of a generated root namespace, and the fragment is an id that page produces.  Hypothesis: what
   pydsdl guarantees for every referenced composite (its root namespace is generated, is a single identifier, and lists the
   type -- or, for a service half, the service).  Configuration side conditions hold of the regenerated configuration. *)
Theorem C20_links_resolve_universal :
  forall cf roots self,
    ae_ti cf = false -> ae_ni cf = false -> ae_sb cf = false -> lk_up cf = true ->
    In self (site_pages roots) ->
    (forall c, In c (refs_ns (lk_us cf) self) -> ref_resolves roots c) ->
    page_links_ok cf roots self = true.
Proof. exact links_resolve_universal. Qed.
Print Assumptions C20_links_resolve_universal.

Theorem C20_links_resolve_now :
  forall roots self, In self (site_pages roots) -> (forall c, In c (refs_ns (lk_us faithful_cfg) self) -> ref_resolves roots c) ->
    page_links_ok faithful_cfg roots self = true.
Proof.
  intros roots self. destruct faithful_cfg_links as (A & B & C & D). exact (links_resolve_universal faithful_cfg roots self A B C D).
Qed.
Print Assumptions C20_links_resolve_now.

(* the URL algebra behind it: from the page of a namespace with ANY number of dots in its name *)
Theorem C20_resolve_type_url_any_depth :
  forall name R a, seg_ok R = true ->
    resolve (split_dots name) (up_of name ++ s_up ++ R ++ s_slash_hash ++ a) = TDir [R] a.
Proof. exact resolve_type_url_any_depth. Qed.
Print Assumptions C20_resolve_type_url_any_depth.

Theorem C20_url_shape : forall t, filter_url_from_type t = s_up ++ ti_root_ns t ++ s_slash_hash ++ url_anchor t.
Proof. exact url_shape. Qed.
Print Assumptions C20_url_shape.

Theorem C20_links_lookup_only_refuted :
  match w_site_ok with
  | r :: _ => page_links_ok faithful_cfg [r] r = false /\ forallb (page_links_ok faithful_cfg w_site_ok) (site_pages w_site_ok) = true
  | [] => False
  end.
Proof. exact links_lookup_only_refuted. Qed.
Print Assumptions C20_links_lookup_only_refuted.

(* FIX-STATE FACTS, as obligations: the regenerated configuration of the working tree is the fixed one for every landed fix
   (fe8e693 doc sinks escaped, 5301250 depth prefix + service halves, 7e67599 '-' ids + '-n' before the nesting counter,
   c1311cb no link to `_` types, 5a15038 '-'-joined namespace ids + '--ns').
   Reverting any of them makes this Example (or the translator, which accepts only the fixed shapes) fail. *)
Example C20_fix_state_now :
  cfg_docs_escaped faithful_cfg = true /\ lk_up faithful_cfg = true /\ url_links_service = true
  /\ tag_id_dashed = true /\ nested_id_sep = s_dash_n /\ lk_us faithful_cfg = true /\ ns_ids_dashed = true.
Proof. vm_compute. repeat split. Qed.

(* anchors identify types ('-' id scheme, landed).  (a) filter_tag_id is injective on (full name, major, minor): *)
Theorem C20_tag_id_injective :
  forall t1 t2, ti_is_array t1 = false -> ti_is_array t2 = false ->
    no_dash (ti_full_name t1) = true -> no_dash (ti_full_name t2) = true -> version_ok t1 = true -> version_ok t2 = true ->
    filter_tag_id t1 = filter_tag_id t2 ->
    ti_full_name t1 = ti_full_name t2 /\ ti_major t1 = ti_major t2 /\ ti_minor t1 = ti_minor t2.
Proof. exact (tag_id_injective (proj1 id_scheme_now)). Qed.
Print Assumptions C20_tag_id_injective.

(* (b) every id on a namespace page is the tag id of a listed type, the id of a namespace at or below the page's namespace, a
   static id of the modelled regions, an X_sidebar id, or a nesting occurrence X-n<k>; *)
Theorem C20_page_ids_classified :
  forall cf n, ae_ti cf = false -> ae_ni cf = false -> ae_sb cf = false -> tops_ok n = true ->
    forallb (id_class (page_L n) (page_LN n) page_ST) (page_ids cf n) = true.
Proof. intros cf n A B C D. exact (page_ids_classified cf n A B C (proj2 id_scheme_now) D). Qed.
Print Assumptions C20_page_ids_classified.

(* (c) the anchor of a type is carried ONLY by main elements of listed types with that tag id -- by (a): of that very
   (name, version): a link lands on the referenced type, never on a nesting occurrence, a namespace, a sidebar entry or a static id *)
Theorem C20_type_anchor_exclusive :
  forall cf n t,
    ae_ti cf = false -> ae_ni cf = false -> ae_sb cf = false -> tops_ok n = true ->
    (forall n', In n' (all_ns n) -> no_dash (ns_name n') = true) ->
    ti_is_array t = false -> version_ok t = true ->
    In (filter_tag_id t) (page_ids cf n) ->
    exists c, In c (all_listed n) /\ filter_tag_id (ci_t c) = filter_tag_id t.
Proof. intros cf n t A B C D. exact (type_anchor_exclusive cf n t (proj1 id_scheme_now) A B C (proj2 id_scheme_now) D). Qed.
Print Assumptions C20_type_anchor_exclusive.

(* (d) the kind of an id is a function of the string (read off its end): type ids, _sidebar ids, nesting occurrences and the
   regenerated static ids of the templates are pairwise disjoint classes; the static ids are pairwise distinct *)
Theorem C20_id_kinds :
  (forall t, ti_is_array t = false -> version_ok t = true -> id_kind (filter_tag_id t) = 1)
  /\ (forall x, id_kind (x ++ s_sidebar_sfx) = 3)
  /\ (forall st s, nested_shape (snd (filter_make_unique st (s ++ nested_id_sep))) = true)
  /\ forallb (fun e => id_kind (snd e) =? 0) html_static_ids = true
  /\ nodup_str (map snd html_static_ids) = true.
Proof.
  split; [intros t; exact (kind_type t (proj1 id_scheme_now))|]. split; [exact kind_sidebar|]. split.
  - intros st s. rewrite (proj2 id_scheme_now). apply make_unique_shape.
  - split; [exact (proj1 static_ids_ok)|exact (proj1 (proj2 static_ids_ok))].
Qed.
Print Assumptions C20_id_kinds.

(* (e) THREADED COUNTER INVARIANT of the UniqueNameGenerator: decimal printing is injective, and for ANY start state and ANY
   sequence of tokens the ids make_unique hands out for `token ++ "-n"` (what type_info.j2 passes for every nesting occurrence,
   in call order) are pairwise distinct -- and distinct from every id handed out before (call_seq_inv).
   This invariant, the exact shape of the emitter's id list (plain ids interleaved with ONE such sequence, emit_ty_exact /
   emit_ns_exact / emit_sidebar_exact) and the disjointness of the id classes give C20_page_ids_nodup below. *)
Theorem C20_make_unique_sequence_nodup : forall st toks, NoDup (snd (mu_seq st toks)).
Proof. intros st toks. exact (make_unique_sequence_nodup st toks (proj2 id_scheme_now)). Qed.
Print Assumptions C20_make_unique_sequence_nodup.

Theorem C20_dec_of_N_inj : forall a b, dec_of_N a = dec_of_N b -> a = b.
Proof. exact dec_of_N_inj. Qed.
Print Assumptions C20_dec_of_N_inj.

(* (f) PAGE-LEVEL NoDup: ALL ids of a namespace page (the two static ids of the modelled regions, the _sidebar ids, namespace
   ids, type ids and every nesting occurrence) are pairwise distinct -- for every configuration with autoescape off in the three
   templates involved, every generator start (ung_reset is what ns_page uses) and every namespace tree whose namespaces have
   distinct dash-free names and whose listed types are composites with distinct (name, major, minor), dash-free names and
   versions in 0..255 (pydsdl guarantees; `_` pseudo types are not listed).  Fixed id scheme (pinned by C20_fix_state_now). *)
Theorem C20_page_ids_nodup :
  forall cf n,
    ae_ti cf = false -> ae_ni cf = false -> ae_sb cf = false ->
    tops_ok n = true -> types_ok_ns n ->
    (forall c, In c (all_listed n) -> no_dash (ti_full_name (ci_t c)) = true) -> NoDup (map tkey (all_listed n)) ->
    (forall n', In n' (all_ns n) -> no_dash (ns_name n') = true) -> NoDup (map ns_name (all_ns n)) ->
    NoDup (page_ids cf n).
Proof. exact page_ids_nodup_full. Qed.
Print Assumptions C20_page_ids_nodup.

(* non-vacuity: the hypotheses hold of the tree a / a.b / a.b.c / a.b_c (the former collision witness), and the model computes
   pairwise distinct ids for it and for the T v1.1 / v1.10 witness *)
Example C20_page_ids_nodup_premises :
  tops_ok w_site_nsdup = true /\ types_ok_ns w_site_nsdup /\ NoDup (map ns_name (all_ns w_site_nsdup))
  /\ (forall n', In n' (all_ns w_site_nsdup) -> no_dash (ns_name n') = true)
  /\ nodup_str (page_ids faithful_cfg w_site_nsdup) = true /\ nodup_str (page_ids faithful_cfg w_site_collision) = true.
Proof.
  split; [vm_compute; reflexivity|]. split; [cbn; repeat split; first [exact I | contradiction]|]. split.
  - cbn. repeat constructor; cbn; intuition discriminate.
  - split; [|split; vm_compute; reflexivity]. intros n' H. cbn in H. repeat (destruct H as [<-|H]; [vm_compute; reflexivity|]). destruct H.
Qed.

(* NAMESPACE ids ('-'-joined components followed by --ns, landed 5a15038; was finding F-HTML-NS-ID-COLLISION): injective on dash-free
   names and a class of their own *)
Theorem C20_ns_id_injective :
  (forall a b, no_dash a = true -> no_dash b = true -> ns_id a = ns_id b -> a = b) /\ (forall name, id_kind (ns_id name) = 2).
Proof. split; [exact (ns_id_injective ns_scheme_now)|intros name; exact (kind_ns name ns_scheme_now)]. Qed.
Print Assumptions C20_ns_id_injective.

(* LINKS TO TYPES THAT ARE NOT LISTED (was finding F-HTML-LINK-US, fixed by c1311cb).  The hypothesis of the link theorem, split:
   `type_defined` is what the FRONT END guarantees (the referenced type -- for a service half: the service -- is defined, under
   its own short name, in the tree of a generated root namespace); that a defined type gets an element is the GENERATOR's part:
   true of every type whose short name is not `_` (all_defined_listed), false of the `_` pseudo types, which namespace_info.j2 and
   sidebar.j2 skip.  type_info.j2 writes no link to a name ending in `_` (lk_us, pinned by C20_fix_state_now), and then: *)
Theorem C20_links_resolve_defined :
  forall cf roots self,
    ae_ti cf = false -> ae_ni cf = false -> ae_sb cf = false -> lk_up cf = true -> lk_us cf = true ->
    In self (site_pages roots) ->
    (forall c, In c (refs_ns true self) -> type_defined roots c) ->
    page_links_ok cf roots self = true.
Proof. exact links_resolve_defined. Qed.
Print Assumptions C20_links_resolve_defined.

(* for the configuration regenerated from the working tree: every hyperlink of every namespace page resolves, assuming only
   what the front end guarantees about the referenced types *)
Theorem C20_links_resolve_defined_now :
  forall roots self, In self (site_pages roots) -> (forall c, In c (refs_ns true self) -> type_defined roots c) ->
    page_links_ok faithful_cfg roots self = true.
Proof.
  intros roots self. destruct faithful_cfg_links as (A & B & C & D).
  exact (links_resolve_defined faithful_cfg roots self A B C D us_scheme_now).
Qed.
Print Assumptions C20_links_resolve_defined_now.

Theorem C20_defined_resolves : forall roots c, linked true c = true -> type_defined roots c -> ref_resolves roots c.
Proof. exact defined_resolves. Qed.
Print Assumptions C20_defined_resolves.

(* type pages (type_base.j2): within the hypotheses of scan_render without a per-page check, like namespace pages *)
Theorem C20_type_page_wf_unconditional :
  forall cf c, de_tb cf = true -> tinfo_ok (ci_t c) = true ->
    pieces_ok (type_page cf c) = true /\ wf_tokens (scan None (render (type_page cf c))) = true.
Proof. intros cf c A B. split; [exact (type_page_pieces_ok cf c A B) | exact (type_page_wf_unconditional cf c A B)]. Qed.
Print Assumptions C20_type_page_wf_unconditional.
Theorem C20_type_page_wf_now : forall c, tinfo_ok (ci_t c) = true -> wf_tokens (scan None (render (type_page faithful_cfg c))) = true.
Proof. intros c. apply type_page_wf_unconditional. vm_compute. reflexivity. Qed.
Print Assumptions C20_type_page_wf_now.

(* (6) the REAL templates.  Generated/Gen_HtmlSkel.v holds, for every template and macro of lang/html/templates, the skeleton of
   literal tags with the Jinja control structure, and the table of `{{ }}` output sites (regenerated on every run).
   Soundness of the checker: if every skeleton of a table passes, every expansion of a passing skeleton -- any branch choices,
   any loop counts, any attributes and text, any balanced fragment at an output site, macro calls and includes expanded
   through the table -- is balanced and properly nested. *)
Theorem C20_skeleton_balanced_sound :
  forall tbl s, table_balanced tbl = true -> skeleton_balanced tbl s = true ->
    forall ps, expands tbl s ps -> wf_pieces ps = true /\ balanced_frag ps.
Proof. exact skeleton_balanced_sound. Qed.
Print Assumptions C20_skeleton_balanced_sound.

(* every regenerated template skeleton passes ... *)
Theorem C20_html_templates_balanced : table_balanced html_skeletons = true.
Proof. exact html_templates_balanced. Qed.
Print Assumptions C20_html_templates_balanced.

(* ... so every page the templates can produce is balanced, and well-formed as a scanned character stream when the values
   inserted at the output sites cannot open markup *)
Theorem C20_html_page_wf :
  forall key s ps, sk_lookup html_skeletons key = Some s -> expands html_skeletons s ps ->
    balanced_frag ps /\ (pieces_ok ps = true -> wf_tokens (scan None (render ps)) = true).
Proof. exact html_page_wf. Qed.
Print Assumptions C20_html_page_wf.

(* output sites, classified IN COQ: the translator emits for every `{{ }}` site the expression AST, for every template
   variable all its bindings ({% set %}, parameter defaults, arguments at every call site) and a class certificate; Coq
   recomputes every class from the whitelists in Gen/HtmlSkel.v, checks the certificate as an inductive invariant, and ... *)
Theorem C20_html_sinks_classified_safe : sinks_classified_safe = true.
Proof. exact html_sinks_classified_safe. Qed.
Print Assumptions C20_html_sinks_classified_safe.

(* ... the classification is sound for the evaluation relation `evals` (documentation attributes, unknown attributes, unknown
   filters and unbound names evaluate to ARBITRARY strings; identifier / number leaves to quote_free strings) ... *)
Theorem C20_cls_expr_sound :
  forall vc bs, bindings_consistent vc bs = true -> certificate_bound vc bs = true ->
    forall sc e v, evals bs sc e v -> val_ok (cls_expr vc sc e) v.
Proof. exact cls_expr_sound. Qed.
Print Assumptions C20_cls_expr_sound.

(* ... so whatever a site of the real templates can print is free of < > and quotes, or (text positions only) balanced,
   scan-stable markup produced by display_type *)
Theorem C20_html_site_values_ok :
  forall s v, In s html_sites -> autoescape_selected (st_template s) = false ->
    evals html_bindings (st_scope s) (st_expr s) v ->
    (st_ctx s =? 0) = true /\ markup_ok v \/ quote_free v = true.
Proof. exact html_site_values_ok. Qed.
Print Assumptions C20_html_site_values_ok.

(* the inlining / recursion structure of the real macros (every call and include with the loops and conditions guarding it,
   regenerated) is exactly the one the emitter model mirrors: every nested namespace is inlined unconditionally, every type
   other than `_` is listed, generate_type_info recurses under exactly the ArrayType / CompositeType tests *)
Theorem C20_html_inlining_structure : html_call_guards = expected_call_guards.
Proof. exact html_inlining_structure. Qed.
Print Assumptions C20_html_inlining_structure.

(* non-vacuity: a two-root site with a cross-root reference in which every page's links resolve; the hypotheses of
   C20_links_resolve_universal hold for it; a page within the hypotheses of C20_emit_tree_wf *)
Example C20_links_ok_witness : forallb (page_links_ok faithful_cfg w_site_ok) (site_pages w_site_ok) = true.
Proof. exact links_ok_witness. Qed.
Example C20_pieces_ok_witness : forallb (fun n => pieces_ok (ns_page faithful_cfg n)) (site_pages w_site_ok) = true.
Proof. vm_compute. reflexivity. Qed.
Example C20_entry_templates_in_table :
  forallb (fun k => match sk_lookup html_skeletons k with Some _ => true | None => false end) html_entry_templates = true
  /\ (length html_entry_templates > 0)%nat.
Proof. split; vm_compute; [reflexivity | lia]. Qed.
Example C20_partial_premises_satisfiable :
  seg_ok (ns_name w_site_subns) = true /\ forallb nst_ok w_site_ok = true /\ nst_ok w_site_subns = true /\ tops_ok w_site_collision = true.
Proof. vm_compute. repeat split. Qed.
(* the closure hypothesis of C20_links_resolve_universal holds of a site with a nested namespace whose page references a
   type of the root namespace, and the theorem's conclusion is what the model computes for it *)
Example C20_closure_satisfiable :
  (forall self, In self (site_pages [w_site_subns]) -> forall c, In c (refs_ns true self) -> ref_resolves [w_site_subns] c)
  /\ forallb (page_links_ok faithful_cfg [w_site_subns]) (site_pages [w_site_subns]) = true.
Proof.
  split; [|vm_compute; reflexivity].
  intros self Hs c Hc.
  assert (Hc' : c = mk_cinfo "rega.Inner" "rega" false).
  { cbn in Hs. destruct Hs as [<-|[<-|[]]]; cbn in Hc; repeat (destruct Hc as [<-|Hc]; [reflexivity|]); destruct Hc. }
  subst c. exists w_site_subns. split; [left; reflexivity|]. split; [reflexivity|]. split; [reflexivity|].
  exists (mk_cinfo "rega.Inner" "rega" false). split; [left; reflexivity|reflexivity].
Qed.
