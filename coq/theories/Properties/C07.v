(* C07 -- reproducible output: with auditing off the generated files are a function of inputs, options and tool
   version; clock, hash seed, cwd, absolute location of the inputs and the previous state of the output directory do not
   matter.   Statements only; every proof is `exact <lemma>` or a 2-3 line composition.

   Model: Gen/Repro.v.  One run = collect types -> namespace tree -> generation order -> per file: dependency set ->
   include list -> header values -> template body.  `env` = clock, cwd, absolute location, and a permutation oracle applied
   at every iteration of a hash-ordered collection.  The template body `render` is handed the WHOLE environment; that it
   looks only at `body_view` is the named premise `render_sees_only_body_view`.

   Everything the theorems say about /repo enters through Generated/Gen_Repro.v, rewritten from /repo on every run by
   tools/translators/gen_c07.py: `gen_sites` (uses of ambient template globals with their gating, over every template AND
   every file reachable through include/import/from/extends, whatever its suffix) and `gen_src_facts`, which carries the
   boolean source facts and the inventories `gen_tables` (set iterations, ambient reads, orderings of user-supplied paths,
   keyed sorts, functions that reach templates, included files).  The model's run CONSULTS the inventories: a row that is not
   accounted for shows the environment in every generated file (`unknown_leak`), so the main theorems need
   `src_facts_ok gen_src_facts` (which contains `tables_ok gen_tables`) and a wrong row changes what they say.

   Statements about code that is no longer in /repo and model-sensitivity refutations: coq/theories/History/C07_history.v. *)
From Coq Require Import List NArith Bool Permutation Sorted.
From Verif Require Import Str Repro ReproThm Gen_Repro.
Import ListNotations.
Open Scope N_scope.

(* ---- (a) sorting -------------------------------------------------------------------------------------------------- *)
Theorem C07_sorted_canonical : forall l1 l2 : list str, Permutation l1 l2 -> sort l1 = sort l2.
Proof. exact sorted_canonical. Qed.
Print Assumptions C07_sorted_canonical.

Theorem C07_sort_is_a_sort : forall l : list str, Permutation l (sort l) /\ StronglySorted sle (sort l).
Proof. exact sort_spec. Qed.
Print Assumptions C07_sort_is_a_sort.

(* sorted(..., key=k) is canonical for EVERY key function k when the key carries the exact name as tie-breaker *)
Theorem C07_keyed_sort_with_tiebreak_canonical :
  forall (k : str -> str) l1 l2, Permutation l1 l2 -> gsort (pair_leb k) l1 = gsort (pair_leb k) l2.
Proof. exact keyed_sort_with_tiebreak_canonical. Qed.
Print Assumptions C07_keyed_sort_with_tiebreak_canonical.

(* ---- (b) order-irrelevance where the code does not sort, order-independence where it does ---------------------------- *)
Theorem C07_tree_children_order_irrelevant :
  forall sf e I p c, In c (nested sf e I p) <-> In c (ns_index I) /\ is_child p c = true.
Proof. exact nested_children. Qed.
Print Assumptions C07_tree_children_order_irrelevant.

Theorem C07_generation_order_irrelevant :
  forall sf e1 e2 c I, Permutation (gen_order sf e1 c I) (gen_order sf e2 c I).
Proof. exact gen_order_perm. Qed.
Print Assumptions C07_generation_order_irrelevant.

(* get_nested_namespaces() is sorted by the attribute Namespace.__eq__ compares (9b93945): the generation ORDER itself is the
   same in every environment *)
Theorem C07_generation_order_env_indep :
  forall e1 e2 c I, gen_order gen_src_facts e1 c I = gen_order gen_src_facts e2 c I.
Proof. intros. apply gen_order_env_indep. vm_compute. reflexivity. Qed.
Print Assumptions C07_generation_order_env_indep.

Theorem C07_unique_hit_search_order_irrelevant :
  forall (A : Type) (p : A -> bool) l1 l2, Permutation l1 l2 ->
    (forall x y, In x l1 -> In y l1 -> p x = true -> p y = true -> x = y) -> find p l1 = find p l2.
Proof. intros A; exact (@find_unique_perm A). Qed.
Print Assumptions C07_unique_hit_search_order_irrelevant.

(* ---- (c) the facts about /repo (regenerated, checked by computation) ------------------------------------------------- *)
(* all of them at once: this is the hypothesis the main theorems use *)
Theorem C07_src_facts_ok : src_facts_ok gen_src_facts = true.
Proof. vm_compute. reflexivity. Qed.
Print Assumptions C07_src_facts_ok.

(* ... and its parts, stated separately so that a failure names what broke *)
Theorem C07_all_set_iterations_modelled : forallb set_iter_ok (t_set_iters gen_tables) = true.
Proof. vm_compute. reflexivity. Qed.
Print Assumptions C07_all_set_iterations_modelled.

Theorem C07_all_keyed_sorts_total : forallb (fun x : sort_site * bool => snd x) (t_sorts gen_tables) = true.
Proof. vm_compute. reflexivity. Qed.
Print Assumptions C07_all_keyed_sorts_total.

Theorem C07_all_path_sorts_modelled : forallb path_sort_modelled (t_path_sorts gen_tables) = true.
Proof. vm_compute. reflexivity. Qed.
Print Assumptions C07_all_path_sorts_modelled.

Theorem C07_all_ambient_reads_modelled : forallb (fun x => read_site_modelled (snd x)) (t_reads gen_tables) = true.
Proof. vm_compute. reflexivity. Qed.
Print Assumptions C07_all_ambient_reads_modelled.

(* every bare name, filter and test the templates (and the files they include) reference is a local binding or is known to the
   inventory DERIVED from the environment (keys stored into globals, the reserved namespaces, Jinja's defaults, language globals,
   filters/tests registered by naming convention or built into the vendored Jinja, pydsdl instance tests) -- the list of
   ambient-capable names behind gen_sites is derived from the same inventory (path-typed members of Namespace and of
   pydsdl.CompositeType, globals assigned from the clock, filters that pickle/dump their argument, ...); and every file named by
   include/import/from/extends was found and scanned *)
Theorem C07_all_template_names_classified : forallb (fun x : N * bool => snd x) (t_filters gen_tables) = true.
Proof. vm_compute. reflexivity. Qed.
Print Assumptions C07_all_template_names_classified.

Theorem C07_all_included_files_scanned : forallb (fun x : lang * bool => snd x) (t_includes gen_tables) = true.
Proof. vm_compute. reflexivity. Qed.
Print Assumptions C07_all_included_files_scanned.

(* the scan saw template files for each of the four languages and found template functions: the facts are not vacuous *)
Theorem C07_scan_nonvacuous : scan_nonvacuous gen_tables = true.
Proof. vm_compute. reflexivity. Qed.
Print Assumptions C07_scan_nonvacuous.

(* every use of an ambient template global is gated by nunavut.embed_auditing_info (or shows nothing ambient) *)
Theorem C07_all_ambient_uses_gated :
  forallb (fun s => site_ok gen_src_facts s) gen_sites = true.
Proof. vm_compute. reflexivity. Qed.
Print Assumptions C07_all_ambient_uses_gated.

Theorem C07_c_cpp_html_clean :
  lang_clean gen_src_facts gen_sites LC = true /\ lang_clean gen_src_facts gen_sites LCpp = true /\
  lang_clean gen_src_facts gen_sites LHtml = true.
Proof. vm_compute. repeat split; reflexivity. Qed.
Print Assumptions C07_c_cpp_html_clean.

(* Python: since b86b49b the Pickler of filter_pickle stores every path relative to its root namespace (the scanner accepts
   `| pickle` only for that shape of filter_pickle; with the old shape the rows are back and this fails: a regression) *)
Theorem C07_py_clean : lang_clean gen_src_facts gen_sites LPy = true.
Proof. vm_compute. reflexivity. Qed.
Print Assumptions C07_py_clean.

(* ---- the property ------------------------------------------------------------------------------------------------------ *)
(* All four targets, for the tree as it is now: for every template body that satisfies the named premise, every option set with
   auditing off, every input (also inputs whose items fold onto one path) and any two environments -- clock, set orders, cwd,
   absolute location of inputs, absolute location of outputs -- the output directory holds the same files with the same contents. *)
Theorem C07_run_env_indep :
  forall (B : Type) (render : env -> cfg -> item -> list (list str) -> B),
    render_sees_only_body_view B gen_src_facts render ->
    forall (c : cfg) (I : list tydecl) (e1 e2 : env),
      c_embed_audit c = false ->
      forall p, files B gen_src_facts gen_sites render e1 c I p = files B gen_src_facts gen_sites render e2 c I p.
Proof.
  intros B render Hr c I e1 e2 Ha. apply run_env_indep_clean; [exact Hr | exact Ha | exact C07_src_facts_ok |].
  destruct C07_c_cpp_html_clean as (Hc & Hcpp & Hh). destruct (c_lang c); [exact Hc | exact Hcpp | exact C07_py_clean | exact Hh].
Qed.
Print Assumptions C07_run_env_indep.

(* the same set of relative paths, unconditionally (auditing on or off, any table, any facts) *)
Theorem C07_same_paths :
  forall B sf tbl render e1 e2 c I,
    Permutation (out_paths B sf tbl render e1 c I) (out_paths B sf tbl render e2 c I).
Proof. exact out_paths_env_indep. Qed.
Print Assumptions C07_same_paths.

(* the previous state of the output directory is irrelevant: every generated path ends up with what a run into an empty
   directory writes *)
Theorem C07_output_dir_history_irrelevant :
  forall B tbl render fs0 e c I p,
    In p (out_paths B gen_src_facts tbl render e c I) ->
    files_into B gen_src_facts tbl render fs0 e c I p = files B gen_src_facts tbl render e c I p.
Proof. intros. apply output_dir_history_irrelevant; [vm_compute; reflexivity | assumption]. Qed.
Print Assumptions C07_output_dir_history_irrelevant.

(* the general statement behind all of them: for ANY facts and tables, two runs perform the same sequence of writes as soon as
   the order facts hold (they include [tables_ok]) and the environments agree on what the site table shows ungated *)
Theorem C07_run_env_indep_general :
  forall B sf tbl render, render_sees_only_body_view B sf render ->
    forall e1 e2 c I,
      c_embed_audit c = false -> order_facts sf tbl c = true -> env_agree sf tbl (c_lang c) e1 e2 -> sf_nested_sorted sf = true ->
      writes B sf tbl render e1 c I = writes B sf tbl render e2 c I.
Proof. exact writes_env_eq. Qed.
Print Assumptions C07_run_env_indep_general.

(* ---- what is NOT reproducible, on the faithful model ---------------------------------------------------------------------- *)
(* with --embed-auditing-info the files may differ: the premise is needed, and the model says so *)
Theorem C07_audit_on_may_differ :
  exists I e1 e2 p,
    files _ gen_src_facts gen_sites render0 e1 (mk_cfg LC true) I p
    <> files _ gen_src_facts gen_sites render0 e2 (mk_cfg LC true) I p.
Proof. exists ex_inputs, env_a, env_b, (p_A (mk_cfg LC true)). vm_compute. discriminate. Qed.
Print Assumptions C07_audit_on_may_differ.

(* ---- non-vacuity, on the REGENERATED facts and tables ------------------------------------------------------------------------ *)
(* the named premise is satisfiable (a body that prints what it is given) *)
Example C07_render_premise_satisfiable : render_sees_only_body_view _ gen_src_facts render0.
Proof. exact (render0_pure gen_src_facts). Qed.

(* an example with nested namespaces, a cross-namespace dependency, a dependency set of three, two environments that differ in
   clock, cwd, location and every set order: the inputs of the theorem exist, the runs produce files, and the C include list is
   the sorted one *)
Example C07_example_runs_produce_files :
  length (out_paths _ gen_src_facts gen_sites render0 env_a (mk_cfg LC false) ex_inputs) = 4%nat /\
  length (out_paths _ gen_src_facts gen_sites render0 env_b (mk_cfg LHtml false) ex_inputs) = 6%nat /\
  files _ gen_src_facts gen_sites render0 env_a (mk_cfg LC false) ex_inputs (p_A (mk_cfg LC false)) <> None.
Proof. vm_compute. repeat split; discriminate. Qed.

Example C07_example_sorted_include_list :
  include_list gen_src_facts env_b (mk_cfg LC false) d_A = include_list gen_src_facts env_a (mk_cfg LC false) d_A /\
  length (include_list gen_src_facts env_b (mk_cfg LC false) d_A) = 5%nat.
Proof. vm_compute. split; reflexivity. Qed.

(* two items folding onto one path (same namespace, same name and version twice): still the same file in both runs *)
Example C07_example_folding_paths :
  forall p, files _ gen_src_facts gen_sites render0 env_a (mk_cfg LC false) (d_A :: ex_inputs) p
          = files _ gen_src_facts gen_sites render0 env_c (mk_cfg LC false) (d_A :: ex_inputs) p.
Proof. intros p. apply C07_run_env_indep; [exact (render0_pure gen_src_facts) | reflexivity]. Qed.

(* the Python target is covered by the same statement now *)
Example C07_example_python_relocated :
  forall p, files _ gen_src_facts gen_sites render0 env_a (mk_cfg LPy false) ex_inputs p
          = files _ gen_src_facts gen_sites render0 env_b (mk_cfg LPy false) ex_inputs p.
Proof. intros p. apply C07_run_env_indep; [exact (render0_pure gen_src_facts) | reflexivity]. Qed.
