(* C07 -- reproducible output: with auditing off the generated files are a function of inputs, options and tool
   version; clock, hash seed, cwd and absolute location of the inputs do not matter.
   Statements only; every proof is `exact <lemma>` or a 2-3 line composition.
   Model: Gen/Repro.v (environment record, permutation oracle at every hash-ordered iteration, concrete include
   list / header fields / generation order; the template body is an arbitrary function `render` whose signature
   is the assumption).  Source facts: Generated/Gen_Repro.v, regenerated from /repo's templates and Python sources
   on every run by tools/translators/gen_c07.py, so un-gating a timestamp, dropping a sorted() or adding an
   unsorted set iteration breaks a proof below. *)
From Coq Require Import List NArith Bool Permutation Sorted.
From Verif Require Import Str Repro ReproThm Gen_Repro.
Import ListNotations.
Open Scope N_scope.

(* (a) sorted() is canonical: used at exactly the places the code sorts *)
Theorem C07_sorted_canonical : forall l1 l2 : list str, Permutation l1 l2 -> sort l1 = sort l2.
Proof. exact sorted_canonical. Qed.
Print Assumptions C07_sorted_canonical.

Theorem C07_sort_is_a_sort : forall l : list str, Permutation l (sort l) /\ StronglySorted sle (sort l).
Proof. exact sort_spec. Qed.
Print Assumptions C07_sort_is_a_sort.

(* sorted(..., key=k): canonical for EVERY key function when the key carries the exact name as tie-breaker, and not
   canonical without it as soon as two names tie (natural sort: u7/u07, Abc/abc) *)
Theorem C07_keyed_sort_with_tiebreak_canonical :
  forall (k : str -> str) l1 l2, Permutation l1 l2 -> gsort (pair_leb k) l1 = gsort (pair_leb k) l2.
Proof. exact keyed_sort_with_tiebreak_canonical. Qed.
Print Assumptions C07_keyed_sort_with_tiebreak_canonical.

Theorem C07_keyed_sort_without_tiebreak_refuted :
  exists l1 l2, Permutation l1 l2 /\ gsort (key_leb natkey) l1 <> gsort (key_leb natkey) l2.
Proof. exact keyed_sort_without_tiebreak_refuted. Qed.
Print Assumptions C07_keyed_sort_without_tiebreak_refuted.

(* (b) order-irrelevance where the code does not sort: same children per namespace, same multiset of generated
   items, whatever the iteration order of namespace_index / _nested_namespaces *)
Theorem C07_tree_children_order_irrelevant :
  forall sf e I p c, In c (nested sf e I p) <-> In c (ns_index I) /\ is_child p c = true.
Proof. exact nested_children. Qed.
Print Assumptions C07_tree_children_order_irrelevant.

Theorem C07_generation_order_irrelevant :
  forall sf e1 e2 c I, Permutation (gen_order sf e1 c I) (gen_order sf e2 c I).
Proof. exact gen_order_perm. Qed.
Print Assumptions C07_generation_order_irrelevant.

(* since 9b93945 get_nested_namespaces() is sorted by the attribute Namespace.__eq__ compares: the generation ORDER itself
   (not only the multiset) is the same in every environment -- stated for the regenerated facts *)
Theorem C07_generation_order_env_indep :
  forall e1 e2 c I, gen_order gen_src_facts e1 c I = gen_order gen_src_facts e2 c I.
Proof. intros. apply gen_order_env_indep. vm_compute. reflexivity. Qed.
Print Assumptions C07_generation_order_env_indep.

Theorem C07_unique_hit_search_order_irrelevant :
  forall (A : Type) (p : A -> bool) l1 l2, Permutation l1 l2 ->
    (forall x y, In x l1 -> In y l1 -> p x = true -> p y = true -> x = y) -> find p l1 = find p l2.
Proof. intros A; exact (@find_unique_perm A). Qed.
Print Assumptions C07_unique_hit_search_order_irrelevant.

(* (c) the facts about /repo: regenerated tables, checked by computation *)
Theorem C07_src_facts_ok : src_facts_ok gen_src_facts = true.
Proof. vm_compute. reflexivity. Qed.
Print Assumptions C07_src_facts_ok.

(* every use of an ambient template global is gated by nunavut.embed_auditing_info (or shows nothing ambient),
   except `T | pickle` in the Python type templates (known finding F-PY-PICKLEPATH) *)
Theorem C07_all_ambient_uses_gated :
  forallb (fun s => site_ok gen_src_facts s || is_py_pickle s) gen_sites = true.
Proof. vm_compute. reflexivity. Qed.
Print Assumptions C07_all_ambient_uses_gated.

Theorem C07_c_cpp_html_clean :
  lang_clean gen_src_facts gen_sites LC = true /\ lang_clean gen_src_facts gen_sites LCpp = true /\
  lang_clean gen_src_facts gen_sites LHtml = true.
Proof. vm_compute. repeat split; reflexivity. Qed.
Print Assumptions C07_c_cpp_html_clean.

Theorem C07_py_clean_but_pickle : lang_clean_but_pickle gen_src_facts gen_sites LPy = true.
Proof. vm_compute. reflexivity. Qed.
Print Assumptions C07_py_clean_but_pickle.

(* every iteration over a set in the Python sources goes through sorted() or is one of the sites the model
   permutes; every ambient read is one of the reads the model accounts for *)
Theorem C07_all_set_iterations_modelled :
  forallb (fun x => snd x || set_site_modelled (fst x)) gen_set_iters = true.
Proof. vm_compute. reflexivity. Qed.
Print Assumptions C07_all_set_iterations_modelled.

(* every sorted()/sort() call with a key= in the Python sources has a tie-breaking key *)
Theorem C07_all_keyed_sorts_total : forallb (fun x => snd x) gen_sorts = true.
Proof. vm_compute. reflexivity. Qed.
Print Assumptions C07_all_keyed_sorts_total.

(* no order is derived from the spelling of user-supplied paths (which depends on the working directory), except where the
   consumer ignores the order *)
Theorem C07_all_path_sorts_modelled : forallb (fun x => path_sort_modelled x) gen_path_sorts = true.
Proof. vm_compute. reflexivity. Qed.
Print Assumptions C07_all_path_sorts_modelled.

Theorem C07_all_ambient_reads_modelled :
  forallb (fun x => read_site_modelled (snd x)) gen_ambient_reads = true.
Proof. vm_compute. reflexivity. Qed.
Print Assumptions C07_all_ambient_reads_modelled.

(* THE PROPERTY, for the tree as it is now: C, C++ and HTML targets, every template body, every option set with
   auditing off, every input, any two environments: the same files with the same contents *)
Theorem C07_run_env_indep :
  forall (B : Type) (render : option audit -> cfg -> item -> list (list str) -> B) (c : cfg) (I : list tydecl) (e1 e2 : env),
    c_embed_audit c = false -> c_lang c <> LPy ->
    NoDup (out_paths B gen_src_facts gen_sites render e1 c I) ->
    forall p, files B gen_src_facts gen_sites render e1 c I p = files B gen_src_facts gen_sites render e2 c I p.
Proof.
  intros B render c I e1 e2 Ha Hl. apply run_env_indep_clean; [exact Ha | exact C07_src_facts_ok |].
  destruct C07_c_cpp_html_clean as (Hc & Hcpp & Hh). destruct (c_lang c); [exact Hc | exact Hcpp | congruence | exact Hh].
Qed.
Print Assumptions C07_run_env_indep.

(* Python target: clock, hash order and cwd are irrelevant; the absolute location is not (F-PY-PICKLEPATH, see the
   refutation).  The pickle also snapshots process state left by the files generated before it (C10: F-PY-PICKLE-MEMO);
   for C07 that only mattered while the generation order followed the hash seed (F-PY-PICKLESTATE, fixed by 9b93945):
   C07_generation_order_env_indep now gives the same order in every environment. *)
Theorem C07_run_env_indep_py_partial :
  forall (B : Type) (render : option audit -> cfg -> item -> list (list str) -> B) (c : cfg) (I : list tydecl) (e1 e2 : env),
    c_embed_audit c = false -> c_lang c = LPy -> e_abs e1 = e_abs e2 ->
    NoDup (out_paths B gen_src_facts gen_sites render e1 c I) ->
    forall p, files B gen_src_facts gen_sites render e1 c I p = files B gen_src_facts gen_sites render e2 c I p.
Proof.
  intros B render c I e1 e2 Ha Hl Habs. apply run_env_indep_same_location; [exact Ha | exact C07_src_facts_ok | | exact Habs].
  rewrite Hl. exact C07_py_clean_but_pickle.
Qed.
Print Assumptions C07_run_env_indep_py_partial.

(* the state of the output directory is irrelevant too: whatever it held before (an earlier run with other options, at another
   time), every generated path ends up with what a run into an empty directory writes *)
Theorem C07_output_dir_history_irrelevant :
  forall B tbl render fs0 e c I p,
    In p (out_paths B gen_src_facts tbl render e c I) ->
    files_into B gen_src_facts tbl render fs0 e c I p = files B gen_src_facts tbl render e c I p.
Proof. intros. apply output_dir_history_irrelevant; [vm_compute; reflexivity | assumption]. Qed.
Print Assumptions C07_output_dir_history_irrelevant.

(* the same set of relative paths, unconditionally (auditing on or off, any table) *)
Theorem C07_same_paths :
  forall B sf tbl render e1 e2 c I,
    Permutation (out_paths B sf tbl render e1 c I) (out_paths B sf tbl render e2 c I).
Proof. exact out_paths_env_indep. Qed.
Print Assumptions C07_same_paths.

(* the general statement behind both: for ANY table of use sites and source facts, two runs agree as soon as the
   environments agree on what the table shows ungated *)
Theorem C07_run_env_indep_general :
  forall B sf tbl render e1 e2 c I,
    c_embed_audit c = false -> order_facts sf tbl c = true -> env_agree sf tbl (c_lang c) e1 e2 ->
    NoDup (out_paths B sf tbl render e1 c I) ->
    forall p, files B sf tbl render e1 c I p = files B sf tbl render e2 c I p.
Proof. exact run_env_indep_gen. Qed.
Print Assumptions C07_run_env_indep_general.

(* Refutations on the faithful model.  F-PY-PICKLEPATH (live): the pickled pydsdl object inside every generated
   Python class carries the absolute source path. *)
Theorem C07_py_pickle_abs_path_refuted :
  exists I e1 e2 p,
    files _ facts_all_true tbl_py_pickle render0 e1 (mk_cfg LPy false) I p
    <> files _ facts_all_true tbl_py_pickle render0 e2 (mk_cfg LPy false) I p.
Proof. exact py_pickle_abs_path_refuted. Qed.
Print Assumptions C07_py_pickle_abs_path_refuted.

(* what the pinned tree did before the fixes (F-C-ABSPATH, F-PY-NSTIME), and what dropping a sort / iterating
   nested namespaces unsorted in a template would do *)
Theorem C07_c_abs_path_refuted :
  exists I e1 e2 p,
    files _ facts_all_true tbl_c_abspath render0 e1 (mk_cfg LC false) I p
    <> files _ facts_all_true tbl_c_abspath render0 e2 (mk_cfg LC false) I p.
Proof. exact c_abs_path_refuted. Qed.
Print Assumptions C07_c_abs_path_refuted.

Theorem C07_py_ns_timestamp_refuted :
  exists I e1 e2 p,
    files _ facts_all_true tbl_py_nstime render0 e1 (mk_cfg LPy false) I p
    <> files _ facts_all_true tbl_py_nstime render0 e2 (mk_cfg LPy false) I p.
Proof. exact py_ns_timestamp_refuted. Qed.
Print Assumptions C07_py_ns_timestamp_refuted.

Theorem C07_unsorted_includes_refuted :
  exists I e1 e2 p,
    files _ facts_inc_unsorted [] render0 e1 (mk_cfg LC false) I p
    <> files _ facts_inc_unsorted [] render0 e2 (mk_cfg LC false) I p.
Proof. exact unsorted_includes_refuted. Qed.
Print Assumptions C07_unsorted_includes_refuted.

Theorem C07_unsorted_namespace_iteration_refuted :
  exists I e1 e2 p,
    files _ facts_nested_unsorted tbl_nsiter render0 e1 (mk_cfg LPy false) I p
    <> files _ facts_nested_unsorted tbl_nsiter render0 e2 (mk_cfg LPy false) I p.
Proof. exact unsorted_namespace_iteration_refuted. Qed.
Print Assumptions C07_unsorted_namespace_iteration_refuted.

(* F-HTML-NATSORT-TIE (fixed in /repo): what the natural sort without tie-breaker did, and template_sets reporting
   resolved template directories in an ungated banner *)
Theorem C07_natsort_tie_refuted :
  exists I e1 e2 p,
    files _ facts_natsort_ties [] render0 e1 (mk_cfg LHtml false) I p
    <> files _ facts_natsort_ties [] render0 e2 (mk_cfg LHtml false) I p.
Proof. exact natsort_tie_refuted. Qed.
Print Assumptions C07_natsort_tie_refuted.

Theorem C07_template_sets_paths_refuted :
  exists I e1 e2 p,
    files _ facts_tmplsets_paths tbl_tmplsets render0 e1 (cfg_user_templates LCpp) I p
    <> files _ facts_tmplsets_paths tbl_tmplsets render0 e2 (cfg_user_templates LCpp) I p.
Proof. exact template_sets_paths_refuted. Qed.
Print Assumptions C07_template_sets_paths_refuted.

(* --configuration files loaded in sorted() order of their spelling (cwd-dependent), and a support file kept because it already
   exists in a reused output directory *)
Theorem C07_config_sorted_by_spelling_refuted :
  exists I e1 e2 p,
    files _ facts_config_sorted [] render0 e1 (cfg_two_configs LC) I p
    <> files _ facts_config_sorted [] render0 e2 (cfg_two_configs LC) I p.
Proof. exact config_sorted_by_spelling_refuted. Qed.
Print Assumptions C07_config_sorted_by_spelling_refuted.

Theorem C07_support_kept_refuted :
  exists I e p fs0,
    In p (out_paths _ facts_support_kept [] render0 e (cfg_two_configs LC) I) /\
    files_into _ facts_support_kept [] render0 fs0 e (cfg_two_configs LC) I p
    <> files _ facts_support_kept [] render0 e (cfg_two_configs LC) I p.
Proof. exact support_kept_refuted. Qed.
Print Assumptions C07_support_kept_refuted.

(* with --embed-auditing-info the files may differ: the premise is needed, and the model says so *)
Theorem C07_audit_on_may_differ :
  exists I e1 e2 p,
    files _ facts_all_true tbl_gated_only render0 e1 (mk_cfg LC true) I p
    <> files _ facts_all_true tbl_gated_only render0 e2 (mk_cfg LC true) I p.
Proof. exact audit_on_may_differ. Qed.
Print Assumptions C07_audit_on_may_differ.

(* non-vacuity: the NoDup premise holds on an example with nested namespaces and cross-namespace dependencies for
   every language, the two environments really generate in different orders, and the sorted include list is what
   sorted() gives *)
Example C07_premise_satisfiable :
  forall l, NoDup (out_paths _ facts_all_true tbl_gated_only render0 env_a (mk_cfg l false) ex_inputs).
Proof. exact ex_paths_nodup. Qed.

Example C07_orders_really_differ :
  gen_order facts_nested_unsorted env_a (mk_cfg LPy false) ex_inputs <> gen_order facts_nested_unsorted env_c (mk_cfg LPy false) ex_inputs.
Proof. exact ex_orders_differ. Qed.

Example C07_premise_env_independent :
  forall B sf tbl render e1 e2 c I,
    NoDup (out_paths B sf tbl render e1 c I) -> NoDup (out_paths B sf tbl render e2 c I).
Proof. exact nodup_paths_env_indep. Qed.
