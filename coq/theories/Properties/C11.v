(* C11 -- placeholder while the proofs are being written *)
From Verif Require Import Namespace.
