(* C11 -- types map one-to-one onto files in the output tree; the namespace model is a tree.
   Statements only; every proof is `exact <lemma>` (finite facts about regenerated definitions: reflexivity).
   Model: Gen/Namespace.v (hand model of nunavut/_namespace.py build_namespace_tree, Namespace enumeration, BFS lookup,
   and of IncludeGenerator.make_path).  Source tie, regenerated from /repo on every run (tools/translators/gen_c11.py):
   shape pins on every function the model describes (Gen_Pin_c11tree.v, Gen_Pin_c11path.v: `pin_..._ok` is only defined
   while the normalised AST is the one the model was written for) and an AST scan of the two path sites
   (Gen_C11Scan.v); plus the correspondence run of tools/checks/c11.py.
   Spec vocabulary: Gen/NamespaceSpec.v (prefixes, nodes_of, parent_of, one_root, resolve ...).
   Quantification: EVERY list of types (NoDup = pairwise different (namespace, short name, version); one_root = what
   pydsdl.read_namespace returns), EVERY stropping function, EVERY iteration order `perm` of the set namespace_index and
   `cperm` of the sets Namespace._nested_namespaces, every extension / stem / output directory.
   `same` is the eqkey of the current code: since fix f08a0a1 Namespace.__eq__/__hash__ compare the unstropped
   _namespace_components, so NO input is excluded any more (no ns_fold premise). *)
From Verif Require Import NamespaceBase NamespaceBuildThm NamespaceTreeThm NamespacePathThm NamespaceSortThm NamespaceThm.
From Coq Require Import Sorted.
From Verif Require Import Gen_Pin_c11tree Gen_Pin_c11path Gen_C11Scan.
Open Scope N_scope.

(* (0) source tie.  The model is valid for the pinned shape of: build_namespace_tree, _NamespaceFactory.*, Namespace.__eq__ /
   __hash__ / _add_data_type / _add_nested_namespace / get_root_namespace / get_all_* / _recursive_* /
   find_output_path_for_type / _bfs_search_for_output_path (tree) and Namespace.__init__, IncludeGenerator.make_path /
   _make_ns_list, Language.filter_short_reference_name, DSDLCodeGenerator.filter_type_to_include_path (path). *)
Example C11_tree_shape_pinned : pin_c11tree_ok = true.
Proof. reflexivity. Qed.
Example C11_path_shape_pinned : pin_c11path_ok = true.
Proof. reflexivity. Qed.

(* both sites that turn a type into a file path -- Namespace._add_data_type (generated) and include generation (merely
   referenced) -- make exactly one call of make_path and strop nothing themselves; make_path takes the namespace
   components from _make_ns_list; and every stropping call of the path mechanism (Namespace.__init__ for the namespace
   folder, make_path for the file stem, _make_ns_list for the type's directories) passes the SAME identifier type "path":
   this is what justifies the single function `strop` of the model. *)
Theorem C11_path_sites_same_id_type :
  scan_add_data_type_calls_make_path = true /\ scan_include_gen_calls_make_path = true /\
  scan_sites_own_stropping_calls = 0%nat /\ scan_make_path_uses_make_ns_list = true /\
  length scan_path_id_types = 3%nat /\ forallb (str_eqb [112; 97; 116; 104]) scan_path_id_types = true.
Proof. repeat split; reflexivity. Qed.
Print Assumptions C11_path_sites_same_id_type.

(* (1) index_prefix_closed: after the loop over the types the ancestor index is exactly the set of all non-empty
   prefixes of the types' namespaces, without duplicates -- the invariant that makes the `break` sound. *)
Theorem C11_index_prefix_closed (strop : str -> str) (es : bool) (ext : str) (outdir : path) :
  forall (types : list ty) (r : str), NoDup types -> one_root r types ->
    NoDup (snd (build_index strop es ext outdir types)) /\
    forall k, In k (snd (build_index strop es ext outdir types)) <-> In k (nodes_of types).
Proof. exact (index_is_prefix_set strop same es ext outdir). Qed.
Print Assumptions C11_index_prefix_closed.

(* (2) ns_each_once: every non-empty prefix of every type's namespace (empty intermediate namespaces included) is a
   Namespace object of the built heap exactly once, and nothing else is.  Holds even when namespaces fold. *)
Theorem C11_ns_each_once (strop : str -> str) (es : bool) (ext : str) (outdir : path) :
  forall perm, (forall l, Permutation (perm l) l) ->
  forall (types : list ty) (r : str), NoDup types -> one_root r types -> types <> [] ->
    NoDup (keys (fst (build strop same es ext outdir perm types))) /\
    forall k, In k (keys (fst (build strop same es ext outdir perm types))) <-> In k (nodes_of types).
Proof. exact (ns_each_once strop same es ext outdir). Qed.
Print Assumptions C11_ns_each_once.

(* (3) every type is stored exactly once, in the node of its own namespace, with its output path *)
Theorem C11_types_stored_once (strop : str -> str) (es : bool) (ext : str) (outdir : path) :
  forall perm, (forall l, Permutation (perm l) l) ->
  forall (types : list ty) (r : str), NoDup types -> one_root r types -> types <> [] ->
  forall k n, get (fst (build strop same es ext outdir perm types)) k = Some n ->
    n_types n = map (fun t => (t, out_path strop es ext outdir t)) (filter (fun t => key_eqb (t_ns t) k) types).
Proof. exact (types_stored_once strop same es ext outdir). Qed.
Print Assumptions C11_types_stored_once.

(* (4) links: _parent is the namespace one component shorter; every member of _nested_namespaces is a node whose
   parent by name is this node.  Unconditional. *)
Theorem C11_links_sound (strop : str -> str) (es : bool) (ext : str) (outdir : path) :
  forall perm, (forall l, Permutation (perm l) l) ->
  forall (types : list ty) (r : str), NoDup types -> one_root r types -> types <> [] ->
  forall k n, get (fst (build strop same es ext outdir perm types)) k = Some n ->
    n_parent n = parent_of k /\
    forall c, In c (n_children n) -> In c (keys (fst (build strop same es ext outdir perm types))) /\ parent_of c = Some k.
Proof. exact (links_sound strop same es ext outdir). Qed.
Print Assumptions C11_links_sound.

(* (4') links_consistent: c in children(p)  <->  c is a node and parent-by-name(c) = p; children duplicate-free. *)
Theorem C11_links_consistent (strop : str -> str) (es : bool) (ext : str) (outdir : path) :
  forall perm, (forall l, Permutation (perm l) l) ->
  forall (types : list ty) (r : str), NoDup types -> one_root r types -> types <> [] ->
  forall k n, get (fst (build strop same es ext outdir perm types)) k = Some n ->
    n_parent n = parent_of k /\ NoDup (n_children n) /\
    forall c, In c (n_children n) <-> (In c (keys (fst (build strop same es ext outdir perm types))) /\ parent_of c = Some k).
Proof. exact (links_consistent strop es ext outdir). Qed.
Print Assumptions C11_links_consistent.

(* (5) tree: the returned root is the one-component namespace [r]; get_root_namespace reaches it from every node;
   it is the only node without parent; every parent is a node and is exactly one component shorter (acyclic). *)
Theorem C11_tree (strop : str -> str) (es : bool) (ext : str) (outdir : path) :
  forall perm, (forall l, Permutation (perm l) l) ->
  forall (types : list ty) (r : str), NoDup types -> one_root r types -> types <> [] ->
    snd (build strop same es ext outdir perm types) = [r] /\
    (forall k, In k (keys (fst (build strop same es ext outdir perm types))) -> get_root_namespace (fst (build strop same es ext outdir perm types)) k = [r]) /\
    (forall k n, get (fst (build strop same es ext outdir perm types)) k = Some n -> (n_parent n = None <-> k = [r])) /\
    (forall k n p, get (fst (build strop same es ext outdir perm types)) k = Some n -> n_parent n = Some p ->
        In p (keys (fst (build strop same es ext outdir perm types))) /\ length k = S (length p) /\ firstn (length p) k = p).
Proof. exact (tree_shape strop same es ext outdir). Qed.
Print Assumptions C11_tree.

(* (5') children_enumerated_in_name_order (current code, fix 9b93945): Namespace.get_nested_namespaces -- which every recursive
   generator and the BFS now iterate -- is sort_keys of the child set: a permutation (so (6), (7) apply with cperm := sort_keys),
   sorted by the lexicographic order of the unstropped component lists (Python list-of-str comparison), duplicate free, and
   consists of exactly the nodes whose parent-by-name is this node -- whatever order `perm` the index was linked in. *)
Theorem C11_children_enumerated_in_name_order (strop : str -> str) (es : bool) (ext : str) (outdir : path) :
  (forall l, Permutation (sort_keys l) l) /\
  forall perm, (forall l, Permutation (perm l) l) ->
  forall (types : list ty) (r : str), NoDup types -> one_root r types -> types <> [] ->
  forall k n, get (fst (build strop same es ext outdir perm types)) k = Some n ->
    Sorted key_le (sort_keys (n_children n)) /\ NoDup (sort_keys (n_children n)) /\
    forall c, In c (sort_keys (n_children n)) <->
              (In c (keys (fst (build strop same es ext outdir perm types))) /\ parent_of c = Some k).
Proof. split; [exact sort_keys_perm | exact (children_in_name_order strop es ext outdir)]. Qed.
Print Assumptions C11_children_enumerated_in_name_order.

(* (6) types_each_once: get_all_types / get_all_datatypes / get_all_namespaces from the root enumerate every type
   exactly once (with its output path) and every namespace exactly once, for every iteration order and every
   stropping function (also one that folds namespace names onto each other). *)
Theorem C11_types_each_once (strop : str -> str) (es : bool) (ext : str) (stem : str) (outdir : path) :
  forall perm cperm, (forall l, Permutation (perm l) l) -> (forall l, Permutation (cperm l) l) ->
  forall (types : list ty) (r : str), NoDup types -> one_root r types -> types <> [] ->
    Permutation (get_all_types strop ext stem outdir cperm (fst (build strop same es ext outdir perm types)) (snd (build strop same es ext outdir perm types)))
                (map (ns_item strop ext stem outdir) (keys (fst (build strop same es ext outdir perm types)))
                 ++ map (ty_item strop es ext outdir) types) /\
    Permutation (get_all_datatypes cperm (fst (build strop same es ext outdir perm types)) (snd (build strop same es ext outdir perm types)))
                (map (fun t => (t, out_path strop es ext outdir t)) types) /\
    Permutation (get_all_namespaces strop ext stem outdir cperm (fst (build strop same es ext outdir perm types)) (snd (build strop same es ext outdir perm types)))
                (map (fun k => (k, ns_path strop ext stem outdir k)) (keys (fst (build strop same es ext outdir perm types)))).
Proof. exact (types_each_once strop es ext stem outdir). Qed.
Print Assumptions C11_types_each_once.

(* (7) lookup_total: find_output_path_for_type finds every type of the tree from every node (own dictionary, else
   BFS from the root skipping self) and returns its output path. *)
Theorem C11_lookup_total (strop : str -> str) (es : bool) (ext : str) (outdir : path) :
  forall perm cperm, (forall l, Permutation (perm l) l) -> (forall l, Permutation (cperm l) l) ->
  forall (types : list ty) (r : str), NoDup types -> one_root r types -> types <> [] ->
  forall self t, In self (keys (fst (build strop same es ext outdir perm types))) -> In t types ->
    find_output_path same cperm (fst (build strop same es ext outdir perm types)) self t = Some (out_path strop es ext outdir t).
Proof. exact (lookup_total_now strop es ext outdir). Qed.
Print Assumptions C11_lookup_total.

(* (8) path_shape: output path = outdir / strop(ns_1) / ... / strop(Short_M_m) ++ ext, whenever the stropped file stem
   contains no '.' (identifiers never do: C09); same for the namespace file. *)
Theorem C11_path_shape (strop : str -> str) (es : bool) (ext : str) (outdir : path) :
  forall t, ~ In DOT (pstrop strop es (base_name t)) ->
    out_path strop es ext outdir t = outdir ++ map (pstrop strop es) (t_ns t) ++ [pstrop strop es (base_name t) ++ ext].
Proof. exact (path_shape strop es ext outdir). Qed.
Print Assumptions C11_path_shape.

Theorem C11_ns_path_shape (strop : str -> str) (ext : str) (stem : str) (outdir : path) :
  forall k, ~ In DOT stem -> ns_path strop ext stem outdir k = outdir ++ map strop k ++ [stem ++ ext].
Proof. exact (ns_path_shape strop ext stem outdir). Qed.
Print Assumptions C11_ns_path_shape.

(* (9) path_injective: distinct types never share a file, provided stropping is injective on the names involved
   (namespace components and Short_M_m of the types).  The documented folding exception is exactly the negation of
   this hypothesis.  Short_M_m itself is injective in (Short, M, m) although short names may contain '_' and digits. *)
Theorem C11_path_injective (strop : str -> str) (es : bool) (ext : str) (outdir : path) :
  forall types t1 t2,
    (forall x y, In x (names_of types) -> In y (names_of types) -> pstrop strop es x = pstrop strop es y -> x = y) ->
    (forall t, In t types -> ~ In DOT (pstrop strop es (base_name t))) ->
    In t1 types -> In t2 types ->
    out_path strop es ext outdir t1 = out_path strop es ext outdir t2 -> t1 = t2.
Proof. exact (path_injective strop es ext outdir). Qed.
Print Assumptions C11_path_injective.

Theorem C11_base_name_injective :
  forall t1 t2, base_name t1 = base_name t2 ->
    t_short t1 = t_short t2 /\ t_major t1 = t_major t2 /\ t_minor t1 = t_minor t2.
Proof. exact base_name_inj. Qed.
Print Assumptions C11_base_name_injective.

(* (10) path_inside_outdir: if the stropped names are identifier-like (non-empty, no '/', no '.': C09) every component
   below the output directory is a safe file name, so lexical resolution from ANY directory `st` only descends. *)
Theorem C11_path_inside_outdir (strop : str -> str) (es : bool) (ext : str) (outdir : path) :
  forall types t, In t types ->
    (forall x, In x (names_of types) -> ident_like (pstrop strop es x)) -> ~ In SLASH ext ->
    exists rel, out_path strop es ext outdir t = outdir ++ rel /\ rel = make_path strop es ext t /\
                Forall safe_comp rel /\ forall st, resolve st rel = rev rel ++ st.
Proof. exact (path_inside strop es ext outdir). Qed.
Print Assumptions C11_path_inside_outdir.

Theorem C11_ns_path_inside_outdir (strop : str -> str) (ext : str) (stem : str) (outdir : path) :
  forall k, (forall x, In x k -> ident_like (strop x)) -> ident_like stem -> ~ In SLASH ext ->
    exists rel, ns_path strop ext stem outdir k = outdir ++ rel /\
                Forall safe_comp rel /\ forall st, resolve st rel = rev rel ++ st.
Proof. exact (ns_path_inside strop ext stem outdir). Qed.
Print Assumptions C11_ns_path_inside_outdir.

(* (11) include_path_eq_output_path: the path used to include a type that is merely referenced (make_path) is the
   output path of the generated type relative to the output directory. *)
Theorem C11_include_path_eq_output_path (strop : str -> str) (es : bool) (ext : str) (outdir : path) :
  forall t, out_path strop es ext outdir t = outdir ++ include_path strop es ext t /\
            relative_to_outdir outdir (out_path strop es ext outdir t) = include_path strop es ext t.
Proof. exact (include_path_eq_output_path strop es ext outdir). Qed.
Print Assumptions C11_include_path_eq_output_path.

(* (12) the type file lies in the output folder of its namespace's Namespace object (Namespace.output_folder), i.e. next to
   the namespace file -- with stropping enabled both are outdir / strop(ns_1) / ... / strop(ns_n). *)
Theorem C11_type_file_in_namespace_folder (strop : str -> str) (ext stem : str) (outdir : path) :
  forall t, removelast (out_path strop true ext outdir t) = outdir ++ map strop (t_ns t) /\
            removelast (ns_path strop ext stem outdir (t_ns t)) = outdir ++ map strop (t_ns t).
Proof. exact (type_file_in_namespace_folder strop ext stem outdir). Qed.
Print Assumptions C11_type_file_in_namespace_folder.

(* ---- documentation of the code BEFORE fix f08a0a1 (F-NS-FOLD, status fixed) -----------------------------------------------
   With eqkey = strop (Namespace.__eq__ comparing the stropped name) the model loses a type: ns.class.Q.1.0 and
   ns._class.R.1.0 with class -> _class.  All premises hold; ns._class is a Namespace object but not a child of ns, its
   type R is never enumerated and cannot be found from the root.  The same input under the current code (eqkey = same)
   is fine (instance of C11_types_each_once; second Example). *)
Theorem C11_prefix_code_types_each_once_refuted :
  exists (strop : str -> str) (types : list ty) (r : str) (perm cperm : list key -> list key) (t : ty),
    NoDup types /\ one_root r types /\ types <> [] /\
    (forall l, Permutation (perm l) l) /\ (forall l, Permutation (cperm l) l) /\
    ns_fold strop types = true /\ In t types /\
    let b := build strop strop true w_ext w_out perm types in
    existsb (fun tp => ty_eqb (fst tp) t) (get_all_datatypes cperm (fst b) (snd b)) = false /\
    find_output_path strop cperm (fst b) [r] t = None /\
    In (t_ns t) (keys (fst b)).
Proof.
  exists w_strop, [w_Q; w_R], w_ns, w_id, w_id, w_R.
  destruct w_premises as (A & B & C & D).
  repeat (split; [first [exact A | exact B | exact C | exact D | exact w_fold | (right; left; reflexivity)]|]).
  exact w_dropped.
Qed.
Print Assumptions C11_prefix_code_types_each_once_refuted.

Example C11_fold_witness_kept_by_current_code :
  let b := build w_strop same true w_ext w_out w_id [w_Q; w_R] in
  existsb (fun tp => ty_eqb (fst tp) w_R) (get_all_datatypes w_id (fst b) (snd b)) = true /\
  existsb (fun tp => ty_eqb (fst tp) w_Q) (get_all_datatypes w_id (fst b) (snd b)) = true /\
  find_output_path same w_id (fst b) [w_ns] w_R <> None.
Proof. exact w_kept_now. Qed.

(* ---- non-vacuity: the premises are satisfiable together, with a stropping that FOLDS two sibling namespaces (class, _class),
   an empty intermediate namespace, two versions of one type, and non-identity iteration orders -------------------------- *)
Definition ex_types : list ty :=
  [mkTy [w_ns; w_class; [97]] [81] 1 0; mkTy [w_ns; w_class; [97]] [81] 1 1; mkTy [w_ns] [84] 0 1;
   mkTy [w_ns; 95 :: w_class] [85] 2 0].

Example C11_premises_satisfiable :
  NoDup ex_types /\ one_root w_ns ex_types /\ ex_types <> [] /\ ns_fold w_strop ex_types = true /\
  (forall l : list key, Permutation (rev l) l) /\
  length (keys (fst (build w_strop same true w_ext w_out (@rev key) ex_types))) = 4%nat /\
  length (get_all_types w_strop w_ext [95] w_out (@rev key)
            (fst (build w_strop same true w_ext w_out (@rev key) ex_types))
            (snd (build w_strop same true w_ext w_out (@rev key) ex_types))) = 8%nat.
Proof.
  split; [|split; [|split; [|split; [|split; [|split]]]]].
  - repeat (constructor; [cbn [In]; intuition discriminate|]). constructor.
  - intros t Ht. cbn [ex_types In] in Ht. intuition (subst; eexists; reflexivity).
  - discriminate.
  - vm_compute. reflexivity.
  - intros l. apply Permutation_sym, Permutation_rev.
  - vm_compute. reflexivity.
  - vm_compute. reflexivity.
Qed.

(* the hypotheses of (9)/(10) are satisfiable by a stropping that changes every name *)
Example C11_path_premises_satisfiable :
  let strop := fun x : str => 95 :: x in
  (forall x y, In x (names_of ex_types) -> In y (names_of ex_types) -> pstrop strop true x = pstrop strop true y -> x = y) /\
  (forall x, In x (names_of ex_types) -> ident_like (pstrop strop true x)).
Proof.
  split.
  - intros x y _ _ H. cbn [pstrop] in H. congruence.
  - intros x Hx. vm_compute in Hx. unfold ident_like, pstrop, SLASH, DOT.
    repeat (destruct Hx as [<-|Hx]; [split; [discriminate | split; cbn [In]; intuition discriminate]|]). destruct Hx.
Qed.
