(* C11 -- types map one-to-one onto files in the output tree; the namespace model is a tree.
   Statements only; every proof is `exact <lemma>` (finite facts about regenerated definitions: reflexivity).
   Model: Gen/Namespace.v (hand model of nunavut/_namespace.py build_namespace_tree, Namespace enumeration, BFS lookup,
   and of IncludeGenerator.make_path).  Source tie, regenerated from /repo on every run (tools/translators/gen_c11.py):
   shape pins on every function the model describes (Gen_Pin_c11tree.v, Gen_Pin_c11path.v: `pin_..._ok` is only defined
   while the normalised AST is the one the model was written for) and an AST scan of the two path sites
   (Gen_C11Scan.v); plus the correspondence run of tools/checks/c11.py.
   Spec vocabulary: Gen/NamespaceSpec.v (prefixes, nodes_of, parent_of, one_root, resolve ...).
   Quantification: EVERY list of types (NoDup = pairwise different (namespace, short name, version); one_root = what
   pydsdl.read_namespace returns), EVERY stropping function, EVERY iteration order `perm` of the set namespace_index and
   `cperm` of the sets Namespace._nested_namespaces, every extension / stem / output directory.
   `same` is the eqkey of the current code: since fix f08a0a1 Namespace.__eq__/__hash__ compare the unstropped
   _namespace_components, so NO input is excluded any more (no ns_fold premise). *)
From Verif Require Import StropInst StropThmInst.     (* C09: the real stroppers *)
From Verif Require Import NamespaceBase NamespaceBuildThm NamespaceTreeThm NamespacePathThm NamespaceSortThm NamespaceThm NamespaceFsThm NamespaceStropThm.
From Coq Require Import Sorted.
From Verif Require Import Gen_Pin_c11tree Gen_Pin_c11path Gen_Pin_c11gen Gen_Pin_c11support Gen_C11Scan.
Open Scope N_scope.

(* (0) source tie.  The model is valid for the pinned shape of: build_namespace_tree, _NamespaceFactory.*, Namespace.__eq__ /
   __hash__ / _add_data_type / _add_nested_namespace / get_root_namespace / get_all_* / _recursive_* /
   find_output_path_for_type / _bfs_search_for_output_path (tree) and Namespace.__init__, IncludeGenerator.make_path /
   _make_ns_list, Language.filter_short_reference_name, DSDLCodeGenerator.filter_type_to_include_path (path). *)
Example C11_tree_shape_pinned : pin_c11tree_ok = true.
Proof. reflexivity. Qed.
Example C11_path_shape_pinned : pin_c11path_ok = true.
Proof. reflexivity. Qed.
(* DSDLCodeGenerator.generate_all: one _generate_type(type, output_path) per pair yielded by get_all_types / get_all_datatypes
   (model: Namespace.c11_targets) *)
Example C11_generate_all_shape_pinned : pin_c11gen_ok = true.
Proof. reflexivity. Qed.
(* Language.support_namespace, SupportGenerator.__init__ (sub-folder construction), generate_include_filepart_list *)
Example C11_support_shape_pinned : pin_c11support_ok = true.
Proof. reflexivity. Qed.

(* fix state: the landed fixes are PART of the pinned shapes (the pre-fix shapes are no longer accepted), and that the model is
   instantiated with the post-fix behaviour is an obligation: reverting 39680a3 / b107faf breaks these. *)
Example C11_stem_collision_check_live : pin_c11tree_stem_check = true.
Proof. reflexivity. Qed.
Example C11_stem_validated_live : pin_c11path_stem_validated = true.
Proof. reflexivity. Qed.
(* landed in 5a15038 and recorded in tools/translators/gen_c11.py (SUPPORT_FIX_LANDED): pin_c11support_fix_landed = true, so this
   says pin_c11support_ns_validated = true -- reverting the fix breaks it (the pre-fix shape is no longer pinned) *)
Example C11_support_ns_validated_live : implb pin_c11support_fix_landed pin_c11support_ns_validated = true.
Proof. reflexivity. Qed.

(* both sites that turn a type into a file path -- Namespace._add_data_type (generated) and include generation (merely
   referenced) -- make exactly one call of make_path and strop nothing themselves; make_path takes the namespace
   components from _make_ns_list; and every stropping call of the path mechanism (Namespace.__init__ for the namespace
   folder, make_path for the file stem, _make_ns_list for the type's directories) passes the SAME identifier type "path":
   this is what justifies the single function `strop` of the model. *)
Theorem C11_path_sites_same_id_type :
  scan_add_data_type_calls_make_path = true /\ scan_include_gen_calls_make_path = true /\
  scan_sites_own_stropping_calls = 0%nat /\ scan_make_path_uses_make_ns_list = true /\
  length scan_path_id_types = 3%nat /\ forallb (str_eqb [112; 97; 116; 104]) scan_path_id_types = true.
Proof. repeat split; reflexivity. Qed.
Print Assumptions C11_path_sites_same_id_type.

(* the extension handed to make_path by the OUTPUT chain (build_namespace_tree -> _add_data_type), by Namespace.__init__ for the
   namespace file, and by the INCLUDE chains (lang/c and lang/cpp filter_includes -> language.extension ->
   generate_include_filepart_list) is read from the SAME configuration key of the same section and forwarded unchanged; no
   explicit `stropping` argument anywhere: both chains use Language.enable_stropping of the language they pass. *)
Theorem C11_path_sites_same_extension_key_and_flags :
  Forall (fun k => k = scan_ext_key_output) scan_ext_keys_include /\ length scan_ext_keys_include = 2%nat /\
  scan_ext_key_namespace_file = scan_ext_key_output /\
  scan_ext_read_from_same_section = true /\ scan_ext_forwarded_output = true /\ scan_ext_forwarded_include = true /\
  scan_stropping_overrides = 0%nat.
Proof. repeat split; repeat constructor. Qed.
Print Assumptions C11_path_sites_same_extension_key_and_flags.

(* (1) index_prefix_closed: after the loop over the types the ancestor index is exactly the set of all non-empty
   prefixes of the types' namespaces, without duplicates -- the invariant that makes the `break` sound. *)
Theorem C11_index_prefix_closed (strop : str -> str) (es : bool) (ext : str) (outdir : path) :
  forall (types : list ty) (r : str), NoDup types -> one_root r types ->
    NoDup (snd (build_index strop es ext outdir types)) /\
    forall k, In k (snd (build_index strop es ext outdir types)) <-> In k (nodes_of types).
Proof. exact (index_is_prefix_set strop same es ext outdir). Qed.
Print Assumptions C11_index_prefix_closed.

(* (2) ns_each_once: every non-empty prefix of every type's namespace (empty intermediate namespaces included) is a
   Namespace object of the built heap exactly once, and nothing else is.  Holds even when namespaces fold. *)
Theorem C11_ns_each_once (strop : str -> str) (es : bool) (ext : str) (outdir : path) :
  forall perm, (forall l, Permutation (perm l) l) ->
  forall (types : list ty) (r : str), NoDup types -> one_root r types -> types <> [] ->
    NoDup (keys (fst (build strop same es ext outdir perm types))) /\
    forall k, In k (keys (fst (build strop same es ext outdir perm types))) <-> In k (nodes_of types).
Proof. exact (ns_each_once strop same es ext outdir). Qed.
Print Assumptions C11_ns_each_once.

(* (3) every type is stored exactly once, in the node of its own namespace, with its output path *)
Theorem C11_types_stored_once (strop : str -> str) (es : bool) (ext : str) (outdir : path) :
  forall perm, (forall l, Permutation (perm l) l) ->
  forall (types : list ty) (r : str), NoDup types -> one_root r types -> types <> [] ->
  forall k n, get (fst (build strop same es ext outdir perm types)) k = Some n ->
    n_types n = map (fun t => (t, out_path strop es ext outdir t)) (filter (fun t => key_eqb (t_ns t) k) types).
Proof. exact (types_stored_once strop same es ext outdir). Qed.
Print Assumptions C11_types_stored_once.

(* (4) links: _parent is the namespace one component shorter; every member of _nested_namespaces is a node whose
   parent by name is this node.  Unconditional. *)
Theorem C11_links_sound (strop : str -> str) (es : bool) (ext : str) (outdir : path) :
  forall perm, (forall l, Permutation (perm l) l) ->
  forall (types : list ty) (r : str), NoDup types -> one_root r types -> types <> [] ->
  forall k n, get (fst (build strop same es ext outdir perm types)) k = Some n ->
    n_parent n = parent_of k /\
    forall c, In c (n_children n) -> In c (keys (fst (build strop same es ext outdir perm types))) /\ parent_of c = Some k.
Proof. exact (links_sound strop same es ext outdir). Qed.
Print Assumptions C11_links_sound.

(* (4') links_consistent: c in children(p)  <->  c is a node and parent-by-name(c) = p; children duplicate-free. *)
Theorem C11_links_consistent (strop : str -> str) (es : bool) (ext : str) (outdir : path) :
  forall perm, (forall l, Permutation (perm l) l) ->
  forall (types : list ty) (r : str), NoDup types -> one_root r types -> types <> [] ->
  forall k n, get (fst (build strop same es ext outdir perm types)) k = Some n ->
    n_parent n = parent_of k /\ NoDup (n_children n) /\
    forall c, In c (n_children n) <-> (In c (keys (fst (build strop same es ext outdir perm types))) /\ parent_of c = Some k).
Proof. exact (links_consistent strop es ext outdir). Qed.
Print Assumptions C11_links_consistent.

(* (5) tree: the returned root is the one-component namespace [r]; get_root_namespace reaches it from every node;
   it is the only node without parent; every parent is a node and is exactly one component shorter (acyclic). *)
Theorem C11_tree (strop : str -> str) (es : bool) (ext : str) (outdir : path) :
  forall perm, (forall l, Permutation (perm l) l) ->
  forall (types : list ty) (r : str), NoDup types -> one_root r types -> types <> [] ->
    snd (build strop same es ext outdir perm types) = [r] /\
    (forall k, In k (keys (fst (build strop same es ext outdir perm types))) -> get_root_namespace (fst (build strop same es ext outdir perm types)) k = [r]) /\
    (forall k n, get (fst (build strop same es ext outdir perm types)) k = Some n -> (n_parent n = None <-> k = [r])) /\
    (forall k n p, get (fst (build strop same es ext outdir perm types)) k = Some n -> n_parent n = Some p ->
        In p (keys (fst (build strop same es ext outdir perm types))) /\ length k = S (length p) /\ firstn (length p) k = p).
Proof. exact (tree_shape strop same es ext outdir). Qed.
Print Assumptions C11_tree.

(* (5') children_enumerated_in_name_order (current code, fix 9b93945): Namespace.get_nested_namespaces -- which every recursive
   generator and the BFS now iterate -- is sort_keys of the child set: a permutation (so (6), (7) apply with cperm := sort_keys),
   sorted by the lexicographic order of the unstropped component lists (Python list-of-str comparison), duplicate free, and
   consists of exactly the nodes whose parent-by-name is this node -- whatever order `perm` the index was linked in. *)
Theorem C11_children_enumerated_in_name_order (strop : str -> str) (es : bool) (ext : str) (outdir : path) :
  (forall l, Permutation (sort_keys l) l) /\
  forall perm, (forall l, Permutation (perm l) l) ->
  forall (types : list ty) (r : str), NoDup types -> one_root r types -> types <> [] ->
  forall k n, get (fst (build strop same es ext outdir perm types)) k = Some n ->
    Sorted key_le (sort_keys (n_children n)) /\ NoDup (sort_keys (n_children n)) /\
    forall c, In c (sort_keys (n_children n)) <->
              (In c (keys (fst (build strop same es ext outdir perm types))) /\ parent_of c = Some k).
Proof. split; [exact sort_keys_perm | exact (children_in_name_order strop es ext outdir)]. Qed.
Print Assumptions C11_children_enumerated_in_name_order.

(* (5'') ... and that order is determined by the SET of children alone: it is the same for every order in which the index was
   linked (PYTHONHASHSEED-independent visiting order, as a theorem). *)
Theorem C11_children_order_independent_of_set_order (strop : str -> str) (es : bool) (ext : str) (outdir : path) :
  forall perm1 perm2, (forall l, Permutation (perm1 l) l) -> (forall l, Permutation (perm2 l) l) ->
  forall (types : list ty) (r : str), NoDup types -> one_root r types -> types <> [] ->
  forall k n1 n2,
    get (fst (build strop same es ext outdir perm1 types)) k = Some n1 ->
    get (fst (build strop same es ext outdir perm2 types)) k = Some n2 ->
    sort_keys (n_children n1) = sort_keys (n_children n2).
Proof. intros perm1 perm2 P1 P2 types r. exact (children_order_independent_of_linking_order strop es ext outdir perm1 perm2 types r P1 P2). Qed.
Print Assumptions C11_children_order_independent_of_set_order.

(* (6) types_each_once: get_all_types / get_all_datatypes / get_all_namespaces from the root enumerate every type
   exactly once (with its output path) and every namespace exactly once, for every iteration order and every
   stropping function (also one that folds namespace names onto each other). *)
Theorem C11_types_each_once (strop : str -> str) (es : bool) (ext : str) (stem : str) (outdir : path) :
  forall perm cperm, (forall l, Permutation (perm l) l) -> (forall l, Permutation (cperm l) l) ->
  forall (types : list ty) (r : str), NoDup types -> one_root r types -> types <> [] ->
    Permutation (get_all_types strop ext stem outdir cperm (fst (build strop same es ext outdir perm types)) (snd (build strop same es ext outdir perm types)))
                (map (ns_item strop ext stem outdir) (keys (fst (build strop same es ext outdir perm types)))
                 ++ map (ty_item strop es ext outdir) types) /\
    Permutation (get_all_datatypes cperm (fst (build strop same es ext outdir perm types)) (snd (build strop same es ext outdir perm types)))
                (map (fun t => (t, out_path strop es ext outdir t)) types) /\
    Permutation (get_all_namespaces strop ext stem outdir cperm (fst (build strop same es ext outdir perm types)) (snd (build strop same es ext outdir perm types)))
                (map (fun k => (k, ns_path strop ext stem outdir k)) (keys (fst (build strop same es ext outdir perm types)))).
Proof. exact (types_each_once strop es ext stem outdir). Qed.
Print Assumptions C11_types_each_once.

(* (7) lookup_total: find_output_path_for_type finds every type of the tree from every node (own dictionary, else
   BFS from the root skipping self) and returns its output path. *)
Theorem C11_lookup_total (strop : str -> str) (es : bool) (ext : str) (outdir : path) :
  forall perm cperm, (forall l, Permutation (perm l) l) -> (forall l, Permutation (cperm l) l) ->
  forall (types : list ty) (r : str), NoDup types -> one_root r types -> types <> [] ->
  forall self t, In self (keys (fst (build strop same es ext outdir perm types))) -> In t types ->
    find_output_path same cperm (fst (build strop same es ext outdir perm types)) self t = Some (out_path strop es ext outdir t).
Proof. exact (lookup_total_now strop es ext outdir). Qed.
Print Assumptions C11_lookup_total.

(* (8) path_shape: output path = outdir / strop(ns_1) / ... / strop(Short_M_m) ++ ext, whenever the stropped file stem
   contains no '.' (identifiers never do: C09); same for the namespace file. *)
Theorem C11_path_shape (strop : str -> str) (es : bool) (ext : str) (outdir : path) :
  forall t, ~ In DOT (pstrop strop es (base_name t)) ->
    out_path strop es ext outdir t = outdir ++ map (pstrop strop es) (t_ns t) ++ [pstrop strop es (base_name t) ++ ext].
Proof. exact (path_shape strop es ext outdir). Qed.
Print Assumptions C11_path_shape.

Theorem C11_ns_path_shape (strop : str -> str) (ext : str) (stem : str) (outdir : path) :
  forall k, stem_valid stem = true -> ~ In DOT stem -> ns_path strop ext stem outdir k = outdir ++ map strop k ++ [stem ++ ext].
Proof. exact (ns_path_shape strop ext stem outdir). Qed.
Print Assumptions C11_ns_path_shape.

(* (9) path_injective: distinct types never share a file, provided stropping is injective on the names involved
   (namespace components and Short_M_m of the types).  The documented folding exception is exactly the negation of
   this hypothesis.  Short_M_m itself is injective in (Short, M, m) although short names may contain '_' and digits. *)
Theorem C11_path_injective (strop : str -> str) (es : bool) (ext : str) (outdir : path) :
  forall types t1 t2,
    (forall x y, In x (names_of types) -> In y (names_of types) -> pstrop strop es x = pstrop strop es y -> x = y) ->
    (forall t, In t types -> ~ In DOT (pstrop strop es (base_name t))) ->
    In t1 types -> In t2 types ->
    out_path strop es ext outdir t1 = out_path strop es ext outdir t2 -> t1 = t2.
Proof. exact (path_injective strop es ext outdir). Qed.
Print Assumptions C11_path_injective.

Theorem C11_base_name_injective :
  forall t1 t2, base_name t1 = base_name t2 ->
    t_short t1 = t_short t2 /\ t_major t1 = t_major t2 /\ t_minor t1 = t_minor t2.
Proof. exact base_name_inj. Qed.
Print Assumptions C11_base_name_injective.

(* (10) path_inside_outdir: if the stropped names are identifier-like (non-empty, no '/', no '.': C09) every component
   below the output directory is a safe file name, so lexical resolution from ANY directory `st` only descends. *)
Theorem C11_path_inside_outdir (strop : str -> str) (es : bool) (ext : str) (outdir : path) :
  forall types t, In t types ->
    (forall x, In x (names_of types) -> ident_like (pstrop strop es x)) -> ~ In SLASH ext ->
    exists rel, out_path strop es ext outdir t = outdir ++ rel /\ rel = make_path strop es ext t /\
                Forall safe_comp rel /\ forall st, resolve st rel = rev rel ++ st.
Proof. exact (path_inside strop es ext outdir). Qed.
Print Assumptions C11_path_inside_outdir.

Theorem C11_ns_path_inside_outdir (strop : str -> str) (ext : str) (stem : str) (outdir : path) :
  forall k, (forall x, In x k -> ident_like (strop x)) -> ident_like stem -> ~ In SLASH ext ->
    exists rel, ns_path strop ext stem outdir k = outdir ++ rel /\
                Forall safe_comp rel /\ forall st, resolve st rel = rev rel ++ st.
Proof. exact (ns_path_inside strop ext stem outdir). Qed.
Print Assumptions C11_ns_path_inside_outdir.

(* (11) include_path_eq_output_path.  The two chains take their extension from the language configuration `cfg` (key -> value)
   under the keys the scan found in the source; the path used to include a type that is merely referenced equals the output
   path of the generated type relative to the output directory -- BECAUSE the scanned keys coincide (the proof unfolds the
   regenerated definitions; with different keys the statement would be unprovable), both chains call make_path
   (C11_path_sites_same_id_type) and pass the same stropping flag. *)
Theorem C11_include_path_eq_output_path (strop : str -> str) (es : bool) (outdir : path) :
  forall (cfg : str -> str) (t : ty),
    Forall (fun key_inc =>
              out_path strop es (cfg scan_ext_key_output) outdir t = outdir ++ include_path strop es (cfg key_inc) t /\
              relative_to_outdir outdir (out_path strop es (cfg scan_ext_key_output) outdir t) = include_path strop es (cfg key_inc) t)
           scan_ext_keys_include.
Proof. intros cfg t. repeat constructor; exact (proj1 (include_path_eq_output_path strop es _ outdir t)) || exact (proj2 (include_path_eq_output_path strop es _ outdir t)). Qed.
Print Assumptions C11_include_path_eq_output_path.

(* (11') Python does not include files: a referenced type is reached through its package (lang/py filter_imports) and module path
   (filter_full_reference_name), whose namespace components are stropped with the identifier types found by the scan -- "any" --
   whereas the directories are stropped with "path".  For the REAL Python stropper (C09, regenerated configuration) the two agree on
   every DSDL name, so the referenced package chain IS the directory chain of the type file.  (html/js: no statement.) *)
Theorem C11_py_reference_id_types_are_any :
  Forall (fun ty => ty = ty_any) scan_py_reference_id_types /\ scan_py_reference_id_types <> [].
Proof. split; [repeat constructor | discriminate]. Qed.
Print Assumptions C11_py_reference_id_types_are_any.

Theorem C11_py_any_path_agree : forall x, valid_ident x = true -> strop_py ty_any x = strop_py ty_path x.
Proof. exact py_any_path_agree. Qed.
Print Assumptions C11_py_any_path_agree.

Theorem C11_py_reference_is_directory_chain : forall ns : key,
  (forall x, In x ns -> valid_ident x = true) -> map (real_strop_any LPy) ns = map (real_strop LPy) ns.
Proof. exact py_reference_is_directory_chain. Qed.
Print Assumptions C11_py_reference_is_directory_chain.

(* (12) the type file lies in the output folder of its namespace's Namespace object (Namespace.output_folder), i.e. next to
   the namespace file -- with stropping enabled both are outdir / strop(ns_1) / ... / strop(ns_n). *)
Theorem C11_type_file_in_namespace_folder (strop : str -> str) (ext stem : str) (outdir : path) :
  forall t, stem_valid stem = true ->
            removelast (out_path strop true ext outdir t) = outdir ++ map strop (t_ns t) /\
            removelast (ns_path strop ext stem outdir (t_ns t)) = outdir ++ map strop (t_ns t).
Proof. exact (type_file_in_namespace_folder strop ext stem outdir). Qed.
Print Assumptions C11_type_file_in_namespace_folder.

(* (12') the enable_stropping = false configuration: Namespace.__init__ strops the namespace folder unconditionally,
   _make_ns_list does not strop the type's directories: the type file lies in its namespace's folder IFF stropping leaves the
   namespace components unchanged; witness (ns.class.Q, class -> _class) where it does not. *)
Theorem C11_type_file_folder_stropping_disabled (strop : str -> str) (ext stem : str) (outdir : path) :
  forall t, stem_valid stem = true ->
    removelast (out_path strop false ext outdir t) = outdir ++ t_ns t /\
    removelast (ns_path strop ext stem outdir (t_ns t)) = outdir ++ map strop (t_ns t) /\
    (removelast (out_path strop false ext outdir t) = removelast (ns_path strop ext stem outdir (t_ns t))
     <-> map strop (t_ns t) = t_ns t).
Proof. exact (type_file_folder_stropping_disabled strop ext stem outdir). Qed.
Print Assumptions C11_type_file_folder_stropping_disabled.

Example C11_type_file_folder_stropping_disabled_differs :
  removelast (out_path w_strop false w_ext w_out w_Q) <> removelast (ns_path w_strop w_ext [95] w_out (t_ns w_Q)).
Proof. exact type_file_folder_stropping_disabled_witness. Qed.

(* ---- FILE SYSTEM: the files a run writes -----------------------------------------------------------------------------------
   c11_targets ... g perm types = the output paths DSDLCodeGenerator.generate_all writes, in order (g = generate_namespace_types:
   get_all_types, else get_all_datatypes), for the current code.  C12 instantiates its type targets with it. *)

(* (13) the written paths are, up to order, exactly: one file per type (+ one namespace file per namespace when g) *)
Theorem C11_written_paths_are_type_and_namespace_files (strop : str -> str) (es : bool) (ext stem : str) (outdir : path) :
  forall perm, (forall l, Permutation (perm l) l) ->
  forall (types : list ty) (r : str), NoDup types -> one_root r types -> types <> [] ->
    Permutation (c11_targets strop es ext stem outdir true perm types)
                (map (ns_path strop ext stem outdir) (keys (fst (build strop same es ext outdir perm types)))
                 ++ map (out_path strop es ext outdir) types) /\
    Permutation (c11_targets strop es ext stem outdir false perm types) (map (out_path strop es ext outdir) types).
Proof. exact (targets_perm strop es ext stem outdir). Qed.
Print Assumptions C11_written_paths_are_type_and_namespace_files.

(* (14) every written path is outdir followed by safe components (non-empty, no separator inside, not "." / ".." -- hence no
   absolute component and no way up), so resolving it from ANY directory only descends; under identifier-likeness of the
   stropped names -- discharged for the real stroppers in (17). *)
Theorem C11_written_paths_inside_outdir (strop : str -> str) (es : bool) (ext stem : str) (outdir : path) :
  forall perm, (forall l, Permutation (perm l) l) ->
  forall (types : list ty) (r : str), NoDup types -> one_root r types -> types <> [] ->
  forall g,
    (forall x, In x (names_of types) -> ident_like (pstrop strop es x)) ->
    (forall t x, In t types -> In x (t_ns t) -> ident_like (strop x)) ->
    ident_like stem -> ~ In SLASH ext ->
    forall q, In q (c11_targets strop es ext stem outdir g perm types) ->
      exists rel, q = outdir ++ rel /\ Forall safe_comp rel /\ forall st, resolve st rel = rev rel ++ st.
Proof. exact (targets_inside strop es ext stem outdir). Qed.
Print Assumptions C11_written_paths_inside_outdir.

(* (15) the written paths are pairwise distinct: distinct types get distinct files, distinct namespaces distinct namespace files,
   and a type file is never a namespace file -- for EVERY stem string, on every run of build_namespace_tree that does not raise.
   REGENERATED facts: pin_c11tree_stem_check (build_namespace_tree has the collision check; true since 39680a3) and
   pin_c11path_stem_validated (Namespace.__init__ validates the stem: design_notes/C11_stem_validate_fix.patch).  stem_guard is
   `True /\ True` since both are true (obligations C11_stem_collision_check_live / C11_stem_validated_live; F-NS-STEM-COLLIDE and
   F-NS-STEM-PATH are fixed).  Remaining hypotheses: stropping injectivity (names; namespaces). *)
Theorem c11_targets_distinct (strop : str -> str) (es : bool) (ext stem : str) (outdir : path) :
  forall perm, (forall l, Permutation (perm l) l) ->
  forall (types : list ty) (r : str), NoDup types -> one_root r types -> types <> [] ->
    build_checked pin_c11path_stem_validated pin_c11tree_stem_check strop same es ext stem outdir perm types <> None ->
    (forall x y, In x (names_of types) -> In y (names_of types) -> pstrop strop es x = pstrop strop es y -> x = y) ->
    (forall t, In t types -> ~ In DOT (pstrop strop es (base_name t))) ->
    ns_fold strop types = false ->
    stem_guard strop es stem types pin_c11path_stem_validated pin_c11tree_stem_check ->
    forall g, NoDup (c11_targets strop es ext stem outdir g perm types).
Proof.
  intros perm P types r Hnd Hr Hne.
  exact (targets_distinct_no_raise strop es ext stem outdir perm P types r Hnd Hr Hne pin_c11path_stem_validated pin_c11tree_stem_check).
Qed.
Print Assumptions c11_targets_distinct.

(* the same for any state of the code (what C12 can import without depending on the regenerated flags) *)
Theorem c11_targets_distinct_either (strop : str -> str) (es : bool) (ext stem : str) (outdir : path) :
  forall perm, (forall l, Permutation (perm l) l) ->
  forall (types : list ty) (r : str), NoDup types -> one_root r types -> types <> [] ->
  forall validate chk, build_checked validate chk strop same es ext stem outdir perm types <> None ->
    (forall x y, In x (names_of types) -> In y (names_of types) -> pstrop strop es x = pstrop strop es y -> x = y) ->
    (forall t, In t types -> ~ In DOT (pstrop strop es (base_name t))) ->
    ns_fold strop types = false ->
    stem_guard strop es stem types validate chk ->
    forall g, NoDup (c11_targets strop es ext stem outdir g perm types).
Proof. exact (targets_distinct_no_raise strop es ext stem outdir). Qed.
Print Assumptions c11_targets_distinct_either.

(* the code refuses a stem that is some type's file stem (collision check) *)
Example C11_stem_collision_raises_when_checked :
  build_checked true true same same true w_ext w_stem w_out w_id [w_T] = None /\
  build_checked true false same same true w_ext w_stem w_out w_id [w_T] <> None.
Proof. exact stem_collision_raises_when_checked. Qed.

(* (14') EVERY stem string (separators, "..", absolute, empty included): on every run that does not raise, every written path is
   outdir followed by safe components.  The validation is in the code (C11_stem_validated_live), so the `if` premise is `True`: there
   is NO premise on the stem.  `valid_ext`: the extension is one pathlib
   accepts (".x...", no separator). *)
Theorem C11_written_paths_inside_outdir_every_stem (strop : str -> str) (es : bool) (ext stem : str) (outdir : path) :
  forall perm, (forall l, Permutation (perm l) l) ->
  forall (types : list ty) (r : str), NoDup types -> one_root r types -> types <> [] ->
  forall g,
    build_checked pin_c11path_stem_validated pin_c11tree_stem_check strop same es ext stem outdir perm types <> None ->
    (if pin_c11path_stem_validated then True else stem_valid stem = true) ->
    (forall x, In x (names_of types) -> ident_like (pstrop strop es x)) ->
    (forall t x, In t types -> In x (t_ns t) -> ident_like (strop x)) ->
    valid_ext ext ->
    forall q, In q (c11_targets strop es ext stem outdir g perm types) ->
      exists rel, q = outdir ++ rel /\ Forall safe_comp rel /\ forall st, resolve st rel = rev rel ++ st.
Proof.
  intros perm P types r Hnd Hr Hne g.
  exact (targets_inside_guarded strop es ext stem outdir perm P types r Hnd Hr Hne pin_c11path_stem_validated pin_c11tree_stem_check g).
Qed.
Print Assumptions C11_written_paths_inside_outdir_every_stem.


(* without namespace files only stropping injectivity on the names is needed *)
Theorem c11_targets_distinct_types_only (strop : str -> str) (es : bool) (ext stem : str) (outdir : path) :
  forall perm, (forall l, Permutation (perm l) l) ->
  forall (types : list ty) (r : str), NoDup types -> one_root r types -> types <> [] ->
    (forall x y, In x (names_of types) -> In y (names_of types) -> pstrop strop es x = pstrop strop es y -> x = y) ->
    (forall t, In t types -> ~ In DOT (pstrop strop es (base_name t))) ->
    NoDup (c11_targets strop es ext stem outdir false perm types).
Proof. exact (targets_distinct_types_only strop es ext stem outdir). Qed.
Print Assumptions c11_targets_distinct_types_only.


(* ---- the REAL stroppers (C09: strop_lang l = TokenEncoder.strop with the regenerated configuration; identifier type "path") on
   DSDL names (valid_ident, what pydsdl admits): real_strop l x = Language.filter_id(x, "path") ------------------------------ *)

(* (16) the identifier-likeness hypotheses hold for every DSDL name, every language, stropping enabled or not *)
Theorem C11_real_names_ident_like : forall (l : lang) (es : bool) (types : list ty),
  dsdl_names_ok types -> forall x, In x (names_of types) -> ident_like (pstrop (real_strop l) es x).
Proof. exact real_names_ident_like. Qed.
Print Assumptions C11_real_names_ident_like.

(* (17) hence (14) without stropping hypotheses: everything written for DSDL-named types lies below the output directory *)
Theorem C11_real_written_paths_inside_outdir : forall (l : lang) (es : bool) (ext stem : str) (outdir : path) perm types r g,
  (forall k, Permutation (perm k) k) -> NoDup types -> one_root r types -> types <> [] -> dsdl_names_ok types ->
  ident_like stem -> ~ In SLASH ext ->
  forall q, In q (c11_targets (real_strop l) es ext stem outdir g perm types) ->
    exists rel, q = outdir ++ rel /\ Forall safe_comp rel /\ forall st, resolve st rel = rev rel ++ st.
Proof. exact real_targets_inside. Qed.
Print Assumptions C11_real_written_paths_inside_outdir.

(* (14'') SUPPORT FILES join the claim: SupportGenerator writes <outdir joined with every '.'-component of support_namespace>/<resource>;
   support_targets flag outdir sn names = None iff Language.support_namespace raises (flag = does the code validate? regenerated
   pin_c11support_ns_validated).  For EVERY support_namespace string, on every run that does not raise, every support file is outdir
   followed by safe components.  The validation is in /repo (C11_support_ns_validated_live; F-SUPPORT-NS-PATH fixed), so the `if`
   premise is `True`: no premise on the support namespace. *)
Theorem C11_support_paths_inside_outdir (outdir : path) (sn : str) (sfiles : list str) :
  forall l, support_targets pin_c11support_ns_validated outdir sn sfiles = Some l ->
    (if pin_c11support_ns_validated then True else sn_valid sn = true) ->
    Forall safe_comp sfiles ->
    forall q, In q l -> exists rel, q = outdir ++ rel /\ Forall safe_comp rel /\ forall st, resolve st rel = rev rel ++ st.
Proof. exact (support_targets_inside pin_c11support_ns_validated outdir sn sfiles). Qed.
Print Assumptions C11_support_paths_inside_outdir.

Theorem C11_support_paths_inside_outdir_either (outdir : path) (sn : str) (sfiles : list str) :
  forall flag l, support_targets flag outdir sn sfiles = Some l ->
    (if flag then True else sn_valid sn = true) -> Forall safe_comp sfiles ->
    forall q, In q l -> exists rel, q = outdir ++ rel /\ Forall safe_comp rel /\ forall st, resolve st rel = rev rel ++ st.
Proof. intros flag. exact (support_targets_inside flag outdir sn sfiles). Qed.
Print Assumptions C11_support_paths_inside_outdir_either.


(* (17') ... and for EVERY stem string on every run that does not raise, given the stem validation in the code *)
Theorem C11_real_written_paths_inside_outdir_every_stem : forall (l : lang) (es : bool) (ext stem : str) (outdir : path) perm types r g chk,
  (forall k, Permutation (perm k) k) -> NoDup types -> one_root r types -> types <> [] -> dsdl_names_ok types ->
  valid_ext ext ->
  build_checked true chk (real_strop l) same es ext stem outdir perm types <> None ->
  forall q, In q (c11_targets (real_strop l) es ext stem outdir g perm types) ->
    exists rel, q = outdir ++ rel /\ Forall safe_comp rel /\ forall st, resolve st rel = rev rel ++ st.
Proof. exact real_targets_inside_no_raise. Qed.
Print Assumptions C11_real_written_paths_inside_outdir_every_stem.

(* (18) injectivity is FALSE for the real stroppers (C09 strop_injective_refuted); exactly: two type files coincide iff the
   namespace components and the file stems fold pairwise, fold l a b := real_strop l a = real_strop l b ... *)
Theorem C11_real_paths_equal_iff_fold : forall (l : lang) (ext : str) (outdir : path) t1 t2,
  valid_ident (t_short t1) = true -> valid_ident (t_short t2) = true ->
  (out_path (real_strop l) true ext outdir t1 = out_path (real_strop l) true ext outdir t2
   <-> Forall2 (fold l) (t_ns t1) (t_ns t2) /\ fold l (base_name t1) (base_name t2)).
Proof. exact real_paths_equal_iff_fold. Qed.
Print Assumptions C11_real_paths_equal_iff_fold.

(* ... on clean names (valid, not reserved, no reserved pattern of type "path"/"all"; C++: no "__") folding is equality ... *)
Theorem C11_real_fold_is_equality_on_clean : forall (l : lang) a b,
  clean_lang l ty_path a = true -> clean_lang l ty_path b = true ->
  (l = LCpp -> has_dunder a = false /\ has_dunder b = false) -> fold l a b -> a = b.
Proof. exact fold_clean_eq. Qed.
Print Assumptions C11_real_fold_is_equality_on_clean.

(* ... so (9) holds with all hypotheses discharged when the names are clean ... *)
Theorem C11_real_path_injective_on_clean : forall (l : lang) (ext : str) (outdir : path) types t1 t2,
  dsdl_names_ok types ->
  (forall x, In x (names_of types) -> clean_lang l ty_path x = true /\ (l = LCpp -> has_dunder x = false)) ->
  In t1 types -> In t2 types ->
  out_path (real_strop l) true ext outdir t1 = out_path (real_strop l) true ext outdir t2 -> t1 = t2.
Proof. exact real_path_injective_on_clean. Qed.
Print Assumptions C11_real_path_injective_on_clean.

(* ... and a reserved word folds with its stropped spelling: two different DSDL types, one file (real C stropper; reproduced on
   nnvg: ns/class/T.1.0 + ns/_class/T.1.0 -> only out/ns/_class/T_1_0.h).  This is the exception the property text makes
   ("names folded onto one identifier by the documented one-way stropping"), not a finding. *)
Example C11_real_fold_witness :
  w_T1 <> w_T2 /\ dsdl_names_ok [w_T1; w_T2] /\
  out_path (real_strop LC) true w_ext w_out w_T1 = out_path (real_strop LC) true w_ext w_out w_T2 /\
  out_path (real_strop LC) true w_ext w_out w_T1 = w_out ++ [w_ns; 95 :: w_class; [84; 95; 49; 95; 48; 46; 104]].
Proof. exact real_fold_witness. Qed.

(* the F-NS-FOLD witness (ns.class.Q, ns._class.R, class -> _class) under the current code: both types kept.  What the code did
   before fix f08a0a1 is recorded in History/C11_history.v. *)
Example C11_fold_witness_kept_by_current_code :
  let b := build w_strop same true w_ext w_out w_id [w_Q; w_R] in
  existsb (fun tp => ty_eqb (fst tp) w_R) (get_all_datatypes w_id (fst b) (snd b)) = true /\
  existsb (fun tp => ty_eqb (fst tp) w_Q) (get_all_datatypes w_id (fst b) (snd b)) = true /\
  find_output_path same w_id (fst b) [w_ns] w_R <> None.
Proof. exact w_kept_now. Qed.

(* ---- non-vacuity: the premises are satisfiable together, with a stropping that FOLDS two sibling namespaces (class, _class),
   an empty intermediate namespace, two versions of one type, and non-identity iteration orders -------------------------- *)
Definition ex_types : list ty :=
  [mkTy [w_ns; w_class; [97]] [81] 1 0; mkTy [w_ns; w_class; [97]] [81] 1 1; mkTy [w_ns] [84] 0 1;
   mkTy [w_ns; 95 :: w_class] [85] 2 0].

Example C11_premises_satisfiable :
  NoDup ex_types /\ one_root w_ns ex_types /\ ex_types <> [] /\ ns_fold w_strop ex_types = true /\
  (forall l : list key, Permutation (rev l) l) /\
  length (keys (fst (build w_strop same true w_ext w_out (@rev key) ex_types))) = 4%nat /\
  length (get_all_types w_strop w_ext [95] w_out (@rev key)
            (fst (build w_strop same true w_ext w_out (@rev key) ex_types))
            (snd (build w_strop same true w_ext w_out (@rev key) ex_types))) = 8%nat.
Proof.
  split; [|split; [|split; [|split; [|split; [|split]]]]].
  - repeat (constructor; [cbn [In]; intuition discriminate|]). constructor.
  - intros t Ht. cbn [ex_types In] in Ht. intuition (subst; eexists; reflexivity).
  - discriminate.
  - vm_compute. reflexivity.
  - intros l. apply Permutation_sym, Permutation_rev.
  - vm_compute. reflexivity.
  - vm_compute. reflexivity.
Qed.

(* the hypotheses of (9)/(10) are satisfiable by a stropping that changes every name *)
Example C11_path_premises_satisfiable :
  let strop := fun x : str => 95 :: x in
  (forall x y, In x (names_of ex_types) -> In y (names_of ex_types) -> pstrop strop true x = pstrop strop true y -> x = y) /\
  (forall x, In x (names_of ex_types) -> ident_like (pstrop strop true x)).
Proof.
  split.
  - intros x y _ _ H. cbn [pstrop] in H. congruence.
  - intros x Hx. vm_compute in Hx. unfold ident_like, pstrop, SLASH, DOT.
    repeat (destruct Hx as [<-|Hx]; [split; [discriminate | split; cbn [In]; intuition discriminate]|]). destruct Hx.
Qed.
