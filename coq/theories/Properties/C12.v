(* C12 -- regeneration over existing output is safe for every history of runs.

   Model: Gen/RegenBase.v (file system = path -> option (content id, mode, owned, is-dir); env = superuser flag, umask,
   can_create), Generated/Gen_Regen.v (translated from /repo on every run: _handle_overwrite, SetFileMode.__call__, the call
   skeletons of the per-file writers, phase order, CLI post-processor list), Gen/Regen.v (interpreter, step, history).
   `render` (configuration class, path) -> content id is universally quantified: the theorems hold for every rendering
   function.  Proofs: Gen/RegenThm.v.  Statements only here. *)
From Coq Require Import NArith List Bool.
From Verif Require Import RegenBase Gen_Regen Regen RegenThm.
Import ListNotations.
Open Scope N_scope.

(* After ANY history h of runs (successful or not, any configurations) from ANY start state s0 -- foreign files, read-only
   leftovers, files of other users, directories in the way --, a successful non-dry run whose file post-processors contain a
   SetFileMode (the command line always appends one: cli_setfilemode_last) leaves every file it generates with its own text
   and the requested mode. *)
Theorem regen_canonical : forall render e h s0 c p,
  c_dryrun c = false -> c_filepps c <> [] ->
  snd (step render e (history render e s0 h) c) = Ok -> In p (targets c) ->
  obs (fst (step render e (history render e s0 h) c) p) = canonical render e c p.
Proof. exact RegenThm.regen_canonical. Qed.
Print Assumptions regen_canonical.

(* ... which is what the same run leaves in an empty directory *)
Theorem regen_equals_fresh : forall render e h s0 c p,
  c_dryrun c = false -> c_filepps c <> [] ->
  snd (step render e (history render e s0 h) c) = Ok -> snd (step render e empty_fs c) = Ok -> In p (targets c) ->
  obs (fst (step render e (history render e s0 h) c) p) = obs (fst (step render e empty_fs c) p).
Proof. exact RegenThm.regen_equals_fresh. Qed.
Print Assumptions regen_equals_fresh.

(* the content half needs no SetFileMode *)
Theorem regen_content_canonical : forall render e h s0 c p,
  c_dryrun c = false -> snd (step render e (history render e s0 h) c) = Ok -> In p (targets c) ->
  exists f, fst (step render e (history render e s0 h) c) p = Some f /\ f_cid f = render (c_class c) p.
Proof. exact RegenThm.regen_content_canonical. Qed.
Print Assumptions regen_content_canonical.

(* the mode half does: full statement refuted for configurations without SetFileMode (Python API only), witness: a 0o444
   leftover is left with 0o664 where the fresh file has 0o644 *)
Theorem mode_without_setfilemode_refuted : forall render : N -> path -> N,
  exists e s c p, c_filepps c = [] /\ c_dryrun c = false /\ In p (targets c) /\
                  snd (step render e s c) = Ok /\ snd (step render e empty_fs c) = Ok /\
                  obs (fst (step render e s c) p) <> obs (fst (step render e empty_fs c) p).
Proof. exact RegenThm.mode_without_setfilemode_refuted. Qed.
Print Assumptions mode_without_setfilemode_refuted.

(* the command line appends SetFileMode(file_mode) unconditionally and last *)
Theorem cli_setfilemode_last : last cli_pp_list (false, KTrim) = (true, KSetFileMode).
Proof. exact RegenThm.cli_setfilemode_last. Qed.
Print Assumptions cli_setfilemode_last.

(* Overwriting never gets stuck on what earlier runs left behind: for an unprivileged user too (superuser e = false), if the
   start state only contains entries the user may chmod, then after any history an overwriting run succeeds, whatever the
   permission bits are by then.  Preconditions: missing targets can be created (directory chain writable), no directory
   sits at a target path. *)
Theorem regen_total_history : forall render e h s0 c,
  chmodable e s0 ->
  (forall p, In p (targets c) -> can_create e p = true /\ (forall f, s0 p = Some f -> f_isdir f = false)) ->
  c_allow c = true -> c_dryrun c = false ->
  snd (step render e (history render e s0 h) c) = Ok.
Proof. exact RegenThm.regen_total_history. Qed.
Print Assumptions regen_total_history.

(* files a run does not generate keep content, mode, everything -- in every run, failed or not, and through whole histories *)
Theorem foreign_untouched : forall render e s c q, ~ In q (targets c) -> fst (step render e s c) q = s q.
Proof. exact RegenThm.foreign_untouched_step. Qed.
Print Assumptions foreign_untouched.

Theorem history_foreign : forall render e h s q,
  (forall c, In c h -> ~ In q (targets c)) -> history render e s h q = s q.
Proof. exact RegenThm.foreign_untouched_history. Qed.
Print Assumptions history_foreign.

(* --no-overwrite: nothing that existed before the run changes (content, mode, owner), dry or not, through whole histories *)
Theorem no_overwrite_safe : forall render e s c q, c_allow c = false -> s q <> None -> fst (step render e s c) q = s q.
Proof. exact RegenThm.no_overwrite_safe. Qed.
Print Assumptions no_overwrite_safe.

Theorem no_overwrite_safe_history : forall render e h s0 q,
  (forall c, In c h -> c_allow c = false) -> s0 q <> None -> history render e s0 h q = s0 q.
Proof. exact RegenThm.no_overwrite_safe_history. Qed.
Print Assumptions no_overwrite_safe_history.

(* ... and the run ends in the overwrite error iff some target existed (targets pairwise distinct -- C11 --, creatable) *)
Theorem no_overwrite_error_iff : forall render e s c,
  c_dryrun c = false -> c_allow c = false -> NoDup (targets c) ->
  (forall p, In p (targets c) -> can_create e p = true) ->
  (snd (step render e s c) = Err EExists <-> exists p, In p (targets c) /\ s p <> None).
Proof. exact RegenThm.no_overwrite_error_iff. Qed.
Print Assumptions no_overwrite_error_iff.

Theorem no_overwrite_ok_iff : forall render e s c,
  c_dryrun c = false -> c_allow c = false -> NoDup (targets c) ->
  (forall p, In p (targets c) -> can_create e p = true) ->
  (snd (step render e s c) = Ok <-> forall p, In p (targets c) -> s p = None).
Proof. exact RegenThm.no_overwrite_ok_iff. Qed.
Print Assumptions no_overwrite_ok_iff.

(* without any precondition on directories or distinctness: a conflict is never silently accepted *)
Theorem no_overwrite_conflict_fails : forall render e s c,
  c_dryrun c = false -> c_allow c = false ->
  (exists p, In p (targets c) /\ s p <> None) -> snd (step render e s c) <> Ok.
Proof. exact RegenThm.no_overwrite_conflict_fails. Qed.
Print Assumptions no_overwrite_conflict_fails.

Theorem dry_run_inert : forall render e s c, c_dryrun c = true -> step render e s c = (s, Ok).
Proof. exact RegenThm.dry_run_inert. Qed.
Print Assumptions dry_run_inert.

(* type files, templated support files and copied support files all are "the overwrite gate, then the rest" *)
Theorem same_gate : forall render e c p k, c_dryrun c = false ->
  exists rest, forall s, write_item render e c s (p, k) = bind (handle_overwrite e s p (c_allow c)) rest.
Proof. exact RegenThm.same_gate. Qed.
Print Assumptions same_gate.

(* ---- non-vacuity: the hypotheses are satisfiable and the interesting cases happen ---------------------------------- *)
Definition ex_render (c p : N) : N := 1000000 + c * 10000 + p.
Definition ex_user : env := mkEnv false 18 (fun _ => true).                       (* unprivileged, umask 022 *)
Definition ex_cfg (allow : bool) (m : N) : cfg :=
  mkCfg 3 allow false false [PPSetFileMode m] true true [(1, true); (2, false)] [3; 4] 420.
(* 1: read-only leftover of class 9, 3: foreign text with mode 0, 7: foreign file that is not a target *)
Definition ex_fs : fs := upd (upd (upd empty_fs 1 (mkF 1090001 292 true false)) 3 (mkF 5 0 true false)) 7 (mkF 6 256 true false).

Example ex_overwrite_readonly :
  snd (step ex_render ex_user ex_fs (ex_cfg true 420)) = Ok /\
  map (fun p => obs (fst (step ex_render ex_user ex_fs (ex_cfg true 420)) p)) [1; 2; 3; 4; 7]
  = [Some (1030001, 420); Some (1030002, 420); Some (1030003, 420); Some (1030004, 420); Some (6, 256)].
Proof. vm_compute. split; reflexivity. Qed.
Print Assumptions ex_overwrite_readonly.

Example ex_history_then_fresh_equal :
  let h := [ex_cfg true 292; ex_cfg false 420; ex_cfg true 0] in
  snd (step ex_render ex_user (history ex_render ex_user ex_fs h) (ex_cfg true 384)) = Ok /\
  snd (step ex_render ex_user empty_fs (ex_cfg true 384)) = Ok /\
  targets (ex_cfg true 384) = [1; 2; 3; 4].
Proof. vm_compute. repeat split; reflexivity. Qed.
Print Assumptions ex_history_then_fresh_equal.

Example ex_no_overwrite_conflict :
  step ex_render ex_user ex_fs (ex_cfg false 420) = (ex_fs, Err EExists) /\ NoDup (targets (ex_cfg false 420)).
Proof.
  split; [reflexivity|]. vm_compute. repeat constructor; cbn; intuition discriminate.
Qed.
Print Assumptions ex_no_overwrite_conflict.

Example ex_chmodable : chmodable ex_user ex_fs.
Proof.
  intros q f. unfold ex_fs, upd.
  destruct (N.eqb q 7); [intros H; injection H as <-; reflexivity|].
  destruct (N.eqb q 3); [intros H; injection H as <-; reflexivity|].
  destruct (N.eqb q 1); [intros H; injection H as <-; reflexivity|]. discriminate.
Qed.
Print Assumptions ex_chmodable.
