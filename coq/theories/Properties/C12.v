(* C12 -- regeneration over existing output is safe for every history of runs.

   Model: Gen/RegenBase.v (output tree = path -> option entry, entry = regular file or directory with content id, mode,
   owner flag; env = superuser flag, umask, and the SHAPE of the path space: ancestors, child), Generated/Gen_Regen.v
   (translated from /repo on every run: _handle_overwrite, SetFileMode.__call__, the call skeletons of the per-file writers,
   phase order, _should_generate_support, SupportGenerator.get_templates' selection, CLI post-processor list), Gen/Regen.v
   (interpreter over flattened action lists, step, interrupted runs = prefixes, history of runs and crashes).

   NAMED PREMISES (not proved here, by design):
   - render_independent render : the text written to a path depends on (configuration class, path) only -- not on the tree
     as it is (no output file is read back), not on earlier runs in the process, not on the clock.  This is the whole
     content of "byte-identical to a fresh run" beyond "every target is re-opened with mode w"; it is discharged by
     C10 (instantiated below: render_independent_on_targets_from_c10, regen_equals_fresh_from_c10) and C07 (Properties/C07.v: C07_run_env_indep_general,
     C07_output_dir_history_irrelevant, C07_all_ambient_reads_modelled: no dependence on clock/hash seed/output directory
     history; python target only up to the findings listed there).  The C12 check masks C07's known volatile lines.
   - env_wf e : no path is its own ancestor.
   - no_external (c_filepps c) : no --pp-run-program.  The external program IS in the model (PPExternal f, f arbitrary; translated
     call, run in the harness) and in the footprint / no-overwrite / directory / link statements; only "succeeds" and "equals the
     fresh run" are proved without it (an in-place editor can fail on a read-only file and changes the content after rendering).
   - symbolic links and devices/FIFOs/sockets at targets (both part of env: no run creates one; exists/is_dir/stat/chmod/open follow
     links) need no premise: the translated gate refuses them (gate_refuses_links_live, gate_refuses_special_live) and the
     statements hold for trees with arbitrary such entries.  targets_plain e c : no target is a link or a special entry (only
     the "succeeds" theorems need it).
   - compatible e c c' : what c needs as a directory is not a target of c', and vice versa (frozen directory skeleton);
     holds for all configurations of one namespace/language family by C11's targets_inside (paths = outdir ++ safe components,
     files end in an extension) -- stated, not derived, because C12's paths are opaque.
   - c11_targets_distinct (Gen/RegenC11.v): C11's NoDup of the derived type targets.
   Proofs: Gen/RegenThm.v, Gen/RegenC11.v.  Statements only here. *)
From Coq Require Import NArith List Bool.
From Verif Require Import RegenBase Gen_Regen Regen RegenThm RegenC11 RegenTargets RegenC10 RegenC10Inst.
Import ListNotations.
Open Scope N_scope.

(* WHERE THE CONTENT PREMISE COMES FROM.  A run of c renders only at (c_class c, p) for targets p of c, so independence ON
   TARGETS is all the content theorems need (Gen/RegenTargets.v: *_on_targets below; render_independent implies it).  With
   render := the text of C10's log entry for (class, path) (Gen/RegenC10.v; decidable search, proved there), independence on
   targets follows from C10's theorems as proved in C10's files -- C10_file_indep_real and single_run_entry, with C10's own
   premise render_pure about the template engine -- and ONE hypothesis of C12's side, ids_agree_with_c10_keys: what the
   harness fixes when it identifies C12's opaque class/path ids with C10's objects (a run of class c_class c is one process,
   one generator, one generate_all -- C10's single_run --, with the configuration/templates/line processors the class stands
   for, and every target of c is the file of a type key that this run processes and resolves). *)
Theorem render_independent_on_targets_from_c10 :
  forall (U : GenState.universe) render10, C10.render_pure render10 ->
  forall cfun (m_of : N -> option nat) (hist_of : N -> N -> list GenState.op)
         (cls_of : N -> N * GenState.tlist * list LinePPInst.pp) (key_of : path -> GenState.tkey) (cid_of : Str.str -> N) (c : cfg),
  (forall a p, In p (targets c) ->                                                                  (* ids_agree_with_c10_keys *)
     exists cf ts pps ins ord args o,
       hist_of a (c_class c) = GenStateThmSubset.single_run cf ts pps ins ord args /\
       In (key_of p) ord /\ GenState.resolve_in U ins (key_of p) = Some o /\
       cls_of (c_class c) = (GenState.ecfg cf args, ts, map GenState.pp_fresh pps)) ->
  render_independent_on_targets (render_c10 (log_real U render10 cfun m_of hist_of) cls_of key_of cid_of) c.
Proof. exact RegenC10Inst.render_independent_on_targets_from_c10. Qed.
Print Assumptions render_independent_on_targets_from_c10.

Theorem render_independent_gives_on_targets : forall render c, render_independent render -> render_independent_on_targets render c.
Proof. exact RegenTargets.independent_is_on_targets. Qed.
Print Assumptions render_independent_gives_on_targets.

(* the content and success statements under independence on the targets of the configuration that runs (s is ANY tree: the one
   left by any history of runs and crashes) *)
Theorem regen_canonical_on_targets : forall render e, env_wf e -> forall s c p, render_independent_on_targets render c ->
  c_dryrun c = false -> no_external (c_filepps c) = true -> c_filepps c <> [] ->
  snd (step render e s c) = Ok -> In p (targets c) ->
  obs (fst (step render e s c) p) = canonical render e c p.
Proof. exact RegenTargets.regen_canonical_on_targets. Qed.
Print Assumptions regen_canonical_on_targets.

Theorem regen_equals_fresh_on_targets : forall render e, env_wf e -> forall s c p, render_independent_on_targets render c ->
  c_dryrun c = false -> no_external (c_filepps c) = true -> c_filepps c <> [] ->
  snd (step render e s c) = Ok -> snd (step render e empty_fs c) = Ok -> In p (targets c) ->
  obs (fst (step render e s c) p) = obs (fst (step render e empty_fs c) p).
Proof. exact RegenTargets.regen_equals_fresh_on_targets. Qed.
Print Assumptions regen_equals_fresh_on_targets.

Theorem regen_total_history_on_targets : forall render e, env_wf e -> forall h s0 c, render_independent_on_targets render c ->
  chmodable e s0 -> (forall p, In p (targets c) -> ready e s0 p = true) ->
  compatible e c c -> (forall ev, In ev h -> compatible e c (ev_cfg ev)) -> targets_plain e c ->
  c_allow c = true -> c_dryrun c = false -> no_external (c_filepps c) = true ->
  snd (step render e (history render e s0 h) c) = Ok.
Proof. exact RegenTargets.regen_total_history_on_targets. Qed.
Print Assumptions regen_total_history_on_targets.

(* composed: "byte-identical to a fresh run" with NO premise about render -- C10's theorems + ids_agree_with_c10_keys *)
Theorem regen_equals_fresh_from_c10 :
  forall (U : GenState.universe) render10, C10.render_pure render10 ->
  forall cfun (m_of : N -> option nat) (hist_of : N -> N -> list GenState.op)
         (cls_of : N -> N * GenState.tlist * list LinePPInst.pp) (key_of : path -> GenState.tkey) (cid_of : Str.str -> N) (c : cfg),
  (forall a p, In p (targets c) ->
     exists cf ts pps ins ord args o,
       hist_of a (c_class c) = GenStateThmSubset.single_run cf ts pps ins ord args /\
       In (key_of p) ord /\ GenState.resolve_in U ins (key_of p) = Some o /\
       cls_of (c_class c) = (GenState.ecfg cf args, ts, map GenState.pp_fresh pps)) ->
  let render := render_c10 (log_real U render10 cfun m_of hist_of) cls_of key_of cid_of in
  forall e, env_wf e -> forall s p,
  c_dryrun c = false -> no_external (c_filepps c) = true -> c_filepps c <> [] ->
  snd (step render e s c) = Ok -> snd (step render e empty_fs c) = Ok -> In p (targets c) ->
  obs (fst (step render e s c) p) = obs (fst (step render e empty_fs c) p).
Proof.
  intros U render10 Hp cfun m_of hist_of cls_of key_of cid_of c Hids render e Hw s p.
  apply (RegenTargets.regen_equals_fresh_on_targets render e Hw s c p).
  exact (RegenC10Inst.render_independent_on_targets_from_c10 U render10 Hp cfun m_of hist_of cls_of key_of cid_of c Hids).
Qed.
Print Assumptions regen_equals_fresh_from_c10.

(* After ANY history h of complete and interrupted runs from ANY start tree s0, a successful non-dry run whose file
   post-processors contain a SetFileMode (the command line always appends one: cli_setfilemode_last) leaves at every target
   the file a run into the empty directory leaves: same content id, requested mode.  No exclusion: the gate lets only regular
   files and missing paths through (directories 7df01dd, links 84a8551, devices/FIFOs/sockets 5a15038; History/C12_history.v). *)
Theorem regen_equals_fresh : forall render e, render_independent render -> env_wf e -> forall h s0 c p,
  c_dryrun c = false -> no_external (c_filepps c) = true -> c_filepps c <> [] ->
  snd (step render e (history render e s0 h) c) = Ok -> snd (step render e empty_fs c) = Ok -> In p (targets c) ->
  obs (fst (step render e (history render e s0 h) c) p) = obs (fst (step render e empty_fs c) p).
Proof. exact RegenThm.regen_equals_fresh. Qed.
Print Assumptions regen_equals_fresh.

Theorem regen_canonical : forall render e, render_independent render -> env_wf e -> forall s c p,
  c_dryrun c = false -> no_external (c_filepps c) = true -> c_filepps c <> [] ->
  snd (step render e s c) = Ok -> In p (targets c) ->
  obs (fst (step render e s c) p) = canonical render e c p.
Proof. exact RegenThm.canonical_any_state. Qed.
Print Assumptions regen_canonical.

(* the content half needs no SetFileMode; the target is a regular file *)
Theorem regen_content_canonical : forall render e, render_independent render -> env_wf e -> forall s c p,
  c_dryrun c = false -> no_external (c_filepps c) = true ->
  snd (step render e s c) = Ok -> In p (targets c) ->
  exists f, fst (step render e s c) p = Some f /\ f_isdir f = false /\ f_cid f = render empty_fs 0 (c_class c) p.
Proof. exact RegenThm.content_any_state. Qed.
Print Assumptions regen_content_canonical.

(* a directory at the path of ANY file to generate (type file, templated or copied support file) makes the run fail; it is
   never written into, replaced, chmod-ed (owner and kind kept; untouched altogether when it is not itself a target) *)
Theorem directory_at_target_fails : forall render e, env_wf e -> forall s c,
  c_dryrun c = false -> (exists p, In p (targets c) /\ fs_is_dir s p = true) -> snd (step render e s c) <> Ok.
Proof. exact RegenThm.directory_at_target_fails. Qed.
Print Assumptions directory_at_target_fails.

Theorem directory_kept : forall render e, env_wf e -> forall s ev q f,
  s q = Some f -> f_isdir f = true ->
  exists f', apply_event render e s ev q = Some f' /\ f_isdir f' = true /\ f_owned f' = f_owned f /\
             (~ In q (targets (ev_cfg ev)) -> f' = f).
Proof. exact RegenThm.directory_at_target_kept. Qed.
Print Assumptions directory_kept.

(* the command line appends SetFileMode(file_mode) unconditionally and last *)
Theorem cli_setfilemode_last : last cli_pp_list (false, KTrim) = (true, KSetFileMode).
Proof. exact RegenThm.cli_setfilemode_last. Qed.
Print Assumptions cli_setfilemode_last.

(* ---- what a run can touch ------------------------------------------------------------------------------------------ *)
(* every entry that differs after a run (successful or failed) is a target, or a directory above a target that did not
   exist and has been created *)
Theorem written_in_footprint : forall render e, env_wf e -> forall s c q,
  fst (step render e s c) q <> s q ->
  In q (targets c) \/ (In q (dir_targets e c) /\ s q = None /\ fst (step render e s c) q = Some (new_dir e)).
Proof. exact RegenThm.written_in_footprint. Qed.
Print Assumptions written_in_footprint.

(* ... where the targets are derived from the translated decisions, for every --generate-support / --omit-serialization-support *)
Theorem targets_derived : forall c,
  targets c = (if should_generate_support (c_gensup c) (c_omit c)
               then map fst (support_selection (c_omit c) (c_sersup c) (c_typesup c)) else [])
              ++ (if generates_types (c_gensup c) then c_types c else []).
Proof. exact RegenThm.targets_derived. Qed.
Print Assumptions targets_derived.

(* ... and the type targets are C11's derived list, pairwise distinct by C11's theorem *)
Theorem targets_distinct_from_c11 : forall strop es ext stem outdir g perm types (enc : Namespace.path -> path),
  (forall a b, enc a = enc b -> a = b) ->
  NoDup (Namespace.c11_targets strop es ext stem outdir g perm types) ->          (* c11_targets_distinct *)
  forall c, c_types c = derived_types strop es ext stem outdir g perm types enc ->
  NoDup (map fst (support_selection (c_omit c) (c_sersup c) (c_typesup c))) ->
  (forall p, In p (map fst (support_selection (c_omit c) (c_sersup c) (c_typesup c))) -> ~ In p (c_types c)) ->
  NoDup (targets c).
Proof. exact RegenC11.c12_targets_distinct. Qed.
Print Assumptions targets_distinct_from_c11.

(* existing entries that are not targets keep content, mode, everything -- in every run, failed or not; a missing path stays
   missing unless it is a directory above a target *)
Theorem foreign_untouched : forall render e, env_wf e -> forall s c q,
  ~ In q (targets c) -> (s q <> None \/ ~ In q (dir_targets e c)) ->
  fst (step render e s c) q = s q.
Proof. exact RegenThm.foreign_untouched. Qed.
Print Assumptions foreign_untouched.

Theorem history_foreign : forall render e, env_wf e -> forall h s q,
  (forall ev, In ev h -> ~ In q (targets (ev_cfg ev))) ->
  (s q <> None \/ forall ev, In ev h -> ~ In q (dir_targets e (ev_cfg ev))) ->
  history render e s h q = s q.
Proof. exact RegenThm.history_foreign. Qed.
Print Assumptions history_foreign.

Theorem foreign_dirs_only : forall render e, env_wf e -> forall h s q,
  (forall ev, In ev h -> ~ In q (targets (ev_cfg ev))) ->
  history render e s h q = s q \/ (s q = None /\ history render e s h q = Some (new_dir e)).
Proof. exact RegenThm.foreign_dirs_only. Qed.
Print Assumptions foreign_dirs_only.

(* the round-2 form "what is not a target does not change" is false: parent directories appear *)
Theorem foreign_unconditional_refuted :
  exists e s c q, ~ In q (targets c) /\ snd (step wit_render e s c) = Ok /\ fst (step wit_render e s c) q <> s q.
Proof. exact RegenThm.foreign_unconditional_refuted. Qed.
Print Assumptions foreign_unconditional_refuted.

(* ---- --no-overwrite ---------------------------------------------------------------------------------------------------- *)
(* nothing that existed before the run changes (files and directories) *)
Theorem no_overwrite_safe : forall render e, env_wf e -> forall s c q,
  c_allow c = false -> s q <> None -> fst (step render e s c) q = s q.
Proof. exact RegenThm.no_overwrite_safe. Qed.
Print Assumptions no_overwrite_safe.

Theorem no_overwrite_safe_history : forall render e, env_wf e -> forall h s0 q,
  (forall ev, In ev h -> exists c, ev = Run c /\ c_allow c = false) -> s0 q <> None ->
  history render e s0 h q = s0 q.
Proof. exact RegenThm.no_overwrite_safe_history. Qed.
Print Assumptions no_overwrite_safe_history.

(* a conflict is never silently accepted *)
Theorem no_overwrite_conflict_fails : forall render e, env_wf e -> forall s c,
  c_dryrun c = false -> c_allow c = false ->
  (exists p, In p (targets c) /\ s p <> None) -> snd (step render e s c) <> Ok.
Proof. exact RegenThm.no_overwrite_conflict_fails. Qed.
Print Assumptions no_overwrite_conflict_fails.

(* ... and with pairwise distinct targets, ready in the start tree: the run succeeds iff no target existed and ends in the
   overwrite error iff one did.  NoDup (targets c) is discharged from C11's derived target list (targets_distinct_from_c11): *)
Theorem no_overwrite_ok_iff : forall strop es ext stem outdir g perm types (enc : Namespace.path -> path),
  (forall a b, enc a = enc b -> a = b) -> NoDup (Namespace.c11_targets strop es ext stem outdir g perm types) ->
  forall render e, render_independent render -> env_wf e -> forall s c,
  c_types c = derived_types strop es ext stem outdir g perm types enc ->
  NoDup (map fst (support_selection (c_omit c) (c_sersup c) (c_typesup c))) ->
  (forall p, In p (map fst (support_selection (c_omit c) (c_sersup c) (c_typesup c))) -> ~ In p (c_types c)) ->
  c_dryrun c = false -> c_allow c = false -> no_external (c_filepps c) = true -> compatible e c c -> targets_plain e c ->
  (forall p, In p (targets c) -> ready e s p = true) ->
  (snd (step render e s c) = Ok <-> forall p, In p (targets c) -> s p = None).
Proof. exact RegenC11.no_overwrite_ok_iff_c11. Qed.
Print Assumptions no_overwrite_ok_iff.

Theorem no_overwrite_error_iff : forall strop es ext stem outdir g perm types (enc : Namespace.path -> path),
  (forall a b, enc a = enc b -> a = b) -> NoDup (Namespace.c11_targets strop es ext stem outdir g perm types) ->
  forall render e, render_independent render -> env_wf e -> forall s c,
  c_types c = derived_types strop es ext stem outdir g perm types enc ->
  NoDup (map fst (support_selection (c_omit c) (c_sersup c) (c_typesup c))) ->
  (forall p, In p (map fst (support_selection (c_omit c) (c_sersup c) (c_typesup c))) -> ~ In p (c_types c)) ->
  c_dryrun c = false -> c_allow c = false -> no_external (c_filepps c) = true -> compatible e c c -> targets_plain e c ->
  (forall p, In p (targets c) -> ready e s p = true) ->
  (snd (step render e s c) = Err EExists <-> exists p, In p (targets c) /\ s p <> None).
Proof. exact RegenC11.no_overwrite_error_iff_c11. Qed.
Print Assumptions no_overwrite_error_iff.

Theorem dry_run_inert : forall render e s c, c_dryrun c = true -> step render e s c = (s, Ok).
Proof. exact RegenThm.dry_run_inert. Qed.
Print Assumptions dry_run_inert.

(* ---- overwriting never gets stuck ------------------------------------------------------------------------------------- *)
(* for an unprivileged user too: if the start tree only has entries the user may chmod and every target is ready there
   (mkdir -p of its chain succeeds; missing -> its directory accepts it; present -> a regular file), then after any history
   of runs and crashes of skeleton-compatible configurations an overwriting run succeeds, whatever the permission bits
   have become *)
Theorem regen_total_history : forall render e, render_independent render -> env_wf e -> forall h s0 c,
  chmodable e s0 -> (forall p, In p (targets c) -> ready e s0 p = true) ->
  compatible e c c -> (forall ev, In ev h -> compatible e c (ev_cfg ev)) ->
  targets_plain e c ->
  c_allow c = true -> c_dryrun c = false -> no_external (c_filepps c) = true ->
  snd (step render e (history render e s0 h) c) = Ok.
Proof. exact RegenThm.regen_total_history. Qed.
Print Assumptions regen_total_history.

(* ---- crash points: an interrupted run (any prefix of the action list, possibly dying inside a write) -------------------- *)
Theorem interrupted_then_rerun_equals_fresh : forall render e, render_independent render -> env_wf e ->
  forall s c0 n j junk c p,
  c_dryrun c = false -> no_external (c_filepps c) = true -> c_filepps c <> [] ->
  snd (step render e (step_crash render e s c0 n j junk) c) = Ok -> snd (step render e empty_fs c) = Ok -> In p (targets c) ->
  obs (fst (step render e (step_crash render e s c0 n j junk) c) p) = obs (fst (step render e empty_fs c) p).
Proof. intros render e Hi Hw s c0 n j junk. exact (RegenThm.regen_equals_fresh render e Hi Hw [Crash c0 n j junk] s). Qed.
Print Assumptions interrupted_then_rerun_equals_fresh.

Theorem interrupted_then_rerun_succeeds : forall render e, render_independent render -> env_wf e -> forall s c n j junk,
  chmodable e s -> (forall p, In p (targets c) -> ready e s p = true) -> compatible e c c -> targets_plain e c ->
  c_allow c = true -> c_dryrun c = false -> no_external (c_filepps c) = true ->
  snd (step render e (step_crash render e s c n j junk) c) = Ok.
Proof.
  intros render e Hi Hw s c n j junk Hc Hr Hcc Lc. apply (RegenThm.regen_total_history render e Hi Hw [Crash c n j junk] s c); auto.
  intros ev [<-|[]]. exact Hcc.
Qed.
Print Assumptions interrupted_then_rerun_succeeds.

Theorem interrupted_touches_only_footprint : forall render e, env_wf e -> forall s c n j junk q,
  ~ In q (targets c) -> (s q <> None \/ ~ In q (dir_targets e c)) ->
  step_crash render e s c n j junk q = s q.
Proof. intros render e Hw s c n j junk. exact (RegenThm.foreign_event render e Hw s (Crash c n j junk)). Qed.
Print Assumptions interrupted_touches_only_footprint.

(* --no-overwrite after a partial run: everything the crash left (including a truncated file) stays as it is, and if the
   crash left any target the run ends in an error instead of completing it *)
Theorem no_overwrite_after_crash : forall render e, env_wf e -> forall s c0 n j junk c,
  c_allow c = false -> c_dryrun c = false ->
  (forall q, step_crash render e s c0 n j junk q <> None ->
             fst (step render e (step_crash render e s c0 n j junk) c) q = step_crash render e s c0 n j junk q) /\
  ((exists p, In p (targets c) /\ step_crash render e s c0 n j junk p <> None) ->
   snd (step render e (step_crash render e s c0 n j junk) c) <> Ok).
Proof.
  intros render e Hw s c0 n j junk c Ha Hd. split.
  - intros q. now apply RegenThm.no_overwrite_safe.
  - now apply (RegenThm.no_overwrite_conflict_fails render e Hw).
Qed.
Print Assumptions no_overwrite_after_crash.

(* type files, templated support files and copied support files all are "the overwrite gate, then the rest" *)
Theorem same_gate : forall render e c p k, c_dryrun c = false ->
  exists rest, forall s, write_item render e c s (p, k) = bind (handle_overwrite e s p (c_allow c)) rest.
Proof. exact RegenThm.same_gate. Qed.
Print Assumptions same_gate.

(* ---- FIX-STATE OBLIGATIONS (audit 3): the gate translated from /repo on this run --------------------------------------------- *)
(* refuses symbolic links at the path of a file to generate (84a8551) -- unconditional; a revert breaks the build *)
Theorem gate_refuses_links_live : gate_refuses_links.
Proof. exact RegenThm.gate_refuses_links_now. Qed.
Print Assumptions gate_refuses_links_live.

(* refuses directories (7df01dd) -- unconditional *)
Theorem gate_refuses_directories_live : forall e s p f a, links e p = None -> special e p = false -> s p = Some f -> f_isdir f = true ->
  exists er, handle_overwrite e s p a = (s, Err er).
Proof. exact RegenThm.handle_overwrite_dir. Qed.
Print Assumptions gate_refuses_directories_live.

(* and, as booleans computed on the witnesses of the three findings: whatever known_findings.d/C12.json records as fixed
   does not reproduce on the translated model *)
Example fix_state_guards :
  implb fixed_directory_refusal (negb dir_quirk) && implb fixed_symlink_refusal (negb link_quirk)
  && implb fixed_nonregular_refusal (negb special_quirk) = true.
Proof. exact RegenThm.fix_state_guards. Qed.
Print Assumptions fix_state_guards.

Theorem symlink_at_target_fails : forall render e s c,
  c_dryrun c = false -> (exists p, In p (targets c) /\ links e p <> None) -> snd (step render e s c) <> Ok.
Proof. exact RegenThm.symlink_at_target_fails. Qed.
Print Assumptions symlink_at_target_fails.

(* refuses devices, FIFOs and sockets (5a15038: is_file()) -- unconditional; with the two theorems above the gate lets only
   regular files (and missing paths) through *)
Theorem gate_refuses_special_live : gate_refuses_special.
Proof. exact RegenThm.gate_refuses_special_now. Qed.
Print Assumptions gate_refuses_special_live.

Theorem special_at_target_fails : forall render e s c,
  c_dryrun c = false -> (exists p, In p (targets c) /\ links e p = None /\ special e p = true) -> snd (step render e s c) <> Ok.
Proof. exact RegenThm.special_at_target_fails. Qed.
Print Assumptions special_at_target_fails.

(* MODEL BOUNDARY (not findings): the tree is keyed by path and a path names one entry.  (1) A HARD LINK: another name of the
   same inode, inside or outside the output directory, is rewritten when the target is -- the file named by the target path IS
   the target, the model cannot tell that it has a second name (no inode identity).  (2) A symbolic link in the DIRECTORY
   CHAIN of a target (out/ns -> elsewhere): every operation resolves it, the files land where the link points; [links] covers
   the last component only, [ancestors] are plain names.  Refusing either needs a policy (st_nlink > 1? realpath inside out/?)
   that the property text does not fix.  Both are stated here and in design_notes/C12.md; the harness does not generate them. *)

(* ---- non-vacuity ------------------------------------------------------------------------------------------------------- *)
Example ex_render_independent : render_independent wit_render.
Proof. intros s a s' a' cl p. reflexivity. Qed.
Print Assumptions ex_render_independent.

Example ex_env_wf : env_wf (wit_env false).
Proof. intros p. unfold wit_env; cbn [ancestors]; unfold wit_anc. destruct (N.eqb_spec p 2) as [->|]; [cbn; intuition discriminate|].
  destruct (N.eqb_spec p 3) as [->|]; [cbn; intuition discriminate|]. destruct (N.eqb_spec p 4) as [->|]; cbn; intuition discriminate. Qed.
Print Assumptions ex_env_wf.

(* unprivileged user; 1 = nunavut/ read-write, 4 = nunavut/x.hpp a read-only (0o400) leftover, 2 = copied support target missing *)
Definition ex_fs : fs := upd (upd empty_fs 1 (mkF 0 493 true true)) 4 (mkF 55 256 true false).
Definition ex_cfg (allow : bool) : cfg := wit_cfg allow false [4] [(2, false)].

Example ex_overwrite_readonly :
  snd (step wit_render (wit_env false) ex_fs (ex_cfg true)) = Ok /\
  map (fun p => obs (fst (step wit_render (wit_env false) ex_fs (ex_cfg true)) p)) [1; 2; 3; 4]
  = [Some (0, 493); Some (1070002, 292); None; Some (1070004, 292)] /\
  targets (ex_cfg true) = [2; 4] /\
  forallb (ready (wit_env false) ex_fs) (targets (ex_cfg true)) = true.
Proof. vm_compute. repeat split; reflexivity. Qed.
Print Assumptions ex_overwrite_readonly.

(* killed inside the write of the second item, then rerun: same as fresh; then --no-overwrite after the same crash: error,
   truncated file (content id 9) kept *)
Example ex_crash_then_rerun :
  let s1 := step_crash wit_render (wit_env false) ex_fs (ex_cfg true) 1 2 (Some 9) in
  obs (s1 4) = Some (9, 400) /\
  snd (step wit_render (wit_env false) s1 (ex_cfg true)) = Ok /\
  map (fun p => obs (fst (step wit_render (wit_env false) s1 (ex_cfg true)) p)) [2; 4]
  = map (fun p => obs (fst (step wit_render (wit_env false) empty_fs (ex_cfg true)) p)) [2; 4] /\
  is_ok (snd (step wit_render (wit_env false) s1 (ex_cfg false))) = false /\
  obs (fst (step wit_render (wit_env false) s1 (ex_cfg false)) 4) = Some (9, 400).
Proof. vm_compute. repeat split; reflexivity. Qed.
Print Assumptions ex_crash_then_rerun.

Example ex_compatible : compatible (wit_env false) (ex_cfg true) (ex_cfg true).
Proof. split; intros q Ha Ht; vm_compute in Ha, Ht; intuition (subst; discriminate). Qed.
Print Assumptions ex_compatible.
