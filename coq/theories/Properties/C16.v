(* C16 -- template resolution and environment contract.
   Statements only; every proof is `exact <lemma>` (or a 2-3 line composition).
   Models: Gen/Lookup.v (DSDLTemplateLoader: BFS over __bases__, the memo, get_source; instance tests),
   Gen/LookupEnv.v (CodeGenEnvironment's filters/tests/globals), Gen/LookupInst.v (both instantiated with
   Generated/Gen_Lookup.v, which is regenerated from /repo on every run: pydsdl class forest, built-in template listings,
   bundled jinja2 names, per-language environment names, RESERVED_GLOBAL_ sets, T2 translation of the alias rule).
   Theorems about code that is no longer in /repo (quirk switches q_shared / q_dt_only / q_unchecked = the code BEFORE fixes
   1341207 / d35e4ad / 6db3613) live in History/C16_history.v.  The LIVE theorems are the full ones: C16_cache_transparent (memo keyed
   by (walk, class)), C16_real_cache_transparent, C16_test_agrees_with_membership (T2-translated _field_is_instance),
   C16_user_global_never_shadows_builtin (T2-translated gate). *)
From Verif Require Import Str Lookup LookupThm LookupSortThm LookupEnv LookupEnvThm Gen_Lookup LookupInst LookupInstThm LookupComposeThm
  Gen_Pin_c16_loader Gen_Pin_c16_env Gen_Pin_c16_wiring Gen_Pin_c16_surface.
From Coq Require Import Permutation.
Import ListNotations.
Open Scope N_scope.

(* Shape pins: the hand models of DSDLTemplateLoader.__init__/get_source/type_to_template/_filter_template_list_by_suffix/
   _type_to_template_internal + DSDLCodeGenerator.filter_type_to_template (Gen/Lookup.v) and of CodeGenEnvironment._add_to_environment/
   add_test/_add_each_to_environment (Gen/LookupEnv.v) are valid for ONE shape of these functions; the pin files are regenerated from
   /repo on every run and define pin_..._ok only when the normalised AST is the one the model was written for. *)
Example C16_loader_shape_pinned : pin_c16_loader_ok = true.
Proof. reflexivity. Qed.
Example C16_env_shape_pinned : pin_c16_env_ok = true.
Proof. reflexivity. Qed.
(* the wiring: CodeGenerator.__init__ (templates_dir / search_policy / package plumbing into DSDLTemplateLoader and the environment
   builder), DSDLCodeGenerator.__init__ (FIND_FIRST, registration of the DSDL tests), generate_all, _generate_type (the NAME given
   to get_template), _create_all_dsdl_tests; tied dynamically by the end-to-end stratum of the check (real generate_all) *)
Example C16_wiring_shape_pinned : pin_c16_wiring_ok = true.
Proof. reflexivity. Qed.
(* the class surface of CodeGenEnvironment(+Builder), DSDLTemplateLoader, BaseLoader/FileSystemLoader/PackageLoader, CodeGenerator,
   DSDLCodeGenerator: bases, keywords, decorators, ordered member names (no name defined twice), no module-level statement mentioning
   the class, and EVERY statement of these classes that mentions .globals/.filters/.tests (any store form) or a dynamic-access name *)
Example C16_class_surface_pinned : pin_c16_surface_ok = true.
Proof. reflexivity. Qed.

(* FIX-STATE FACTS ARE OBLIGATIONS.  The loader pin only accepts the post-fix shapes; the facts regenerated from it must be true:
   only top-level templates are indexed (af716bd), the walk stops at pydsdl.Any (52035ba), additional globals are rejected if
   already defined (6db3613), names the file-system loader cannot load (dangling links) are not indexed (5a15038: the listing the
   model receives is the listing of LOADABLE files).  Reverting one of these fixes makes this Example (and the pin) fail. *)
Example C16_fix_state :
  g_index_top_level_only = true /\ g_chain_ends_at_any = true /\ g_gate_checks_existing = true /\ g_index_checks_loadable = true.
Proof. repeat split; reflexivity. Qed.

(* SCOPE OF ALL LOOKUP THEOREMS BELOW: the template directories do not change during the life of a loader (the code re-lists them on
   every call while the memo persists; a file deleted after a hit is still returned from the memo) -- "every sequence" means every
   sequence of lookups against FROZEN listings. *)

(* ---------------------------------------------------------------------------------------------------------------
   A. Resolution.  EVERY class graph with single inheritance and a well-founded rank (no size bound), every pair of
   template mappings, either memo discipline. *)

(* (A1) a lookup on a fresh loader returns the template of the nearest class of the inheritance chain that has one in the
   user set; only if the WHOLE chain has none there, the nearest one in the built-in set; else None.  (So under FIND_ALL a user
   CompositeType.j2 beats a built-in StructureType.j2 for a structure: this is what the code does, see design_notes/C16.md.) *)
Theorem C16_lookup_nearest :
  forall (bases : cls -> list cls) (rank : cls -> nat),
    (forall c, (length (bases c) <= 1)%nat) -> (forall c p, In p (bases c) -> (rank p < rank c)%nat) ->
  forall (q_shared : bool) (fs pkg : option (cls -> option path)) (fuel : nat) (c : cls), (rank c < fuel)%nat ->
    snd (type_to_template bases q_shared fs pkg fuel st0 c) = spec_lookup fs pkg (chain_n bases (rank c) c).
Proof. exact cold_lookup. Qed.
Print Assumptions C16_lookup_nearest.

(* (A2) LIVE: the memo is keyed by (walk, class): every sequence of lookups returns, at every position, what a fresh loader returns *)
Theorem C16_cache_transparent :
  forall (bases : cls -> list cls) (rank : cls -> nat),
    (forall c, (length (bases c) <= 1)%nat) -> (forall c p, In p (bases c) -> (rank p < rank c)%nat) ->
  forall (fs pkg : option (cls -> option path)) (fuel : nat) (cs : list cls), (forall c, In c cs -> (rank c < fuel)%nat) ->
    run_seq bases false fs pkg fuel st0 cs = map (fun c => spec_lookup fs pkg (chain_n bases (rank c) c)) cs.
Proof.
  intros bases rank H1 H2 fs pkg fuel cs Hf.
  exact (run_seq_sep bases rank H1 H2 fs pkg fuel cs st0 Hf (inv_sep_nil fs pkg)).
Qed.
Print Assumptions C16_cache_transparent.

(* (A5') LIVE, on the real pydsdl hierarchy: any raw directory listings (every kind of file name), either policy, EVERY sequence *)
Theorem C16_real_cache_transparent :
  forall pol dirs pkg cs, p_lookup_seq false pol dirs pkg cs = p_spec_seq pol dirs pkg cs.
Proof. exact p_cache_transparent. Qed.
Print Assumptions C16_real_cache_transparent.

(* (A5'') the index built from a listing (suffix filter + Path.stem, both modelled): a class can only get a file whose NAME is
   exactly <ClassName><TEMPLATE_SUFFIX> (so X.inc.j2, X.draft.j2, Xy.j2, x.j2, X.j2.bak, X.txt never count), and such a name does
   count for every class of the regenerated forest *)
Theorem C16_only_exact_template_names :
  forall raw c p, p_idx raw c = Some p -> In p raw /\ basename p = p_name c ++ g_template_suffix.
Proof. exact p_only_exact_names. Qed.
Print Assumptions C16_only_exact_template_names.

Theorem C16_class_names_indexed : class_names_index_ok = true.
Proof. exact class_names_index_true. Qed.
Print Assumptions C16_class_names_indexed.

(* (A5c) the chain ENDS AT pydsdl.Any (property text; since fix 52035ba -- C16_fix_state): the chain of every class below Any ends at
   Any, hence the chain the code walks is the chain of the property *)
Theorem C16_chain_ends_at_any :
  chain_end_ok = true /\
  (forall pol dirs pkg c, p_spec_rendered pol dirs pkg c = p_spec_rendered_code pol dirs pkg c).
Proof. exact (conj (chain_ends_at_any_fixed fact_chain_ends_at_any) (p_spec_rendered_agree fact_chain_ends_at_any)). Qed.
Print Assumptions C16_chain_ends_at_any.

(* (A6) directory enumeration order.  list_templates of the bundled loaders is modelled (sorted, de-duplicated): the listing handed
   to type_to_template depends only on the SET of names the directory walks produced -- any order, any repetition, duplicated stems
   included (no NoDup premise); hence so does every lookup sequence, with the names of all user search paths taken together *)
Theorem C16_listing_order_indep :
  forall raw raw' : list path, (forall x, In x raw <-> In x raw') -> list_templates raw = list_templates raw'.
Proof. exact list_templates_ext. Qed.
Print Assumptions C16_listing_order_indep.

Theorem C16_enum_order_indep :
  forall q pol (rs rs' : list (list path)) (pk pk' : list path) cs,
    (forall x, In x (concat rs) <-> In x (concat rs')) -> (forall x, In x pk <-> In x pk') ->
    p_lookup_seq q pol (Some rs) (Some pk) cs = p_lookup_seq q pol (Some rs') (Some pk') cs.
Proof. exact p_enum_order_indep. Qed.
Print Assumptions C16_enum_order_indep.

(* (A7) get_source over the ordered roots: if a user search path holds the name, the file comes from the FIRST such path whatever
   the package holds (user shadows built-in of the same name); the package is the fallback *)
Theorem C16_user_shadows_builtin :
  forall (rs : list (list path)) pkg name i, first_root rs name 0 = Some i ->
    get_source (Some rs) pkg name = Some (OUserDir i) /\
    exists r, nth_error rs i = Some r /\ has_file r name = true /\
              forall j r', (j < i)%nat -> nth_error rs j = Some r' -> has_file r' name = false.
Proof.
  intros rs pkg name i H. split; [exact (get_source_user_first rs pkg name i H)|].
  destruct (first_root_spec name rs 0%nat i H) as [j [r [E [Hn [Hf Hmin]]]]]. cbn in E. subst j. exists r. auto.
Qed.
Print Assumptions C16_user_shadows_builtin.

Theorem C16_builtin_is_fallback :
  forall rs pkg name, (forall r, In r rs -> has_file r name = false) -> has_file pkg name = true ->
    get_source (Some rs) (Some pkg) name = Some OPkg.
Proof. intros rs pkg name H. exact (get_source_fallback rs pkg name (proj2 (first_root_none name rs 0%nat) H)). Qed.
Print Assumptions C16_builtin_is_fallback.

(* (A9) THE COMPOSITION: which FILE is rendered.  _generate_type hands type_to_template(type(T)).name to get_source.
   Property's reading: the most specific class k of T's chain for which a file named exactly <k><suffix> exists in ANY root of the
   loader chain (user search paths in order, then the package); rendered = that file in the FIRST root that has it
   (p_spec_rendered, over the chain that ends at Any).  True of the code, for EVERY sequence of lookups (frozen directories), when no
   built-in template of a nearer class is passed over for a user template of a more general class (sub-directory templates are no
   longer indexed, the walk stops at Any): *)
Theorem C16_rendered_file_partial :
  forall pol dirs pkg cs, (forall c, In c cs -> In c p_ids /\ p_shadow_freeb pol dirs pkg c = true) ->
    p_rendered_seq false pol dirs pkg cs = map (p_spec_rendered pol dirs pkg) cs.
Proof. exact p_rendered_seq_all. Qed.
Print Assumptions C16_rendered_file_partial.

(* VACUITY UNDER FIND_FIRST -- the only policy DSDLCodeGenerator (nnvg) uses: once a templates directory is given the package loader
   is not created, so built-in templates are UNREACHABLE: sentence 1 of the property ("user templates take precedence over built-in
   templates of the same name") has no instance, the no-shadow premise above is trivially true, and "nearest class for which a template
   exists" means "in the user directories".  E.g. `--templates` with only StructureType.j2 gives "No template found" for a delimited
   type although a built-in DelimitedType.j2 exists.  User-vs-built-in precedence is a statement about FIND_ALL (SupportGenerator /
   direct API use) only. *)
Theorem C16_find_first_builtins_unreachable :
  forall (rs : list (list path)) pkg,
    (forall name, p_get_source FIND_FIRST (Some rs) pkg name <> Some OPkg) /\
    (forall c, p_shadow_freeb FIND_FIRST (Some rs) pkg c = true) /\
    (forall q cs, p_lookup_seq q FIND_FIRST (Some rs) pkg cs = p_lookup_seq q FIND_FIRST (Some rs) None cs).
Proof. exact find_first_builtins_unreachable. Qed.
Print Assumptions C16_find_first_builtins_unreachable.

(* (1) since fix af716bd only top-level templates are indexed (C16_fix_state): the old witness of F-LOOKUP-SUBDIR-NAME renders what the
   property designates *)
Theorem C16_rendered_file_subdir_fixed :
  (forall pol dirs pkg, p_flatb pol dirs pkg = true) /\
  p_lookup_seq false FIND_FIRST (Some [[f_sub_struct; f_comp]]) (Some [f_struct]) [g_cls_StructureType] = [Some f_comp] /\
  p_rendered_seq false FIND_FIRST (Some [[f_sub_struct; f_comp]]) (Some [f_struct]) [g_cls_StructureType] = [Rendered (OUserDir 0) f_comp] /\
  p_spec_rendered FIND_FIRST (Some [[f_sub_struct; f_comp]]) (Some [f_struct]) g_cls_StructureType = Rendered (OUserDir 0) f_comp.
Proof. exact (conj p_flatb_true (subdir_name_fixed fact_index_top_level_only)). Qed.
Print Assumptions C16_rendered_file_subdir_fixed.

(* (2) refuted (finding F-LOOKUP-USER-GENERAL-FIRST; reading-dependent, DESIGN section 5 C16): under FIND_ALL a user CompositeType.j2
   is rendered for a structure although the package has StructureType.j2 *)
Theorem C16_rendered_file_refuted_user_general :
  p_rendered_seq false FIND_ALL (Some [[f_comp]]) (Some [f_struct]) [g_cls_StructureType] = [Rendered (OUserDir 0) f_comp] /\
  p_spec_rendered FIND_ALL (Some [[f_comp]]) (Some [f_struct]) g_cls_StructureType = Rendered OPkg f_struct /\
  p_shadow_freeb FIND_ALL (Some [[f_comp]]) (Some [f_struct]) g_cls_StructureType = false /\
  p_flatb FIND_ALL (Some [[f_comp]]) (Some [f_struct]) = true.
Proof. exact user_general_refuted. Qed.
Print Assumptions C16_rendered_file_refuted_user_general.

(* non-vacuity: two user search paths and the package, the more specific class only in the SECOND path -> rendered from there *)
Example C16_rendered_partial_premises_satisfiable :
  let dirs := Some [[f_comp]; [f_struct; f_comp]] in
  p_flatb FIND_ALL dirs (Some [f_struct]) = true /\ p_shadow_freeb FIND_ALL dirs (Some [f_struct]) g_cls_StructureType = true /\
  p_rendered_seq false FIND_ALL dirs (Some [f_struct]) [g_cls_StructureType] = [Rendered (OUserDir 1) f_struct].
Proof. exact rendered_partial_example. Qed.

(* the same at the level of names, for EVERY forest: the lookup equals "nearest class with a template in ANY set" exactly when
   shadow_freeb holds; refuted by forest 1 -> 0, user template for 0, built-in templates for 0 and 1 *)
Theorem C16_nearest_in_any_set_partial :
  forall (bases : cls -> list cls) (rank : cls -> nat),
    (forall c, (length (bases c) <= 1)%nat) -> (forall c p, In p (bases c) -> (rank p < rank c)%nat) ->
  forall fs pkg fuel c, (rank c < fuel)%nat ->
    shadow_freeb (Tof fs) (Tof pkg) (chain_n bases (rank c) c) = true ->
    snd (type_to_template bases false fs pkg fuel st0 c) = nearest_any (Tof fs) (Tof pkg) (chain_n bases (rank c) c).
Proof.
  intros bases rank H1 H2 fs pkg fuel c Hf Hs.
  rewrite (cold_lookup bases rank H1 H2 false fs pkg fuel c Hf). unfold spec, chain.
  rewrite spec_lookup_Tof. symmetry. exact (shadow_free_nearest _ _ _ Hs).
Qed.
Print Assumptions C16_nearest_in_any_set_partial.

Theorem C16_nearest_in_any_set_refuted :
  snd (type_to_template w_bases false (Some w_user) (Some w_pkg) 3 st0 1) <> nearest_any w_user w_pkg (chain_n w_bases (w_rank 1) 1)
  /\ shadow_freeb w_user w_pkg (chain_n w_bases (w_rank 1) 1) = false.
Proof. exact user_general_shadows_specific_builtin. Qed.
Print Assumptions C16_nearest_in_any_set_refuted.

(* (A8) facts about the regenerated pydsdl hierarchy and template listings *)
Theorem C16_single_inheritance_ok : forest_ok = true /\ names_nodup = true.
Proof. exact (conj forest_ok_true names_nodup_true). Qed.
Print Assumptions C16_single_inheritance_ok.

Theorem C16_real_forest_hypotheses :
  (forall c, (length (p_bases c) <= 1)%nat) /\ (forall c p, In p (p_bases c) -> (p_rank p < p_rank c)%nat) /\
  (forall c, (p_rank c < p_fuel)%nat).
Proof. exact (conj p_single (conj p_rank_ok p_rank_fuel)). Qed.
Print Assumptions C16_real_forest_hypotheses.

Theorem C16_real_lookup_nearest :
  forall q pol dirs pkg c, p_lookup_seq q pol dirs pkg [c] = p_spec_seq pol dirs pkg [c].
Proof. exact p_lookup_nearest. Qed.
Print Assumptions C16_real_lookup_nearest.

(* non-vacuity: the hypotheses of (A1)-(A4) hold of a concrete forest, and (A4)'s side condition of a shipped set *)
Example C16_forest_hypotheses_satisfiable :
  (forall c, (length (w_bases c) <= 1)%nat) /\ (forall c p, In p (w_bases c) -> (w_rank p < w_rank c)%nat).
Proof. exact (conj w_single w_rank_ok). Qed.


(* ---------------------------------------------------------------------------------------------------------------
   B. Instance tests *)

(* (B1) over the regenerated class list and the T2-translated alias rule: no two classes share a test name or alias, and
   none of them collides with a bundled jinja2 test or with a test of any target language (so add_test never raises) *)
Theorem C16_aliases_collision_free : aliases_collision_freeb = true.
Proof. exact aliases_collision_free_true. Qed.
Print Assumptions C16_aliases_collision_free.

Theorem C16_aliases_disjoint_from_builtin_tests : aliases_disjointb = true.
Proof. exact aliases_disjoint_true. Qed.
Print Assumptions C16_aliases_disjoint_from_builtin_tests.

(* (B1') availability and identity, for EVERY class of the regenerated forest below SerializableType or Attribute: the test named
   after the class and the test named by its short lower-case alias exist and are bound to THAT class; and the model's table is the
   same map as the table registered by the implementation (import-time dump of _create_all_dsdl_tests() with the class captured
   in each closure) *)
Theorem C16_tests_available_for_every_class :
  forall c, In c p_ids -> below_roots c = true ->
    aget p_tests (p_name c) = Some c /\ aget p_tests (p_alias (lower (p_name c))) = Some c.
Proof. exact p_tests_available. Qed.
Print Assumptions C16_tests_available_for_every_class.

Theorem C16_registered_tests_agree : registered_agree_ok = true.
Proof. exact registered_agree_true. Qed.
Print Assumptions C16_registered_tests_agree.

(* (B1'') `{% if v is <Class> %}` / `{% if v is <alias> %}` mean isinstance, for every such class and every value *)
Theorem C16_test_truth_is_isinstance :
  forall c v, In c p_ids -> below_roots c = true ->
    p_test false (p_name c) v = Some (is_inst (v_cls v) c || (is_inst (v_cls v) g_cls_Attribute && is_inst (v_dt v) c)) /\
    p_test false (p_alias (lower (p_name c))) v = Some (is_inst (v_cls v) c || (is_inst (v_cls v) g_cls_Attribute && is_inst (v_dt v) c)).
Proof. exact p_test_truth. Qed.
Print Assumptions C16_test_truth_is_isinstance.

(* (B2) LIVE: the T2 translation of _field_is_instance, for ANY isinstance relation:
   test(root)(v) = "v is an instance of root, or v is an attribute whose data type is an instance of root" *)
Theorem C16_test_agrees_with_membership :
  (forall isinst attr root vc vdt,
     g_field_is_instance isinst attr root vc vdt = isinst vc root || (isinst vc attr && isinst vdt root)) /\
  (forall name v, p_test false name v = p_test_spec name v).
Proof. exact (conj g_field_is_instance_spec p_test_agrees). Qed.
Print Assumptions C16_test_agrees_with_membership.

Theorem C16_test_model_agrees_with_membership :
  forall bases fuel attr root v, field_is_instance bases false fuel attr root v = spec_test bases fuel attr root v.
Proof. exact test_agrees_conformant. Qed.
Print Assumptions C16_test_model_agrees_with_membership.

(* on the real hierarchy the excluded case needs a root class of the Attribute family: no attribute class is related to a
   class below SerializableType *)
Theorem C16_attribute_family_disjoint : families_disjointb = true.
Proof. exact families_disjoint_true. Qed.
Print Assumptions C16_attribute_family_disjoint.

Example C16_partial_test_premise_satisfiable :
  isinst p_bases p_fuel g_cls_Attribute g_cls_Attribute && isinst p_bases p_fuel g_cls_Attribute g_cls_SerializableType = false.
Proof. vm_compute. reflexivity. Qed.

(* ---------------------------------------------------------------------------------------------------------------
   C. Environment: EVERY sequence of additions *)

(* (C1) without allow_filter_test_or_use_query_overwrite, after any sequence of filter/test additions that did not raise,
   every name that was defined before still maps to the same object, and globals are untouched *)
Theorem C16_add_never_shadows :
  forall (ops : list op) (e e' : env), run_ops false e ops = Some e' ->
    (forall k v, dget (e_filters e) k = Some v -> dget (e_filters e') k = Some v) /\
    (forall k v, dget (e_tests e) k = Some v -> dget (e_tests e') k = Some v) /\
    e_globals e' = e_globals e.
Proof. exact run_ops_preserves. Qed.
Print Assumptions C16_add_never_shadows.

(* (C2) ... and an addition whose name is already defined at that moment raises *)
Theorem C16_conflicting_add_is_error :
  forall ops1 ops2 e e1 n o, run_ops false e ops1 = Some e1 ->
    (dget (e_tests e1) n <> None -> run_ops false e (ops1 ++ OpTest n o :: ops2) = None) /\
    (dget (e_filters e1) n <> None -> run_ops false e (ops1 ++ OpFilter n o :: ops2) = None).
Proof.
  intros ops1 ops2 e e1 n o H. split; intros Hn.
  - exact (conflicting_test_is_error ops1 ops2 e e1 n o H Hn).
  - exact (conflicting_filter_is_error ops1 ops2 e e1 n o H Hn).
Qed.
Print Assumptions C16_conflicting_add_is_error.

(* (C3) globals: reserved names are rejected and, like the language's own globals, always end up as the environment's objects *)
Theorem C16_reserved_globals_protected :
  forall defaults reserved written lang q user,
    (forall n v, In (n, v) user -> str_in n reserved = true -> init_globals q defaults reserved written lang user = None) /\
    (forall g n, init_globals q defaults reserved written lang user = Some g ->
       (str_in n written = true -> dget g n = Some (if str_in n lang then OLang else OReserved)) /\
       (str_in n lang = true -> dget g n = Some OLang)).
Proof.
  intros defaults reserved written lang q user. split.
  - intros n v. exact (reserved_global_rejected defaults reserved written lang q user n v).
  - intros g n H. split; [exact (reserved_globals_protected defaults reserved written lang q user g n H)
                         | exact (lang_globals_protected defaults reserved written lang q user g n H)].
Qed.
Print Assumptions C16_reserved_globals_protected.

(* (C4) LIVE: with the T2-translated gate of CodeGenEnvironment.__init__, jinja's own default globals (range, dict, lipsum, cycler,
   joiner, namespace) survive every accepted additional_globals, and an additional global with such a name raises *)
Theorem C16_user_global_never_shadows_builtin :
  (forall lang user g n, init_globals p_gate_unchecked g_jinja_globals p_reserved g_init_written lang user = Some g ->
     str_in n g_jinja_globals = true -> str_in n g_init_written = false -> str_in n lang = false -> dget g n = Some OBuiltin) /\
  (forall lang n v, str_in n g_jinja_globals = true ->
     init_globals p_gate_unchecked g_jinja_globals p_reserved g_init_written lang [(n, v)] = None).
Proof. exact (conj p_user_global_never_shadows p_builtin_global_rejected). Qed.
Print Assumptions C16_user_global_never_shadows_builtin.

(* the same for any tables, given a gate that checks the names already present *)
Theorem C16_checked_gate_never_shadows_builtin :
  forall defaults reserved written lang user g n, init_globals false defaults reserved written lang user = Some g ->
    str_in n defaults = true -> str_in n written = false -> str_in n lang = false -> dget g n = Some OBuiltin.
Proof. exact builtin_globals_protected_checked. Qed.
Print Assumptions C16_checked_gate_never_shadows_builtin.

(* non-vacuity on the regenerated tables: `range` is a jinja default global that __init__ does not assign itself *)
Example C16_range_is_protected :
  str_in [114; 97; 110; 103; 101] g_jinja_globals = true /\ str_in [114; 97; 110; 103; 101] g_init_written = false /\
  init_globals p_gate_unchecked g_jinja_globals p_reserved g_init_written [] [([114; 97; 110; 103; 101], 0)] = None.
Proof. vm_compute. repeat split; reflexivity. Qed.
