(* C16 -- template resolution and environment contract.
   Statements only; every proof is `exact <lemma>` (or a 2-3 line composition).
   Models: Gen/Lookup.v (DSDLTemplateLoader: BFS over __bases__, the memo, get_source; instance tests),
   Gen/LookupEnv.v (CodeGenEnvironment's filters/tests/globals), Gen/LookupInst.v (both instantiated with
   Generated/Gen_Lookup.v, which is regenerated from /repo on every run: pydsdl class forest, built-in template listings,
   bundled jinja2 names, per-language environment names, RESERVED_GLOBAL_ sets, T2 translation of the alias rule).
   Quirk switches q_shared / q_dt_only / q_unchecked describe the code BEFORE fixes 1341207 / d35e4ad / 6db3613; the `_refuted` and
   `_partial` theorems about them are kept as documentation.  The LIVE theorems are the full ones: C16_cache_transparent (memo keyed
   by (walk, class)), C16_real_cache_transparent, C16_test_agrees_with_membership (T2-translated _field_is_instance),
   C16_user_global_never_shadows_builtin (T2-translated gate). *)
From Verif Require Import Str Lookup LookupThm LookupEnv LookupEnvThm Gen_Lookup LookupInst LookupInstThm Gen_Pin_c16_loader Gen_Pin_c16_env.
From Coq Require Import Permutation.
Import ListNotations.
Open Scope N_scope.

(* Shape pins: the hand models of DSDLTemplateLoader.__init__/get_source/type_to_template/_filter_template_list_by_suffix/
   _type_to_template_internal + DSDLCodeGenerator.filter_type_to_template (Gen/Lookup.v) and of CodeGenEnvironment._add_to_environment/
   add_test/_add_each_to_environment (Gen/LookupEnv.v) are valid for ONE shape of these functions; the pin files are regenerated from
   /repo on every run and define pin_..._ok only when the normalised AST is the one the model was written for. *)
Example C16_loader_shape_pinned : pin_c16_loader_ok = true.
Proof. reflexivity. Qed.
Example C16_env_shape_pinned : pin_c16_env_ok = true.
Proof. reflexivity. Qed.

(* ---------------------------------------------------------------------------------------------------------------
   A. Resolution.  EVERY class graph with single inheritance and a well-founded rank (no size bound), every pair of
   template mappings, either memo discipline. *)

(* (A1) a lookup on a fresh loader returns the template of the nearest class of the inheritance chain that has one in the
   user set; only if the WHOLE chain has none there, the nearest one in the built-in set; else None.  (So under FIND_ALL a user
   CompositeType.j2 beats a built-in StructureType.j2 for a structure: this is what the code does, see design_notes/C16.md.) *)
Theorem C16_lookup_nearest :
  forall (bases : cls -> list cls) (rank : cls -> nat),
    (forall c, (length (bases c) <= 1)%nat) -> (forall c p, In p (bases c) -> (rank p < rank c)%nat) ->
  forall (q_shared : bool) (fs pkg : option (cls -> option path)) (fuel : nat) (c : cls), (rank c < fuel)%nat ->
    snd (type_to_template bases q_shared fs pkg fuel st0 c) = spec_lookup fs pkg (chain_n bases (rank c) c).
Proof. exact cold_lookup. Qed.
Print Assumptions C16_lookup_nearest.

(* (A2) LIVE: the memo is keyed by (walk, class): every sequence of lookups returns, at every position, what a fresh loader returns *)
Theorem C16_cache_transparent :
  forall (bases : cls -> list cls) (rank : cls -> nat),
    (forall c, (length (bases c) <= 1)%nat) -> (forall c p, In p (bases c) -> (rank p < rank c)%nat) ->
  forall (fs pkg : option (cls -> option path)) (fuel : nat) (cs : list cls), (forall c, In c cs -> (rank c < fuel)%nat) ->
    run_seq bases false fs pkg fuel st0 cs = map (fun c => spec_lookup fs pkg (chain_n bases (rank c) c)) cs.
Proof.
  intros bases rank H1 H2 fs pkg fuel cs Hf.
  exact (run_seq_sep bases rank H1 H2 fs pkg fuel cs st0 Hf (inv_sep_nil fs pkg)).
Qed.
Print Assumptions C16_cache_transparent.

(* (A3) documentation of the code before fix 1341207 (memo keyed by class only, shared by both walks).  The full statement was false:
   forest 1 -> 0 <- 2, no user template, built-in templates for 0 and 1; looking up 2 and then 1 yields the template of 0
   for class 1 (finding F-LOOKUP-MEMO-CROSS). *)
Theorem C16_cache_transparent_refuted :
  exists (bases : cls -> list cls) (rank : cls -> nat) (fs pkg : option (cls -> option path)) (cs : list cls),
    (forall c, (length (bases c) <= 1)%nat) /\ (forall c p, In p (bases c) -> (rank p < rank c)%nat) /\
    (forall c, In c cs -> (rank c < 3)%nat) /\
    run_seq bases true fs pkg 3 st0 cs <> map (fun c => spec_lookup fs pkg (chain_n bases (rank c) c)) cs.
Proof.
  exists w_bases, w_rank, (Some (fun _ => None)), (Some w_pkg), [2; 1].
  split; [exact w_single|]. split; [exact w_rank_ok|]. split; [|exact shared_memo_refuted].
  intros c [<-|[<-|[]]]; vm_compute; lia.
Qed.
Print Assumptions C16_cache_transparent_refuted.

(* (A4) ... and the strongest true statement: the shared memo is transparent for every sequence whenever only one loader
   exists or the built-in set has no template for a class AND for one of its proper ancestors. *)
Theorem C16_cache_transparent_partial :
  forall (bases : cls -> list cls) (rank : cls -> nat),
    (forall c, (length (bases c) <= 1)%nat) -> (forall c p, In p (bases c) -> (rank p < rank c)%nat) ->
  forall (fs pkg : option (cls -> option path)) (fuel : nat) (cs : list cls), (forall c, In c cs -> (rank c < fuel)%nat) ->
    (fs = None \/ pkg = None \/
     (forall c a, Tof pkg c <> None -> In a (tl (chain_n bases (rank c) c)) -> Tof pkg a = None)) ->
    run_seq bases true fs pkg fuel st0 cs = map (fun c => spec_lookup fs pkg (chain_n bases (rank c) c)) cs.
Proof.
  intros bases rank H1 H2 fs pkg fuel cs Hf Hok.
  exact (run_seq_sh bases rank H1 H2 fs pkg fuel Hok cs st0 Hf (inv_sh_nil bases rank fs pkg)).
Qed.
Print Assumptions C16_cache_transparent_partial.

(* (A5) every built-in template set shipped in /repo (regenerated listing) satisfies the condition of (A4): for every
   user-directory listing, either search policy and EVERY sequence of lookups on the real pydsdl hierarchy the unchanged
   loader returns the nearest-ancestor result. *)
Theorem C16_shipped_sets_cache_transparent :
  forall lang l pol dirs cs, In (lang, l) g_builtin_listings ->
    p_lookup_seq true pol dirs (Some l) cs = p_spec_seq pol dirs (Some l) cs.
Proof. exact p_shipped_transparent. Qed.
Print Assumptions C16_shipped_sets_cache_transparent.

(* (A5') LIVE, on the real pydsdl hierarchy: any raw directory listings (every kind of file name), either policy, EVERY sequence *)
Theorem C16_real_cache_transparent :
  forall pol dirs pkg cs, p_lookup_seq false pol dirs pkg cs = p_spec_seq pol dirs pkg cs.
Proof. exact p_cache_transparent. Qed.
Print Assumptions C16_real_cache_transparent.

(* (A5'') the index built from a listing (suffix filter + Path.stem, both modelled): a class can only get a file whose NAME is
   exactly <ClassName><TEMPLATE_SUFFIX> (so X.inc.j2, X.draft.j2, Xy.j2, x.j2, X.j2.bak, X.txt never count), and such a name does
   count for every class of the regenerated forest *)
Theorem C16_only_exact_template_names :
  forall listing c p, tmap p_name (p_tset listing) c = Some p -> In p listing /\ basename p = p_name c ++ g_template_suffix.
Proof. exact p_only_exact_names. Qed.
Print Assumptions C16_only_exact_template_names.

Theorem C16_class_names_indexed : class_names_index_ok = true.
Proof. exact class_names_index_true. Qed.
Print Assumptions C16_class_names_indexed.

(* (A6) directory enumeration order: two listings with the same entries (unique stems) in ANY order give the same results
   for every sequence, memo discipline and start state. *)
Theorem C16_enum_order_indep :
  forall bases q cname fuel (d d' p p' : option (list (str * path))) st cs,
    operm d d' -> operm p p' ->
    run_seq bases q (option_map (tmap cname) d) (option_map (tmap cname) p) fuel st cs =
    run_seq bases q (option_map (tmap cname) d') (option_map (tmap cname) p') fuel st cs.
Proof. exact enum_order_indep_lemma. Qed.
Print Assumptions C16_enum_order_indep.

(* (A7) get_source: a user template shadows the built-in template of the same name; the built-in one is the fallback *)
Theorem C16_user_shadows_builtin :
  forall (fs : list path) pkg name, has_file fs name = true -> get_source (Some fs) pkg name = Some SrcFs.
Proof. exact get_source_user_first. Qed.
Print Assumptions C16_user_shadows_builtin.

Theorem C16_builtin_is_fallback :
  forall fs pkg name, has_file fs name = false -> has_file pkg name = true -> get_source (Some fs) (Some pkg) name = Some SrcPkg.
Proof. exact get_source_fallback. Qed.
Print Assumptions C16_builtin_is_fallback.

(* (A8) facts about the regenerated pydsdl hierarchy and template listings *)
Theorem C16_single_inheritance_ok : forest_ok = true /\ names_nodup = true.
Proof. exact (conj forest_ok_true names_nodup_true). Qed.
Print Assumptions C16_single_inheritance_ok.

Theorem C16_real_forest_hypotheses :
  (forall c, (length (p_bases c) <= 1)%nat) /\ (forall c p, In p (p_bases c) -> (p_rank p < p_rank c)%nat) /\
  (forall c, (p_rank c < p_fuel)%nat).
Proof. exact (conj p_single (conj p_rank_ok p_rank_fuel)). Qed.
Print Assumptions C16_real_forest_hypotheses.

Theorem C16_real_lookup_nearest :
  forall q pol dirs pkg c, p_lookup_seq q pol dirs pkg [c] = p_spec_seq pol dirs pkg [c].
Proof. exact p_lookup_nearest. Qed.
Print Assumptions C16_real_lookup_nearest.

(* non-vacuity: the hypotheses of (A1)-(A4) hold of a concrete forest, and (A4)'s side condition of a shipped set *)
Example C16_forest_hypotheses_satisfiable :
  (forall c, (length (w_bases c) <= 1)%nat) /\ (forall c p, In p (w_bases c) -> (w_rank p < w_rank c)%nat).
Proof. exact (conj w_single w_rank_ok). Qed.

Example C16_shipped_sets_nonempty : (length g_builtin_templates >= 3)%nat /\ builtin_sets_antichain = true.
Proof. split; [vm_compute; lia | exact builtin_sets_antichain_true]. Qed.

(* ---------------------------------------------------------------------------------------------------------------
   B. Instance tests *)

(* (B1) over the regenerated class list and the T2-translated alias rule: no two classes share a test name or alias, and
   none of them collides with a bundled jinja2 test or with a test of any target language (so add_test never raises) *)
Theorem C16_aliases_collision_free : aliases_collision_freeb = true.
Proof. exact aliases_collision_free_true. Qed.
Print Assumptions C16_aliases_collision_free.

Theorem C16_aliases_disjoint_from_builtin_tests : aliases_disjointb = true.
Proof. exact aliases_disjoint_true. Qed.
Print Assumptions C16_aliases_disjoint_from_builtin_tests.

(* (B2) LIVE: the T2 translation of _field_is_instance, for ANY isinstance relation:
   test(root)(v) = "v is an instance of root, or v is an attribute whose data type is an instance of root" *)
Theorem C16_test_agrees_with_membership :
  (forall isinst attr root vc vdt,
     g_field_is_instance isinst attr root vc vdt = isinst vc root || (isinst vc attr && isinst vdt root)) /\
  (forall name v, p_test false name v = p_test_spec name v).
Proof. exact (conj g_field_is_instance_spec p_test_agrees). Qed.
Print Assumptions C16_test_agrees_with_membership.

Theorem C16_test_model_agrees_with_membership :
  forall bases fuel attr root v, field_is_instance bases false fuel attr root v = spec_test bases fuel attr root v.
Proof. exact test_agrees_conformant. Qed.
Print Assumptions C16_test_model_agrees_with_membership.

(* documentation of the code before fix d35e4ad: it looked only at .data_type when the value is an attribute: false for an attribute that is itself an
   instance of the root class (finding F-ATTR-TESTS-CONST-FALSE: `f is padding`, `attr is Field` are never true) *)
Theorem C16_test_agrees_with_membership_refuted :
  exists bases fuel attr root v, field_is_instance bases true fuel attr root v <> spec_test bases fuel attr root v.
Proof. exists w_bases, 3%nat, 0, 1, {| v_cls := 1; v_dt := 5 |}. exact test_agrees_refuted_lemma. Qed.
Print Assumptions C16_test_agrees_with_membership_refuted.

Theorem C16_test_agrees_with_membership_partial :
  forall bases fuel attr root v,
    isinst bases fuel (v_cls v) attr && isinst bases fuel (v_cls v) root = false ->
    field_is_instance bases true fuel attr root v = spec_test bases fuel attr root v.
Proof. exact test_agrees_partial_lemma. Qed.
Print Assumptions C16_test_agrees_with_membership_partial.

(* on the real hierarchy the excluded case needs a root class of the Attribute family: no attribute class is related to a
   class below SerializableType *)
Theorem C16_attribute_family_disjoint : families_disjointb = true.
Proof. exact families_disjoint_true. Qed.
Print Assumptions C16_attribute_family_disjoint.

Example C16_partial_test_premise_satisfiable :
  isinst p_bases p_fuel g_cls_Attribute g_cls_Attribute && isinst p_bases p_fuel g_cls_Attribute g_cls_SerializableType = false.
Proof. vm_compute. reflexivity. Qed.

(* ---------------------------------------------------------------------------------------------------------------
   C. Environment: EVERY sequence of additions *)

(* (C1) without allow_filter_test_or_use_query_overwrite, after any sequence of filter/test additions that did not raise,
   every name that was defined before still maps to the same object, and globals are untouched *)
Theorem C16_add_never_shadows :
  forall (ops : list op) (e e' : env), run_ops false e ops = Some e' ->
    (forall k v, dget (e_filters e) k = Some v -> dget (e_filters e') k = Some v) /\
    (forall k v, dget (e_tests e) k = Some v -> dget (e_tests e') k = Some v) /\
    e_globals e' = e_globals e.
Proof. exact run_ops_preserves. Qed.
Print Assumptions C16_add_never_shadows.

(* (C2) ... and an addition whose name is already defined at that moment raises *)
Theorem C16_conflicting_add_is_error :
  forall ops1 ops2 e e1 n o, run_ops false e ops1 = Some e1 ->
    (dget (e_tests e1) n <> None -> run_ops false e (ops1 ++ OpTest n o :: ops2) = None) /\
    (dget (e_filters e1) n <> None -> run_ops false e (ops1 ++ OpFilter n o :: ops2) = None).
Proof.
  intros ops1 ops2 e e1 n o H. split; intros Hn.
  - exact (conflicting_test_is_error ops1 ops2 e e1 n o H Hn).
  - exact (conflicting_filter_is_error ops1 ops2 e e1 n o H Hn).
Qed.
Print Assumptions C16_conflicting_add_is_error.

(* (C3) globals: reserved names are rejected and, like the language's own globals, always end up as the environment's objects *)
Theorem C16_reserved_globals_protected :
  forall defaults reserved written lang q user,
    (forall n v, In (n, v) user -> str_in n reserved = true -> init_globals q defaults reserved written lang user = None) /\
    (forall g n, init_globals q defaults reserved written lang user = Some g ->
       (str_in n written = true -> dget g n = Some (if str_in n lang then OLang else OReserved)) /\
       (str_in n lang = true -> dget g n = Some OLang)).
Proof.
  intros defaults reserved written lang q user. split.
  - intros n v. exact (reserved_global_rejected defaults reserved written lang q user n v).
  - intros g n H. split; [exact (reserved_globals_protected defaults reserved written lang q user g n H)
                         | exact (lang_globals_protected defaults reserved written lang q user g n H)].
Qed.
Print Assumptions C16_reserved_globals_protected.

(* (C4) LIVE: with the T2-translated gate of CodeGenEnvironment.__init__, jinja's own default globals (range, dict, lipsum, cycler,
   joiner, namespace) survive every accepted additional_globals, and an additional global with such a name raises *)
Theorem C16_user_global_never_shadows_builtin :
  (forall lang user g n, init_globals p_gate_unchecked g_jinja_globals p_reserved g_init_written lang user = Some g ->
     str_in n g_jinja_globals = true -> str_in n g_init_written = false -> str_in n lang = false -> dget g n = Some OBuiltin) /\
  (forall lang n v, str_in n g_jinja_globals = true ->
     init_globals p_gate_unchecked g_jinja_globals p_reserved g_init_written lang [(n, v)] = None).
Proof. exact (conj p_user_global_never_shadows p_builtin_global_rejected). Qed.
Print Assumptions C16_user_global_never_shadows_builtin.

(* the same for any tables, given a gate that checks the names already present *)
Theorem C16_checked_gate_never_shadows_builtin :
  forall defaults reserved written lang user g n, init_globals false defaults reserved written lang user = Some g ->
    str_in n defaults = true -> str_in n written = false -> str_in n lang = false -> dget g n = Some OBuiltin.
Proof. exact builtin_globals_protected_checked. Qed.
Print Assumptions C16_checked_gate_never_shadows_builtin.

(* documentation of the code before fix 6db3613: the gate only checked the reserved names (F-ENV-GLOBALS) *)
Theorem C16_user_global_shadows_builtin_refuted :
  forall defaults reserved written lang n,
    str_in n defaults = true -> str_in n reserved = false -> str_in n written = false -> str_in n lang = false ->
    exists g, init_globals true defaults reserved written lang [(n, 0)] = Some g /\ dget g n = Some (OUser 0).
Proof. exact user_global_shadows_builtin. Qed.
Print Assumptions C16_user_global_shadows_builtin_refuted.

Theorem C16_user_global_shadows_builtin_partial :
  forall defaults reserved written lang user g n, init_globals true defaults reserved written lang user = Some g ->
    str_in n (map fst user) = false ->
    str_in n defaults = true -> str_in n written = false -> str_in n lang = false -> dget g n = Some OBuiltin.
Proof. exact builtin_globals_protected_partial. Qed.
Print Assumptions C16_user_global_shadows_builtin_partial.

(* non-vacuity on the regenerated tables: `range` is a jinja default global that __init__ does not assign itself *)
Example C16_range_is_protected :
  str_in [114; 97; 110; 103; 101] g_jinja_globals = true /\ str_in [114; 97; 110; 103; 101] g_init_written = false /\
  init_globals p_gate_unchecked g_jinja_globals p_reserved g_init_written [] [([114; 97; 110; 103; 101], 0)] = None.
Proof. vm_compute. repeat split; reflexivity. Qed.
