(* C18 -- generated Python data objects validate, reflect and convert faithfully.
   Statements only; proofs in Gen/PyObjThm.v.  Model: Gen/PyObj.v instantiated with the template facts `tmpl_gen` and the
   translated `pick_width_gen` of Generated/Gen_PyObj.v (regenerated from /repo on every run).
   q = true is the shipped behaviour (quirk F-PY-ARRELEM), q = false the conformant variant.
   wfv PW db false v : every instance embedded in v honours the contract (scalars in range, array dtype and length legal,
                       a union holds exactly one option, recursively); wfv PW db true additionally: integer array elements
                       are within the range of the DSDL element type.
   db_wok db : what pydsdl guarantees of every type database (a union has options, signed widths <= 64). *)
From Coq Require Import List NArith ZArith Bool.
From Verif Require Import PyObj Gen_PyObj Gen_Pin_c18support PyObjThm PyObjThmRt PyObjThmRt2 PyObjThmWrap.
Import ListNotations.
Open Scope Z_scope.

(* pick_width of filter_numpy_scalar_type picks the least of 8/16/32/64 that holds the width *)
Theorem C18_pick_width_spec : forall w, 1 <= w <= 64 ->
  exists o, pick_width_gen w = Some o /\ In o [8;16;32;64] /\ w <= o /\
            (forall o', In o' [8;16;32;64] -> w <= o' -> o <= o').
Proof. exact pick_width_spec. Qed.
Print Assumptions C18_pick_width_spec.

(* after ANY sequence of constructor / setter / update_from_builtin operations, for every type database, type and quirk
   setting: scalars in range, array dtype/length legal, exactly one union option -- recursively *)
Theorem C18_obj_invariant : forall q db tid ops, db_wok db = true ->
  wfv pick_width_gen db false (run tmpl_gen pick_width_gen q db tid ops) = true.
Proof. exact obj_invariant. Qed.
Print Assumptions C18_obj_invariant.

(* the full contract (array elements within the DSDL range too) holds for the conformant variant ... *)
Theorem C18_obj_invariant_strict_noquirk : forall db tid ops, db_wok db = true ->
  wfv pick_width_gen db true (run tmpl_gen pick_width_gen false db tid ops) = true.
Proof. exact obj_invariant_strict_noquirk. Qed.
Print Assumptions C18_obj_invariant_strict_noquirk.

(* ... is refuted for the shipped code: uint4[<=3] = [200, 3], the bytes fast path, float16[<=2] = [1e6] ... *)
Theorem C18_array_elem_range_refuted : exists db tid ops,
  wfv pick_width_gen db true (run tmpl_gen pick_width_gen true db tid ops) = false.
Proof. exact array_elem_range_refuted. Qed.
Print Assumptions C18_array_elem_range_refuted.

Theorem C18_array_elem_bytes_refuted : exists db tid ops,
  wfv pick_width_gen db true (run tmpl_gen pick_width_gen true db tid ops) = false.
Proof. exact array_elem_bytes_refuted. Qed.
Print Assumptions C18_array_elem_bytes_refuted.

Theorem C18_float_array_elem_unchecked :
  assign_array tmpl_gen pick_width_gen true false 2 false (EPrim (KF 16)) (PList [PFloat 4696837146684686336])
  = Ok (PArr (DF 16) [PFloat 9218868437227405312])                                (* [1e6] is stored as [+inf] *)
  /\ set_prim tmpl_gen (KF 16) (PFloat 4696837146684686336) = Raise ValueError.    (* the scalar setter rejects 1e6 *)
Proof. exact (conj float_array_elem_unchecked float_scalar_checked). Qed.
Print Assumptions C18_float_array_elem_unchecked.

(* ... and holds for the shipped code on every type database without arrays of non-standard-width integers *)
Theorem C18_obj_invariant_partial : forall db tid ops, db_wok db = true -> db_std_elems pick_width_gen db = true ->
  wfv pick_width_gen db true (run tmpl_gen pick_width_gen true db tid ops) = true.
Proof. exact obj_invariant_partial. Qed.
Print Assumptions C18_obj_invariant_partial.

(* the theorem that is live for the tree in /repo: `arrelem_quirk_gen` (Generated/Gen_PyObj.v) says whether the scanned assign_array
   macro still stores unchecked elements (true: the partial statement applies) or has the shape of the fix (false: full contract
   for every type database) *)
Theorem C18_obj_invariant_live : forall db tid ops, db_wok db = true ->
  (arrelem_quirk_gen = false \/ db_std_elems pick_width_gen db = true) ->
  wfv pick_width_gen db true (run tmpl_gen pick_width_gen arrelem_quirk_gen db tid ops) = true.
Proof. exact obj_invariant_live. Qed.
Print Assumptions C18_obj_invariant_live.

(* the conformant variant treats float16/32 array elements like the scalar setter: 1e6 raises, 65504.0 and +inf are stored *)
Theorem C18_float_array_elem_noquirk :
  assign_array tmpl_gen pick_width_gen false false 2 false (EPrim (KF 16)) (PList [PFloat 4696837146684686336]) = Raise ValueError
  /\ assign_array tmpl_gen pick_width_gen false false 2 false (EPrim (KF 16)) (PList [PFloat 4679235614791434240; PFloat 9218868437227405312])
     = Ok (PArr (DF 16) [PFloat 4679235614791434240; PFloat 9218868437227405312]).
Proof. exact (conj float_array_elem_checked_noquirk float_array_elem_boundary_noquirk). Qed.
Print Assumptions C18_float_array_elem_noquirk.

(* F-PY-ARRWRAP.  `set_precheck b tmpl_gen` is the scanned template with the fact "the conversion path range-checks the source
   before np.array(src, dtype) casts it" set to b; `tmpl_gen` itself is one of the two (C18_tmpl_live).
   Without the pre-check an ndarray of another dtype wraps around silently ... *)
Theorem C18_array_elem_wrap_refuted : forall q,
  assign_array (set_precheck false tmpl_gen) pick_width_gen q false 4 false (EPrim (KU 8)) (PArr (DS 64) [PInt 256; PInt 1])
  = Ok (PArr (DU 8) [PInt 0; PInt 1])
  /\ assign_array (set_precheck false tmpl_gen) pick_width_gen q true 2 false (EPrim (KS 16)) (PArr (DS 64) [PInt 70000; PInt 1])
     = Ok (PArr (DS 16) [PInt 4464; PInt 1]).
Proof. intro q. exact (conj (array_elem_wrap_refuted q) (array_elem_wrap_signed_refuted q)). Qed.
Print Assumptions C18_array_elem_wrap_refuted.

(* ... while Python ints are never wrapped (the trigger is exactly "inside an ndarray of another dtype") ... *)
Theorem C18_array_src_partial : forall q fixed cap sl k zs v, (exists w, k = KU w \/ k = KS w) ->
  assign_array (set_precheck false tmpl_gen) pick_width_gen q fixed cap sl (EPrim k) (PList (map PInt zs)) = Ok v ->
  v = PArr (dtype_of pick_width_gen (EPrim k)) (map PInt zs) /\
  Forall (fun z => fits (dtype_of pick_width_gen (EPrim k)) (PInt z) = true) zs.
Proof. exact array_src_partial. Qed.
Print Assumptions C18_array_src_partial.

(* ... and with the pre-check every accepted integer ndarray of another dtype is stored unchanged and lies within the FIELD's range *)
Theorem C18_array_src_checked : forall q fixed cap w dt' zs v, 1 <= w <= 64 -> dtype_eqb dt' (DU (pwd pick_width_gen w)) = false ->
  assign_array (set_precheck true tmpl_gen) pick_width_gen q fixed cap false (EPrim (KU w)) (PArr dt' (map PInt zs)) = Ok v ->
  v = PArr (DU (pwd pick_width_gen w)) (map PInt zs) /\ Forall (fun z => urange w z = true) zs.
Proof. exact array_src_checked_nowrap. Qed.
Print Assumptions C18_array_src_checked.

Theorem C18_array_src_checked_ndarray : forall q fixed cap k dt' l v, (exists w, k = KU w \/ k = KS w) ->
  dtype_eqb dt' (dtype_of pick_width_gen (EPrim k)) = false ->
  assign_array (set_precheck true tmpl_gen) pick_width_gen q fixed cap false (EPrim k) (PArr dt' l) = Ok v ->
  forallb (int_leaf_ok (EPrim k)) l = true /\ (forall z, In (PInt z) l -> int_in_range k z = true).
Proof. exact array_src_checked_ndarray. Qed.
Print Assumptions C18_array_src_checked_ndarray.

Theorem C18_tmpl_live : tmpl_gen = set_precheck (t_arr_precheck tmpl_gen) tmpl_gen.
Proof. exact tmpl_live. Qed.

(* a raising property setter leaves the object as it was *)
Theorem C18_reject_means_unchanged : forall q db tid o i e o' ex,
  step tmpl_gen pick_width_gen q db tid o (OSet i e) = (o', Some ex) -> o' = o.
Proof. exact reject_means_unchanged. Qed.
Print Assumptions C18_reject_means_unchanged.

Theorem C18_set_slot_reject_unchanged : forall q c slots i x s' e,
  set_slot tmpl_gen pick_width_gen q c slots i x = (s', Some e) -> s' = slots.
Proof. exact set_slot_reject_unchanged. Qed.
Print Assumptions C18_set_slot_reject_unchanged.

(* a successful union setter leaves exactly the option it set *)
Theorem C18_union_single_option : forall q c slots i x s',
  c_union c = true -> length slots = length (c_fields c) -> set_slot tmpl_gen pick_width_gen q c slots i x = (s', None) ->
  count_active s' = 1%nat /\
  (exists v, nth_error s' i = Some v /\ is_none v = false) /\
  (forall j s, j <> i -> nth_error s' j = Some s -> s = PNone).
Proof. exact union_single_option. Qed.
Print Assumptions C18_union_single_option.

(* the checks are exact: every legal value is accepted unchanged, every illegal one raises ValueError *)
Theorem C18_int_setter_exact : forall k z, (exists w, k = KU w \/ k = KS w) ->
  set_prim tmpl_gen k (PInt z) = if int_in_range k z then Ok (PInt z) else Raise ValueError.
Proof. exact int_setter_exact. Qed.
Print Assumptions C18_int_setter_exact.

Theorem C18_float_setter_exact : forall w x, w < 64 ->
  set_prim tmpl_gen (KF w) (PFloat x) = if f_in_range w x || negb (f_isfinite x) then Ok (PFloat x) else Raise ValueError.
Proof. exact float_setter_exact. Qed.
Print Assumptions C18_float_setter_exact.

Theorem C18_array_length_exact : forall q fixed cap sl w zs, 1 <= w <= 64 -> Forall (fun z => urange w z = true) zs ->
  assign_array tmpl_gen pick_width_gen q fixed cap sl (EPrim (KU w)) (PList (map PInt zs)) =
  if (if fixed then Nat.eqb (length zs) cap else Nat.leb (length zs) cap)
  then Ok (PArr (DU (pwd pick_width_gen w)) (map PInt zs)) else Raise ValueError.
Proof. exact array_length_exact. Qed.
Print Assumptions C18_array_length_exact.

(* whatever a setter stores satisfies the contract of its field (any field type with signed element widths <= 64, any argument) *)
Theorem C18_field_value_ok : forall q db f x v, ftype_wok f = true -> wfv pick_width_gen db false x = true ->
  field_value tmpl_gen pick_width_gen q f x = Ok v ->
  field_ok pick_width_gen false f v = true /\ wfv pick_width_gen db false v = true /\ is_none v = false.
Proof. exact field_value_ok. Qed.
Print Assumptions C18_field_value_ok.

(* constructors and update_from_builtin (also when it raises half-way) preserve the contract *)
Theorem C18_construct_ok : forall q db (strict : bool),
  (strict = false \/ q = false \/ db_std_elems pick_width_gen db = true) -> db_wok db = true ->
  forall tid kw o, forallb (wfv pick_width_gen db strict) kw = true -> construct tmpl_gen pick_width_gen q db tid kw = Ok o ->
  wfv pick_width_gen db strict o = true.
Proof. exact construct_ok. Qed.
Print Assumptions C18_construct_ok.

Theorem C18_update_from_builtin_ok : forall q db (strict : bool),
  (strict = false \/ q = false \/ db_std_elems pick_width_gen db = true) -> db_wok db = true ->
  forall fuel o src, wfv pick_width_gen db strict o = true -> wfv pick_width_gen db strict src = true ->
  wfv pick_width_gen db strict (fst (ufb tmpl_gen pick_width_gen q db fuel o src)) = true.
Proof. exact ufb_ok. Qed.
Print Assumptions C18_update_from_builtin_ok.

(* to_builtin followed by update_from_builtin on ANY instance of the class (in particular a fresh default one) reproduces
   the object, for every struct/union type whose fields are scalars or arrays of primitives (`ftype_flat`: float16/32 arrays
   and nested composites excluded -- those are covered by the correspondence run only) *)
Theorem C18_builtin_roundtrip_flat : forall q db tid c slots dslots b fuel,
  nth_error db tid = Some c -> forallb ftype_flat (c_fields c) = true ->
  obj_ok pick_width_gen false c slots = true -> (need_strict q -> obj_ok pick_width_gen true c slots = true) ->
  length dslots = length (c_fields c) ->
  tb db (PObj tid slots) = Some b ->
  ufb tmpl_gen pick_width_gen q db (S fuel) (PObj tid dslots) b = (PObj tid slots, None).
Proof. exact builtin_roundtrip_flat. Qed.
Print Assumptions C18_builtin_roundtrip_flat.

(* the full statement, for every type of every database: nested struct/union fields, arrays of composites, float16/32 arrays.
   Premises (decidable, each shown necessary by a vm_compute counterexample in Gen/PyObjThmRt2.v, theorems roundtrip_needs_...):
   db_strok (string-like arrays are arrays of uint<=8), db_defaults_ok (every default constructor succeeds), rt_ok (elements of
   composite arrays are instances of the element class -- the template does not check that, see below --, float16/32 array elements
   are representable in their storage type [true of every value NumPy stores; not proved for reachable states: needs idempotence of
   the rounding model], and for the conformant variant within the range), enough fuel for the nesting depth of the value *)
Theorem C18_builtin_roundtrip : forall q db fuel tid slots b,
  db_strok db = true -> db_defaults_ok q db = true ->
  let o := PObj tid slots in
  wfv pick_width_gen db false o = true -> (need_strict q -> wfv pick_width_gen db true o = true) -> rt_ok q db o = true ->
  tb db o = Some b -> (vdepth o <= fuel)%nat ->
  ufb tmpl_gen pick_width_gen q db fuel (default_obj tmpl_gen pick_width_gen q db tid) b = (o, None).
Proof. exact builtin_roundtrip. Qed.
Print Assumptions C18_builtin_roundtrip.

(* the gap, stated precisely: elements of composite arrays are not isinstance-checked by the template (both variants) *)
Theorem C18_composite_array_elem_unchecked : forall q,
  field_value tmpl_gen pick_width_gen q (FArr false 2 false (EComp 0)) (PList [PInt 1]) = Ok (PArr DObj [PInt 1]).
Proof. exact composite_array_elem_unchecked. Qed.
Print Assumptions C18_composite_array_elem_unchecked.

Example C18_builtin_roundtrip_nonvacuous : forall q,
  rt_premises q ex_db 3 2 ex_obj_slots = true /\
  exists b, tb ex_db (PObj 2 ex_obj_slots) = Some b /\
            ufb tmpl_gen pick_width_gen q ex_db 3 (default_obj tmpl_gen pick_width_gen q ex_db 2) b = (PObj 2 ex_obj_slots, None).
Proof. exact builtin_roundtrip_example. Qed.

Example C18_roundtrip_nonvacuous :
  let db := [ {| c_union := true; c_fields := [FScalar (EPrim (KS 12)); FArr false 5 true (EPrim (KU 8)); FScalar (EPrim (KF 16))] |} ] in
  let o := PObj 0 [PNone; PArr (DU 8) [PInt 104; PInt 105]; PNone] in
  forallb ftype_flat (c_fields (nth 0 db {| c_union := false; c_fields := [] |})) = true
  /\ tb db o = Some (PDict [(1%nat, PStr [104%N; 105%N])])
  /\ ufb tmpl_gen pick_width_gen true db 3 (default_obj tmpl_gen pick_width_gen true db 0) (PDict [(1%nat, PStr [104%N; 105%N])]) = (o, None).
Proof. vm_compute. repeat split; reflexivity. Qed.

(* the functions of nunavut_support.j2 that `tb`, `ufb` and the class lookups of Gen/PyObj.v model by hand (to_builtin,
   _to_builtin_impl, update_from_builtin, get_class, get_model, get_attribute, set_attribute) still have the pinned shape *)
Example C18_support_shape_pinned : pin_c18support_ok = true.
Proof. reflexivity. Qed.

(* non-vacuity: the hypotheses are satisfiable by a database with a union, nested composites and arrays, and the
   refutation witness itself is a well-formed database on which only the element clause fails *)
Example C18_db_wok_satisfiable :
  db_wok [ {| c_union := false; c_fields := [FScalar (EPrim (KU 4)); FArr false 3 false (EPrim (KU 4))] |};
           {| c_union := true; c_fields := [FScalar (EPrim (KF 16)); FScalar (EComp 0); FArr true 2 false (EComp 0)] |} ] = true
  /\ db_std_elems pick_width_gen [ {| c_union := false; c_fields := [FArr false 3 false (EPrim (KU 8)); FScalar (EPrim (KU 4))] |} ] = true.
Proof. vm_compute. split; reflexivity. Qed.

Example C18_witness_is_wellformed :
  let db := [ {| c_union := false; c_fields := [FArr false 3 false (EPrim (KU 4))] |} ] in
  let op := OSet 0 (XNd (DU 8) [XVal (PInt 200); XVal (PInt 3)]) in                       (* numpy.array([200, 3], uint8) *)
  db_wok db = true
  /\ wfv pick_width_gen db false (run tmpl_gen pick_width_gen true db 0 [op]) = true      (* shape contract holds *)
  /\ wfv pick_width_gen db true (run tmpl_gen pick_width_gen true db 0 [op]) = false      (* element range does not *)
  /\ snd (step tmpl_gen pick_width_gen false db 0 (default_obj tmpl_gen pick_width_gen false db 0) op) = Some ValueError.
                                                                                          (* the conformant variant rejects *)
Proof. vm_compute. repeat split; reflexivity. Qed.
