(* C18 -- generated Python data objects validate, reflect and convert faithfully.
   Statements only; proofs in Gen/PyObjThm.v.  Model: Gen/PyObj.v instantiated with the template facts `tmpl_gen` and the
   translated `pick_width_gen` of Generated/Gen_PyObj.v (regenerated from /repo on every run).
   q = true is the shipped behaviour (quirk F-PY-ARRELEM), q = false the conformant variant.
   wfv PW db false v : every instance embedded in v honours the contract (scalars in range, array dtype and length legal,
                       a union holds exactly one option, recursively); wfv PW db true additionally: integer array elements
                       are within the range of the DSDL element type.
   db_wok db : what pydsdl guarantees of every type database (a union has options, signed widths <= 64). *)
From Coq Require Import List NArith ZArith Bool.
From Verif Require Import PyObj Gen_PyObj Gen_Pin_c18support PyObjThm PyObjThmRt PyObjThmRt2 PyObjThmWrap PyObjThmStart PyObjThmMut PyObjThmRound PyObjThmRepr PyObjThmRun PyObjLaws PyModelAttr PyObjThmReject PyObjThmLegal PyAlias Gen_PyAlias PyAliasThm PyAliasId
  Gen_Pin_c18model.
Import ListNotations.
Open Scope Z_scope.

(* pick_width of filter_numpy_scalar_type picks the least of 8/16/32/64 that holds the width *)
Theorem C18_pick_width_spec : forall w, 1 <= w <= 64 ->
  exists o, pick_width_gen w = Some o /\ In o [8;16;32;64] /\ w <= o /\
            (forall o', In o' [8;16;32;64] -> w <= o' -> o <= o').
Proof. exact pick_width_spec. Qed.
Print Assumptions C18_pick_width_spec.

(* START STATE.  Histories start from `Class()`; the default constructor SUCCEEDS for every type of every database in which a type
   only refers to smaller ids (db_ok_aux) and every integer width admits 0 (db_types_ok) -- structs, unions (first option
   default-initialised), fixed arrays (np.zeros through the same-dtype fast path), fixed arrays of composites.  Both premises are
   necessary (PyObjThmStart.default_needs_order / default_needs_types: the model's start state would be None). *)
Theorem C18_default_obj_exists : forall q db, db_ok_aux 0 db = true -> db_types_ok db = true ->
  forall tid c, nth_error db tid = Some c ->
  exists sl, default_obj tmpl_gen pick_width_gen q db tid = PObj tid sl /\ length sl = length (c_fields c).
Proof. exact default_obj_exists. Qed.
Print Assumptions C18_default_obj_exists.

(* INVARIANT, for objects reachable through constructors, the documented property setters and update_from_builtin only:
   after ANY such sequence the object IS an instance of its class and honours the contract -- scalars in range, array dtype and
   length legal, integer array elements within the DSDL range, exactly one union option, recursively.
   (q = false: the code in /repo since the F-PY-ARRELEM fix; C18_obj_invariant_live below ties that to the scanned template.) *)
Theorem C18_obj_invariant : forall db tid c ops,
  db_wok db = true -> db_ok_aux 0 db = true -> db_types_ok db = true -> nth_error db tid = Some c ->
  exists sl, run tmpl_gen pick_width_gen false db tid ops = PObj tid sl /\ obj_ok pick_width_gen true c sl = true /\
             forallb (wfv pick_width_gen db true) sl = true.
Proof. exact obj_invariant_strict_noquirk_total. Qed.
Print Assumptions C18_obj_invariant.

(* the same for whichever variant the scanner found in /repo (arrelem_quirk_gen is false on the current tree) *)
Theorem C18_obj_invariant_live : forall db tid c ops,
  db_wok db = true -> db_ok_aux 0 db = true -> db_types_ok db = true ->
  (arrelem_quirk_gen = false \/ db_std_elems pick_width_gen db = true) -> nth_error db tid = Some c ->
  exists sl, run tmpl_gen pick_width_gen arrelem_quirk_gen db tid ops = PObj tid sl /\ obj_ok pick_width_gen true c sl = true /\
             forallb (wfv pick_width_gen db true) sl = true.
Proof. exact obj_invariant_live_total. Qed.
Print Assumptions C18_obj_invariant_live.

(* WRITES THAT BYPASS THE SETTERS: element writes into an array obtained from a getter (`o.a[j] = v`, also through a slice view),
   `o.a += z`, writes into an array the caller handed to a setter (the same-dtype fast path of assign_array binds the caller's
   array: aliasing), and setters of nested instances (`o.inner.x = v`), at any depth.  What survives EVERY such history is the
   storage-level contract (NumPy's dtype enforces it): dtype, lengths, storage range, union bookkeeping ... *)
Theorem C18_xobj_invariant : forall q db tid c ops,
  db_wok db = true -> db_ok_aux 0 db = true -> db_types_ok db = true -> nth_error db tid = Some c ->
  exists sl, xrun tmpl_gen pick_width_gen q db tid ops = PObj tid sl /\ obj_ok pick_width_gen false c sl = true /\
             forallb (wfv pick_width_gen db false) sl = true.
Proof. exact xobj_invariant_total. Qed.
Print Assumptions C18_xobj_invariant.

(* ... and the full contract when no integer array has a non-standard element width (storage range = DSDL range) ... *)
Theorem C18_xobj_invariant_strict_std : forall q db tid ops, db_wok db = true -> db_std_elems pick_width_gen db = true ->
  wfv pick_width_gen db true (xrun tmpl_gen pick_width_gen q db tid ops) = true.
Proof. exact xobj_invariant_strict_std. Qed.
Print Assumptions C18_xobj_invariant_strict_std.

(* ... but NOT the DSDL range of a uint4[<=3] element: an element write, `+=` and a write through the caller's alias each leave
   200 / 101 / 200 in it without any exception (no generated code runs).  Hence C18_obj_invariant is, exactly, about objects
   reachable through constructors / documented setters / update_from_builtin (C18_setters_only: such an xrun IS a run). *)
Theorem C18_inplace_elem_range_refuted :
  (exists db tid ops, db_wok db = true /\ wfv pick_width_gen db true (xrun tmpl_gen pick_width_gen false db tid ops) = false)
  /\ xrun tmpl_gen pick_width_gen false db_u4 0 [XBase (OSet 0 (XVal (PList [PInt 1]))); XMutElem [] 0 0 (XVal (PInt 200))]
     = PObj 0 [PArr (DU 8) [PInt 200]]
  /\ xrun tmpl_gen pick_width_gen false db_u4 0 [XBase (OSet 0 (XVal (PList [PInt 1]))); XIAdd [] 0 100] = PObj 0 [PArr (DU 8) [PInt 101]]
  /\ xrun tmpl_gen pick_width_gen false db_u4 0 [XAliasMut 0 (XNd (DU 8) [XVal (PInt 1)]) 0 (XVal (PInt 200))] = PObj 0 [PArr (DU 8) [PInt 200]].
Proof.
  destruct inplace_refuted_states as (A & B & C & _). exact (conj inplace_elem_range_refuted (conj A (conj B C))).
Qed.
Print Assumptions C18_inplace_elem_range_refuted.

Theorem C18_setters_only : forall q db tid ops,
  xrun tmpl_gen pick_width_gen q db tid (map XBase ops) = run tmpl_gen pick_width_gen q db tid ops.
Proof. exact xobj_invariant_setters_only. Qed.

(* does the setter copy or alias?  It aliases exactly when the argument is an ndarray of the field's storage dtype (fast binding);
   otherwise the later write into the caller's array is invisible: the object equals the one after the plain setter call *)
Theorem C18_alias_copy_decided : forall q db tid sl c i a j e xa x,
  nth_error db tid = Some c -> eval tmpl_gen pick_width_gen q db a = Ok xa -> eval tmpl_gen pick_width_gen q db e = Ok x ->
  is_fast_bind pick_width_gen c i xa = false ->
  fst (xstep tmpl_gen pick_width_gen q db tid (PObj tid sl) (XAliasMut i a j e))
  = fst (step tmpl_gen pick_width_gen q db tid (PObj tid sl) (OSet i a)).
Proof. exact alias_copy_decided. Qed.
Print Assumptions C18_alias_copy_decided.

(* the conformant variant treats float16/32 array elements like the scalar setter: 1e6 raises, 65504.0 and +inf are stored *)
Theorem C18_float_array_elem_noquirk :
  assign_array tmpl_gen pick_width_gen false false 2 false (EPrim (KF 16)) (PList [PFloat 4696837146684686336]) = Raise ValueError
  /\ assign_array tmpl_gen pick_width_gen false false 2 false (EPrim (KF 16)) (PList [PFloat 4679235614791434240; PFloat 9218868437227405312])
     = Ok (PArr (DF 16) [PFloat 4679235614791434240; PFloat 9218868437227405312]).
Proof. exact (conj float_array_elem_checked_noquirk float_array_elem_boundary_noquirk). Qed.
Print Assumptions C18_float_array_elem_noquirk.

(* F-PY-ARRWRAP (fixed in /repo).  `set_precheck true tmpl_gen` is the scanned template with the fact "the conversion path
   range-checks the source before np.array(src, dtype) casts it"; C18_tmpl_live + the generated t_arr_precheck say that this IS
   tmpl_gen on the current tree (the check verifies it against the behaviour of the generated classes at every run).
   What the code did before is recorded in History/C18_history.v. *)
(* every accepted integer ndarray of another dtype is stored unchanged and lies within the FIELD's range *)
Theorem C18_array_src_checked : forall q fixed cap w dt' zs v, 1 <= w <= 64 -> dtype_eqb dt' (DU (pwd pick_width_gen w)) = false ->
  assign_array (set_precheck true tmpl_gen) pick_width_gen q fixed cap false (EPrim (KU w)) (PArr dt' (map PInt zs)) = Ok v ->
  v = PArr (DU (pwd pick_width_gen w)) (map PInt zs) /\ Forall (fun z => urange w z = true) zs.
Proof. exact array_src_checked_nowrap. Qed.
Print Assumptions C18_array_src_checked.

Theorem C18_array_src_checked_ndarray : forall q fixed cap k dt' l v, (exists w, k = KU w \/ k = KS w) ->
  dtype_eqb dt' (dtype_of pick_width_gen (EPrim k)) = false ->
  assign_array (set_precheck true tmpl_gen) pick_width_gen q fixed cap false (EPrim k) (PArr dt' l) = Ok v ->
  forallb (int_leaf_ok (EPrim k)) l = true /\ (forall z, In (PInt z) l -> int_in_range k z = true).
Proof. exact array_src_checked_ndarray. Qed.
Print Assumptions C18_array_src_checked_ndarray.

Theorem C18_tmpl_live : tmpl_gen = set_precheck (t_arr_precheck tmpl_gen) tmpl_gen.
Proof. exact tmpl_live. Qed.

(* FIX-STATE OBLIGATIONS.  The landed fixes are REQUIRED: reverting F-PY-ARRELEM / F-PY-ARRWRAP / F-PY-ARRWRAP-FPREC in base.j2 makes the
   scanner emit the other value and this example (hence the check) fails -- not only the KNOWN-FINDING line changes. *)
Example C18_fix_flags_live :
  arrelem_quirk_gen = false /\ t_arr_precheck tmpl_gen = true /\ arr_precheck_exact_gen = true.
Proof. repeat split; reflexivity. Qed.

(* F-PY-NUMTEXT and F-PY-PRECHECK-INFER are fixed in /repo (4403124): the text guard and the ndarray-only float arm are REQUIRED too;
   together with C18_tmpl_live3 this makes TGf below (all source-check facts set) equal to tmpl_gen: C18_TGf_is_tmpl_gen *)
Example C18_open_findings_state : t_text_guard tmpl_gen = true /\ t_precheck_nd_only tmpl_gen = true.
Proof. split; reflexivity. Qed.

(* with the landed fixes the statements about `set_precheck true tmpl_gen` ARE statements about tmpl_gen *)
Theorem C18_array_src_checked_live : forall q fixed cap w dt' zs v, 1 <= w <= 64 -> dtype_eqb dt' (DU (pwd pick_width_gen w)) = false ->
  assign_array tmpl_gen pick_width_gen q fixed cap false (EPrim (KU w)) (PArr dt' (map PInt zs)) = Ok v ->
  v = PArr (DU (pwd pick_width_gen w)) (map PInt zs) /\ Forall (fun z => urange w z = true) zs.
Proof.
  destruct C18_fix_flags_live as (_ & P & _). rewrite tmpl_live, P. exact array_src_checked_nowrap.
Qed.
Print Assumptions C18_array_src_checked_live.

(* REJECT DIRECTION for arrays.  TGf = tmpl_gen with the three source-check facts of the fixes (pre-check, float arm for ndarrays only,
   text guard) set; it IS tmpl_gen once C18_open_findings_state is flipped (tmpl_live3).  For EVERY array field and EVERY candidate value
   assign_array either stores a value that satisfies the contract or raises, and it raises exactly when `arr_accepts` is false:
   bytes (incl. the implicit str.encode of string-like arrays): accepted iff the element type is uint<=8, the number of bytes is legal
   and every byte is within the DSDL range -- for ALL texts, numeric-looking or not; str / bytes for other arrays: never; same-dtype
   ndarray: length + DSDL range; anything else: NumPy converts it, source range check, legal length, float range, DSDL range. *)
Theorem C18_array_accept_exact : forall fixed cap sl e x,
  (exists v, assign_array TGf pick_width_gen false fixed cap sl e x = Ok v) <-> arr_accepts fixed cap sl e x = true.
Proof. exact array_accept_exact. Qed.
Print Assumptions C18_array_accept_exact.

Theorem C18_array_reject_exact : forall fixed cap sl e x,
  (exists ex, assign_array TGf pick_width_gen false fixed cap sl e x = Raise ex) <-> arr_accepts fixed cap sl e x = false.
Proof. exact array_reject_exact. Qed.
Print Assumptions C18_array_reject_exact.

Theorem C18_array_accept_sound : forall db fixed cap sl e x v, ftype_wok (FArr fixed cap sl e) = true ->
  wfv pick_width_gen db true x = true -> assign_array TGf pick_width_gen false fixed cap sl e x = Ok v ->
  field_ok pick_width_gen true (FArr fixed cap sl e) v = true /\ wfv pick_width_gen db true v = true /\ is_none v = false.
Proof. exact array_accept_sound. Qed.
Print Assumptions C18_array_accept_sound.

Theorem C18_bytes_reject_exact : forall fixed cap sl w s, 1 <= w <= 8 ->
  assign_array TGf pick_width_gen false fixed cap sl (EPrim (KU w)) (PBytes s) =
  if lenG fixed (length s) cap && forallb (fun c => Z.of_N (c mod 256) <=? 2 ^ w - 1) s
  then Ok (PArr (DU 8) (map (fun c => PInt (Z.of_N (c mod 256))) s)) else Raise ValueError.
Proof. exact bytes_reject_exact. Qed.
Print Assumptions C18_bytes_reject_exact.

Theorem C18_text_never_parsed : forall fixed cap sl e s, fast_bytesG e = false ->
  assign_array TGf pick_width_gen false fixed cap sl e (PBytes s) = Raise ValueError /\
  assign_array TGf pick_width_gen false fixed cap sl e (PStr s) = Raise ValueError.
Proof. exact text_never_parsed. Qed.
Print Assumptions C18_text_never_parsed.

(* a finite float16/float32 element beyond the maximum raises, for every list of Python floats (audit row 4) *)
Theorem C18_float_list_reject : forall fixed cap sl w bs, w < 64 ->
  forallb (fun b => f_in_range w b || negb (f_isfinite b)) bs = false ->
  exists ex, assign_array TGf pick_width_gen false fixed cap sl (EPrim (KF w)) (PList (map PFloat bs)) = Raise ex.
Proof. exact float_list_reject. Qed.
Print Assumptions C18_float_list_reject.

(* F-PY-NPSCALAR, F-PY-EXCCLASS and F-PY-ALIASCLASH are fixed in /repo (f2f61d1): the exact element check, the OverflowError -> ValueError
   conversion and the alias guard are REQUIRED; what the code did before is recorded in History/C18_history.v *)
Example C18_open_findings_round9 :
  t_src_exact tmpl_gen = true /\ exc_overflow_wrapped_gen = true /\ alias_guard_gen = true.
Proof. repeat split; reflexivity. Qed.

(* the reject / legality theorems are about the code in /repo: TGf (the scanned template with all source-check facts set) IS tmpl_gen *)
Theorem C18_TGf_is_tmpl_gen : TGf = tmpl_gen.
Proof.
  destruct C18_fix_flags_live as (_ & P & _). destruct C18_open_findings_state as (G & N). destruct C18_open_findings_round9 as (X & _).
  rewrite tmpl_live3 at 2. rewrite P, G, N, X. reflexivity.
Qed.

(* LEGALITY, written independently of the template (PyObjThmLegal.legal_int_array: every leaf of the (nested, rectangular) value -- Python
   int / float / bool, NumPy scalar, element of a nested or foreign-dtype ndarray -- is, as an exact number, an INTEGER within the field's
   range, and the number of leaves fits): for integer arrays and numeric sources on the conversion path, accepted <-> legal, and what is
   stored are exactly the input integers (no wrap-around, no truncation).  Deviations are named: text elements INSIDE a list are still
   parsed by NumPy (PyObjThmLegal.text_leaf_parsed), other non-numeric elements raise (nonnumeric_leaf_raises). *)
Theorem C18_legal_iff_accepted : forall k w, (k = KU w \/ k = KS w) -> 1 <= w <= 64 -> forall fixed cap y,
  conv_path (EPrim k) y = true -> all_numeric y = true ->
  ((exists v, assign_array TGf pick_width_gen false fixed cap false (EPrim k) y = Ok v) <-> legal_int_array fixed cap k y = true).
Proof. exact legal_iff_accepted. Qed.
Print Assumptions C18_legal_iff_accepted.

Theorem C18_legal_accepted : forall k w, (k = KU w \/ k = KS w) -> 1 <= w <= 64 -> forall fixed cap y,
  conv_path (EPrim k) y = true -> legal_int_array fixed cap k y = true ->
  assign_array TGf pick_width_gen false fixed cap false (EPrim k) y
  = Ok (PArr (dtype_of pick_width_gen (EPrim k)) (map PInt (leaf_ints y))).
Proof. exact legal_accepted. Qed.
Print Assumptions C18_legal_accepted.

Theorem C18_illegal_rejected : forall k w, (k = KU w \/ k = KS w) -> 1 <= w <= 64 -> forall fixed cap y,
  conv_path (EPrim k) y = true -> all_numeric y = true -> legal_int_array fixed cap k y = false ->
  exists ex, assign_array TGf pick_width_gen false fixed cap false (EPrim k) y = Raise ex.
Proof. exact illegal_rejected. Qed.
Print Assumptions C18_illegal_rejected.

Theorem C18_tmpl_live3 : tmpl_gen = set_text_guard (t_text_guard tmpl_gen) (set_nd_only (t_precheck_nd_only tmpl_gen) (set_precheck (t_arr_precheck tmpl_gen) tmpl_gen)).
Proof. exact tmpl_live3. Qed.

(* a raising property setter leaves the object as it was *)
Theorem C18_reject_means_unchanged : forall q db tid o i e o' ex,
  step tmpl_gen pick_width_gen q db tid o (OSet i e) = (o', Some ex) -> o' = o.
Proof. exact reject_means_unchanged. Qed.
Print Assumptions C18_reject_means_unchanged.

Theorem C18_set_slot_reject_unchanged : forall q c slots i x s' e,
  set_slot tmpl_gen pick_width_gen q c slots i x = (s', Some e) -> s' = slots.
Proof. exact set_slot_reject_unchanged. Qed.
Print Assumptions C18_set_slot_reject_unchanged.

(* a successful union setter leaves exactly the option it set *)
Theorem C18_union_single_option : forall q c slots i x s',
  c_union c = true -> length slots = length (c_fields c) -> set_slot tmpl_gen pick_width_gen q c slots i x = (s', None) ->
  count_active s' = 1%nat /\
  (exists v, nth_error s' i = Some v /\ is_none v = false) /\
  (forall j s, j <> i -> nth_error s' j = Some s -> s = PNone).
Proof. exact union_single_option. Qed.
Print Assumptions C18_union_single_option.

(* FACT READ-BACK: the scalar and length checks are exact (every legal value accepted unchanged, every illegal one raises
   ValueError).  In the model these reduce to the booleans/operators the scanner extracted from base.j2; what they certify is that
   the scanned facts are the conformant ones -- the scanner itself is cross-checked by the correspondence run and the falsifier *)
Theorem C18_int_setter_exact : forall k z, (exists w, k = KU w \/ k = KS w) ->
  set_prim tmpl_gen k (PInt z) = if int_in_range k z then Ok (PInt z) else Raise ValueError.
Proof. exact int_setter_exact. Qed.
Print Assumptions C18_int_setter_exact.

Theorem C18_float_setter_exact : forall w x, w < 64 ->
  set_prim tmpl_gen (KF w) (PFloat x) = if f_in_range w x || negb (f_isfinite x) then Ok (PFloat x) else Raise ValueError.
Proof. exact float_setter_exact. Qed.
Print Assumptions C18_float_setter_exact.

Theorem C18_array_length_exact : forall q fixed cap sl w zs, 1 <= w <= 64 -> Forall (fun z => urange w z = true) zs ->
  assign_array tmpl_gen pick_width_gen q fixed cap sl (EPrim (KU w)) (PList (map PInt zs)) =
  if (if fixed then Nat.eqb (length zs) cap else Nat.leb (length zs) cap)
  then Ok (PArr (DU (pwd pick_width_gen w)) (map PInt zs)) else Raise ValueError.
Proof. exact array_length_exact. Qed.
Print Assumptions C18_array_length_exact.

(* whatever a setter stores satisfies the contract of its field (any field type with signed element widths <= 64, any argument) *)
Theorem C18_field_value_ok : forall q db f x v, ftype_wok f = true -> wfv pick_width_gen db false x = true ->
  field_value tmpl_gen pick_width_gen q f x = Ok v ->
  field_ok pick_width_gen false f v = true /\ wfv pick_width_gen db false v = true /\ is_none v = false.
Proof. exact field_value_ok. Qed.
Print Assumptions C18_field_value_ok.

(* constructors and update_from_builtin (also when it raises half-way) preserve the contract *)
Theorem C18_construct_ok : forall q db (strict : bool),
  (strict = false \/ q = false \/ db_std_elems pick_width_gen db = true) -> db_wok db = true ->
  forall tid kw o, forallb (wfv pick_width_gen db strict) kw = true -> construct tmpl_gen pick_width_gen q db tid kw = Ok o ->
  wfv pick_width_gen db strict o = true.
Proof. exact construct_ok. Qed.
Print Assumptions C18_construct_ok.

Theorem C18_update_from_builtin_ok : forall q db (strict : bool),
  (strict = false \/ q = false \/ db_std_elems pick_width_gen db = true) -> db_wok db = true ->
  forall fuel o src, wfv pick_width_gen db strict o = true -> wfv pick_width_gen db strict src = true ->
  wfv pick_width_gen db strict (fst (ufb tmpl_gen pick_width_gen q db fuel o src)) = true.
Proof. exact ufb_ok. Qed.
Print Assumptions C18_update_from_builtin_ok.

(* to_builtin followed by update_from_builtin on ANY instance of the class (in particular a fresh default one) reproduces
   the object, for every struct/union type whose fields are scalars or arrays of primitives (`ftype_flat`: float16/32 arrays
   and nested composites excluded -- those are covered by the correspondence run only) *)
Theorem C18_builtin_roundtrip_flat : forall q db tid c slots dslots b fuel,
  nth_error db tid = Some c -> forallb ftype_flat (c_fields c) = true ->
  obj_ok pick_width_gen false c slots = true -> (need_strict q -> obj_ok pick_width_gen true c slots = true) ->
  length dslots = length (c_fields c) ->
  tb db (PObj tid slots) = Some b ->
  ufb tmpl_gen pick_width_gen q db (S fuel) (PObj tid dslots) b = (PObj tid slots, None).
Proof. exact builtin_roundtrip_flat. Qed.
Print Assumptions C18_builtin_roundtrip_flat.

(* the full statement, for every type of every database: nested struct/union fields, arrays of composites, float16/32 arrays.
   Premises (decidable, each shown necessary by a vm_compute counterexample in Gen/PyObjThmRt2.v, theorems roundtrip_needs_...):
   db_strok (string-like arrays are arrays of uint<=8), db_defaults_ok (every default constructor succeeds), rt_ok (elements of
   composite arrays are instances of the element class -- the template does not check that, see below --, float16/32 array elements
   are representable in their storage type [true of every value NumPy stores; not proved for reachable states: needs idempotence of
   the rounding model], and for the conformant variant within the range), enough fuel for the nesting depth of the value *)
Theorem C18_builtin_roundtrip : forall q db fuel tid slots b,
  db_strok db = true -> db_defaults_ok q db = true ->
  let o := PObj tid slots in
  wfv pick_width_gen db false o = true -> (need_strict q -> wfv pick_width_gen db true o = true) -> rt_ok q db o = true ->
  tb db o = Some b -> (vdepth o <= fuel)%nat ->
  ufb tmpl_gen pick_width_gen q db fuel (default_obj tmpl_gen pick_width_gen q db tid) b = (o, None).
Proof. exact builtin_roundtrip. Qed.
Print Assumptions C18_builtin_roundtrip.

(* ROUNDING IS IDEMPOTENT: a value read back from a float16/float32 array equals the value stored after ONE rounding, so every float
   array of every reachable object holds only fixed points of the rounding (no premise at all) ... *)
Theorem C18_f_round_idem : forall w x, f_round w (f_round w x) = f_round w x.
Proof. exact f_round_idem. Qed.
Print Assumptions C18_f_round_idem.

Theorem C18_float_repr_run : forall q db tid ops, float_repr_ok (run tmpl_gen pick_width_gen q db tid ops) = true.
Proof. exact float_repr_run. Qed.
Print Assumptions C18_float_repr_run.

(* ... and the round trip COMPOSES WITH HISTORIES: for the object after any sequence of constructor / setter / update_from_builtin
   operations (code in /repo: q = false), to_builtin then update_from_builtin on a fresh instance gives the object back.  The claim
   is equality of the modelled STATE; that `serialize` is a function of that state is the codec properties' business (C01), and byte
   equality is compared on the real classes at every run.  Remaining premise `rest_ok`: elements of composite arrays are instances of
   the element class (the template does not check that, see below). *)
Theorem C18_builtin_roundtrip_run : forall db tid c ops fuel b,
  db_wok db = true -> db_ok_aux 0 db = true -> db_types_ok db = true -> db_strok db = true ->
  nth_error db tid = Some c ->
  let o := run tmpl_gen pick_width_gen false db tid ops in
  rest_ok false db o = true -> tb db o = Some b -> (vdepth o <= fuel)%nat ->
  ufb tmpl_gen pick_width_gen false db fuel (default_obj tmpl_gen pick_width_gen false db tid) b = (o, None).
Proof. exact builtin_roundtrip_run_noquirk. Qed.
Print Assumptions C18_builtin_roundtrip_run.

(* NUMPY LAWS.  The array clause of setter soundness and the exactness of the length test depend on NumPy's np.array(x, dtype) only
   through the named laws of `np_laws` (law_sound, law_pyint_id, law_pyint_overflow, law_foreign_wrap: the ASSUMED NumPy 2 behaviour,
   swept at the dtype edges at every run); the model's conversion satisfies them *)
Theorem C18_np_array_laws : np_laws np_array.
Proof. exact np_array_laws. Qed.
Print Assumptions C18_np_array_laws.

Theorem C18_assign_array_from_laws : forall conv, np_laws conv ->
  forall (strict q : bool) db fixed cap sl e x v,
  sideF strict q (FArr fixed cap sl e) -> wfv pick_width_gen db strict x = true ->
  assign_array_with tmpl_gen pick_width_gen q conv fixed cap sl e x = Ok v ->
  field_ok pick_width_gen strict (FArr fixed cap sl e) v = true /\ wfv pick_width_gen db strict v = true /\ is_none v = false.
Proof. exact assign_array_with_ok. Qed.
Print Assumptions C18_assign_array_from_laws.

(* `_MODEL_`: the class attribute is `_restore_constant_(<literals emitted by filter_pickle>)`; under the four library laws (explicit
   premises) it is the object the generator pickled -- where `pickle` stands for the _ModelPickler of filter_pickle, whose reducer resets
   pydsdl's memoization wrappers and maps every source path to the PurePosixPath relative to the parent of its root namespace directory
   (/repo b86b49b): `m` here is the source model MODULO that path mapping; the run checks for every type that
   `_MODEL_.source_file_path` is exactly that relative PurePosixPath and that everything else equals the source model.  The shapes of filter_pickle, _restore_constant_ and of the two `_MODEL_`
   template lines are pinned (C18_model_shape_pinned); equality with the SOURCE model is compared on the real classes at every run. *)
Theorem C18_model_attr_restored : forall (model bytes : Type) (pickle : model -> bytes) (unpickle : bytes -> model)
    (gz gunz : bytes -> bytes) (b85enc : bytes -> list N) (b85dec : list N -> bytes) (strip : list N -> list N),
  (forall m, unpickle (pickle m) = m) -> (forall b, gunz (gz b) = b) -> (forall b, b85dec (b85enc b) = b) ->
  (forall b, strip (b85enc b) = b85enc b) ->
  forall m, restore model bytes unpickle gunz b85dec (filter_pickle model bytes pickle gz b85enc strip m) = m.
Proof. exact restore_filter_pickle. Qed.
Print Assumptions C18_model_attr_restored.

(* PACKAGE ALIASES `Name_major` (filter_newest_minor_version_aliases, translated from its `ast`; versions are naturals of any size):
   every alias is bound to a type of that name and major version whose minor version is NUMERICALLY the greatest, and every
   (name, major) of the namespace has its alias.  The run checks `ns.Name_major is ns.Name_major_<greatest minor>` on the real packages. *)
Theorem C18_alias_is_newest_minor : forall tys name major t,
  In (name, major, t) (aliases_gen tys) ->
  In t tys /\ v_name t = name /\ v_major t = major /\
  forall t', In t' tys -> v_name t' = name -> v_major t' = major -> (v_minor t' <= v_minor t)%nat.
Proof. exact alias_is_newest_minor. Qed.
Print Assumptions C18_alias_is_newest_minor.

Theorem C18_alias_exists : forall tys t, In t tys -> exists t', In (v_name t, v_major t, t') (aliases_gen tys).
Proof. exact alias_exists. Qed.
Print Assumptions C18_alias_exists.

(* identifiers as text: with the guard of the F-PY-ALIASCLASH fix (alias_guard_gen) no alias identifier `<name>_<major>` equals the
   identifier `<name>_<major>_<minor>` of a class of the namespace; without it `Foo` 1.0 beside `Foo_1` 0.1 clash on "Foo_1_0" *)
Theorem C18_alias_never_shadows_class : forall tys a, In a (aliases_guarded tys) ->
  forall t, In t tys -> alias_id (fst a) (snd a) <> class_id (s_name t) (s_major t) (s_minor t).
Proof. exact alias_never_shadows_class. Qed.
Print Assumptions C18_alias_never_shadows_class.

Example C18_alias_clash_witness :
  In (Foo_1, 0%nat) (aliases_s clash_ns) /\ alias_id Foo_1 0 = class_id Foo 1 0 /\ aliases_guarded clash_ns = [(Foo, 1%nat)].
Proof. destruct alias_clash_witness as (A & B & _ & D). exact (conj A (conj B D)). Qed.

Example C18_alias_minor_ten : forall t,
  In (0%nat, 1%nat, t) (aliases_gen [ {| v_name := 0; v_major := 1; v_minor := 9; v_id := 0 |}; {| v_name := 0; v_major := 1; v_minor := 10; v_id := 1 |};
                                      {| v_name := 0; v_major := 1; v_minor := 2; v_id := 2 |}; {| v_name := 0; v_major := 1; v_minor := 11; v_id := 3 |} ]) ->
  v_id t = 3%nat.
Proof. exact alias_minor_ten. Qed.

(* the gap, stated precisely: elements of composite arrays are not isinstance-checked by the template (both variants) *)
Theorem C18_composite_array_elem_unchecked : forall q,
  field_value tmpl_gen pick_width_gen q (FArr false 2 false (EComp 0)) (PList [PInt 1]) = Ok (PArr DObj [PInt 1]).
Proof. exact composite_array_elem_unchecked. Qed.
Print Assumptions C18_composite_array_elem_unchecked.

Example C18_builtin_roundtrip_nonvacuous : forall q,
  rt_premises q ex_db 3 2 ex_obj_slots = true /\
  exists b, tb ex_db (PObj 2 ex_obj_slots) = Some b /\
            ufb tmpl_gen pick_width_gen q ex_db 3 (default_obj tmpl_gen pick_width_gen q ex_db 2) b = (PObj 2 ex_obj_slots, None).
Proof. exact builtin_roundtrip_example. Qed.

Example C18_roundtrip_nonvacuous :
  let db := [ {| c_union := true; c_fields := [FScalar (EPrim (KS 12)); FArr false 5 true (EPrim (KU 8)); FScalar (EPrim (KF 16))] |} ] in
  let o := PObj 0 [PNone; PArr (DU 8) [PInt 104; PInt 105]; PNone] in
  forallb ftype_flat (c_fields (nth 0 db {| c_union := false; c_fields := [] |})) = true
  /\ tb db o = Some (PDict [(1%nat, PStr [104%N; 105%N])])
  /\ ufb tmpl_gen pick_width_gen true db 3 (default_obj tmpl_gen pick_width_gen true db 0) (PDict [(1%nat, PStr [104%N; 105%N])]) = (o, None).
Proof. vm_compute. repeat split; reflexivity. Qed.

(* the functions of nunavut_support.j2 that `tb`, `ufb` and the class lookups of Gen/PyObj.v model by hand (to_builtin,
   _to_builtin_impl, update_from_builtin, get_class, get_model, get_attribute, set_attribute) still have the pinned shape *)
Example C18_support_shape_pinned : pin_c18support_ok = true.
Proof. reflexivity. Qed.

(* non-vacuity: the hypotheses are satisfiable by a database with a union, nested composites and arrays, and the
   refutation witness itself is a well-formed database on which only the element clause fails *)
Example C18_model_shape_pinned : pin_c18model_ok = true.
Proof. reflexivity. Qed.

(* the premises of the total theorems are satisfiable by a database with a union, nested composites, arrays of composites *)
Example C18_total_premises_satisfiable :
  db_wok ex_db = true /\ db_ok_aux 0 ex_db = true /\ db_types_ok ex_db = true /\ db_strok ex_db = true.
Proof. vm_compute. repeat split; reflexivity. Qed.

Example C18_db_wok_satisfiable :
  db_wok [ {| c_union := false; c_fields := [FScalar (EPrim (KU 4)); FArr false 3 false (EPrim (KU 4))] |};
           {| c_union := true; c_fields := [FScalar (EPrim (KF 16)); FScalar (EComp 0); FArr true 2 false (EComp 0)] |} ] = true
  /\ db_std_elems pick_width_gen [ {| c_union := false; c_fields := [FArr false 3 false (EPrim (KU 8)); FScalar (EPrim (KU 4))] |} ] = true.
Proof. vm_compute. split; reflexivity. Qed.

Example C18_model_sensitivity_arrelem :
  let db := [ {| c_union := false; c_fields := [FArr false 3 false (EPrim (KU 4))] |} ] in
  let op := OSet 0 (XNd (DU 8) [XVal (PInt 200); XVal (PInt 3)]) in                       (* numpy.array([200, 3], uint8) *)
  db_wok db = true
  /\ wfv pick_width_gen db false (run tmpl_gen pick_width_gen true db 0 [op]) = true      (* shape contract holds *)
  /\ wfv pick_width_gen db true (run tmpl_gen pick_width_gen true db 0 [op]) = false      (* element range does not *)
  /\ snd (step tmpl_gen pick_width_gen false db 0 (default_obj tmpl_gen pick_width_gen false db 0) op) = Some ValueError.
                                                                                          (* the conformant variant rejects *)
Proof. vm_compute. repeat split; reflexivity. Qed.
