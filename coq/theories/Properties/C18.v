(* C18 -- provisional: replaced once Gen/PyObjThm.v is complete *)
From Coq Require Import List ZArith Bool.
From Verif Require Import PyObj Gen_PyObj.
Import ListNotations.

Example array_elem_range_witness :
  wfv pick_width_gen [{| c_union := false; c_fields := [FArr false 3 false (EPrim (KU 4))] |}] true
      (run tmpl_gen pick_width_gen true [{| c_union := false; c_fields := [FArr false 3 false (EPrim (KU 4))] |}] 0
           [OSet 0 (XVal (PList [PInt 200; PInt 3]))]) = false.
Proof. vm_compute. reflexivity. Qed.
Print Assumptions array_elem_range_witness.
