(* C05: exported size bounds and type metadata are correct for every type.
   Statements only; proofs in Gen/MetaC05Thm.v (size bounds, exported table, capacity check) and Gen/MetaC05LitThm.v (constants).
   `exported tg k t` evaluates the Jinja expression from which target tg's template renders constant k (template scan,
   Generated/Gen_C05.v) with the T2-translated filters; `filter_*`, `get_best_fit` are the translated functions of /repo. *)
From Coq Require Import List NArith ZArith Bool.
From Verif Require Import Str Wire WireThm Walker MetaC05Base MetaC05Rne Gen_C05 MetaC05 WalkerSafe MetaC05Thm MetaC05LitThm MetaC05StoThm MetaC05Float MetaC05FltThm MetaC05TightThm MetaC05RndThm.
Import ListNotations.
Local Open Scope Z_scope.

(* filter_bits2bytes_ceil n = ceil(n / 8) for every n >= 0 (and raises for n < 0) *)
Theorem c05_bits2bytes_ceil_spec : forall n, 0 <= n ->
  exists q, filter_bits2bytes_ceil n = Some q /\ 8 * (q - 1) < n <= 8 * q.
Proof. exact bits2bytes_ceil_spec. Qed.
Print Assumptions c05_bits2bytes_ceil_spec.

Theorem c05_bits2bytes_ceil_negative : forall n, n < 0 -> filter_bits2bytes_ceil n = None.
Proof. exact bits2bytes_ceil_negative. Qed.
Print Assumptions c05_bits2bytes_ceil_negative.

(* _CFit.get_best_fit: the smallest standard width that holds w bits *)
Theorem c05_best_fit_spec : forall w, 1 <= w <= 64 ->
  exists s, get_best_fit w = Some s /\ In s CFit_values /\ w <= s /\ (s = 8 \/ s < 2 * w).
Proof. exact best_fit_spec. Qed.
Print Assumptions c05_best_fit_spec.

Theorem c05_best_fit_is_walker_std_width : forall w, (1 <= w <= 64)%nat ->
  filter_to_standard_bit_length (mk_pty KUInt (Z.of_nat w)) = Some (Z.of_nat (std_width w)).
Proof. exact best_fit_is_walker_std_width. Qed.
Print Assumptions c05_best_fit_is_walker_std_width.

(* every expected constant is rendered, and from an acceptable expression (bytes from bits by // 8 or bits2bytes_ceil, ...) *)
Theorem c05_table_ok : table_ok = true.
Proof. exact table_ok_holds. Qed.
Print Assumptions c05_table_ok.

(* the advertised extent (C, C++, Python) is exactly the DSDL extent, in bytes *)
Theorem c05_exported_extent_bytes : forall tg t, In tg all_targets -> wf_ty t = true -> is_comp t = true ->
  exists q, exported tg KExtentBytes t = Some q /\ 8 * q = Z.of_nat (extent t).
Proof. exact exported_extent_bytes. Qed.
Print Assumptions c05_exported_extent_bytes.

(* the advertised serialization buffer size (C, C++) is exactly the maximum serialized size, in bytes *)
Theorem c05_exported_buffer_bytes : forall tg t, In tg buffer_targets -> is_comp t = true ->
  exists q, exported tg KBufferBytes t = Some q /\ 8 * q = Z.of_nat (bmax t).
Proof. exact exported_buffer_bytes. Qed.
Print Assumptions c05_exported_buffer_bytes.

(* array capacities and the union option count are the DSDL ones *)
Theorem c05_exported_count_exact : forall tg k t, In (tg, k) required_exports -> k = KCap \/ k = KUnionCount ->
  exported tg k t = Some (key_spec k t).
Proof. exact exported_count_exact. Qed.
Print Assumptions c05_exported_count_exact.

(* a buffer of the advertised size always passes the capacity check; whatever is serialized fits it; every valid value is
   serialized *)
Theorem c05_ser_buffer_suffices : forall tg t v q, In tg buffer_targets -> wf_ty t = true -> is_comp t = true ->
  exported tg KBufferBytes t = Some q ->
  ser_spec t v (Z.to_nat q) = enc_body t v /\
  (forall b, ser_spec t v (Z.to_nat q) = Ok b -> (length b <= 8 * Z.to_nat q)%nat /\ (length b <= bmax t)%nat) /\
  (valid_val t v = true -> exists b, ser_spec t v (Z.to_nat q) = Ok b).
Proof. exact ser_buffer_suffices. Qed.
Print Assumptions c05_ser_buffer_suffices.

(* TIGHTNESS: the advertised serialization buffer size is attained -- for every well-formed type whose nested delimited types have
   no slack there is a valid value whose serialization is exactly bmax t bits long (so the exported constant is the maximum, not just
   an upper bound; with slack the outer bound includes the nested extent that DSDL reserves for future versions) *)
Theorem c05_bmax_tight : forall t, wf_ty t = true -> noslack t = true ->
  exists v b, enc_body t v = Ok b /\ length b = bmax t /\ valid_val t v = true.
Proof. exact bmax_tight. Qed.
Print Assumptions c05_bmax_tight.

(* ... and so is the MINIMUM: for every well-formed type whose nested delimited types have an empty minimal body there is a valid value
   (empty variable-length arrays, a union option of minimal size) whose serialization is exactly bmin t bits long *)
Theorem c05_bmin_tight : forall t, wf_ty t = true -> nominslack t = true ->
  exists v b, enc_body t v = Ok b /\ length b = bmin t /\ valid_val t v = true.
Proof. exact bmin_tight. Qed.
Print Assumptions c05_bmin_tight.

(* advertised buffer size <= advertised extent *)
Theorem c05_max_le_extent : forall tg t qb qe, In tg buffer_targets -> wf_ty t = true -> is_comp t = true ->
  exported tg KBufferBytes t = Some qb -> exported tg KExtentBytes t = Some qe -> 0 <= qb <= qe.
Proof. exact buffer_le_extent. Qed.
Print Assumptions c05_max_le_extent.

(* the capacity check as rendered by the C and C++ serialization templates is the one of the specification *)
Theorem c05_c_capcheck_is_spec : forall t v cap, ser_model c_capcheck t v cap = Some (ser_spec t v cap).
Proof. exact c_capcheck_is_spec. Qed.
Print Assumptions c05_c_capcheck_is_spec.

Theorem c05_cpp_capcheck_is_spec : forall t v cap, ser_model cpp_capcheck t v cap = Some (ser_spec t v cap).
Proof. exact cpp_capcheck_is_spec. Qed.
Print Assumptions c05_cpp_capcheck_is_spec.

(* a buffer smaller than the advertised size is refused with too_small for every value, by the specification, by the code walker with
   any primitives, and by C04's instrumented walker with an EMPTY access log (nothing read or written: Codec/WalkerSafeThm.v
   too_small_no_write, also stated as c04_too_small_no_write) *)
Theorem c05_too_small_refused : forall tg P c t v o buf cap q, In tg buffer_targets -> is_comp t = true ->
  exported tg KBufferBytes t = Some q -> Z.of_nat cap < q -> plan_ok c -> up_front c = true ->
  ser_spec t v cap = Err ETooSmall /\ walk_ser P t v buf cap = Err ETooSmall /\ walk_ser_safe c t o cap = (Err ETooSmall, []).
Proof. exact too_small_refused. Qed.
Print Assumptions c05_too_small_refused.

(* ... and only then *)
Theorem c05_too_small_iff : forall tg t v cap q, In tg buffer_targets -> is_comp t = true ->
  exported tg KBufferBytes t = Some q ->
  (ser_spec t v cap = Err ETooSmall <-> Z.of_nat cap < q \/ enc_body t v = Err ETooSmall).
Proof. exact too_small_iff. Qed.
Print Assumptions c05_too_small_iff.

(* integer constants: for every integer type and every value in its range the rendered token parses, denotes exactly the value in
   every data model (int16/long32, ILP32/LLP64, LP64), triggers no diagnostic, has the signedness of the DSDL type and a C type at
   least as wide as the DSDL type *)
Theorem c05_int_literal_denotes : forall dm unsigned w v, In dm dmodels -> 1 <= w <= 64 -> in_int_range unsigned w v ->
  exists t, const_int_denotes dm unsigned w v = Some (t, v) /\ ct_unsigned t = unsigned /\ w <= ct_bits dm t.
Proof. exact int_literal_denotes. Qed.
Print Assumptions c05_int_literal_denotes.

(* the integer branch of filter_literal is reached exactly for integer types *)
Theorem c05_int_literal_guard : forall unsigned w, filter_literal_int_guard (int_pty unsigned w) = true.
Proof. exact int_literal_guard. Qed.
Print Assumptions c05_int_literal_guard.

(* floating-point constants.  `rf` stands for Python's repr(float(Fraction)) -- ASSUMED (library behaviour, not modelled) to return
   the shortest decimal that reads back as the double nearest to the rational; the check validates on every run that the string it
   returns for each out-of-range constant parses (parse_fdec) to a value that rounds to the correctly rounded double.
   Whenever the integral form `N.0` or the division `(N.0 / D.0)` is rendered (d = 1, or both operands below 2^1023) the expression
   denotes, before rounding, exactly the rational of the DSDL definition
   (PARTIAL: the rounding of the C/C++ evaluation `((float) (n.0 / d.0))` is not modelled; tied by correspondence within 1 ulp) *)
Theorem c05_float_expr_denotes_rational : forall rf n d, 0 < d -> d = 1 \/ division_rendered n d = true ->
  const_float_rational rf n d = Some (n, d).
Proof. exact float_expr_denotes_rational. Qed.
Print Assumptions c05_float_expr_denotes_rational.

(* otherwise the rendered text is exactly the oracle's decimal constant *)
Theorem c05_float_expr_out_of_range_is_oracle : forall rf n d, d <> 1 -> division_rendered n d = false ->
  const_float_expr rf n d = rf (n, d).
Proof. exact float_expr_out_of_range_is_oracle. Qed.
Print Assumptions c05_float_expr_out_of_range_is_oracle.

(* both operands of every rendered division are floating constants within the range of double (no diagnostic, no infinity) *)
Theorem c05_float_operands_in_range : float_rule = DivIfBelowLimit -> forall rf n d, 0 < d -> d <> 1 -> division_rendered n d = true ->
  const_float_rational rf n d = Some (n, d) /\ float_lit_overflows n d = false /\ operands_in_range (const_float_rational rf n d) = true.
Proof. exact float_operands_in_range. Qed.
Print Assumptions c05_float_operands_in_range.

Theorem c05_float_integral_operand_in_range : forall rf n, Z.abs n < dbl_lit_limit ->
  const_float_rational rf n 1 = Some (n, 1) /\ float_lit_overflows n 1 = false.
Proof. exact float_integral_operand_in_range. Qed.
Print Assumptions c05_float_integral_operand_in_range.

(* emit conditions: every constant is rendered under the `has_*` / loop condition it needs, never under a truthiness test *)
Theorem c05_emit_ok : emit_ok = true.
Proof. exact emit_ok_holds. Qed.
Print Assumptions c05_emit_ok.

(* the fixed port id exported by C, C++ and Python is the DSDL one for every p -- including the port id 0 -- and absent iff the type
   has none *)
Theorem c05_exported_port_exact : forall tg p, In tg all_targets -> exported_port tg p = Some p.
Proof. exact exported_port_exact. Qed.
Print Assumptions c05_exported_port_exact.

(* storage types (C01's storage_ok proviso): the declared type of every integer primitive is [u]int<std_width w>_t (C) resp.
   std::[u]int<std_width w>_t (C++), with the signedness of the DSDL type and Walker.std_width as the width *)
Theorem c05_c_storage_type_int : forall unsigned w cm, (1 <= w <= 64)%nat ->
  c_filter_type_from_primitive c_lang (prim_pty (int_kind unsigned) w cm) = Some (std_int_name [] unsigned w).
Proof. exact c_storage_type_int. Qed.
Print Assumptions c05_c_storage_type_int.

Theorem c05_cpp_storage_type_int : forall unsigned w cm, (1 <= w <= 64)%nat ->
  cpp_filter_type_from_primitive cpp_lang (prim_pty (int_kind unsigned) w cm) = Some (std_int_name s_std unsigned w).
Proof. exact cpp_storage_type_int. Qed.
Print Assumptions c05_cpp_storage_type_int.

Theorem c05_storage_type_float : forall cm,
  c_filter_type_from_primitive c_lang (prim_pty KFloat 16 cm) = Some s_float /\
  c_filter_type_from_primitive c_lang (prim_pty KFloat 32 cm) = Some s_float /\
  c_filter_type_from_primitive c_lang (prim_pty KFloat 64 cm) = Some s_double /\
  cpp_filter_type_from_primitive cpp_lang (prim_pty KFloat 16 cm) = Some s_float /\
  cpp_filter_type_from_primitive cpp_lang (prim_pty KFloat 32 cm) = Some s_float /\
  cpp_filter_type_from_primitive cpp_lang (prim_pty KFloat 64 cm) = Some s_double /\
  c_named_float_32 = s_float /\ c_named_float_64 = s_double /\ cpp_named_float_32 = s_float /\ cpp_named_float_64 = s_double.
Proof. exact storage_type_float. Qed.
Print Assumptions c05_storage_type_float.

Theorem c05_storage_type_bool : forall cm,
  c_filter_type_from_primitive c_lang (prim_pty KBool 1 cm) = Some s_bool /\
  cpp_filter_type_from_primitive cpp_lang (prim_pty KBool 1 cm) = Some s_bool.
Proof. exact storage_type_bool. Qed.
Print Assumptions c05_storage_type_bool.

Theorem c05_storage_type_too_wide : forall k w cm, (64 < w)%nat ->
  c_filter_type_from_primitive c_lang (prim_pty k w cm) = None /\ cpp_filter_type_from_primitive cpp_lang (prim_pty k w cm) = None.
Proof. exact storage_type_too_wide. Qed.
Print Assumptions c05_storage_type_too_wide.

Theorem c05_cpp_standard_bit_length_is_c : forall t, cpp_filter_to_standard_bit_length t = filter_to_standard_bit_length t.
Proof. exact cpp_standard_bit_length_is_c. Qed.
Print Assumptions c05_cpp_standard_bit_length_is_c.

Theorem c05_is_saturated_spec : forall t,
  is_saturated t = if py_isinstance t C_PrimitiveType
                   then Some (match pty_cast_mode t with CM_SATURATED => true | CM_TRUNCATED => false end) else None.
Proof. exact is_saturated_spec. Qed.
Print Assumptions c05_is_saturated_spec.

(* cast formats of properties.yaml; the C++ literal / constant filters and the C constant filter merely delegate to the C
   filter_literal (shape pins of the translator) *)
Theorem c05_cast_formats_pinned :
  c_cast_format = [40; 40; 123; 116; 121; 112; 101; 125; 41; 32; 123; 118; 97; 108; 117; 101; 125; 41]%N /\
  cpp_cast_format = [115; 116; 97; 116; 105; 99; 95; 99; 97; 115; 116; 60; 123; 116; 121; 112; 101; 125; 62; 40; 123; 118; 97; 108; 117;
                     101; 125; 41]%N /\ literal_filters_delegate = true.
Proof. exact cast_formats_pinned. Qed.
Print Assumptions c05_cast_formats_pinned.

(* ---- the VALUE of floating-point constants (exact integer model of round-to-nearest-even, Gen/MetaC05Float.v) ----
   c_eval64: N.0 and D.0 are rounded to double by the compiler, then one IEEE division; or the single decimal constant.
   REFUTED: "within one ulp of the correctly rounded rational" does not hold for float64 divisions with inexact operands
   (finding F-FLOAT-OPERAND-ROUNDING, witness evaluates two ulps off; reproduced on the generated C with gcc and clang) *)
(* the regenerated fact is the repaired rule: an OBLIGATION (a regression of _float_division_expr flips it; the refutation of the
   one-ulp claim under the old rule lives in History/C05_history.v) *)
Example c05_float_rule_live : float_rule = DivIfExactOperands.
Proof. reflexivity. Qed.

(* `float_rule` is a FACT REGENERATED from _float_division_expr on every run: DivIfBelowLimit = the code with finding
   F-FLOAT-OPERAND-ROUNDING (the refutation above is the live statement, the next one is vacuous), DivIfExactOperands = the repaired code
   (the next theorem is the live obligation, the refutation is vacuous).  The check records which one is live.
   Repaired code: for EVERY rational constant in double range the exported double is the correctly rounded rational (0 ulp, hence within
   the property's one ulp); the oracle's certificate is required exactly where the oracle is used *)
Theorem c05_float64_one_ulp : float_rule = DivIfExactOperands -> forall rf n d, 0 < d ->
  (d <> 1 -> division_rendered n d = false -> oracle_certified rf n d = true) ->
  exists x, c_eval64 rf n d = Some x /\ fbits binary64 x = fbits binary64 (rne binary64 n d) /\
            ford binary64 x - ford binary64 (rne binary64 n d) = 0.
Proof. exact float64_one_ulp. Qed.
Print Assumptions c05_float64_one_ulp.

(* the strongest true statements: the exported double is exactly the correctly rounded rational when the constant is integral, ... *)
Theorem c05_float64_integral_correct : forall rf n, c_eval64 rf n 1 = Some (rne binary64 n 1).
Proof. exact float64_integral_correct. Qed.
Print Assumptions c05_float64_integral_correct.

(* ... when both operands of the division are exactly representable doubles (exact64: decidable, evaluated by the check), ... *)
Theorem c05_float64_exact_operands_correct : forall rf n d, 0 < d -> d <> 1 -> division_rendered n d = true ->
  exact64 n = true -> exact64 d = true -> c_eval64 rf n d = Some (rne binary64 n d).
Proof. exact float64_exact_operands_correct. Qed.
Print Assumptions c05_float64_exact_operands_correct.

(* ... and when the oracle's decimal constant is rendered and its certificate, CHECKED IN COQ (the constant parses and its exact value
   rounds to the same double as n/d), holds; assumed: the compiler rounds a decimal constant correctly *)
Theorem c05_float64_oracle_certified_correct : forall rf n d, d <> 1 -> division_rendered n d = false ->
  oracle_certified rf n d = true ->
  const_float_expr rf n d = rf (n, d) /\
  exists x, c_eval64 rf n d = Some x /\ fbits binary64 x = fbits binary64 (rne binary64 n d).
Proof. exact float64_oracle_certified_correct. Qed.
Print Assumptions c05_float64_oracle_certified_correct.

(* ---- exported names and flags ---- *)
(* every macro / constexpr the C and C++ templates declare has a row in the model (Gen/MetaC05.v c_rows, cpp_rows); a new exported
   name without a row breaks this *)
Theorem c05_names_ok : names_ok = true.
Proof. exact names_ok_holds. Qed.
Print Assumptions c05_names_ok.

(* _HAS_FIXED_PORT_ID_ / _traits_::HasFixedPortID: the literal of the unique rendering site whose Jinja branch is taken is `true`
   exactly when the type has a fixed port id (0 included) *)
Theorem c05_exported_port_flag_exact : forall p svc,
  exported_flag TgtC n_c_has_port p svc = Some (match p with Some _ => true | None => false end) /\
  exported_flag TgtCpp n_cpp_has_port p svc = Some (match p with Some _ => true | None => false end).
Proof. exact exported_port_flag_exact. Qed.
Print Assumptions c05_exported_port_flag_exact.

Theorem c05_cpp_is_service_type_exact : forall p svc, exported_flag TgtCpp n_cpp_is_service_type p svc = Some svc.
Proof. exact cpp_is_service_type_exact. Qed.
Print Assumptions c05_cpp_is_service_type_exact.

(* the Python SERVICE class and the C++ service wrapper (the two ServiceType.j2 templates) *)
Theorem c05_exported_svc_port_exact : forall p, exported_port_k TgtPy KSvcPortId p = Some p.
Proof. exact exported_svc_port_exact. Qed.
Print Assumptions c05_exported_svc_port_exact.

Theorem c05_cpp_service_wrapper_traits_exact : forall p svc,
  exported_flag TgtCpp (n_cpp_svc n_cpp_is_service_type) p svc = Some true /\
  exported_flag TgtCpp (n_cpp_svc n_IsService) p svc = Some true /\
  exported_flag TgtCpp (n_cpp_svc n_IsRequest) p svc = Some false /\
  exported_flag TgtCpp (n_cpp_svc n_IsResponse) p svc = Some false.
Proof. exact cpp_service_wrapper_traits_exact. Qed.
Print Assumptions c05_cpp_service_wrapper_traits_exact.

(* the flat macro namespace of a C header (finding F-C-MACRO-CLASH): `c_header consts fields` is the ORDERED list of the #defines of a
   type with those constant names and array field names (expanded from the scanned `exported_names`); what a user reads is the LAST
   definition.  REFUTED in general: a constant called EXTENT_BYTES_ replaces the exported extent.  PARTIAL: when the macro names of the
   type are pairwise distinct (`c_macros_distinct`, evaluated by the check on every generated type) every name resolves to the
   definition the model attributes to it, so all c05_exported_* statements speak about what the compiled header delivers *)
Theorem c05_c_header_effective_refuted : exists consts fields,
  c_macros_distinct consts fields = false /\
  In ([95; 69; 88; 84; 69; 78; 84; 95; 66; 89; 84; 69; 83; 95]%N, SrcRow RExtentBytes) (c_header consts fields) /\
  last_def (c_header consts fields) [95; 69; 88; 84; 69; 78; 84; 95; 66; 89; 84; 69; 83; 95]%N = Some (SrcConstant [69; 88; 84; 69; 78; 84; 95; 66; 89; 84; 69; 83; 95]%N).
Proof. exact c_header_effective_refuted. Qed.
Print Assumptions c05_c_header_effective_refuted.

Theorem c05_c_header_effective_partial : forall consts fields, c_macros_distinct consts fields = true ->
  forall nm src, In (nm, src) (c_header consts fields) -> last_def (c_header consts fields) nm = Some src.
Proof. exact c_header_effective_partial. Qed.
Print Assumptions c05_c_header_effective_partial.

(* float32 / float16 constants: the double rounding RN32(RN64 q) can be exactly one binary32 ulp off (worst case exhibited; the upper
   bound of one ulp is argued and checked at run time, NOT proved) *)
Theorem c05_float32_double_rounding_worst_case : exists a b, 0 < b /\
  fbits32 (rne binary32 a b) = 1065353217 /\ fbits32 (cast32_of_64 a b) = 1065353216 /\ exact64 a = false.
Proof. exact float32_double_rounding_worst_case. Qed.
Print Assumptions c05_float32_double_rounding_worst_case.

(* the significand-level core of the one-ulp UPPER bound, proved: rounding t = N/D (in binary32 ulps of its binade) first on a grid g
   times finer (g = 2^29 for binary64) and then to integers stays within the two integer neighbours of t, so it differs from the direct
   rounding by at most one.  NOT formalised: that rne binary64 / the cast / rne binary32 of Gen/MetaC05Rne.v instantiate exactly this
   (same binade, nested grids incl. subnormals, renormalisation at powers of two); the check verifies |c32 - rn32| <= 1 at run time *)
Theorem c05_double_rounding_within_one : forall N D g, 0 <= N -> 0 < D -> 0 < g ->
  -1 <= div_half_even (div_half_even (N * g) D) g - div_half_even N D <= 1.
Proof. exact double_rounding_within_one. Qed.
Print Assumptions c05_double_rounding_within_one.

(* the cast, on the model of Gen/MetaC05Rne.v itself (rne_q = exponent of the unit in the last place incl. subnormals, rne_m = significand
   before renormalisation, wrap32 = renormalisation at 2^24 + overflow test): the exported float32 / float16 constant
   `(float) <correctly rounded double>` (cast32_of_64) and the correctly rounded binary32 value are the images under the SAME wrapper of
   two significands on the SAME grid that differ by at most one, i.e. equal or adjacent binary32 values: within one binary32 ulp.
   For every positive rational (sign symmetric, not stated), binary32 and binary64 subnormals included.  NAMED SIDE CONDITIONS, not
   discharged: the binary64 rounding is finite and non-zero (range of double), and SAME BINADE: the second rounding selects the same unit in
   the last place (rne_q binary32 n d = rne_q binary32 a b; it can differ only when the binary64 result is exactly the next power of
   two).  The check keeps verifying |c32 - rn32| <= 1 on every constant at run time. *)
Theorem c05_float32_cast_within_one_ulp : forall a b mx qx n d, 0 < a -> 0 < b ->
  rne binary64 a b = FFin false mx qx -> 0 < mx -> fval_q (FFin false mx qx) = Some (n, d) ->
  rne_q binary32 n d = rne_q binary32 a b ->
  cast32_of_64 a b = wrap32 (rne_q binary32 a b) (rne_m binary32 n d) /\
  rne binary32 a b = wrap32 (rne_q binary32 a b) (rne_m binary32 a b) /\
  -1 <= rne_m binary32 n d - rne_m binary32 a b <= 1.
Proof. exact float32_cast_within_one_ulp. Qed.
Print Assumptions c05_float32_cast_within_one_ulp.

(* non-vacuity of the side conditions: 1/3 *)
Example c05_float32_cast_example :
  rne binary64 1 3 = FFin false 6004799503160661 (-54) /\ fval_q (FFin false 6004799503160661 (-54)) = Some (6004799503160661, 2 ^ 54) /\
  rne_q binary32 6004799503160661 (2 ^ 54) = rne_q binary32 1 3.
Proof. vm_compute. repeat split; reflexivity. Qed.

(* ---- boolean constants, full name and version, Python class constants ---- *)
Theorem c05_bool_literal_denotes : forall b,
  bool_token_denotes (filter_literal_bool c_lang b) = Some b /\ bool_token_denotes (filter_literal_bool cpp_lang b) = Some b.
Proof. exact bool_literal_denotes. Qed.
Print Assumptions c05_bool_literal_denotes.

(* the strings rendered for _FULL_NAME_ and _FULL_NAME_AND_VERSION_ (scanned string templates evaluated on the type's name data) *)
Theorem c05_c_full_name_exact : forall m,
  c_full_name m = Some (tm_full_name m) /\
  c_full_name_and_version m = Some (tm_full_name m ++ [46%N] ++ py_str_int (tm_major m) ++ [46%N] ++ py_str_int (tm_minor m)).
Proof. exact c_full_name_exact. Qed.
Print Assumptions c05_c_full_name_exact.

(* Python class constants (scanned from py/templates/base.j2): integers read back exactly, floats are `N / D` on ints (correctly
   rounded by CPython: assumed), booleans are True / False *)
Theorem c05_py_int_const_denotes : forall z, exists s, py_const_token (CVInt z) = Some s /\ z_of_dec s = z.
Proof. exact py_int_const_denotes. Qed.
Print Assumptions c05_py_int_const_denotes.

Theorem c05_py_float_const_exact : forall n d,
  py_const_token (CVFrac n d) = Some (py_str_int n ++ [32; 47; 32]%N ++ py_str_int d) /\
  z_of_dec (py_str_int n) = n /\ z_of_dec (py_str_int d) = d.
Proof. exact py_float_const_exact. Qed.
Print Assumptions c05_py_float_const_exact.

Theorem c05_py_bool_const_exact : forall b, py_const_token (CVBool b) = Some (if b then s_True else s_False).
Proof. exact py_bool_const_exact. Qed.
Print Assumptions c05_py_bool_const_exact.

(* non-vacuity *)
Definition ex05_inner : ty := TComp false [TPrim (PU 3 true); TVar (TPrim (PS 13 true)) 300] (Some 4912%nat).
Definition ex05_outer : ty := TComp true [TPrim (PF 16 true); ex05_inner; TFix (TPrim PBool) 9] None.
Example c05_example_wf : wf_ty ex05_outer = true /\ is_comp ex05_outer = true.
Proof. vm_compute. split; reflexivity. Qed.
Example c05_example_exports :
  exported TgtC KExtentBytes ex05_inner = Some 614 /\ exported TgtC KBufferBytes ex05_inner = Some 490 /\
  exported TgtCpp KBufferBytes ex05_outer = Some 619 /\ exported TgtPy KExtentBytes ex05_outer = Some 619 /\
  exported TgtC KUnionCount ex05_outer = Some 3 /\ exported TgtC KCap (TVar (TPrim (PS 13 true)) 300) = Some 300.
Proof. vm_compute. repeat split; reflexivity. Qed.
Example c05_example_tight : wf_ty ex05_outer = true /\ noslack ex05_outer = false /\
  noslack (TComp true [TPrim (PF 16 true); TVar (TPrim (PS 13 true)) 300; TFix (TPrim PBool) 9] None) = true.
Proof. vm_compute. repeat split; reflexivity. Qed.
Example c05_example_too_small :
  ser_spec ex05_outer (VUnion 0 (VFlt 0%N)) 618 = Err ETooSmall /\ exists b, ser_spec ex05_outer (VUnion 0 (VFlt 0%N)) 619 = Ok b.
Proof. split; [vm_compute; reflexivity|]. eexists. vm_compute. reflexivity. Qed.
Example c05_example_storage :
  c_filter_type_from_primitive c_lang (prim_pty KUInt 13 CM_TRUNCATED) = Some [117; 105; 110; 116; 49; 54; 95; 116]%N /\
  cpp_filter_type_from_primitive cpp_lang (prim_pty KSInt 33 CM_SATURATED) =
    Some [115; 116; 100; 58; 58; 105; 110; 116; 54; 52; 95; 116]%N /\
  exported_port TgtC (Some 0) = Some (Some 0) /\ exported_port TgtPy None = Some None.
Proof. vm_compute. repeat split; reflexivity. Qed.
Example c05_example_literals :
  const_int_denotes dm_ip16 false 64 (-9223372036854775808) = Some (CLLong, -9223372036854775808) /\
  const_int_denotes dm_ilp32 true 64 18446744073709551615 = Some (CULLong, 18446744073709551615) /\
  const_int_denotes dm_ip16 false 16 (-32768) = Some (CLong, -32768) /\
  const_float_rational (fun _ => []) (-1) 3 = Some (-1, 3).
Proof. vm_compute. repeat split; reflexivity. Qed.
(* DBL_MIN with the string CPython's repr returns: the decimal constant denotes exactly the DSDL rational *)
Example c05_example_oracle_literal :
  let rf := fun _ : Z * Z => [50; 46; 50; 50; 53; 48; 55; 51; 56; 53; 56; 53; 48; 55; 50; 48; 49; 52; 101; 45; 51; 48; 56]%N in
  const_float_expr rf 11125369292536007 (5 * 10 ^ 323) = rf (0, 0) /\
  const_float_value rf 11125369292536007 (5 * 10 ^ 323) = Some (22250738585072014, 10 ^ 324) /\
  22250738585072014 * (5 * 10 ^ 323) = 11125369292536007 * 10 ^ 324.
Proof. vm_compute. repeat split; reflexivity. Qed.
