(* C14 -- support-library bit primitives are correct for all offsets, lengths and values.
   Statements only; every proof is `exact <lemma>` so nothing here can be weakened quietly.
   Models: Prims/CPrims.v (nunavut/support/serialization.h of the C target, function by function,
   size_t wrap written out, every byte access option-returning: None = out-of-range access = UB).
   Proofs: Prims/CPrimsThm.v.  The models are tied to the rendered headers by the correspondence
   run of tools/checks/c14.py (extracted model vs. compiled header on the same calls).

   Conventions: `bit b p` is bit p (DSDL order: LSB of byte 0 first) of the byte list b, false
   beyond its end.  Buffers are the allocation behind the pointer; `size` is the
   buf_size_bytes argument.  Preconditions of the C contract are boolean guards:
     copy_pre  = both buffers are large enough for the addressed ranges, allocations < 2^61 bytes
     buf_pre   = size <= allocation, allocation < 2^61 bytes, offset is a size_t, bytes < 256. *)
From Verif Require Import Bits CPrims CPrimsThm F16 F16Thm F16ArithThm CppPrims CppPrimsThm CppPrimsMoreThm PyPrims PyPrimsThm PyPrimsMoreThm PyPrimsStdThm PyPrimsBitsThm PyPrimsForkThm PrimsExt PrimsExtThm
  CPrimsW CPrimsWThm F16FlocqDefs F16Flocq PyComposeThm CppComposeThm Gen_Pin_c14py Gen_Pin_c14c PyPrimsTotalThm.
Open Scope N_scope.

(* ---------------------------------------------------------------------------------------------
   C: nunavutCopyBits *)
Theorem C14_copy_bits_exact :
  forall (dst : bytes) (doff len : N) (src : bytes) (soff : N),
    copy_pre dst doff len src soff = true ->
    exists r, copy_bits dst doff len src soff = Some r /\            (* no out-of-range access *)
      length r = length dst /\
      (bytes_ok dst -> bytes_ok src -> bytes_ok r) /\
      forall p, bit r p = if (doff <=? p) && (p <? doff + len)
                          then bit src (soff + (p - doff))           (* the addressed bits *)
                          else bit dst p.                            (* everything else untouched *)
Proof. exact copy_bits_exact_b. Qed.
Print Assumptions C14_copy_bits_exact.

Example C14_copy_pre_satisfiable :
  copy_pre [1; 2; 3] 5 17 [255; 0; 255; 7] 3 = true /\ copy_pre [] 0 0 [] 0 = true.
Proof. vm_compute. auto. Qed.

(* C: zero-length copy, SaturateBufferFragmentBitLength, GetBits, SetIxx, SetBit, GetBit, sign_extend = two's complement, little = any/big *)
Theorem C14_c_further_members :
  (forall dst doff src soff, copy_bits dst doff 0 src soff = Some dst) /\
  (* nunavutSaturateBufferFragmentBitLength: min(len, bits left after off), never past the end *)
  (forall size off len,
     (size * 8 <? two64) = true ->
     saturate_fragment size off len = N.min len (size * 8 - N.min (size * 8) off) /\
     off + saturate_fragment size off len <= N.max off (size * 8)) /\
  (* nunavutGetBits: (len+7)/8 output bytes are written: bits of the buffer inside it, zero beyond
     its end (implicit zero extension) and in the padding of the last byte; nothing else changes *)
  (forall (output buf : bytes) (size off len : N),
     buf_pre buf size off = true -> (len + 7 <? two64) = true ->
     ((len + 7) / 8 <=? blen output) && alloc_ok output = true ->
     exists r, get_bits output buf size off len = Some r /\ length r = length output /\
       forall p, bit r p = if p <? 8 * ((len + 7) / 8)
                           then (p <? len) && (off + p <? 8 * size) && bit buf (off + p)
                           else bit output p) /\
  (* nunavutSetIxx: the same with the two's complement bits of the signed value *)
  (forall (little : bool) (buf : bytes) (size off : N) (value : Z) (len : N),
     buf_pre buf size off = true -> (off + len <? two64) = true ->
     if size * 8 <? off + len
     then set_ixx little buf size off value len = Some (inr TooSmall)
     else exists r, set_ixx little buf size off value len = Some (inl r) /\ length r = length buf /\
            forall p, bit r p = if (off <=? p) && (p <? off + N.min len 64)
                                then Z.testbit value (Z.of_N (p - off)) else bit buf p) /\
  (forall (buf : bytes) (size off : N) (value : bool),
     buf_pre buf size off = true ->
     if size * 8 <=? off
     then set_bit buf size off value = Some (inr TooSmall)
     else exists r, set_bit buf size off value = Some (inl r) /\ length r = length buf /\
            forall p, bit r p = if p =? off then value else bit buf p) /\
  (forall (little : bool) (buf : bytes) (size off : N),
     buf_pre buf size off = true ->
     get_bit little buf size off = Some ((off <? 8 * size) && bit buf off)) /\
  (forall sat u, 0 < sat -> u < 2 ^ sat ->
     (- 2 ^ (Z.of_N sat - 1) <= sign_extend sat u < 2 ^ (Z.of_N sat - 1))%Z /\
     (sign_extend sat u mod 2 ^ Z.of_N sat = Z.of_N u)%Z) /\
  (* target_endianness = little and = any/big compute the same functions (little-endian host) *)
  (forall (w : N) (buf : bytes) (size off len value : N),
     (w =? 8) || (w =? 16) || (w =? 32) || (w =? 64) = true -> buf_pre buf size off = true ->
     get_uxx true w buf size off len = get_uxx false w buf size off len /\
     get_ixx true w buf size off len = get_ixx false w buf size off len /\
     set_uxx true buf size off value len = set_uxx false buf size off value len).
Proof.
  split; [|split; [|split; [|split; [|split; [|split; [|split]]]]]].
  - (* copy_bits_zero_length *) exact copy_bits_zero_length.
  - (* saturate_fragment_spec *) exact saturate_fragment_spec_b.
  - (* get_bits_zero_ext *) exact get_bits_zero_ext_b.
  - (* set_ixx_exact *) exact set_ixx_exact_b.
  - (* set_bit_exact *) exact set_bit_exact_b.
  - (* get_bit_spec *) exact get_bit_spec_b.
  - (* sign_extend_is_twos_complement *) exact sign_extend_range.
  - (* endianness_variants_equal *) exact endianness_variants_equal_b.
Qed.
Print Assumptions C14_c_further_members.



Example C14_buf_pre_satisfiable :
  buf_pre [1; 2; 3] 2 100 = true /\ buf_pre [] 0 0 = true.
Proof. vm_compute. auto. Qed.

(* (statement kept with the premise off + len < 2^64 of the time when the capacity check could wrap; since /repo ba46e0a the check
   saturates and C14_set_uxx_every_offset below needs no such premise.)
   nunavutSetUxx (both renderings): error iff the buffer is too small, otherwise exactly
   min(len,64) bits are written and every other bit of the allocation keeps its value *)
Theorem C14_set_uxx_exact :
  forall (little : bool) (buf : bytes) (size off value len : N),
    buf_pre buf size off = true -> (off + len <? two64) = true ->
    if size * 8 <? off + len
    then set_uxx little buf size off value len = Some (inr TooSmall)
    else exists r, set_uxx little buf size off value len = Some (inl r) /\ length r = length buf /\
           forall p, bit r p = if (off <=? p) && (p <? off + N.min len 64)
                               then N.testbit (value mod 2 ^ 64) (p - off) else bit buf p.
Proof. exact set_uxx_exact_b. Qed.
Print Assumptions C14_set_uxx_exact.



(* nunavutGetU8/16/32/64 (both renderings): the field, zero-extended beyond `size` bytes,
   len > N clamped to N; never an out-of-range access, for any offset *)
Theorem C14_get_uN_spec :
  forall (little : bool) (w : N) (buf : bytes) (size off len : N),
    (w =? 8) || (w =? 16) || (w =? 32) || (w =? 64) = true -> buf_pre buf size off = true ->
    exists v, get_uxx little w buf size off len = Some v /\ v < 2 ^ N.min len w /\
      forall k, N.testbit v k = (k <? N.min len w) && (off + k <? 8 * size) && bit buf (off + k).
Proof. exact get_uxx_spec_b. Qed.
Print Assumptions C14_get_uN_spec.


(* nunavutGetI8/16/32/64: sign extension of the min(len,N)-bit field u:
   u - 2^sat if bit sat-1 is set, u otherwise (sat = 0 gives 0; sat = 1 gives 0 / -1, which the
   header documents as unspecified); the `-x` of the C expression never overflows *)
Theorem C14_get_iN_sign_ext :
  forall (little : bool) (w : N) (buf : bytes) (size off len : N),
    (w =? 8) || (w =? 16) || (w =? 32) || (w =? 64) = true -> buf_pre buf size off = true ->
    exists u, get_uxx little w buf size off (N.min len w) = Some u /\ u < 2 ^ N.min len w /\
              get_ixx little w buf size off len = Some (sign_extend (N.min len w) u).
Proof. exact get_ixx_sign_ext_b. Qed.
Print Assumptions C14_get_iN_sign_ext.



(* ---------------------------------------------------------------------------------------------
   Half precision: nunavutFloat16Pack / nunavutFloat16Unpack (C and C++ headers carry the same code),
   integer-only model Prims/F16.v.  Bit patterns: x < 2^32 binary32, h < 2^16 binary16.
   val32 y = magnitude of a finite binary32 in units of 2^-149; val16 h = magnitude of a half in units of
   2^-24 (val16 0x7C00 = 65536, the first value out of range); pack_mag = the conversion on magnitudes. *)

(* all 65 536 halves survive unpack-then-pack unchanged (NaNs stay NaNs, see below) *)
Theorem C14_f16_roundtrip :
  forall h, h < 65536 -> is_nan16 h = false -> f16_pack (f16_unpack h) = h.
Proof. exact f16_roundtrip. Qed.
Print Assumptions C14_f16_roundtrip.

(* Half precision, all 65 536 halves: NaN-ness preserved, unpack exact on finite halves, sign bit and infinities kept *)
Theorem C14_f16_all_halves :
  (forall h, h < 65536 ->
     (is_nan16 h = true -> is_nan32 (f16_unpack h) = true /\ is_nan16 (f16_pack (f16_unpack h)) = true) /\
     (is_nan16 h = false -> is_nan32 (f16_unpack h) = false)) /\
  (* unpack is exact on finite halves, keeps the sign bit, maps +-inf to +-inf *)
  (forall h, h < 65536 -> N.land h 32767 < 31744 ->
     val32 (N.land (f16_unpack h) 2147483647) = N.shiftl (val16 (N.land h 32767)) 125) /\
  (forall h, h < 65536 ->
     N.shiftr (f16_unpack h) 31 = N.shiftr h 15 /\ f16_unpack h < 4294967296 /\
     (N.land h 32767 = 31744 -> N.land (f16_unpack h) 2147483647 = F32INF)).
Proof.
  split; [|split].
  - (* f16_nan_preserved *) exact f16_nan_preserved.
  - (* f16_unpack_exact *) exact f16_unpack_exact.
  - (* f16_unpack_sign_inf *) exact f16_unpack_sign_inf.
Qed.
Print Assumptions C14_f16_all_halves.



(* Half precision, ALL 2^32 inputs: sign copied; faithful; monotone; 0x7C00 exactly from 65520 on; inf/NaN; encodings order preserving *)
Theorem C14_f16_all_binary32 :
  (* pack, for ALL 2^32 inputs: the sign bit is copied, the magnitude goes through pack_mag *)
  (forall x, x < 4294967296 -> f16_pack x = pack_mag (x mod 2147483648) + 32768 * (x / 2147483648)) /\
  (* faithful (what C14 demands): the exact value lies between the two neighbours of the result *)
  (forall y, y < F32INF ->
     (pack_mag y = 0 \/ val16 (pack_mag y - 1) * 2 ^ 125 <= val32 y) /\
     (pack_mag y = 31744 \/ val32 y <= val16 (pack_mag y + 1) * 2 ^ 125)) /\
  (forall y y', y <= y' -> y' < F32INF -> pack_mag y <= pack_mag y') /\
  (* out-of-range magnitudes go to infinity: exactly the finite inputs >= 65520 (bit pattern 0x477FF000) *)
  (forall y, y < 2139095040 -> (pack_mag y = 31744 <-> 1199566848 <= y)) /\
  (forall y, F32INF <= y -> y < 2147483648 ->
     (y = F32INF -> pack_mag y = 31744) /\ (F32INF < y -> pack_mag y = 32256 /\ is_nan16 32256 = true)) /\
  (* the encodings are order preserving, so statements on bit patterns are statements on values *)
  ((forall y y', y <= y' -> val32 y <= val32 y') /\ (forall h h', h <= h' -> val16 h <= val16 h')).
Proof.
  split; [|split; [|split; [|split; [|split]]]].
  - (* f16_pack_sign *) exact f16_pack_sign.
  - (* f16_faithful *) exact f16_faithful.
  - (* f16_monotone *) exact f16_monotone.
  - (* f16_overflow_to_inf *) exact pack_mag_overflow.
  - (* f16_inf_nan *) exact f16_inf_nan.
  - (* f16_encodings_monotone *) split; [exact val32_mono|exact val16_mono].
Qed.
Print Assumptions C14_f16_all_binary32.

(* the rule the C/C++ code implements, for every finite magnitude: the result h is finite-or-0x7C00 and the exact
   value lies in [midpoint(h-1,h), midpoint(h,h+1)): round to nearest, ties away from zero; 0x7C00 when >= 65520 *)
Theorem C14_f16_rounding_rule :
  forall y, y < F32INF ->
    pack_mag y <= 31744 /\
    (pack_mag y = 0 \/ (val16 (pack_mag y - 1) + val16 (pack_mag y)) * 2 ^ 125 <= 2 * val32 y) /\
    (pack_mag y = 31744 \/ 2 * val32 y < (val16 (pack_mag y) + val16 (pack_mag y + 1)) * 2 ^ 125).
Proof. exact f16_rounding_rule. Qed.
Print Assumptions C14_f16_rounding_rule.




Example C14_f16_overflow_threshold_is_65520 :
  val32 1199566848 = 65520 * 2 ^ 149 /\ val16 31743 * 2 ^ 125 = 65504 * 2 ^ 149 /\ val16 31744 * 2 ^ 125 = 65536 * 2 ^ 149.
Proof. vm_compute. auto. Qed.



(* ---------------------------------------------------------------------------------------------
   C++: bitspan / const_bitspan (Prims/CppPrims.v; a span = bytes from data_.data() on, data_.size(), offset_bits_).
   span_okb = data_.size() bytes exist behind the pointer, allocation < 2^61 bytes, offset is a size_t, bytes < 256. *)

(* const_bitspan::copyTo: the length is clamped to the source's size(); then exactly those bits are copied *)
Theorem C14_cpp_copyTo_exact :
  forall (src dst : span) (len : N),
    span_okb src = true -> span_okb dst = true ->
    (sp_off dst + N.min len (sp_bits src) <=? 8 * blen (sp_data dst)) = true ->
    sp_bits src = sp_size src * 8 - sp_off src /\
    exists r, copyTo src dst len = Some r /\ length r = length (sp_data dst) /\
      forall p, bit r p = if (sp_off dst <=? p) && (p <? sp_off dst + N.min len (sp_bits src))
                          then bit (sp_data src) (sp_off src + (p - sp_off dst)) else bit (sp_data dst) p.
Proof. exact copyTo_exact_b. Qed.
Print Assumptions C14_cpp_copyTo_exact.

Example C14_span_okb_satisfiable :
  span_okb (mkspan [1; 2; 3] 2 100) = true /\ span_okb (mkspan [] 0 0) = true.
Proof. vm_compute. auto. Qed.

(* bitspan::setZeros (current source): error iff length > size(), otherwise exactly the bits
   [offset, offset+length) become zero and nothing else changes -- for every offset and length *)
Theorem C14_cpp_setZeros_exact :
  forall (s : span) (length : N),
    span_okb s = true -> (length <? two64) = true ->
    if sp_bits s <? length
    then setZeros s length = Some (inr TooSmall)
    else exists r, setZeros s length = Some (inl r) /\ List.length r = List.length (sp_data s) /\
           forall p, bit r p = if (sp_off s <=? p) && (p <? sp_off s + length) then false else bit (sp_data s) p.
Proof. exact setZeros_exact_b. Qed.
Print Assumptions C14_cpp_setZeros_exact.

(* C++: padAndMoveToAlignment; subspan(bits), subspan_bytes(n), subspan(bits_at, size_bits) *)
Theorem C14_cpp_pad_and_subspans :
  (* bitspan::padAndMoveToAlignment(n): zero bits up to the next multiple of n, offset advanced onto it *)
  (forall (s : span) (n : N),
     span_okb s = true -> (1 <=? n) && (n <=? 255) = true ->
     let pad := (n - sp_off s mod n) mod n in
     if sp_bits s <? pad
     then padAndMoveToAlignment s n = Some (inr TooSmall)
     else exists r, padAndMoveToAlignment s n = Some (inl (r, sp_off s + pad)) /\ (sp_off s + pad) mod n = 0 /\
            List.length r = List.length (sp_data s) /\
            forall p, bit r p = if (sp_off s <=? p) && (p <? sp_off s + pad) then false else bit (sp_data s) p) /\
  (* subspan(bits), subspan_bytes(n) [current source: the pointer never passes one past the end, the result is always a well formed
     span], subspan(bits_at, size_bits): the new pointer/offset address the same bits,
     the new size never reaches past the parent's; subspan(bits_at, size_bits) floors the byte size as the source does *)
  (forall (s : span) (bits size_bytes bits_at size_bits : N),
    span_okb s = true -> (sp_off s + bits <? two64) && (sp_off s + bits_at <? two64) && (size_bits + 8 <? two64) = true ->
    (let k := (sp_off s + bits) / 8 in
     let s' := subspan_clamped s bits in
     sp_data s' = skipn (N.to_nat (N.min k (sp_size s))) (sp_data s) /\ sp_off s' = (sp_off s + bits) mod 8 /\
     sp_size s' = sp_size s - k /\ span_ok s' /\
     (forall p, bit (sp_data s') p = bit (sp_data s) (8 * N.min k (sp_size s) + p)) /\
     sp_bits s' = sp_size s * 8 - (sp_off s + bits) /\
     (k <= sp_size s -> 8 * k + sp_off s' = sp_off s + bits)) /\
    (let s' := subspan_bytes_clamped s size_bytes in
     sp_data s' = skipn (N.to_nat (N.min (sp_off s / 8) (sp_size s))) (sp_data s) /\ sp_off s' = sp_off s mod 8 /\
     sp_size s' = N.min size_bytes (sp_size s - sp_off s / 8) /\ span_ok s') /\
    (let k := (sp_off s + bits_at) / 8 in
     let o := (sp_off s + bits_at) mod 8 in
     if (sp_size s <? k) || ((sp_size s - k) * 8 <? o + size_bits)
     then subspan2 s bits_at size_bits = inr TooSmall
     else subspan2 s bits_at size_bits = inl (mkspan (skipn (N.to_nat k) (sp_data s)) ((o + size_bits) / 8) o) /\
          k + (o + size_bits) / 8 <= sp_size s)).
Proof.
  split.
  - (* cpp_pad_and_move_spec *) exact pad_and_move_spec_b.
  - (* cpp_subspan_spec *) exact subspans_clamped_spec_b.
Qed.
Print Assumptions C14_cpp_pad_and_subspans.

(* setUxx/setIxx/setBit/getUxx/getIxx/getBit/getBits compute exactly what the C functions compute on
   (data, data_.size(), offset): the C theorems above therefore hold for them verbatim *)
Theorem C14_cpp_members_are_c :
  forall s : span,
    span_okb s = true ->
    (forall value len, (sp_off s + len <? two64) = true ->
       cpp_set_uxx s value len = set_uxx false (sp_data s) (sp_size s) (sp_off s) value len) /\
    (forall (value : Z) len, (sp_off s + len <? two64) = true ->
       cpp_set_ixx s value len = set_ixx false (sp_data s) (sp_size s) (sp_off s) value len) /\
    (forall value, cpp_set_bit s value = set_bit (sp_data s) (sp_size s) (sp_off s) value) /\
    (forall w len, (w =? 8) || (w =? 16) || (w =? 32) || (w =? 64) = true ->
       cpp_get_uxx w s len = get_uxx false w (sp_data s) (sp_size s) (sp_off s) len /\
       cpp_get_ixx w s len = get_ixx false w (sp_data s) (sp_size s) (sp_off s) len) /\
    cpp_get_bit s = get_bit false (sp_data s) (sp_size s) (sp_off s) /\
    (forall output len, (len + 7 <? two64) && ((len + 7) / 8 <=? blen output) && alloc_ok output = true ->
       getBits s output len = get_bits output (sp_data s) (sp_size s) (sp_off s) len) /\
    buf_pre (sp_data s) (sp_size s) (sp_off s) = true.
Proof. exact cpp_members_are_c_b. Qed.
Print Assumptions C14_cpp_members_are_c.

(* C++ setUxx / setIxx at EVERY offset and length (no premise `offset + length < 2^64`): equal to the C function, which reports a
   too-small buffer exactly when size*8 < offset + length (natural-number sum) and otherwise stores min(length, 64) bits *)
Theorem C14_cpp_set_uxx_every_offset :
  forall s : span,
    span_okb s = true ->
    (forall value len,
       cpp_set_uxx s value len = set_uxx false (sp_data s) (sp_size s) (sp_off s) value len /\
       if sp_size s * 8 <? sp_off s + len
       then cpp_set_uxx s value len = Some (inr TooSmall)
       else exists r, cpp_set_uxx s value len = Some (inl r) /\ length r = length (sp_data s) /\
              forall p, bit r p = if (sp_off s <=? p) && (p <? sp_off s + N.min len 64)
                                  then N.testbit (value mod 2 ^ 64) (p - sp_off s) else bit (sp_data s) p) /\
    (forall (value : Z) len,
       cpp_set_ixx s value len = set_ixx false (sp_data s) (sp_size s) (sp_off s) value len).
Proof. exact cpp_set_uxx_every_offset_b. Qed.
Print Assumptions C14_cpp_set_uxx_every_offset.

(* padAndMoveToAlignment(n) and subspan(bits_at, size_bits) over the WHOLE range of their size_t arguments (text of /repo fcc36ca;
   C14_cpp_pad_and_subspans above is the instance n <= 255 / sums that do not wrap, which Codec cites).  The text of before - padding
   cast to uint8_t, wrapping sums - and its refutations are History/C14_history.v (F-BITSPAN-PAD-TRUNC, F-BITSPAN-SUBSPAN-WRAP: fixed).
   Every alignment 1 <= n < 2^64: the cursor ends on a multiple of n and exactly the padding bits are zeroed, or the buffer is
   reported too small when the padding does not fit ... *)
Theorem C14_cpp_pad_every_alignment :
  forall s n, span_okb s = true -> (1 <=? n) && (n <? two64) = true ->
    let pad := (n - sp_off s mod n) mod n in
    if sp_bits s <? pad
    then padAndMoveToAlignment s n = Some (inr TooSmall)
    else exists r, padAndMoveToAlignment s n = Some (inl (r, sp_off s + pad)) /\ (sp_off s + pad) mod n = 0 /\
           List.length r = List.length (sp_data s) /\
           forall p, bit r p = if (sp_off s <=? p) && (p <? sp_off s + pad) then false else bit (sp_data s) p.
Proof. exact pad_and_move_every_alignment_b. Qed.
Print Assumptions C14_cpp_pad_every_alignment.

(* ... and subspan(bits_at, size_bits) succeeds exactly when, in natural-number arithmetic, the byte position (offset + bits_at)/8 is
   inside the buffer and the remaining bytes hold (offset + bits_at) mod 8 + size_bits bits; the result then addresses those bytes *)
Theorem C14_cpp_subspan_every_offset :
  forall s bits_at size_bits, span_okb s = true -> (bits_at <? two64) && (size_bits <? two64) = true ->
    let k := (sp_off s + bits_at) / 8 in
    let o := (sp_off s + bits_at) mod 8 in
    if (sp_size s <? k) || ((sp_size s - k) * 8 <? o + size_bits)
    then subspan2 s bits_at size_bits = inr TooSmall
    else subspan2 s bits_at size_bits = inl (mkspan (skipn (N.to_nat k) (sp_data s)) ((o + size_bits) / 8) o) /\
         k + (o + size_bits) / 8 <= sp_size s.
Proof. exact subspan2_every_offset_b. Qed.
Print Assumptions C14_cpp_subspan_every_offset.


(* Python Serializer: new; invariant preserved; every add method appends exactly the bits of its argument; pad_to_alignment *)
Theorem C14_py_serializer_members :
  (* ---------------------------------------------------------------------------------------------
     Python: Serializer / Deserializer / ZeroExtendingBuffer as state machines (Prims/PyPrims.v).
     Inv s       = every bit of the buffer at a position >= the cursor is zero (true of Serializer.new, preserved by every add method)
     appended s s' n f = the cursor advanced by n, the buffer kept its length, the bits below the old cursor are unchanged,
                         the n bits from the old cursor on are f 0 .. f (n-1), everything after is zero.
     The capacity hypotheses are what Serializer.new(size) provides: one spare byte after the last byte written. *)
  (forall n, Inv (ser_new n) /\ bytes_ok (s_buf (ser_new n))) /\
  (forall s s' n f, appended s s' n f -> Inv s') /\
  (forall (s : ser) (value bits : N),
     Inv s -> bytes_ok (s_buf s) -> 1 <= bits -> s_off s / 8 + (bits + 7) / 8 < blen (s_buf s) ->
     exists s', add_unaligned_unsigned s value bits = Some s' /\ appended s s' bits (N.testbit value)) /\
  (forall (s : ser) (x : bool),
     Inv s -> bytes_ok (s_buf s) -> s_off s / 8 < blen (s_buf s) ->
     exists s', add_unaligned_bit s x = Some s' /\ appended s s' 1 (fun _ => x)) /\
  (forall (s : ser) (x : bytes),
     Inv s -> bytes_ok (s_buf s) -> bytes_ok x -> s_off s mod 8 = 0 -> s_off s / 8 + blen x <= blen (s_buf s) ->
     exists s', add_aligned_bytes s x = Some s' /\ appended s s' (8 * blen x) (bit x)) /\
  (forall (s : ser) (value bits : N),
     Inv s -> bytes_ok (s_buf s) -> 1 <= bits -> s_off s mod 8 = 0 -> s_off s / 8 + (bits + 7) / 8 <= blen (s_buf s) ->
     exists s', add_aligned_unsigned s value bits = Some s' /\ appended s s' bits (N.testbit value)) /\
  (* signed values in range are appended in two's complement, aligned or not *)
  (forall (aligned : bool) (s : ser) (value : Z) (bits : N),
     Inv s -> bytes_ok (s_buf s) -> 2 <= bits -> (- 2 ^ (Z.of_N bits - 1) <= value < 2 ^ (Z.of_N bits - 1))%Z ->
     (if aligned then s_off s mod 8 = 0 /\ s_off s / 8 + (bits + 7) / 8 <= blen (s_buf s)
      else s_off s / 8 + (bits + 7) / 8 < blen (s_buf s)) ->
     exists s', (if aligned then add_aligned_signed s value bits else add_unaligned_signed s value bits) = Some s' /\
                appended s s' bits (fun k => Z.testbit value (Z.of_N k))) /\
  (* pad_to_alignment moves the cursor onto the next multiple of n; the bits skipped are zero, the buffer is unchanged *)
  (forall (s : ser) (n : N),
     Inv s -> bytes_ok (s_buf s) -> 0 < n ->
     let pad := (n - s_off s mod n) mod n in
     (s_off s + pad + 7) / 8 <= blen (s_buf s) ->
     pad_to_alignment s n = Some (mkser (s_buf s) (s_off s + pad)) /\ (s_off s + pad) mod n = 0 /\
     Inv (mkser (s_buf s) (s_off s + pad))) /\
  (* the standard-width methods: add_aligned_u8 (x <= 255: NumPy rejects larger), u16/u32/u64 (truncating), i8..i64 (two's complement) *)
  (forall (s : ser) (x : N),
     Inv s -> bytes_ok (s_buf s) -> x <= 255 -> s_off s mod 8 = 0 -> s_off s / 8 < blen (s_buf s) ->
     exists s', add_aligned_u8 s x = Some s' /\ appended s s' 8 (N.testbit x)) /\
  (forall (s : ser) (x : N),
     Inv s -> bytes_ok (s_buf s) -> s_off s mod 8 = 0 ->
     (s_off s / 8 + 2 <= blen (s_buf s) -> exists s', add_aligned_u16 s x = Some s' /\ appended s s' 16 (N.testbit x)) /\
     (s_off s / 8 + 4 <= blen (s_buf s) -> exists s', add_aligned_u32 s x = Some s' /\ appended s s' 32 (N.testbit x)) /\
     (s_off s / 8 + 8 <= blen (s_buf s) -> exists s', add_aligned_u64 s x = Some s' /\ appended s s' 64 (N.testbit x))) /\
  (forall (w : N) (s : ser) (x : Z),
     (w = 8 \/ w = 16 \/ w = 32 \/ w = 64) ->
     Inv s -> bytes_ok (s_buf s) -> s_off s mod 8 = 0 -> s_off s / 8 + w / 8 <= blen (s_buf s) ->
     (- 2 ^ (Z.of_N w - 1) <= x < 2 ^ (Z.of_N w - 1))%Z ->
     exists s', add_aligned_ixx w s x = Some s' /\ appended s s' w (fun k => Z.testbit x (Z.of_N k))) /\
  (* arrays of bits (numpy.packbits / unpackbits, bitorder="little"): bit k of the array goes to / comes from cursor + k *)
  (forall (s : ser) (x : list bool),
     Inv s -> bytes_ok (s_buf s) ->
     (s_off s / 8 + (N.of_nat (length x) + 7) / 8 < blen (s_buf s) ->
      exists s', add_unaligned_array_of_bits s x = Some s' /\ appended s s' (N.of_nat (length x)) (nthb x)) /\
     (s_off s mod 8 = 0 -> s_off s / 8 + (N.of_nat (length x) + 7) / 8 <= blen (s_buf s) ->
      exists s', add_aligned_array_of_bits s x = Some s' /\ appended s s' (N.of_nat (length x)) (nthb x))).
Proof.
  split; [|split; [|split; [|split; [|split; [|split; [|split; [|split; [|split; [|split; [|split]]]]]]]]]].
  - (* py_new_inv *) exact ser_new_inv.
  - (* py_appended_preserves_inv *) exact appended_inv.
  - (* py_add_unaligned_unsigned_appends *) exact add_unaligned_unsigned_appends.
  - (* py_add_unaligned_bit_appends *) exact add_unaligned_bit_appends.
  - (* py_add_aligned_bytes_appends *) exact add_aligned_bytes_appends.
  - (* py_add_aligned_unsigned_appends *) exact add_aligned_unsigned_appends.
  - (* py_add_signed_appends *) exact add_signed_appends.
  - (* py_pad_to_alignment_spec *) exact pad_to_alignment_spec.
  - (* py_add_aligned_u8_appends *) exact add_aligned_u8_appends.
  - (* py_add_aligned_u16_u32_u64_appends *) intros s x HI Hok Hal. split; [|split]; intros Hcap;
        [exact (add_aligned_u16_appends s x HI Hok Hal Hcap)|exact (add_aligned_u32_appends s x HI Hok Hal Hcap)|
         exact (add_aligned_u64_appends s x HI Hok Hal Hcap)].
  - (* py_add_aligned_ixx_appends *) exact add_aligned_ixx_appends.
  - (* py_add_array_of_bits_appends *) intros s x HI Hok. split; [exact (add_unaligned_array_of_bits_appends s x HI Hok)|exact (add_aligned_array_of_bits_appends s x HI Hok)].
Qed.
Print Assumptions C14_py_serializer_members.


(* the unaligned byte loop (`buf[i] |= (b << left) & 0xFF; buf[i+1] = b >> right`) appends exactly the bytes, at EVERY bit offset *)
Theorem C14_py_add_unaligned_bytes_appends :
  forall (s : ser) (value : bytes),
    Inv s -> bytes_ok (s_buf s) -> bytes_ok value -> s_off s / 8 + blen value < blen (s_buf s) \/ value = [] ->
    exists s', add_unaligned_bytes s value = Some s' /\ appended s s' (8 * blen value) (bit value).
Proof. exact add_unaligned_bytes_appends. Qed.
Print Assumptions C14_py_add_unaligned_bytes_appends.







Example C14_py_hypotheses_satisfiable :
  exists s', add_unaligned_unsigned (ser_new 2) 5 3 = Some s' /\ s_buf s' = [5; 0; 0] /\ s_off s' = 3.
Proof. eexists. vm_compute. auto. Qed.

(* Python Deserializer: every fetch method returns the bits at the cursor of the zero-extended buffer; signed fetches sign-extend with the C function *)
Theorem C14_py_deserializer_members :
  (* Deserializer: bits beyond the end of the buffer read as zero (`bit` is false there), for every offset and length *)
  (forall (d : des) (count : N),
     bytes_ok (d_buf d) ->
     exists out d', fetch_unaligned_bytes d count = Some (out, d') /\ d_buf d' = d_buf d /\ d_off d' = d_off d + 8 * count /\
       blen out = count /\ bytes_ok out /\ forall k, bit out k = (k <? 8 * count) && bit (d_buf d) (d_off d + k)) /\
  (forall (d : des) (bits : N),
     bytes_ok (d_buf d) -> 1 <= bits ->
     exists v d', fetch_unaligned_unsigned d bits = Some (v, d') /\ d_buf d' = d_buf d /\ d_off d' = d_off d + bits /\
       forall k, N.testbit v k = (k <? bits) && bit (d_buf d) (d_off d + k)) /\
  (forall (d : des) (bits : N),
     bytes_ok (d_buf d) -> 1 <= bits -> d_off d mod 8 = 0 ->
     exists v d', fetch_aligned_unsigned d bits = Some (v, d') /\ d_buf d' = d_buf d /\ d_off d' = d_off d + bits /\
       forall k, N.testbit v k = (k <? bits) && bit (d_buf d) (d_off d + k)) /\
  (* signed fetches sign-extend with the same function as the C target *)
  (forall (aligned : bool) (d : des) (bits : N),
     bytes_ok (d_buf d) -> 2 <= bits -> (aligned = true -> d_off d mod 8 = 0) ->
     exists u z d', (if aligned then fetch_aligned_unsigned d bits else fetch_unaligned_unsigned d bits) = Some (u, d') /\
       (if aligned then fetch_aligned_signed d bits else fetch_unaligned_signed d bits) = Some (z, d') /\
       z = sign_extend bits u /\ u < 2 ^ bits /\ d_off d' = d_off d + bits) /\
  (forall d : des, fetch_unaligned_bit d = (bit (d_buf d) (d_off d), mkdes (d_buf d) (d_off d + 1))) /\
  (* fetch_aligned_u8..u64 return the w bits at the cursor (zero beyond the end); i8..i64 sign-extend them *)
  (forall (w : N) (d : des),
     (w = 8 \/ w = 16 \/ w = 32 \/ w = 64) -> bytes_ok (d_buf d) -> d_off d mod 8 = 0 ->
     exists u d', fetch_aligned_uxx w d = Some (u, d') /\
       (d_buf d' = d_buf d /\ d_off d' = d_off d + w /\ forall k, N.testbit u k = (k <? w) && bit (d_buf d) (d_off d + k)) /\
       fetch_aligned_ixx w d = Some (sign_extend w u, d')) /\
  (forall (d : des) (count : N),
     bytes_ok (d_buf d) ->
     exists out d', fetch_unaligned_array_of_bits d count = Some (out, d') /\ d_buf d' = d_buf d /\ d_off d' = d_off d + count /\
       N.of_nat (length out) = count /\ forall k, nthb out k = (k <? count) && bit (d_buf d) (d_off d + k)).
Proof.
  split; [|split; [|split; [|split; [|split; [|split]]]]].
  - (* py_fetch_unaligned_bytes_spec *) exact fetch_unaligned_bytes_spec.
  - (* py_fetch_unaligned_unsigned_spec *) exact fetch_unaligned_unsigned_spec.
  - (* py_fetch_aligned_unsigned_spec *) exact fetch_aligned_unsigned_spec.
  - (* py_fetch_signed_spec *) exact fetch_signed_spec.
  - (* py_fetch_unaligned_bit_spec *) exact fetch_unaligned_bit_spec.
  - (* py_fetch_aligned_uxx_ixx_spec *) exact fetch_aligned_ixx_spec.
  - (* py_fetch_unaligned_array_of_bits_spec *) exact fetch_unaligned_array_of_bits_spec.
Qed.
Print Assumptions C14_py_deserializer_members.











(* Python fork_bytes: the forked (de)serializer works on a window of the same bytes *)
Theorem C14_py_fork_bytes :
  (* fork_bytes: the forked (de)serializer works on a window of the same bytes *)
  (forall (s : ser) (n : N),
     Inv s -> s_off s mod 8 = 0 ->
     if blen (s_buf s) <? s_off s / 8 + n + 1 then ser_fork_bytes s n = None
     else exists f, ser_fork_bytes s n = Some f /\ s_off f = 0 /\ blen (s_buf f) = n + 1 /\ Inv f /\
            forall p, bit (s_buf f) p = (p <? 8 * (n + 1)) && bit (s_buf s) (s_off s + p)) /\
  (forall s f : ser,
     s_off s mod 8 = 0 -> s_off s / 8 + blen (s_buf f) <= blen (s_buf s) ->
     s_off (ser_join s f) = s_off s /\ length (s_buf (ser_join s f)) = length (s_buf s) /\
     forall p, bit (s_buf (ser_join s f)) p =
               if (s_off s <=? p) && (p <? s_off s + 8 * blen (s_buf f)) then bit (s_buf f) (p - s_off s) else bit (s_buf s) p) /\
  (forall (d : des) (n : N),
     d_off d mod 8 = 0 ->
     if blen (d_buf d) - d_off d / 8 <? n then des_fork_bytes d n = None
     else exists f, des_fork_bytes d n = Some f /\ d_off f = 0 /\ blen (d_buf f) = n /\
            forall p, bit (d_buf f) p = (p <? 8 * n) && bit (d_buf d) (d_off d + p)).
Proof.
  split; [|split].
  - (* py_ser_fork_bytes_spec *) exact ser_fork_bytes_spec.
  - (* py_ser_join_spec *) exact ser_join_spec.
  - (* py_des_fork_bytes_spec *) exact des_fork_bytes_spec.
Qed.
Print Assumptions C14_py_fork_bytes.



(* =============================================================================================
   Round 2: the remaining public members of the three support modules (models Prims/PrimsExt.v); grouped as conjunctions
   (every conjunct is one lemma of Prims/PrimsExtThm.v, named in the proof). *)

(* C: nunavutSetIxx is nunavutSetUxx on the two's complement image; nunavutSetBit is a 1-bit nunavutSetUxx;
   Set/GetF32/F64 move the IEEE-754 bit pattern with the integer primitives, F16 composes them with Float16Pack/Unpack *)
Theorem C14_c_derived_members :
  (forall (little : bool) (buf : bytes) (size off : N) (value : Z) (len : N),
     set_ixx little buf size off value len = set_uxx little buf size off (Z.to_N (value mod 2 ^ 64)) len /\
     forall k, k < 64 -> N.testbit (w64 (Z.to_N (value mod 2 ^ 64))) k = Z.testbit value (Z.of_N k)) /\
  (forall (little : bool) (buf : bytes) (size off : N) (value : bool),
     buf_pre buf size off = true -> (off + 1 <? two64) = true ->
     set_bit buf size off value = set_uxx little buf size off (if value then 1 else 0) 1) /\
  (forall (little : bool) (buf : bytes) (size off bits32 bits64 : N),
     set_f32 little buf size off bits32 = set_uxx little buf size off (bits32 mod 2 ^ 32) 32 /\
     set_f64 little buf size off bits64 = set_uxx little buf size off (bits64 mod 2 ^ 64) 64 /\
     set_f16 little buf size off bits32 = set_uxx little buf size off (f16_pack (bits32 mod 2 ^ 32)) 16 /\
     get_f32 little buf size off = get_uxx little 32 buf size off 32 /\
     get_f64 little buf size off = get_uxx little 64 buf size off 64 /\
     get_f16 little buf size off = match get_uxx little 16 buf size off 16 with Some h => Some (f16_unpack h) | None => None end).
Proof. split; [exact set_ixx_is_set_uxx|split; [exact set_bit_is_set_uxx|exact c_float_members_are_integer_members]]. Qed.
Print Assumptions C14_c_derived_members.

(* C++: setF16/32/64, getF16/32/64 are the C functions on (data, size, offset); saturateBufferFragmentBitLength;
   setZeros() never fails and zeroes [offset, 8*size); copyTo(dst) copies size() bits *)
Theorem C14_cpp_derived_members :
  (forall (s : span) (bits32 bits64 : N),
     span_okb s = true -> (sp_off s + 64 <? two64) = true ->
     cpp_set_f32 s bits32 = set_f32 false (sp_data s) (sp_size s) (sp_off s) bits32 /\
     cpp_set_f64 s bits64 = set_f64 false (sp_data s) (sp_size s) (sp_off s) bits64 /\
     cpp_set_f16 s bits32 = set_f16 false (sp_data s) (sp_size s) (sp_off s) bits32 /\
     cpp_get_f32 s = get_f32 false (sp_data s) (sp_size s) (sp_off s) /\
     cpp_get_f64 s = get_f64 false (sp_data s) (sp_size s) (sp_off s) /\
     cpp_get_f16 s = get_f16 false (sp_data s) (sp_size s) (sp_off s)) /\
  (forall (s : span) (len : N),
     span_okb s = true ->
     sp_saturate s len = N.min len (sp_size s * 8 - N.min (sp_size s * 8) (sp_off s)) /\ sp_saturate s len <= sp_bits s) /\
  (forall s : span,
     span_okb s = true ->
     exists r, setZeros_all s = Some (inl r) /\ length r = length (sp_data s) /\
       forall p, bit r p = if (sp_off s <=? p) && (p <? 8 * sp_size s) then false else bit (sp_data s) p) /\
  (forall src dst : span,
     span_okb src = true -> span_okb dst = true -> (sp_off dst + sp_bits src <=? 8 * blen (sp_data dst)) = true ->
     exists r, copyTo_all src dst = Some r /\ length r = length (sp_data dst) /\
       forall p, bit r p = if (sp_off dst <=? p) && (p <? sp_off dst + sp_bits src)
                           then bit (sp_data src) (sp_off src + (p - sp_off dst)) else bit (sp_data dst) p).
Proof. split; [exact cpp_float_members_are_c|split; [exact cpp_saturate_spec|split; [exact setZeros_all_spec|exact copyTo_all_exact]]]. Qed.
Print Assumptions C14_cpp_derived_members.

(* C++: at_offset, offset_bytes, offset_bytes_ceil, align_offset_to<2^k>; set_offset, offset_misalignment, offset_alings_to(_byte) *)
Theorem C14_cpp_offset_members :
  (forall (s : span) (bits n : N),
    sp_off (set_offset s bits) = bits /\ sp_data (set_offset s bits) = sp_data s /\ sp_size (set_offset s bits) = sp_size s /\
    (0 < n -> offset_misalignment s n = Some (sp_off s mod n) /\ offset_aligns_to s n = Some (sp_off s mod n =? 0) /\
              (offset_aligns_to s n = Some true <-> exists q, sp_off s = q * n))) /\
  (forall (s : span) (bits : N),
     span_okb s = true -> (sp_off s + bits <? two64) = true ->
     sp_data (at_offset s bits) = sp_data s /\ sp_size (at_offset s bits) = sp_size s /\
     sp_off (at_offset s bits) = sp_off s + bits /\ at_offset s bits = add_offset s bits /\
     sp_bits (at_offset s bits) = sp_size s * 8 - (sp_off s + bits)) /\
  (forall s : span,
     (sp_off s + 7 <? two64) = true ->
     offset_bytes s = sp_off s / 8 /\ offset_bytes_ceil s = (sp_off s + 7) / 8 /\
     8 * offset_bytes s <= sp_off s <= 8 * offset_bytes_ceil s /\ 8 * offset_bytes_ceil s < sp_off s + 8) /\
  (forall (s : span) (k : N),
     k <= 6 -> (sp_off s + 2 ^ k <? two64) = true ->
     let n := 2 ^ k in
     sp_off (align_offset_to s n) = (sp_off s + (n - 1)) / n * n /\
     sp_off (align_offset_to s n) mod n = 0 /\ sp_off s <= sp_off (align_offset_to s n) < sp_off s + n).
Proof. split; [exact offset_misc_spec|split; [exact at_offset_spec|split; [exact offset_bytes_spec|exact align_offset_to_spec]]]. Qed.
Print Assumptions C14_cpp_offset_members.

(* Python: Serializer.buffer; Serializer.skip_bits keeps the invariant; Deserializer.skip_bits / pad_to_alignment *)
Theorem C14_py_skip_members :
  (forall s : ser,
    (s_off s + 7) / 8 <= blen (s_buf s) ->
    blen (ser_buffer s) = (s_off s + 7) / 8 /\
    (forall p, bit (ser_buffer s) p = (p <? 8 * ((s_off s + 7) / 8)) && bit (s_buf s) p) /\
    (Inv s -> forall p, s_off s <= p -> bit (ser_buffer s) p = false)) /\
  (forall (s : ser) (k : N),
     Inv s -> s_buf (skip_bits s k) = s_buf s /\ s_off (skip_bits s k) = s_off s + k /\ Inv (skip_bits s k)) /\
  (forall (d : des) (k n : N),
     d_buf (des_skip_bits d k) = d_buf d /\ d_off (des_skip_bits d k) = d_off d + k /\
     (0 < n -> exists d', des_pad_to_alignment d n = Some d' /\ d_buf d' = d_buf d /\ d_off d' mod n = 0 /\
                          d_off d <= d_off d' < d_off d + n)).
Proof. split; [exact ser_buffer_spec|split; [exact skip_bits_spec|exact des_skip_pad_spec]]. Qed.
Print Assumptions C14_py_skip_members.

(* Python: ZeroExtendingBuffer.get_byte / get_unsigned_slice / fork_bytes; Deserializer.fork_bytes is built from it
   (remaining-bytes clamp, offset clamp) *)
Theorem C14_py_zero_extending_buffer :
  (forall (b : bytes) (i : N),
     bytes_ok b -> get_byte b i < 256 /\ (blen b <= i -> get_byte b i = 0) /\
     forall k, k < 8 -> N.testbit (get_byte b i) k = bit b (8 * i + k)) /\
  (forall (b : bytes) (l r : N),
     if r <? l then get_unsigned_slice b l r = None
     else exists out, get_unsigned_slice b l r = Some out /\ blen out = r - l /\ (bytes_ok b -> bytes_ok out) /\
            forall k, bit out k = (k <? 8 * (r - l)) && bit b (8 * l + k)) /\
  (forall (b : bytes) (o n : N),
     if blen b <? o + n then zeb_fork_bytes b o n = None
     else exists out, zeb_fork_bytes b o n = Some out /\ blen out = n /\ forall p, bit out p = (p <? 8 * n) && bit b (8 * o + p)) /\
  (forall (d : des) (n : N),
     des_fork_bytes d n =
     if negb (d_off d mod 8 =? 0) then None
     else if Z.to_N (Z.max (des_remaining d) 0 / 8) <? n then None
          else match zeb_fork_bytes (d_buf d) (N.min (d_off d / 8) (zeb_bit_length (d_buf d) / 8)) n with
               | Some b => Some (mkdes b 0)
               | None => None
               end).
Proof. split; [exact zeb_get_byte_spec|split; [exact zeb_get_unsigned_slice_spec|split; [exact zeb_fork_bytes_spec|exact des_fork_bytes_uses_zeb]]]. Qed.
Print Assumptions C14_py_zero_extending_buffer.

(* Python: arrays of standard-bit-length primitives (little-endian classes): the little-endian image of the elements is
   appended; fetched element i has the bits at cursor + 8*w*i .. of the zero-extended buffer.  The big-endian classes raise
   NotImplementedError (and sys.byteorder is little here) *)
Theorem C14_py_arrays_of_standard_primitives :
  (forall (aligned : bool) (s : ser) (w : nat) (xs : list N),
     Inv s -> bytes_ok (s_buf s) ->
     (if aligned then s_off s mod 8 = 0 /\ s_off s / 8 + N.of_nat w * N.of_nat (length xs) <= blen (s_buf s)
      else s_off s / 8 + N.of_nat w * N.of_nat (length xs) < blen (s_buf s) \/ le_image w xs = []) ->
     exists s', (if aligned then add_aligned_array_std s w xs else add_unaligned_array_std s w xs) = Some s' /\
                appended s s' (8 * (N.of_nat w * N.of_nat (length xs))) (bit (le_image w xs))) /\
  (forall (w : nat) (xs : list N), (0 < w)%nat -> forall p,
     bit (le_image w xs) p = (p <? 8 * N.of_nat w * N.of_nat (length xs)) &&
                             N.testbit (nth (N.to_nat (p / (8 * N.of_nat w))) xs 0) (p mod (8 * N.of_nat w))) /\
  (forall (aligned : bool) (d : des) (w : nat) (count : N),
     bytes_ok (d_buf d) -> (aligned = true -> d_off d mod 8 = 0) ->
     exists elems bs d', (if aligned then fetch_aligned_array_std d w count else fetch_unaligned_array_std d w count) = Some (elems, bs, d') /\
       d_buf d' = d_buf d /\ d_off d' = d_off d + 8 * (N.of_nat w * count) /\ length elems = N.to_nat count /\
       forall i k, i < count ->
         N.testbit (nth (N.to_nat i) elems 0) k = (k <? 8 * N.of_nat w) && bit (d_buf d) (d_off d + 8 * N.of_nat w * i + k)) /\
  (forall (s : ser) (d : des) (w : nat) (xs : list N) (count : N),
     be_add_aligned_array_std s w xs = None /\ be_add_unaligned_array_std s w xs = None /\
     be_fetch_aligned_array_std d w count = None /\ be_fetch_unaligned_array_std d w count = None).
Proof. split; [exact add_array_std_appends|split; [exact le_image_bit|split; [exact fetch_array_std_spec|exact be_array_std_not_implemented]]]. Qed.
Print Assumptions C14_py_arrays_of_standard_primitives.

(* =============================================================================================
   Round 5 (audit follow-up). *)

(* The capacity check of nunavutSetUxx / bitspan::setUxx (current text: `off > cap || len > cap - off`) is wrap-free: too small is
   reported iff size*8 < off + len (the true sum), for EVERY offset and length; the C++ member is the C function.
   (The wrapping check it replaced, its witness and finding F-SETUXX-OFFSET-WRAP [fixed]: History/C14_history.v.) *)
Theorem C14_set_uxx_every_offset :
  forall (little : bool) (buf : bytes) (size off value len : N),
    buf_pre buf size off = true ->
    if size * 8 <? off + len
    then set_uxx little buf size off value len = Some (inr TooSmall)
    else exists r, set_uxx little buf size off value len = Some (inl r) /\ length r = length buf /\
           forall p, bit r p = if (off <=? p) && (p <? off + N.min len 64)
                               then N.testbit (value mod 2 ^ 64) (p - off) else bit buf p.
Proof. exact set_uxx_exact_all_b. Qed.
Print Assumptions C14_set_uxx_every_offset.

(* size_t as a parameter (Prims/CPrimsW.v: the text of CPrims.v with every size_t operation modulo M).  For BOTH deployment
   widths, M = 2^32 and M = 2^64: copy exact; SetUxx exact (second conjunct: old statement with the premise off + len < M; third:
   EVERY offset and length); GetU*/GetI* for every offset.  M = 2^64 is, definitionally,
   the model that is extracted and run against the compiled header. *)
Theorem C14_size_t_widths :
  c_theorems_at_width (2 ^ 32) /\ c_theorems_at_width (2 ^ 64) /\
  (forall dst doff len src soff, copy_bitsM two64 dst doff len src soff = copy_bits dst doff len src soff) /\
  (forall l b s off v len, set_uxxM two64 l b s off v len = set_uxx l b s off v len) /\
  (forall l w b s off len, get_uxxM two64 l w b s off len = get_uxx l w b s off len) /\
  (forall l w b s off len, get_ixxM two64 l w b s off len = get_ixx l w b s off len).
Proof.
  split; [exact (c_theorems_any_width _ width32_ok)|]. split; [exact (c_theorems_any_width _ width64_ok)|].
  repeat split.
Qed.
Print Assumptions C14_size_t_widths.

(* Half precision and IEEE-754: on the whole finite domain on which the C/C++ code multiplies (every finite non-negative
   binary32 with the low 12 bits cleared; every 15-bit half magnitude) Flocq's binary32 multiplication / comparison on the
   union-punned bit patterns give exactly mul_2m112 / unpack_mag, hence pack_mag is the C function with IEEE arithmetic.
   (Flocq's floats carry proofs over the reals: this theorem, and only this one, lists the axioms of the standard library's Reals.) *)
Theorem C14_f16_ieee_bridge :
  (forall y, y < F32INF -> y mod 4096 = 0 -> ieee_mul y MAGIC_PACK = mul_2m112 y) /\
  (forall h, h < 32768 -> unpack_mag_ieee h = unpack_mag h) /\
  (forall y, pack_mag_ieee y = pack_mag y).
Proof. split; [exact mul_2m112_is_ieee|split; [exact unpack_mag_is_ieee|exact pack_mag_is_ieee]]. Qed.
Print Assumptions C14_f16_ieee_bridge.

(* Python float members: under the packing law of struct (named hypothesis: `size` bytes, each < 256) add_*_f16/32/64 append
   exactly those bytes at any bit offset, and fetch_*_f16/32/64 hand struct.unpack the bytes found at the cursor *)
Theorem C14_py_float_members :
  (forall (F : Type) (float_to_bytes : N -> F -> bytes) (aligned : bool) (s : ser) (size : N) (x : F),
     float_to_bytes_law float_to_bytes -> (size = 2 \/ size = 4 \/ size = 8) ->
     Inv s -> bytes_ok (s_buf s) ->
     (if aligned then s_off s mod 8 = 0 /\ s_off s / 8 + size <= blen (s_buf s) else s_off s / 8 + size < blen (s_buf s)) ->
     exists s', (if aligned then add_aligned_float F float_to_bytes s size x else add_unaligned_float F float_to_bytes s size x) = Some s' /\
                appended s s' (8 * size) (bit (float_to_bytes size x))) /\
  (forall (F : Type) (bytes_to_float : N -> bytes -> F) (aligned : bool) (d : des) (size : N),
     bytes_ok (d_buf d) -> (aligned = true -> d_off d mod 8 = 0) ->
     exists bs d', (if aligned then fetch_aligned_float bytes_to_float d size else fetch_unaligned_float bytes_to_float d size)
                   = Some (bytes_to_float size bs, d') /\
       d_buf d' = d_buf d /\ d_off d' = d_off d + 8 * size /\ blen bs = size /\ bytes_ok bs /\
       forall k, bit bs k = (k <? 8 * size) && bit (d_buf d) (d_off d + k)).
Proof. split; [exact @add_float_appends|exact @fetch_float_spec]. Qed.
Print Assumptions C14_py_float_members.

(* degenerate bit lengths in Python: 0-bit unsigned and 0-/1-bit signed arguments trip the asserts of the source (raise);
   in C/C++ a 0-bit store writes nothing and a 0-bit load gives 0 (instances of C14_set_uxx_exact / C14_get_uN_spec with len = 0) *)
Theorem C14_py_degenerate_bit_lengths :
  forall (s : ser) (d : des) (value : N) (z : Z) (bits : N),
    add_unaligned_unsigned s value 0 = None /\ add_aligned_unsigned s value 0 = None /\
    (bits < 2 -> add_unaligned_signed s z bits = None /\ add_aligned_signed s z bits = None /\
                 fetch_unaligned_signed d bits = None /\ fetch_aligned_signed d bits = None) /\
    fetch_unaligned_unsigned d 0 = None /\ fetch_aligned_unsigned d 0 = None.
Proof. exact py_degenerate_lengths_raise. Qed.
Print Assumptions C14_py_degenerate_bit_lengths.

(* Sequences of cursor operations on the Python Serializer.  `good op`: if op does not raise, then the invariant, byte-ness, the
   buffer length and every bit before the old cursor survive and the cursor does not move back.  Every primitive is good, good
   operations are closed under arbitrary sequencing (run_ops) and under the fork -> skip header -> child -> join -> header ->
   skip_bits pattern of delimited serialization (ser_delimited, any good child: nesting included); the pattern leaves the
   child's bits right after the 32-bit header. *)
Theorem C14_py_cursor_sequences :
  (forall ops, Forall good ops -> good (run_ops ops)) /\
  (forall k, good (fun s => Some (skip_bits s k))) /\
  (forall x, good (fun s => add_unaligned_bit s x)) /\
  (forall value, bytes_ok value -> good (fun s => add_unaligned_bytes s value)) /\
  (forall value bits, good (fun s => add_unaligned_unsigned s value bits)) /\
  (forall n, good (fun s => pad_to_alignment s n)) /\
  (forall x, good (fun s => add_aligned_u8 s x) /\ good (fun s => add_aligned_u16 s x) /\ good (fun s => add_aligned_u32 s x)) /\
  (forall child n, good child -> good (ser_delimited child n)) /\
  (forall child n s s',
     good child -> Inv s -> bytes_ok (s_buf s) -> ser_delimited child n s = Some s' ->
     exists f f', ser_fork_bytes s n = Some f /\ child (skip_bits f 32) = Some f' /\
       let L := s_off f' - 32 in
       L mod 8 = 0 /\ s_off s' = s_off s + 32 + L /\
       (forall k, 32 <= k < 32 + L -> k < 8 * (n + 1) -> bit (s_buf s') (s_off s + k) = bit (s_buf f') k)).
Proof.
  split; [exact good_run_ops|]. split; [exact good_skip|]. split; [exact good_bit|]. split; [exact good_unaligned_bytes|].
  split; [exact good_unaligned_unsigned|]. split; [exact good_pad|]. split; [exact good_aligned_u8_u16_u32|].
  split; [exact good_delimited|exact delimited_layout].
Qed.
Print Assumptions C14_py_cursor_sequences.

(* Sequences of cursor operations on a C++ bitspan (setUxx + add_offset, setZeros + add_offset, padAndMoveToAlignment): if no
   member reports an error, the span stays well formed, the cursor only moves forward (by at most the requested lengths) and every
   bit before the old cursor and at or after the new one is untouched.  No premise on the cursor: that it stays below 2^64 follows
   from success (saturating capacity tests); cpp_op_ok only states the argument types (size_t length, size_t alignment >= 1). *)
Theorem C14_cpp_cursor_sequences :
  forall (ops : list cpp_op) (s s' : span),
    span_ok s -> bytes_ok (sp_data s) -> Forall cpp_op_ok ops ->
    cpp_run ops s = Some s' ->
    sp_size s' = sp_size s /\ length (sp_data s') = length (sp_data s) /\ bytes_ok (sp_data s') /\ span_ok s' /\
    sp_off s <= sp_off s' <= sp_off s + total_span ops /\
    forall p, p < sp_off s \/ sp_off s' <= p -> bit (sp_data s') p = bit (sp_data s) p.
Proof. exact cpp_run_frame. Qed.
Print Assumptions C14_cpp_cursor_sequences.

(* =============================================================================================
   Round 6. *)

(* The hand model of the Python support module is valid for ONE shape of each method: tools/translators/gen_c14.py writes
   Generated/Gen_Pin_c14py.v from /repo on every run; `pin_c14py_ok` is only defined when the normalised AST (comments,
   annotations, docstrings dropped, locals alpha-renamed) of all modelled methods of Serializer / Deserializer / ZeroExtendingBuffer
   (incl. _unsigned_to_bytes, _unsigned_from_bytes, _ensure_writable, the signed wrappers) and the member lists of the seven classes
   (so that an override added to a subclass is seen) equal tools/translators/pins/c14py.txt = the text of /repo f2fd316.  The
   pre-fix shape is not accepted any more.  The hash of the dump regenerated from /repo must be the one Prims/PyPrims.v names as the
   text it models. *)
Example C14_py_support_shape_pinned : pin_c14py_ok = true /\ pin_c14py_sha = modelled_py_support_sha.
Proof. split; reflexivity. Qed.

(* regenerated fix fact, f2fd316 (F-PY-SER-SILENT-DROP): Serializer._ensure_writable exists, raises, and is called by every writer
   that stores more than one element; reverting the fix turns this into `false = true` *)
Example C14_py_capacity_test_live : pin_c14py_capacity_test_present = true.
Proof. reflexivity. Qed.

(* The hand models of the C header (CPrims.v, CPrimsW.v, F16.v) and of the C++ header (CppPrims.v, PrimsExt.v) are valid for ONE
   token stream of each function: tools/translators/gen_c14.py renders serialization.h / serialization.hpp from /repo on every run
   for every Jinja branch (target_endianness any|little|big x enable_serialization_asserts x omit_float_serialization_support; C++
   also for the standards c++14, c++17, c++17-pmr, cetl++14-17, c++20), drops comments and white space, cuts the token stream into
   function definitions (+ one file-scope remainder, so every token is covered) and defines `pin_c14c_ok` only when each stream
   equals tools/translators/pins/c14c.txt (ONE accepted shape: the text of /repo fcc36ca).  The hashes of the C part and of the C++
   part of the regenerated dump must be the ones the model files name as the text they model. *)
Example C14_c_cpp_support_token_streams_pinned :
  pin_c14c_ok = true /\ pin_c14c_sha_c = modelled_c_header_sha /\ pin_c14c_sha_cpp = modelled_cpp_header_sha.
Proof. repeat split; reflexivity. Qed.

(* regenerated fix fact, ba46e0a (F-SETUXX-OFFSET-WRAP): in every rendering nunavutSetUxx / bitspan::setUxx test
   `len_bits > (capacity_bits - offset)` and never add the offset to the length; reverting the fix turns this into `false = true` *)
Example C14_setuxx_saturating_check_live : pin_c14c_setuxx_saturating_check_present = true.
Proof. reflexivity. Qed.

(* regenerated fix facts, fcc36ca (F-BITSPAN-PAD-TRUNC, F-BITSPAN-SUBSPAN-WRAP): in every C++ rendering padAndMoveToAlignment has no
   static_cast<uint8_t>, and subspan(bits_at, size_bits) tests `offset_bits < bits_at` and
   `new_offset_bits > (size_available_bits - size_bits)`; reverting the fix turns this into `false = true` *)
Example C14_bitspan_fix_state : pin_c14c_bitspan_pad_wide_present = true /\ pin_c14c_bitspan_subspan_saturating_present = true.
Proof. split; reflexivity. Qed.

(* The truncation contract of the Python unsigned writers: for EVERY natural value (also values wider than the field) and every
   bit length >= 1, _unsigned_to_bytes gives ceil(bits/8) bytes holding value mod 2^bits with the unused top of the last byte zero;
   the writers append exactly `bits` bits = those of value mod 2^bits, every bit after the new cursor is zero (`appended`), and
   writing value is the same as writing value mod 2^bits. *)
Theorem C14_py_unsigned_truncation :
  (forall value bits, 1 <= bits ->
     exists bs, unsigned_to_bytes value bits = Some bs /\ blen bs = (bits + 7) / 8 /\ bytes_ok bs /\
       of_le_bytes bs = value mod 2 ^ bits /\ forall k, bit bs k = (k <? bits) && N.testbit value k) /\
  (forall (aligned : bool) s value bits,
     Inv s -> bytes_ok (s_buf s) -> 1 <= bits ->
     (if aligned then s_off s mod 8 = 0 /\ s_off s / 8 + (bits + 7) / 8 <= blen (s_buf s)
      else s_off s / 8 + (bits + 7) / 8 < blen (s_buf s)) ->
     exists s', (if aligned then add_aligned_unsigned s value bits else add_unaligned_unsigned s value bits) = Some s' /\
                appended s s' bits (N.testbit (value mod 2 ^ bits)) /\
                (if aligned then add_aligned_unsigned s (value mod 2 ^ bits) bits
                 else add_unaligned_unsigned s (value mod 2 ^ bits) bits) = Some s').
Proof. split; [exact unsigned_to_bytes_spec|exact unsigned_writers_truncate]. Qed.
Print Assumptions C14_py_unsigned_truncation.

(* =============================================================================================
   "Reports a too-small buffer instead of overrunning it" x Python Serializer (text of /repo f2fd316 and later: Prims/PyPrims.v;
   the text of before, of which this is false, and its refutation: History/C14_py_history.v). *)

(* EVERY writer is total, for every cursor, length, value and buffer size: either there is room and exactly the value's bits are
   appended, or the error is raised (ValueError of Serializer._ensure_writable / IndexError of a single-element store) before
   anything is stored.  Part 1: the writers that store by themselves. *)
Theorem C14_py_too_small_reported :
  (forall s x, Inv s -> bytes_ok (s_buf s) -> bytes_ok x -> s_off s mod 8 = 0 ->
     if s_off s / 8 + blen x <=? blen (s_buf s)
     then exists s', add_aligned_bytes s x = Some s' /\ appended s s' (8 * blen x) (bit x) else add_aligned_bytes s x = None) /\
  (forall s value bits, Inv s -> bytes_ok (s_buf s) -> 1 <= bits -> s_off s mod 8 = 0 ->
     if s_off s / 8 + (bits + 7) / 8 <=? blen (s_buf s)
     then exists s', add_aligned_unsigned s value bits = Some s' /\ appended s s' bits (N.testbit (value mod 2 ^ bits))
     else add_aligned_unsigned s value bits = None) /\
  (forall s x, Inv s -> bytes_ok (s_buf s) -> s_off s mod 8 = 0 ->
     if s_off s / 8 + (N.of_nat (length x) + 7) / 8 <=? blen (s_buf s)
     then exists s', add_aligned_array_of_bits s x = Some s' /\ appended s s' (N.of_nat (length x)) (nthb x)
     else add_aligned_array_of_bits s x = None) /\
  (forall s x, Inv s -> bytes_ok (s_buf s) -> x <= 255 -> s_off s mod 8 = 0 ->
     if s_off s / 8 <? blen (s_buf s)
     then exists s', add_aligned_u8 s x = Some s' /\ appended s s' 8 (N.testbit x) else add_aligned_u8 s x = None) /\
  (forall s x, Inv s -> bytes_ok (s_buf s) -> s_off s mod 8 = 0 ->
     (if s_off s / 8 + 2 <=? blen (s_buf s)
      then exists s', add_aligned_u16 s x = Some s' /\ appended s s' 16 (N.testbit x) else add_aligned_u16 s x = None) /\
     (if s_off s / 8 + 4 <=? blen (s_buf s)
      then exists s', add_aligned_u32 s x = Some s' /\ appended s s' 32 (N.testbit x) else add_aligned_u32 s x = None) /\
     (if s_off s / 8 + 8 <=? blen (s_buf s)
      then exists s', add_aligned_u64 s x = Some s' /\ appended s s' 64 (N.testbit x) else add_aligned_u64 s x = None)) /\
  (forall s x, Inv s -> bytes_ok (s_buf s) ->
     if s_off s / 8 <? blen (s_buf s)
     then exists s', add_unaligned_bit s x = Some s' /\ appended s s' 1 (fun _ => x) else add_unaligned_bit s x = None) /\
  (forall s value, Inv s -> bytes_ok (s_buf s) -> bytes_ok value ->
     if (blen value =? 0) || (s_off s / 8 + (blen value + 1) <=? blen (s_buf s))
     then exists s', add_unaligned_bytes s value = Some s' /\ appended s s' (8 * blen value) (bit value)
     else add_unaligned_bytes s value = None) /\
  (forall s value bits, Inv s -> bytes_ok (s_buf s) -> 1 <= bits ->
     if s_off s / 8 + ((bits + 7) / 8 + 1) <=? blen (s_buf s)
     then exists s', add_unaligned_unsigned s value bits = Some s' /\ appended s s' bits (N.testbit (value mod 2 ^ bits))
     else add_unaligned_unsigned s value bits = None).
Proof.
  split; [exact add_aligned_bytes_total|]. split; [exact add_aligned_unsigned_total|].
  split; [exact add_aligned_array_of_bits_total|]. split; [exact add_aligned_u8_total|]. split; [exact add_aligned_u16_u32_u64_total|].
  split; [exact add_unaligned_bit_total|]. split; [exact add_unaligned_bytes_total|exact add_unaligned_unsigned_total].
Qed.
Print Assumptions C14_py_too_small_reported.

(* Part 2: the writers built on those: signed (aligned or not; in-range values), i8..i64, unaligned arrays of bits, f16/f32/f64
   (under the struct packing law), arrays of standard-width primitives, pad_to_alignment. *)
Theorem C14_py_too_small_reported_derived :
  (forall (aligned : bool) s value bits,
     Inv s -> bytes_ok (s_buf s) -> 2 <= bits -> (- 2 ^ (Z.of_N bits - 1) <= value < 2 ^ (Z.of_N bits - 1))%Z ->
     (if aligned then s_off s mod 8 = 0 else True) ->
     if s_off s / 8 + ((bits + 7) / 8 + (if aligned then 0 else 1)) <=? blen (s_buf s)
     then exists s', (if aligned then add_aligned_signed s value bits else add_unaligned_signed s value bits) = Some s' /\
                     appended s s' bits (fun k => Z.testbit value (Z.of_N k))
     else (if aligned then add_aligned_signed s value bits else add_unaligned_signed s value bits) = None) /\
  (forall w s (x : Z), (w = 8 \/ w = 16 \/ w = 32 \/ w = 64) ->
     Inv s -> bytes_ok (s_buf s) -> s_off s mod 8 = 0 -> (- 2 ^ (Z.of_N w - 1) <= x < 2 ^ (Z.of_N w - 1))%Z ->
     if s_off s / 8 + w / 8 <=? blen (s_buf s)
     then exists s', add_aligned_ixx w s x = Some s' /\ appended s s' w (fun k => Z.testbit x (Z.of_N k))
     else add_aligned_ixx w s x = None) /\
  (forall s x, Inv s -> bytes_ok (s_buf s) ->
     if (N.of_nat (length x) =? 0) || (s_off s / 8 + ((N.of_nat (length x) + 7) / 8 + 1) <=? blen (s_buf s))
     then exists s', add_unaligned_array_of_bits s x = Some s' /\ appended s s' (N.of_nat (length x)) (nthb x)
     else add_unaligned_array_of_bits s x = None) /\
  (forall (F : Type) (float_to_bytes : N -> F -> bytes) (aligned : bool) s size (x : F),
     float_to_bytes_law float_to_bytes -> (size = 2 \/ size = 4 \/ size = 8) ->
     Inv s -> bytes_ok (s_buf s) -> (if aligned then s_off s mod 8 = 0 else True) ->
     if s_off s / 8 + (size + (if aligned then 0 else 1)) <=? blen (s_buf s)
     then exists s', (if aligned then add_aligned_float F float_to_bytes s size x else add_unaligned_float F float_to_bytes s size x) = Some s' /\
                     appended s s' (8 * size) (bit (float_to_bytes size x))
     else (if aligned then add_aligned_float F float_to_bytes s size x else add_unaligned_float F float_to_bytes s size x) = None) /\
  (forall (aligned : bool) s w xs, Inv s -> bytes_ok (s_buf s) -> (if aligned then s_off s mod 8 = 0 else True) ->
     let nbytes := N.of_nat w * N.of_nat (length xs) in
     if (if aligned then false else nbytes =? 0) || (s_off s / 8 + (nbytes + (if aligned then 0 else 1)) <=? blen (s_buf s))
     then exists s', (if aligned then add_aligned_array_std s w xs else add_unaligned_array_std s w xs) = Some s' /\
                     appended s s' (8 * nbytes) (bit (le_image w xs))
     else (if aligned then add_aligned_array_std s w xs else add_unaligned_array_std s w xs) = None) /\
  (forall s n, Inv s -> bytes_ok (s_buf s) -> 0 < n ->
     let pad := (n - s_off s mod n) mod n in
     if (pad =? 0) || ((s_off s + pad + 7) / 8 <=? blen (s_buf s))
     then pad_to_alignment s n = Some (mkser (s_buf s) (s_off s + pad)) /\ (s_off s + pad) mod n = 0
     else pad_to_alignment s n = None).
Proof.
  split; [exact add_signed_total|]. split; [exact add_aligned_ixx_total|]. split; [exact add_unaligned_array_of_bits_total|].
  split; [exact @add_float_total|]. split; [exact add_array_std_total|exact pad_to_alignment_total].
Qed.
Print Assumptions C14_py_too_small_reported_derived.
