(* C06 -- every valid DSDL input yields generated code that builds cleanly on its own: the part that is logic.
   Statements only; proofs in Gen/ClosureThm.v (general) and Gen/ClosureInstThm.v (regenerated configuration).
   "Compiles without diagnostics" itself has no Coq model here (PARTIAL, see tools/checks/c06.py MANIFEST). *)
From Verif Require Import Closure ClosureThm ClosureInst ClosureInstThm StropThmInst IsoHeaders.
Open Scope N_scope.

(* includes_closed: for ALL type sets closed under dependencies, every #include of a type header is an output of generating
   the set, a support output (unless omitted) or a header get_includes adds -- for any language configuration whose include
   side and output side use the same id types (= call the same path function) *)
Theorem C06_includes_closed : forall (l : lang_cfg) q omit ts t i,
  lc_inc_short_idt l = lc_out_short_idt l -> lc_inc_ns_idt l = lc_out_ns_idt l -> lc_ext l = lc_out_ext l ->
  closed q ts = true -> In t ts -> In i (include_list l q omit t) ->
  In i (map (punct l) (outputs l ts)) \/ (omit = false /\ In i (map (punct l) (support_outputs l))) \/ In i (lc_std l (direct q t))
  \/ In i (lc_tmpl_inc l omit).
Proof. exact includes_closed_gen. Qed.
Print Assumptions C06_includes_closed.

(* ... instantiated with what /repo says now (call sites, id types, extension, support files, get_includes tables) *)
Theorem C06_includes_closed_c : forall q omit ts t i,
  closed q ts = true -> In t ts -> In i (include_list c_cfg q omit t) ->
  In i (map (punct c_cfg) (outputs c_cfg ts)) \/ (omit = false /\ In i (map (punct c_cfg) (support_outputs c_cfg)))
  \/ In i (lc_std c_cfg (direct q t)) \/ In i (lit_includes c_tmpl_includes omit).
Proof. exact includes_closed_c. Qed.
Print Assumptions C06_includes_closed_c.

Theorem C06_includes_closed_cpp : forall std hv q omit ts t i,
  closed q ts = true -> In t ts -> In i (include_list (cpp_cfg std hv) q omit t) ->
  In i (map (punct (cpp_cfg std hv)) (outputs (cpp_cfg std hv) ts))
  \/ (omit = false /\ In i (map (punct (cpp_cfg std hv)) (support_outputs (cpp_cfg std hv))))
  \/ In i (lc_std (cpp_cfg std hv) (direct q t)) \/ In i (lit_includes cpp_tmpl_includes omit).
Proof. exact includes_closed_cpp. Qed.
Print Assumptions C06_includes_closed_cpp.

Theorem C06_path_sites_agree :
  inc_path_callee = s_make_path /\ out_path_callee = s_make_path
  /\ inc_path_args = s_inc_args /\ out_path_args = s_out_args
  /\ mp_ns_idtype = ns_dir_idtype /\ mp_short_idtype = mp_ns_idtype.
Proof. exact path_sites_agree. Qed.
Print Assumptions C06_path_sites_agree.

Theorem C06_support_paths_agree : forall l, support_includes l = support_outputs l.
Proof. exact support_paths_agree. Qed.
Print Assumptions C06_support_paths_agree.

(* py_imports_closed: every package a generated module imports, and each of its parent packages, has its generated __init__ *)
Theorem C06_py_imports_closed : forall q ts t ns p,
  closed q ts = true -> In t ts -> In ns (import_namespaces t) -> In p (prefixes ns) ->
  In (import_target py_cfg p) (ns_outputs py_cfg ts).
Proof. exact py_imports_closed. Qed.
Print Assumptions C06_py_imports_closed.

(* the dotted import name spells the directory chain when filter_id's default id type and the directory id type strop the
   components alike (explicit hypothesis; checked on every hostile name by the correspondence run) *)
Theorem C06_py_import_names_are_dirs : forall (l : lang_cfg) ns,
  lc_stropping l = true ->
  (forall c, In c ns -> lc_sid l (lc_default_idt l) c = lc_sid l (lc_dir_idt l) c) ->
  map (lc_sid l (lc_default_idt l)) ns = ns_dir (lc_sid l) (lc_dir_idt l) ns.
Proof. exact py_import_names_are_dirs. Qed.
Print Assumptions C06_py_import_names_are_dirs.

Theorem C06_py_type_file_in_package_dir : forall t,
  exists f, make_path (lc_sid py_cfg) (lc_stropping py_cfg) (lc_out_short_idt py_cfg) (lc_out_ns_idt py_cfg) (lc_out_ext py_cfg) t
            = ns_dir (lc_sid py_cfg) (lc_dir_idt py_cfg) (ti_ns t) ++ [f].
Proof. exact py_type_file_in_package_dir. Qed.
Print Assumptions C06_py_type_file_in_package_dir.

(* guard_injective: equal guards force equal macro-cased full names and equal versions (for every stropping function) *)
Theorem C06_guard_injective : forall sid st tail t1 t2,
  guard sid st tail t1 = guard sid st tail t2 ->
  macrofy sid st (full_name t1) = macrofy sid st (full_name t2)
  /\ dec_str (ti_major t1) = dec_str (ti_major t2) /\ dec_str (ti_minor t1) = dec_str (ti_minor t2).
Proof. exact guard_injective_gen. Qed.
Print Assumptions C06_guard_injective.

Theorem C06_guards_differ_unless_folded : forall sid st tail t1 t2,
  macrofy sid st (full_name t1) <> macrofy sid st (full_name t2) -> guard sid st tail t1 <> guard sid st tail t2.
Proof. exact guards_differ_unless_folded. Qed.
Print Assumptions C06_guards_differ_unless_folded.

(* the full statement "distinct types have distinct guards" is FALSE of the faithful model: known finding F-C06-GUARD-FOLD *)
Theorem C06_guard_injective_refuted : exists t1 t2,
  full_name t1 <> full_name t2 /\ out_path (cpp_cfg [] false) t1 <> out_path (cpp_cfg [] false) t2
  /\ guard_cpp t1 = guard_cpp t2 /\ guard_c t1 = guard_c t2.
Proof. exact guard_injective_refuted. Qed.
Print Assumptions C06_guard_injective_refuted.

(* namespace_braces_balanced: open_namespace/close_namespace nest properly, same number, same names in mirrored order *)
Theorem C06_namespace_braces_balanced : forall ns,
  balanced [] (open_ns_cpp ns ++ close_ns_cpp ns) = true
  /\ length (open_ns_cpp ns) = length (close_ns_cpp ns)
  /\ map (fun k => match k with TOpen n | TClose n => n end) (close_ns_cpp ns)
     = rev (map (fun k => match k with TOpen n | TClose n => n end) (open_ns_cpp ns)).
Proof. exact namespace_braces_balanced. Qed.
Print Assumptions C06_namespace_braces_balanced.

(* STRICT closure: every #include of a generated C type header is a file generating the set produces, or a header of the COMMITTED
   ISO C11 table (Gen/IsoHeaders.v, not regenerated); for C++: ... or of the committed ISO C++ table, or -- only under the
   --language-standard that selects it (std_flavor = cetl) -- one of the two CETL headers.  Anything else get_includes, the option presets
   or base.j2 add breaks these theorems. *)
Theorem C06_includes_strict_c : forall q omit ts t i,
  closed q ts = true -> In t ts -> In i (include_list c_cfg q omit t) ->
  In i (map (punct c_cfg) (outputs c_cfg ts)) \/ (omit = false /\ In i (map (punct c_cfg) (support_outputs c_cfg))) \/ is_iso_c i = true.
Proof. exact includes_strict_c. Qed.
Print Assumptions C06_includes_strict_c.

Theorem C06_includes_strict_cpp : forall std hv q omit ts t i,
  closed q ts = true -> In t ts -> In i (include_list (cpp_cfg std hv) q omit t) ->
  In i (map (punct (cpp_cfg std hv)) (outputs (cpp_cfg std hv) ts))
  \/ (omit = false /\ In i (map (punct (cpp_cfg std hv)) (support_outputs (cpp_cfg std hv))))
  \/ is_iso_cpp i = true
  \/ In i (third_party_allowed std).
Proof. exact includes_strict_cpp. Qed.
Print Assumptions C06_includes_strict_cpp.

Theorem C06_third_party_only_cetl : forall std, std <> s_cetl_std -> third_party_allowed std = [].
Proof. exact third_party_only_cetl. Qed.
Print Assumptions C06_third_party_only_cetl.

(* both sides take the file extension from the same configuration key (two distinct model fields, scanned sources) *)
Theorem C06_extension_sources_agree :
  lc_ext c_cfg = c_ext /\ lc_out_ext c_cfg = c_ext /\ (forall std hv, lc_ext (cpp_cfg std hv) = cpp_ext /\ lc_out_ext (cpp_cfg std hv) = cpp_ext)
  /\ lc_ext py_cfg = py_ext /\ lc_out_ext py_cfg = py_ext.
Proof. exact extension_sources_agree. Qed.
Print Assumptions C06_extension_sources_agree.

(* cpp base.j2 applies open_namespace and close_namespace once each, to the same expression, open before close (what makes
   C06_namespace_braces_balanced a statement about the template and not only about the two filters) *)
Theorem C06_namespace_sites : cpp_open_ns_args = [s_full_ns] /\ cpp_close_ns_args = [s_full_ns] /\ cpp_open_before_close = true.
Proof. exact namespace_sites. Qed.
Print Assumptions C06_namespace_sites.

(* guards: equal guards force equal macro-cased names and equal VERSIONS (dec_str is injective) *)
Theorem C06_guard_injective_full : forall sid st tail t1 t2,
  guard sid st tail t1 = guard sid st tail t2 ->
  macrofy sid st (full_name t1) = macrofy sid st (full_name t2) /\ ti_major t1 = ti_major t2 /\ ti_minor t1 = ti_minor t2.
Proof. exact guard_injective_full. Qed.
Print Assumptions C06_guard_injective_full.

(* generation completes (stropping part): on every non-empty token and every legal id type the stropper returns a token -- the
   model's sid_of never takes its dead arm; C09's totality theorem, imported.  All id types the sites pass are legal. *)
Theorem C06_stropping_total : forall l (ty s : str),
  cpp_whole_token_premise -> s <> [] -> str_eqb (lower ty) ty_all = false -> strop_lang l ty s = Ok (sid_of l ty s).
Proof. exact sid_of_ok. Qed.
Print Assumptions C06_stropping_total.

(* for C and Python without C09's explicit premise (which concerns the C++ whole-token re-check only) *)
Theorem C06_stropping_total_c_py : forall l (ty s : str),
  l <> LCpp -> s <> [] -> str_eqb (lower ty) ty_all = false -> strop_lang l ty s = Ok (sid_of l ty s).
Proof. exact sid_of_ok_c_py. Qed.
Print Assumptions C06_stropping_total_c_py.

Theorem C06_id_types_legal :
  forallb (fun ty => negb (str_eqb (lower ty) ty_all))
          [mp_short_idtype; mp_ns_idtype; ns_dir_idtype; c_default_idtype; cpp_default_idtype; py_default_idtype; ty_macro] = true.
Proof. exact id_types_legal. Qed.
Print Assumptions C06_id_types_legal.

(* Python: "any" and "path" strop every DSDL identifier alike (discharges the hypothesis of C06_py_import_names_are_dirs) *)
Theorem C06_py_any_path_agree : forall c, valid_ident c = true -> strop_py py_default_idtype c = strop_py ns_dir_idtype c.
Proof. exact py_any_path. Qed.
Print Assumptions C06_py_any_path_agree.

Theorem C06_py_import_names_are_dirs_py : forall ns, forallb valid_ident ns = true ->
  map (lc_sid py_cfg (lc_default_idt py_cfg)) ns = ns_dir (lc_sid py_cfg) (lc_dir_idt py_cfg) ns.
Proof. exact py_import_names_are_dirs_py. Qed.
Print Assumptions C06_py_import_names_are_dirs_py.

(* Namespace.j2: the module named by `from <full_reference_name> import ...` is the generated file of that type *)
Theorem C06_py_init_imports_closed : forall ts d,
  In d ts -> forallb valid_ident (ti_ns (td_id d)) = true -> valid_ident (versioned (td_id d)) = true ->
  str_eqb (stem (short_ref (lc_sid py_cfg) (lc_stropping py_cfg) (lc_default_idt py_cfg) (td_id d)))
          (short_ref (lc_sid py_cfg) (lc_stropping py_cfg) (lc_default_idt py_cfg) (td_id d)) = true ->
  In (posix (removelast (init_import_module py_cfg (td_id d)) ++ [last (init_import_module py_cfg (td_id d)) [] ++ lc_out_ext py_cfg]))
     (outputs py_cfg ts).
Proof. exact py_init_imports_closed. Qed.
Print Assumptions C06_py_init_imports_closed.

(* base.j2's literal imports: third-party / interpreter modules, or a generated support module when support is not omitted ... *)
Theorem C06_py_literal_imports_closed :
  forallb (fun m => str_in m py_external || str_in (module_file py_cfg m) (generated_support py_cfg false)) py_literal_imports = true.
Proof. exact py_literal_imports_closed. Qed.
Print Assumptions C06_py_literal_imports_closed.

(* ... and with --omit-serialization-support closure holds exactly when the template imports no support module (F-C06-PY-POD otherwise) *)
Theorem C06_py_literal_imports_omit :
  forallb (fun m => str_in m py_external || str_in (module_file py_cfg m) (generated_support py_cfg true)) py_literal_imports
  = forallb (fun m => str_in m py_external) py_literal_imports.
Proof. exact py_literal_imports_omit. Qed.
Print Assumptions C06_py_literal_imports_omit.

(* std_includes_cover (C).  Tables regenerated: get_includes, the support header's includes WITH their option guard, base.j2's literal
   includes with their omit guard, every standard name in rendered position of the templates with its omit guard (universe: what the
   installed gcc's C11 headers declare), the names the filters emit, header -> names (asked of gcc).  Hand-written: the feature guards
   of the filter-emitted names.  With serialization support: covered for all features ... *)
Theorem C06_std_includes_cover_c : forall e, f_pod e = false -> c_float_trigger e = false -> c_cov e = true.
Proof. exact std_includes_cover_c. Qed.
Print Assumptions C06_std_includes_cover_c.

(* ... in particular for the feature record COMPUTED from a type definition (flags = DependencyBuilder.direct) *)
Theorem C06_std_includes_cover_c_tdef : forall q omit_float empty t,
  c_float_trigger (feat_of q false omit_float empty t) = false -> c_cov (feat_of q false omit_float empty t) = true.
Proof. exact std_includes_cover_c_tdef. Qed.
Print Assumptions C06_std_includes_cover_c_tdef.

(* ... and without the support header: covered for all features iff the regenerated tables say so (the check compares this boolean
   with the compile probe of known finding F-C06-C-POD: both states of the tree are covered) *)
Theorem C06_std_includes_cover_c_pod_iff :
  c_pod_selfsufficient = true <-> (forall e, f_pod e = true -> c_float_trigger e = false -> c_cov e = true).
Proof. exact std_includes_cover_c_pod_iff. Qed.
Print Assumptions C06_std_includes_cover_c_pod_iff.

(* the statement depends on get_includes: with an empty table size_t / NULL are not declared for a POD type *)
Theorem C06_get_includes_needed :
  c_covered [] c_support_includes c_tmpl_includes c_tmpl_std_names c_filter_names c_declares c_std_types
            {| f_int := true; f_float := false; f_vla := true; f_arr := false; f_boolarr := false; f_bool := true; f_primarr := false;
               f_union := false; f_pod := true; f_empty := false; f_boolvla := false; f_any_union := false; f_omit_float := false |} = false.
Proof. exact c_get_includes_needed. Qed.
Print Assumptions C06_get_includes_needed.

(* non-vacuity *)
Example C06_example_closed : closed q_union_live [td_None; td_user] = true.
Proof. exact example_closed. Qed.
Print Assumptions C06_example_closed.

Example C06_example_import_py : py_imports py_cfg td_user = [s_ [99;108;97;115;115;95]].
Proof. exact example_import_py. Qed.
Print Assumptions C06_example_import_py.

Example C06_example_init_import_hyps :
  forallb valid_ident (ti_ns (td_id td_None)) = true /\ valid_ident (versioned (td_id td_None)) = true
  /\ str_eqb (stem (short_ref (lc_sid py_cfg) (lc_stropping py_cfg) (lc_default_idt py_cfg) (td_id td_None)))
             (short_ref (lc_sid py_cfg) (lc_stropping py_cfg) (lc_default_idt py_cfg) (td_id td_None)) = true.
Proof. exact example_init_import_hyps. Qed.
Print Assumptions C06_example_init_import_hyps.
