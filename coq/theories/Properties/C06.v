(* C06 -- every valid DSDL input yields generated code that builds cleanly on its own: the part that is logic.
   Statements only; proofs in Gen/ClosureThm.v (general) and Gen/ClosureInstThm.v (regenerated configuration).
   "Compiles without diagnostics" itself has no Coq model here (PARTIAL, see tools/checks/c06.py MANIFEST). *)
From Verif Require Import Closure ClosureThm ClosureInst ClosureInstThm.
Open Scope N_scope.

(* includes_closed: for ALL type sets closed under dependencies, every #include of a type header is an output of generating
   the set, a support output (unless omitted) or a header get_includes adds -- for any language configuration whose include
   side and output side use the same id types (= call the same path function) *)
Theorem C06_includes_closed : forall (l : lang_cfg) q omit ts t i,
  lc_inc_short_idt l = lc_out_short_idt l -> lc_inc_ns_idt l = lc_out_ns_idt l ->
  closed q ts = true -> In t ts -> In i (include_list l q omit t) ->
  In i (map (punct l) (outputs l ts)) \/ (omit = false /\ In i (map (punct l) (support_outputs l))) \/ In i (lc_std l (direct q t)).
Proof. exact includes_closed_gen. Qed.
Print Assumptions C06_includes_closed.

(* ... instantiated with what /repo says now (call sites, id types, extension, support files, get_includes tables) *)
Theorem C06_includes_closed_c : forall q omit ts t i,
  closed q ts = true -> In t ts -> In i (include_list c_cfg q omit t) ->
  In i (map (punct c_cfg) (outputs c_cfg ts)) \/ (omit = false /\ In i (map (punct c_cfg) (support_outputs c_cfg)))
  \/ In i (lc_std c_cfg (direct q t)).
Proof. exact includes_closed_c. Qed.
Print Assumptions C06_includes_closed_c.

Theorem C06_includes_closed_cpp : forall std hv q omit ts t i,
  closed q ts = true -> In t ts -> In i (include_list (cpp_cfg std hv) q omit t) ->
  In i (map (punct (cpp_cfg std hv)) (outputs (cpp_cfg std hv) ts))
  \/ (omit = false /\ In i (map (punct (cpp_cfg std hv)) (support_outputs (cpp_cfg std hv))))
  \/ In i (lc_std (cpp_cfg std hv) (direct q t)).
Proof. exact includes_closed_cpp. Qed.
Print Assumptions C06_includes_closed_cpp.

Theorem C06_path_sites_agree :
  inc_path_callee = s_make_path /\ out_path_callee = s_make_path
  /\ inc_path_args = s_inc_args /\ out_path_args = s_out_args
  /\ mp_ns_idtype = ns_dir_idtype /\ mp_short_idtype = mp_ns_idtype.
Proof. exact path_sites_agree. Qed.
Print Assumptions C06_path_sites_agree.

Theorem C06_support_paths_agree : forall l, support_includes l = support_outputs l.
Proof. exact support_paths_agree. Qed.
Print Assumptions C06_support_paths_agree.

(* py_imports_closed: every package a generated module imports, and each of its parent packages, has its generated __init__ *)
Theorem C06_py_imports_closed : forall q ts t ns p,
  closed q ts = true -> In t ts -> In ns (import_namespaces t) -> In p (prefixes ns) ->
  In (import_target py_cfg p) (ns_outputs py_cfg ts).
Proof. exact py_imports_closed. Qed.
Print Assumptions C06_py_imports_closed.

(* the dotted import name spells the directory chain when filter_id's default id type and the directory id type strop the
   components alike (explicit hypothesis; checked on every hostile name by the correspondence run) *)
Theorem C06_py_import_names_are_dirs : forall (l : lang_cfg) ns,
  lc_stropping l = true ->
  (forall c, In c ns -> lc_sid l (lc_default_idt l) c = lc_sid l (lc_dir_idt l) c) ->
  map (lc_sid l (lc_default_idt l)) ns = ns_dir (lc_sid l) (lc_dir_idt l) ns.
Proof. exact py_import_names_are_dirs. Qed.
Print Assumptions C06_py_import_names_are_dirs.

Theorem C06_py_type_file_in_package_dir : forall t,
  exists f, make_path (lc_sid py_cfg) (lc_stropping py_cfg) (lc_out_short_idt py_cfg) (lc_out_ns_idt py_cfg) (lc_ext py_cfg) t
            = ns_dir (lc_sid py_cfg) (lc_dir_idt py_cfg) (ti_ns t) ++ [f].
Proof. exact py_type_file_in_package_dir. Qed.
Print Assumptions C06_py_type_file_in_package_dir.

(* guard_injective: equal guards force equal macro-cased full names and equal versions (for every stropping function) *)
Theorem C06_guard_injective : forall sid st tail t1 t2,
  guard sid st tail t1 = guard sid st tail t2 ->
  macrofy sid st (full_name t1) = macrofy sid st (full_name t2)
  /\ dec_str (ti_major t1) = dec_str (ti_major t2) /\ dec_str (ti_minor t1) = dec_str (ti_minor t2).
Proof. exact guard_injective_gen. Qed.
Print Assumptions C06_guard_injective.

Theorem C06_guards_differ_unless_folded : forall sid st tail t1 t2,
  macrofy sid st (full_name t1) <> macrofy sid st (full_name t2) -> guard sid st tail t1 <> guard sid st tail t2.
Proof. exact guards_differ_unless_folded. Qed.
Print Assumptions C06_guards_differ_unless_folded.

(* the full statement "distinct types have distinct guards" is FALSE of the faithful model: known finding F-C06-GUARD-FOLD *)
Theorem C06_guard_injective_refuted : exists t1 t2,
  full_name t1 <> full_name t2 /\ out_path (cpp_cfg [] false) t1 <> out_path (cpp_cfg [] false) t2
  /\ guard_cpp t1 = guard_cpp t2 /\ guard_c t1 = guard_c t2.
Proof. exact guard_injective_refuted. Qed.
Print Assumptions C06_guard_injective_refuted.

(* namespace_braces_balanced: open_namespace/close_namespace nest properly, same number, same names in mirrored order *)
Theorem C06_namespace_braces_balanced : forall ns,
  balanced [] (open_ns_cpp ns ++ close_ns_cpp ns) = true
  /\ length (open_ns_cpp ns) = length (close_ns_cpp ns)
  /\ map (fun k => match k with TOpen n | TClose n => n end) (close_ns_cpp ns)
     = rev (map (fun k => match k with TOpen n | TClose n => n end) (open_ns_cpp ns)).
Proof. exact namespace_braces_balanced. Qed.
Print Assumptions C06_namespace_braces_balanced.

(* std_includes_cover (C): with serialization support, for every combination of dependency flags and type features, every
   standard name the C templates mention (regenerated scan) is declared by a header that get_includes (regenerated table)
   or the support header (regenerated include list) brings in *)
Theorem C06_std_includes_cover_c_partial : forall e,
  c_pod_trigger e = false ->
  c_covered c_get_includes c_support_includes c_tmpl_std_names c_std_types e = true.
Proof. exact std_includes_cover_c. Qed.
Print Assumptions C06_std_includes_cover_c_partial.

(* ... and it is FALSE with --omit-serialization-support: known finding F-C06-C-POD *)
Theorem C06_std_includes_cover_c_refuted : exists e,
  c_covered c_get_includes c_support_includes c_tmpl_std_names c_std_types e = false.
Proof. exact std_includes_cover_c_refuted. Qed.
Print Assumptions C06_std_includes_cover_c_refuted.

(* non-vacuity *)
Example C06_example_closed : closed true [td_None; td_user] = true.
Proof. exact example_closed. Qed.
Print Assumptions C06_example_closed.

Example C06_example_import_py : py_imports py_cfg td_user = [s_ [99;108;97;115;115;95]].
Proof. exact example_import_py. Qed.
Print Assumptions C06_example_import_py.
