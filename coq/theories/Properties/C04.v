(* C04 - generated C/C++ codecs are memory-safe, total and free of prior-state influence.
   Statements only; proofs in Codec/WalkerSafeThm.v (model: Codec/WalkerSafe.v), primitive level in Prims/CPrimsThm.v (C14).
   The booleans tpl_* are read from the templates of the working tree by tools/translators/gen_c04.py on every run. *)
From Verif Require Import Wire Walker WalkerSafe WalkerSafeThm Gen_C04 Gen_C01 CPrims CPrimsThm.
Local Open Scope nat_scope.

(* the structural facts the model relies on hold of the templates as they are now: every check textually precedes the accesses it
   protects, the length checks use the DSDL capacity literal, nunavutGetBits zero-fills from floor(sat/8) *)
Theorem c04_template_order : tpl_order_facts = true.
Proof. reflexivity. Qed.
Print Assumptions c04_template_order.

(* the rendering of the working tree: the three state booleans are read from the templates, everything else is universally
   quantified (storage capacities, whether the up-front check is compiled in, endianness paths, the static alignment annotation) *)
Definition tree_cfg (ov : ty -> nat -> nat) (upf le : bool) (al : nat -> bool) : cfg :=
  {| ov := ov; up_front := upf; little := le; al := al;
     len_chk_storage := tpl_c_len_check_storage; guarded := tpl_c_ser_guarded; ptr_clamp := tpl_c_des_ptr_clamped |}.

(* ---- deserialization: every access in bounds; `cap_sound` = the length checks use the storage capacity, or the storage is not
   smaller than the DSDL capacity ---- *)
Theorem c04_des_in_bounds : forall c, cap_sound c -> forall capB t prior buf,
  wf_ty t = true -> length buf = 8 * capB ->
  forallb (acc_ok capB) (snd (walk_des_safe c t prior buf)) = true.
Proof. exact des_in_bounds. Qed.
Print Assumptions c04_des_in_bounds.

(* about the tree as it is: on a tree whose length checks use the storage capacity the premise is `true = true` for EVERY storage
   capacity function; on the older shape it asks for unreduced capacities (the excluded trigger of F-C-OVR-CAP) *)
Theorem c04_tree_des_in_bounds : forall ov upf le al,
  (tpl_c_len_check_storage = true \/ (forall (e : ty) n, n <= ov e n)) -> forall capB t prior buf,
  wf_ty t = true -> length buf = 8 * capB ->
  forallb (acc_ok capB) (snd (walk_des_safe (tree_cfg ov upf le al) t prior buf)) = true.
Proof. intros ov upf le al H. exact (des_in_bounds (tree_cfg ov upf le al) H). Qed.
Print Assumptions c04_tree_des_in_bounds.

(* ---- every pointer handed to a nested deserializer lies in [buffer, buffer + size] (full statement since 9be3c74) ---- *)
Theorem c04_des_ptr_in_bounds : forall ov upf le al,
  (tpl_c_len_check_storage = true \/ (forall (e : ty) n, n <= ov e n)) -> forall capB t prior buf,
  wf_ty t = true -> length buf = 8 * capB ->
  forallb (ptr_ok capB) (snd (walk_des_safe (tree_cfg ov upf le al) t prior buf)) = true.
Proof. intros ov upf le al H capB t prior buf. exact (des_ptr_in_bounds (tree_cfg ov upf le al) H capB t prior buf eq_refl). Qed.
Print Assumptions c04_des_ptr_in_bounds.


(* ---- serialization: every access in bounds, whatever the object holds; a buffer that passes the up-front test is never TOO_SMALL later ---- *)
Theorem c04_ser_in_bounds : forall c, cap_sound c -> forall t o capB,
  wf_ty t = true -> align t = 8 -> bmax t <= 8 * capB ->
  forallb (acc_ok capB) (snd (walk_ser_safe c t o capB)) = true /\ fst (walk_ser_safe c t o capB) <> Err ETooSmall.
Proof. exact ser_in_bounds. Qed.
Print Assumptions c04_ser_in_bounds.

(* the guarded rendering (C04_ovrcap_fix.patch) needs neither the up-front check nor unreduced capacities *)
Theorem c04_ser_in_bounds_guarded : forall c t o capB, guarded c = true -> len_chk_storage c = true ->
  forallb (acc_ok capB) (snd (walk_ser_safe c t o capB)) = true.
Proof. exact ser_in_bounds_guarded. Qed.
Print Assumptions c04_ser_in_bounds_guarded.

(* about the tree as it is: in bounds if the tree is guarded (then for every buffer size, every storage capacity, check compiled in
   or not), otherwise under the premises of c04_ser_in_bounds *)
Theorem c04_tree_ser_in_bounds : forall ov upf le al t o capB,
  (tpl_c_ser_guarded && tpl_c_len_check_storage = true \/
   ((tpl_c_len_check_storage = true \/ (forall (e : ty) n, n <= ov e n)) /\ wf_ty t = true /\ align t = 8 /\ bmax t <= 8 * capB)) ->
  forallb (acc_ok capB) (snd (walk_ser_safe (tree_cfg ov upf le al) t o capB)) = true.
Proof.
  intros ov upf le al t o capB [H|(H1 & H2 & H3 & H4)].
  - apply andb_prop in H. destruct H as [Hg Hs]. exact (ser_in_bounds_guarded (tree_cfg ov upf le al) t o capB Hg Hs).
  - exact (proj1 (ser_in_bounds (tree_cfg ov upf le al) H1 t o capB H2 H3 H4)).
Qed.
Print Assumptions c04_tree_ser_in_bounds.

(* ---- the outcome of a deserialization (value, consumed size, error) is that of the prior-free walker of Codec/Walker.v whenever
   the length checks are those of the specification (DSDL capacity, or storage not reduced) ---- *)
Theorem c04_des_obs_eq_walker : forall c, (forall e n, chk_cap c e n = n) -> forall t prior buf,
  obs_res t (fst (walk_des_safe c t prior buf)) = walk_des ref_prims t buf.
Proof. exact des_obs_eq_walker. Qed.
Print Assumptions c04_des_obs_eq_walker.

Theorem c04_des_prior_indep : forall c t prior1 prior2 buf,
  obs_res t (fst (walk_des_safe c t prior1 buf)) = obs_res t (fst (walk_des_safe c t prior2 buf)).
Proof. exact des_prior_indep. Qed.
Print Assumptions c04_des_prior_indep.


(* ---- totality: the walkers are total functions (structural recursion on the type and the element count, no fuel) and report
   only documented errors ---- *)
Theorem c04_des_total : forall c t prior buf,
  (exists v k, fst (walk_des_safe c t prior buf) = Ok (v, k)) \/
  (exists e, fst (walk_des_safe c t prior buf) = Err e /\ des_err_documented e = true).
Proof. exact des_total. Qed.
Print Assumptions c04_des_total.

Theorem c04_ser_total : forall c t o capB,
  (exists n, fst (walk_ser_safe c t o capB) = Ok n) \/
  (exists e, fst (walk_ser_safe c t o capB) = Err e /\ ser_err_documented e = true).
Proof. exact ser_total. Qed.
Print Assumptions c04_ser_total.

(* ---- pointer formation past the end: the rendering before 9be3c74 (F-C-PTR-PAST-END, fixed), documentation only ---- *)
Theorem c04_des_ptr_in_bounds_refuted :
  exists t prior buf capB, wf_ty t = true /\ length buf = 8 * capB /\
    forallb (ptr_ok capB) (snd (walk_des_safe old_ptr_cfg t prior buf)) = false.
Proof. exact des_ptr_in_bounds_refuted. Qed.
Print Assumptions c04_des_ptr_in_bounds_refuted.

(* ---- non-vacuity: a union inside a delimited struct decoded into two different prior objects, and serialized in bounds ---- *)
Definition ex_t : ty :=
  TComp false [TPrim PBool; TVar (TPrim (PU 7 true)) 3; TComp true [TPrim (PU 16 true); TVar (TPrim PBool) 9] None] (Some 128).
Example c04_ex_des :
  obs_res ex_t (fst (walk_des_safe (std_cfg true) ex_t dflt (bits_of_bytes [3; 170; 1; 2; 1; 0; 0]%N)))
  = obs_res ex_t (fst (walk_des_safe (std_cfg true) ex_t
        (CStruct [CPrim (VBool true); CVar 77 [CPrim (VInt 9)]; CUnion 5 (CVar 3 [])]) (bits_of_bytes [3; 170; 1; 2; 1; 0; 0]%N)))
  /\ exists v k, obs_res ex_t (fst (walk_des_safe (std_cfg true) ex_t dflt (bits_of_bytes [3; 170; 1; 2; 1; 0; 0]%N))) = Ok (v, k).
Proof. split; [apply des_prior_indep | vm_compute; eexists; eexists; reflexivity]. Qed.
(* the translated pieces the model is built from *)
Theorem c04_bytes_hi_translated : forall n, Gen_C01.filter_bits2bytes_ceil (Z.of_nat n) = Some (Z.of_nat (bytes_hi n)).
Proof. exact bytes_hi_translated. Qed.
Print Assumptions c04_bytes_hi_translated.

Example c04_ex_ser : cap_ok (std_cfg true) /\ wf_ty ex_t = true /\ align ex_t = 8 /\ bmax ex_t <= 8 * 8.
Proof. split; [intros e n; apply le_n|]. vm_compute. repeat split; repeat constructor. Qed.

(* ---- a serialization refused for lack of space wrote nothing ---- *)
Theorem c04_too_small_no_write : forall c t o capB,
  up_front c = true -> 8 * capB < bmax t -> walk_ser_safe c t o capB = (Err ETooSmall, []).
Proof. exact too_small_no_write. Qed.
Print Assumptions c04_too_small_no_write.

(* ---- the documented capacity override breaks both (F-C-OVR-CAP) ---- *)
Theorem c04_des_in_bounds_override_refuted :
  exists c t prior buf capB, length buf = 8 * capB /\ wf_ty t = true /\
    fst (walk_des_safe c t prior buf) <> Err EBadLen /\ forallb (acc_ok capB) (snd (walk_des_safe c t prior buf)) = false.
Proof. exact des_in_bounds_override_refuted. Qed.
Print Assumptions c04_des_in_bounds_override_refuted.

Theorem c04_ser_in_bounds_override_refuted :
  exists c t o capB, bmax t <= 8 * capB /\ wf_ty t = true /\
    fst (walk_ser_safe c t o capB) <> Err EBadLen /\ forallb (acc_ok capB) (snd (walk_ser_safe c t o capB)) = false.
Proof. exact ser_in_bounds_override_refuted. Qed.
Print Assumptions c04_ser_in_bounds_override_refuted.

Theorem c04_too_small_writes_without_check_refuted :
  exists c t o capB, up_front c = false /\ 8 * capB < bmax t /\ forallb (acc_ok capB) (snd (walk_ser_safe c t o capB)) = false.
Proof. exact too_small_writes_without_check_refuted. Qed.
Print Assumptions c04_too_small_writes_without_check_refuted.

(* ---- C++ vector: replaced, not appended to (stated about the template as it is now) ---- *)
Theorem c04_vla_replaced_not_appended : forall (A : Type) (current decoded : list A),
  cpp_vla_des tpl_cpp_vla_clear_first current decoded = decoded.
Proof. exact @vla_replaced. Qed.
Print Assumptions c04_vla_replaced_not_appended.

Theorem c04_vla_append_refuted : exists current decoded : list nat, cpp_vla_des false current decoded <> decoded.
Proof. exact vla_append_refuted. Qed.
Print Assumptions c04_vla_append_refuted.

(* ---- C++14 union emulation: exactly one live alternative after every history ---- *)
Theorem c04_variant_exactly_one_live : forall np ops,
  let c0 := ctor tpl_union_destroy_unfiltered tpl_union_emplace_destroy_first np in
  let c := run_ops tpl_union_destroy_unfiltered tpl_union_emplace_destroy_first np ops c0 in
  one_live c /\ ubad c = ubad c0.
Proof. exact variant_exactly_one_live. Qed.
Print Assumptions c04_variant_exactly_one_live.

Theorem c04_variant_dtor_clean : forall np ops,
  let c := dtor tpl_union_destroy_unfiltered np
             (run_ops tpl_union_destroy_unfiltered tpl_union_emplace_destroy_first np ops
                (ctor tpl_union_destroy_unfiltered tpl_union_emplace_destroy_first np)) in
  ulive c = filter (fun j => negb (nth j np false)) [utag c].
Proof. exact variant_dtor_clean. Qed.
Print Assumptions c04_variant_dtor_clean.

Theorem c04_variant_filtered_refuted :
  exists np ops, let c := run_ops false true np ops (ctor false true np) in ubad c <> 0 \/ ~ one_live c.
Proof. exact variant_filtered_refuted. Qed.
Print Assumptions c04_variant_filtered_refuted.

Theorem c04_variant_ctor_destroys_dead_refuted : exists np, ubad (ctor true true np) <> 0.
Proof. exact variant_ctor_destroys_dead_refuted. Qed.
Print Assumptions c04_variant_ctor_destroys_dead_refuted.

Theorem c04_variant_ctor_partial : forall np, nth 0 np false = false -> ubad (ctor true true np) = 0.
Proof. exact variant_ctor_partial. Qed.
Print Assumptions c04_variant_ctor_partial.

(* ---- primitive level (C14): inside the footprint the log entries describe, nunavutCopyBits performs no out-of-range access and its
   bit loop terminates within fuel = length_bits (None = out-of-range access or fuel exhausted) ---- *)
Theorem c04_copy_bits_total : forall dst doff len src soff,
  (doff + len <= 8 * blen dst -> soff + len <= 8 * blen src -> 8 * blen dst < two64 -> 8 * blen src < two64 ->
   exists r, copy_bits dst doff len src soff = Some r /\ copied dst src r doff soff len)%N.
Proof. exact copy_bits_exact. Qed.
Print Assumptions c04_copy_bits_total.
