(* C04 - generated C/C++ codecs are memory-safe, total and free of prior-state influence.
   Statements only.  Models: Codec/WalkerSafe.v (C walker with access log, destination object with prior contents),
   Codec/WalkerSafeCpp.v (C++: the same walker under cpp_cfg, vector statement interpreter, C++14 union emulation).
   Proofs: Codec/WalkerSafeThm.v, WalkerSafeCppThm.v, WalkerSafePrims.v (log entries against the partial semantics of CPrims/CppPrims).
   tpl_* are read from the templates of the working tree by tools/translators/gen_c04.py on every run: three state booleans of the C
   rendering, and STATEMENT SEQUENCES (C++ vector statements, union constructor / emplace / destroy_current, check-vs-access events).
   Refutations about renderings that are no longer in /repo: coq/theories/History/C04_history.v. *)
From Verif Require Import Wire Walker WalkerSafe WalkerSafeThm WalkerSafeTie WalkerSafeCpp WalkerSafeCppThm WalkerSafePrims Gen_C04 Gen_C01
                          CPrims CPrimsThm CppPrims CppPrimsThm.
From Coq Require Import Lia.
Local Open Scope nat_scope.

(* ---------------------------------------------------------------------------------------------------------------------------------
   The rendering of the working tree.  `opt` = --enable-override-variable-array-capacity.  Without the option the storage capacity
   IS the DSDL capacity, the up-front test is always compiled in and no guard is emitted; with it the user may reduce capacities
   (`ov`), which compiles the up-front test out (`upf`).  Endianness paths and the static alignment annotation are arbitrary.
   --------------------------------------------------------------------------------------------------------------------------------- *)
(* WHERE the checks sit relative to the accesses they protect: decided here from the scanned check / access event lists of the macros
   (`check_first`: every access event is preceded by a check event).  The walkers CONSULT this plan (WalkerSafe.ordered): with a flag
   false they access first and check afterwards, and none of the bounds theorems below type-checks any more. *)
Definition tree_plan : chkplan :=
  {| pl_ser_impl := check_first tpl_c_events_ser_impl; pl_ser_vla := check_first tpl_c_events_ser_vla;
     pl_des_vla := check_first tpl_c_events_des_vla; pl_des_hdr := check_first tpl_c_events_des_composite |}.
Definition cpp_ser_plan : chkplan :=
  {| pl_ser_impl := check_first tpl_c_events_cpp_ser_impl; pl_ser_vla := check_first tpl_c_events_cpp_ser_vla;
     pl_des_vla := true; pl_des_hdr := true |}.

Definition tree_cfg_a (asr opt : bool) (ov : ty -> nat -> nat) (upf le : bool) (al : nat -> bool) : cfg :=
  {| ov := if opt then ov else (fun _ n => n); up_front := if opt then upf else true; little := le; al := al;
     len_chk_storage := opt && tpl_c_len_check_storage; guarded := opt && tpl_c_ser_guarded; ptr_clamp := tpl_c_des_ptr_clamped;
     bulk_on := true; nested_strict := false; plan := tree_plan;
     asserts := asr; assert_max := negb (opt && tpl_c_assert_max_not_under_override) |}.
(* assertions compiled out (the default) *)
Definition tree_cfg := tree_cfg_a false.

(* the remaining order facts (boolean, from the scanner): the union chains end in BAD_UNION_TAG, guarded byte loads, nunavutGetBits
   zero-fills from floor(sat/8), the C++ serializer stores only through checked members - and those members test before they store *)
Theorem c04_scanned_order_facts :
  tpl_order_facts = true /\
  forallb check_first [tpl_c_events_cpp_setBit; tpl_c_events_cpp_setUxx; tpl_c_events_cpp_setZeros] = true.
Proof. split; reflexivity. Qed.
Print Assumptions c04_scanned_order_facts.

(* ================================================  C: deserialization  ================================================ *)
Theorem c04_des_in_bounds : forall c, plan_ok c -> cap_sound c -> forall capB t prior buf,
  wf_ty t = true -> length buf = 8 * capB ->
  forallb (acc_ok capB) (snd (walk_des_safe c t prior buf)) = true.
Proof. exact des_in_bounds. Qed.
Print Assumptions c04_des_in_bounds.

(* the default build: no premise at all *)
Theorem c04_default_des_in_bounds : forall ov upf le al capB t prior buf,
  wf_ty t = true -> length buf = 8 * capB ->
  forallb (acc_ok capB) (snd (walk_des_safe (tree_cfg false ov upf le al) t prior buf)) = true
  /\ forallb (ptr_ok capB) (snd (walk_des_safe (tree_cfg false ov upf le al) t prior buf)) = true.
Proof.
  intros ov upf le al capB t prior buf Hwf Hl.
  assert (Hc : cap_sound (tree_cfg false ov upf le al)) by (right; intros e n; apply le_n).
  split; [exact (des_in_bounds (tree_cfg false ov upf le al) eq_refl Hc capB t prior buf Hwf Hl) | exact (des_ptr_in_bounds (tree_cfg false ov upf le al) eq_refl Hc capB t prior buf eq_refl Hwf Hl)].
Qed.
Print Assumptions c04_default_des_in_bounds.

(* the build with the option: every storage capacity function, as long as the tree checks lengths against the storage *)
Theorem c04_option_des_in_bounds : forall ov upf le al capB t prior buf,
  wf_ty t = true -> length buf = 8 * capB ->
  forallb (acc_ok capB) (snd (walk_des_safe (tree_cfg true ov upf le al) t prior buf)) = true
  /\ forallb (ptr_ok capB) (snd (walk_des_safe (tree_cfg true ov upf le al) t prior buf)) = true.
Proof.
  intros ov upf le al capB t prior buf Hwf Hl.
  assert (Hc : cap_sound (tree_cfg true ov upf le al)) by (left; reflexivity).
  split; [exact (des_in_bounds (tree_cfg true ov upf le al) eq_refl Hc capB t prior buf Hwf Hl) | exact (des_ptr_in_bounds (tree_cfg true ov upf le al) eq_refl Hc capB t prior buf eq_refl Hwf Hl)].
Qed.
Print Assumptions c04_option_des_in_bounds.

(* the outcome (value, consumed size, error) does not depend on the destination's prior contents: every rendering *)
Theorem c04_des_prior_indep : forall c, plan_ok c -> forall t prior1 prior2 buf,
  obs_res t (fst (walk_des_safe c t prior1 buf)) = obs_res t (fst (walk_des_safe c t prior2 buf)).
Proof. exact des_prior_indep. Qed.
Print Assumptions c04_des_prior_indep.

(* ... and it is that of the prior-free walker of Codec/Walker.v whenever the length checks are the specification's *)
Theorem c04_des_obs_eq_walker : forall c, plan_ok c -> (forall e n, chk_cap c e n = n) -> forall t prior buf,
  obs_res t (fst (walk_des_safe c t prior buf)) = walk_des ref_prims t buf.
Proof. exact des_obs_eq_walker. Qed.
Print Assumptions c04_des_obs_eq_walker.

(* only BAD_ARRAY_LENGTH / BAD_UNION_TAG / BAD_DELIMITER_HEADER can be reported (the model has no other error to give: the content of
   this theorem is that TOO_SMALL is not among them and that no internal `shape` error exists; termination is structural) *)
Theorem c04_des_errors : forall c, plan_ok c -> forall t prior buf,
  (exists v k, fst (walk_des_safe c t prior buf) = Ok (v, k)) \/
  (exists e, fst (walk_des_safe c t prior buf) = Err e /\ des_err_documented e = true).
Proof. exact des_total. Qed.
Print Assumptions c04_des_errors.

(* ================================================  C: serialization  ================================================ *)
(* a serialization refused for lack of space wrote nothing *)
Theorem c04_too_small_no_write : forall c t o capB, plan_ok c ->
  up_front c = true -> 8 * capB < bmax t -> walk_ser_safe c t o capB = (Err ETooSmall, []).
Proof. exact too_small_no_write. Qed.
Print Assumptions c04_too_small_no_write.

(* once the buffer passes the up-front test: every access in bounds whatever the object holds, and TOO_SMALL is never reported later *)
Theorem c04_ser_in_bounds : forall c, plan_ok c -> cap_sound c -> forall t o capB,
  wf_ty t = true -> align t = 8 -> bmax t <= 8 * capB ->
  forallb (acc_ok capB) (snd (walk_ser_safe c t o capB)) = true /\ fst (walk_ser_safe c t o capB) <> Err ETooSmall.
Proof. exact ser_in_bounds. Qed.
Print Assumptions c04_ser_in_bounds.

(* the default build, from the up-front capacity test alone: EVERY buffer size, every object content *)
Theorem c04_default_ser_in_bounds : forall ov upf le al t o capB,
  wf_ty t = true -> align t = 8 ->
  forallb (acc_ok capB) (snd (walk_ser_safe (tree_cfg false ov upf le al) t o capB)) = true.
Proof.
  intros ov upf le al t o capB Hwf Ha.
  exact (ser_in_bounds_checked (tree_cfg false ov upf le al) t o capB eq_refl eq_refl (or_intror (fun e n => le_n n)) Hwf Ha).
Qed.
Print Assumptions c04_default_ser_in_bounds.

(* the build with the option: every buffer size, every storage capacity, up-front test compiled in or out (needs the guarded tree) *)
Theorem c04_option_ser_in_bounds : forall ov upf le al t o capB,
  forallb (acc_ok capB) (snd (walk_ser_safe (tree_cfg true ov upf le al) t o capB)) = true.
Proof. intros ov upf le al t o capB. exact (ser_in_bounds_guarded (tree_cfg true ov upf le al) t o capB eq_refl eq_refl eq_refl). Qed.
Print Assumptions c04_option_ser_in_bounds.

(* the safety walker and the functional walker are one program: whenever Codec/Walker.v's serializer (which C01 proves equal to the wire
   specification and, on the C primitives, to the generated code) produces its bytes for a value, the instrumented walker run on the
   object holding that value follows the same cursor (tie_body) and reports exactly the number of bytes produced - any primitive
   record whose stores keep the buffer length, any rendering with the specification's length checks *)
Theorem c04_ser_safe_is_functional : forall P c, plan_ok c -> (forall e n, chk_cap c e n = n) -> asserts c = false -> cap_sound c ->
  forall t v buf capB bits, wf_ty t = true -> align t = 8 ->
  Walker.walk_ser P t v buf capB = Ok bits -> length buf = 8 * capB ->
  (forall b o, Walker.ws_body P t v buf 0 = Ok (b, o) -> length b = length buf) ->
  fst (walk_ser_safe c t (embed t v) capB) = Ok (length bits / 8).
Proof. intros P c Hpl Hk Has Hc t v buf capB bits Hwf Ha. exact (walk_ser_safe_size P c Hpl Hk Has t v buf capB bits Hwf Ha Hc). Qed.
Print Assumptions c04_ser_safe_is_functional.

Theorem c04_ser_errors : forall c, plan_ok c -> forall t o capB,
  (exists n, fst (walk_ser_safe c t o capB) = Ok n) \/
  (exists e, fst (walk_ser_safe c t o capB) = Err e /\ (ser_err_documented e = true \/ (e = EAssert /\ asserts c && assert_max c = true))).
Proof. exact ser_total. Qed.
Print Assumptions c04_ser_errors.

(* both fixes are live in the tree (obligations: a template that multiplies before comparing, or asserts the DSDL maximum under the override,
   either fails closed in the scanner or fails here) *)
Example c04_hdr_check_nomul_live : tpl_cpp_hdr_check_nomul = true /\ tpl_cpp_hdr_check = HDivCmp.
Proof. split; reflexivity. Qed.
Example c04_assert_max_not_under_override_live : tpl_c_assert_max_not_under_override = true.
Proof. reflexivity. Qed.

(* ================================================  assertions (--enable-serialization-asserts)  ================================================ *)
(* NUNAVUT_ASSERT((offset_bits + <max>) <= capacity) of _serialize_any is modelled as an abort (EAssert) when false.  Default build with
   assertions: it never fires, for every buffer size and object content (this is what C03's "assertions never fire" needs for the inner sites) *)
Theorem c04_asserts_never_fire_default : forall ov upf le al t o capB, wf_ty t = true -> align t = 8 ->
  fst (walk_ser_safe (tree_cfg_a true false ov upf le al) t o capB) <> Err EAssert.
Proof.
  intros ov upf le al t o capB Hwf Ha.
  exact (ser_asserts_never_fire_checked (tree_cfg_a true false ov upf le al) t o capB eq_refl eq_refl (or_intror (fun e n => le_n n)) Hwf Ha).
Qed.
Print Assumptions c04_asserts_never_fire_default.

(* with the capacity override (reduced capacities, up-front test compiled in or out): never either - the tree no longer emits the assertion
   under the option (c04_assert_max_not_under_override_live); the pre-f2f61d1 firing instance is in History/C04_history.v *)
Theorem c04_asserts_option : forall ov upf le al t o capB,
  fst (walk_ser_safe (tree_cfg_a true true ov upf le al) t o capB) <> Err EAssert.
Proof.
  intros ov upf le al t o capB H.
  destruct (ser_total (tree_cfg_a true true ov upf le al) eq_refl t o capB) as [[n Hn]|(e & He & [Hd|[_ Hx]])]; try congruence.
  - rewrite H in He. injection He as <-. discriminate Hd.
  - discriminate Hx.
Qed.
Print Assumptions c04_asserts_option.

(* ================================================  delimiter header test, any size_t width  ================================================ *)
(* the C++ test as scanned rejects exactly the headers exceeding the remaining bytes for every size_t of at least hchk_min_width bits:
   32 once the test divides (C04_header_wrap_fix.patch), 35 while it multiplies - i.e. NOT on the 32-bit targets (F-CPP-HDR-WRAP32) *)
Theorem c04_cpp_hdr_check_exact : forall W h size, (hchk_min_width tpl_cpp_hdr_check <= W)%N -> (h < 2 ^ 32)%N ->
  hchk_eval W tpl_cpp_hdr_check h size = (size / 8 <? h)%N.
Proof. intros W h size. exact (hdr_check_exact W tpl_cpp_hdr_check h size). Qed.
Print Assumptions c04_cpp_hdr_check_exact.


(* ================================================  log entries vs. the primitive models  ================================================ *)
(* an in-bounds entry means the primitive that produced it is DEFINED in the partial semantics of CPrims / CppPrims (None = access
   outside the allocation or bit loop out of fuel), for any value / source argument *)
Theorem c04_checked_store_agrees : forall little buf (off w : nat) v, fits buf -> (N.of_nat off + N.of_nat w < two64)%N ->
  match fst (w_checked (8 * length buf) off w) with
  | Ok _ => exists r, set_uxx little buf (blen buf) (N.of_nat off) v (N.of_nat w) = Some (inl r)
  | Err _ => set_uxx little buf (blen buf) (N.of_nat off) v (N.of_nat w) = Some (inr TooSmall)
  end.
Proof. exact checked_store_agrees. Qed.
Print Assumptions c04_checked_store_agrees.

Theorem c04_raw_stores_defined : forall buf src (off w : nat) v, fits buf -> fits src ->
  acc_ok (length buf) (BW (off / 8) (bytes_hi (off + w))) = true ->
  (acc_ok (length buf) (BW (off / 8) (off / 8 + 1)) = true -> wr buf (N.of_nat (off / 8)) v <> None) /\
  (off mod 8 = 0 -> 1 <= w -> bytes_hi w <= length src -> memmove buf (N.of_nat (off / 8)) src 0 (N.of_nat (bytes_hi w)) <> None) /\
  (w <= 8 * length src -> copy_bits buf (N.of_nat off) (N.of_nat w) src 0 <> None).
Proof.
  intros buf src off w v Hb Hs H. split; [|split].
  - intros H1. apply byte_store_defined. exact H1.
  - intros Ha Hw Hl. apply memmove_store_defined; assumption.
  - intros Hl. apply copybits_store_defined; assumption.
Qed.
Print Assumptions c04_raw_stores_defined.

Theorem c04_reads_defined :
  (forall buf (i : nat), acc_ok (length buf) (BR i (i + 1)) = true -> rd buf (N.of_nat i) <> None) /\
  (forall little (w : N) buf off len, (w mod 8 = 0)%N -> (w <= 64)%N -> bytes_ok buf -> fits buf -> (off < two64)%N ->
     get_uxx little w buf (blen buf) off len <> None) /\
  (forall (w : N) s len, (w mod 8 = 0)%N -> (w <= 64)%N -> span_ok s -> bytes_ok (sp_data s) -> cpp_get_uxx w s len <> None) /\
  (forall output buf off (len : nat), fits buf -> fits output -> (off < two64)%N -> (N.of_nat len + 7 < two64)%N ->
     bytes_hi len <= length output -> get_bits output buf (blen buf) off (N.of_nat len) <> None).
Proof. exact (conj byte_load_defined (conj getter_defined (conj cpp_getter_defined getbits_defined))). Qed.
Print Assumptions c04_reads_defined.

(* ================================================  C++  ================================================ *)
(* buffer side: the C++ deserializer is the same walker under cpp_cfg (saturating getters only, no fast paths, subspan / subspan_bytes) *)
Theorem c04_cpp_des_in_bounds : forall capB t prior buf, wf_ty t = true -> length buf = 8 * capB ->
  forallb (acc_ok capB) (snd (walk_des_safe (cpp_cfg tpl_cpp_subspan_clamped) t prior buf)) = true.
Proof. exact (cpp_des_in_bounds tpl_cpp_subspan_clamped). Qed.
Print Assumptions c04_cpp_des_in_bounds.

Theorem c04_cpp_des_prior_indep : forall t prior1 prior2 buf,
  obs_res t (fst (walk_des_safe (cpp_cfg tpl_cpp_subspan_clamped) t prior1 buf))
  = obs_res t (fst (walk_des_safe (cpp_cfg tpl_cpp_subspan_clamped) t prior2 buf)).
Proof. exact (des_prior_indep (cpp_cfg tpl_cpp_subspan_clamped) eq_refl). Qed.
Print Assumptions c04_cpp_des_prior_indep.

(* the pointer any_bitspan::subspan() hands to the nested span, as scanned from the support header, IS what the model's cpp_cfg
   emits (for every size and offset; proved here, the scanner only proposes the boolean) *)
Theorem c04_cpp_subspan_ptr_matches_model : forall size offb,
  seval tpl_cpp_subspan_ptr size offb = if tpl_cpp_subspan_clamped then Nat.min offb size else offb.
Proof.
  intros size offb. unfold tpl_cpp_subspan_ptr, tpl_cpp_subspan_clamped. cbn [seval].
  repeat match goal with |- context [if ?a <? ?b then _ else _] => destruct (Nat.ltb_spec a b) end; lia.
Qed.
Print Assumptions c04_cpp_subspan_ptr_matches_model.

(* every pointer handed to a nested C++ deserializer lies in [data, data + size] (full statement since 939fc9d; the refutation of the
   older `data_.data() + offset_bytes` is in History/C04_history.v) *)
Theorem c04_cpp_des_ptr_in_bounds : forall capB t prior buf, wf_ty t = true -> length buf = 8 * capB ->
  forallb (ptr_ok capB) (snd (walk_des_safe (cpp_cfg tpl_cpp_subspan_clamped) t prior buf)) = true.
Proof. exact cpp_des_ptr_in_bounds. Qed.
Print Assumptions c04_cpp_des_ptr_in_bounds.

(* ---- the C++ SERIALIZER: every store of serialize(obj, bitspan) lies inside the caller's buffer, for every type, every object
   content (vector longer than the capacity, any tag) and EVERY buffer size, with the up-front test compiled in or out; what does not
   fit is refused by the member before it stores.  The two template-level checks sit where the scanned events say (cpp_ser_plan);
   that all stores go through checked members is tpl_cpp_ser_stores_checked (c04_scanned_order_facts). ---- *)
Theorem c04_cpp_ser_in_bounds : forall upf t o capB,
  forallb (acc_ok capB) (snd (walk_ser_safe (cpp_ser_cfg upf cpp_ser_plan) t o capB)) = true.
Proof. intros upf t o capB. exact (cpp_ser_in_bounds upf cpp_ser_plan t o capB eq_refl). Qed.
Print Assumptions c04_cpp_ser_in_bounds.

Theorem c04_cpp_ser_too_small_no_write : forall t o capB, 8 * capB < bmax t ->
  walk_ser_safe (cpp_ser_cfg true cpp_ser_plan) t o capB = (Err ETooSmall, []).
Proof. intros t o capB. exact (cpp_ser_too_small_no_write cpp_ser_plan t o capB eq_refl). Qed.
Print Assumptions c04_cpp_ser_too_small_no_write.

(* a member that refuses touches nothing; one that accepts is the defined CppPrims call (setUxx = the C one on the span) *)
Theorem c04_checked_refusal_touches_nothing : forall lim off w, lim < off + w -> w_checked lim off w = (Err ETooSmall, []).
Proof. exact checked_refusal_touches_nothing. Qed.
Print Assumptions c04_checked_refusal_touches_nothing.

(* zero runs of the C++ serializer (void fields): every byte access of bitspan::setZeros, as scanned from the support header, lies
   inside the footprint [off/8, ceil((off+len)/8)) that the log entry of a zero run states - for every offset and length; so a store
   that ends at the end of an exactly-sized buffer touches nothing behind it *)
Theorem c04_cpp_setzeros_footprint : forall off len, 1 <= len ->
  forallb (zacc_in off len) tpl_cpp_setzeros_accesses = true.
Proof.
  intros off len Hl. unfold tpl_cpp_setzeros_accesses. cbn [forallb].
  unfold zacc_in, zrange, zidx_val, zlenceil, bytes_hi. cbn [fst snd].
  repeat (apply andb_true_intro; split); try reflexivity; apply Nat.leb_le;
    try (pose proof (Nat.div_mod_eq off 8); pose proof (Nat.mod_upper_bound off 8 ltac:(lia)));
    try (apply Nat.div_le_lower_bound; lia); try lia.
Qed.
Print Assumptions c04_cpp_setzeros_footprint.

(* ... and the modelled primitive (Prims/CppPrims.setZeros, C14) is defined on a buffer that ends exactly where the run ends *)
Theorem c04_cpp_zero_run_tight : forall (data : bytes) (off len : nat), bytes_ok data -> fits data -> 1 <= len ->
  length data = bytes_hi (off + len) ->
  exists r, setZeros (mkspan data (blen data) (N.of_nat off)) (N.of_nat len) = Some (inl r).
Proof. exact cpp_zero_run_tight. Qed.
Print Assumptions c04_cpp_zero_run_tight.

(* vector: EVERY path through the scanned statements of _deserialize_variable_length_array replaces the contents by the decoded
   elements, whatever the vector held, allocates only after the length check and never pushes an empty temporary *)
Theorem c04_vla_replaced_not_appended : forall p, In p tpl_cpp_vla_paths ->
  forall (A : Type) (fresh : A) (prior decoded : list A),
  vec A (run_vla A fresh p prior decoded) = decoded /\ vbad A (run_vla A fresh p prior decoded) = 0.
Proof.
  intros p Hin A fresh. apply vla_check_sound.
  assert (H : forallb vla_check tpl_cpp_vla_paths = true) by reflexivity.
  rewrite forallb_forall in H. apply H. exact Hin.
Qed.
Print Assumptions c04_vla_replaced_not_appended.

Theorem c04_vla_checker_rejects :
  vla_check [VSizeRead; VSizeCheck; VReserve; VLoop [LTmp; LDecodeTmp; LPushBack]] = false /\
  vla_check [VSizeRead; VSizeCheck; VReserve; VLoop [LTmp; LDecodeTmp; LPushBack]; VClear] = false /\
  vla_check [VSizeRead; VClear; VReserve; VSizeCheck; VLoop [LTmp; LDecodeTmp; LPushBack]] = false /\
  exists prior decoded : list nat,
    vec nat (run_vla nat 0 [VSizeRead; VSizeCheck; VReserve; VLoop [LTmp; LDecodeTmp; LPushBack]] prior decoded) <> decoded.
Proof. exact vla_check_rejects. Qed.
Print Assumptions c04_vla_checker_rejects.

(* C++14 union emulation, about the scanned constructor / emplace / destroy_current: after VariantType() on raw storage (any previous
   tag value) and ANY sequence of set_x / decode / assignment operations exactly the tagged alternative is live and NO destructor
   call ever hit storage holding something else (ubad = 0, absolutely) *)
Theorem c04_variant_exactly_one_live : forall np t0 ops,
  let c0 := ctor tpl_union_dshape tpl_union_emplace tpl_union_ctor np t0 in
  let c := run_ops tpl_union_dshape tpl_union_emplace np ops c0 in
  one_live c /\ ubad c = 0 /\ uzd c = uzd c0.
Proof. exact (fun np t0 ops => variant_exactly_one_live tpl_union_ctor np t0 ops eq_refl). Qed.
Print Assumptions c04_variant_exactly_one_live.

(* the only destructor call on never-constructed storage is the constructor's emplace<0>() -> destroy_current(): it runs once, on the
   all-zero bytes of value-initialisation, and only if alternative 0 has a destructor *)
Theorem c04_variant_ctor : forall np t0,
  let c0 := ctor tpl_union_dshape tpl_union_emplace tpl_union_ctor np t0 in
  one_live c0 /\ ubad c0 = 0 /\ uzd c0 <= 1 /\ (nth 0 np false = false -> uzd c0 = 0) /\ uzero c0 = false.
Proof. exact (fun np t0 => variant_ctor_gen tpl_union_ctor np t0 eq_refl). Qed.
Print Assumptions c04_variant_ctor.

Theorem c04_variant_dtor_clean : forall np t0 ops,
  let c := dtor tpl_union_dshape np (run_ops tpl_union_dshape tpl_union_emplace np ops (ctor tpl_union_dshape tpl_union_emplace tpl_union_ctor np t0)) in
  ulive c = filter (fun j => negb (nth j np false)) [utag c] /\ ubad c = 0.
Proof. exact (fun np t0 ops => variant_dtor_clean tpl_union_ctor np t0 ops eq_refl). Qed.
Print Assumptions c04_variant_dtor_clean.

(* proposed constructor (do_emplace<0>()): no destructor call on dead storage at all; and the zeroing is what makes the current one benign *)
Theorem c04_variant_ctor_direct : forall np t0,
  let c0 := ctor tpl_union_dshape tpl_union_emplace [CTag0; CZero; CDoEmplace0] np t0 in one_live c0 /\ ubad c0 = 0 /\ uzd c0 = 0.
Proof. exact variant_ctor_direct. Qed.
Print Assumptions c04_variant_ctor_direct.

Theorem c04_variant_ctor_needs_zero : exists np t0, ubad (ctor tpl_union_dshape tpl_union_emplace [CTag0; CEmplace0] np t0) <> 0.
Proof. exact variant_ctor_needs_zero. Qed.
Print Assumptions c04_variant_ctor_needs_zero.

(* ================================================  cursor width  ================================================ *)
(* the cursor / length types of the rendering (lang/properties.yaml named_types, regenerated) are as wide as the size_t of the primitive
   models the instance lemmas above are proved against (Prims/CPrims.v: 2^64) *)
Theorem c04_width_is_model_width :
  (2 ^ N.of_nat tpl_width_c_unsigned_bit_length = two64 /\ 2 ^ N.of_nat tpl_width_c_unsigned_length = two64 /\
   2 ^ N.of_nat tpl_width_cpp_unsigned_bit_length = two64 /\ 2 ^ N.of_nat tpl_width_cpp_unsigned_length = two64)%N.
Proof. repeat split; reflexivity. Qed.
Print Assumptions c04_width_is_model_width.

Theorem c04_wfits_is_fits : forall b, wfits tpl_width_c_unsigned_bit_length b -> fits b.
Proof. exact (fun b H => H). Qed.
Print Assumptions c04_wfits_is_fits.

(* the natural-number cursor of the model is the W-bit cursor: serialization never moves it past the capacity, so nothing wraps as long
   as the capacity in bits is representable *)
Theorem c04_ser_cursor_fits : forall c, plan_ok c -> cap_sound c -> forall t o capB n,
  wf_ty t = true -> align t = 8 -> bmax t <= 8 * capB -> fst (walk_ser_safe c t o capB) = Ok n -> n <= capB.
Proof. intros c Hpl Hc t o capB n. exact (ser_size_le c t o capB n Hpl Hc). Qed.
Print Assumptions c04_ser_cursor_fits.

(* why the width is pinned: with a 16-bit cursor type `capacity_bytes * 8` wraps for a buffer of 8 KiB *)
Theorem c04_width16_wraps : exists capB : N, ((8 * capB) mod 2 ^ 16 < 8 * capB /\ (8 * capB) mod 2 ^ 16 = 0)%N.
Proof. exists 8192%N. split; reflexivity. Qed.
Print Assumptions c04_width16_wraps.

(* ================================================  translated pieces, primitive level  ================================================ *)
Theorem c04_bytes_hi_translated : forall n, Gen_C01.filter_bits2bytes_ceil (Z.of_nat n) = Some (Z.of_nat (bytes_hi n)).
Proof. exact bytes_hi_translated. Qed.
Print Assumptions c04_bytes_hi_translated.

(* ---- non-vacuity ---- *)
Definition ex_t : ty :=
  TComp false [TPrim PBool; TVar (TPrim (PU 7 true)) 3; TComp true [TPrim (PU 16 true); TVar (TPrim PBool) 9] None] (Some 128).
Example c04_ex_des :
  obs_res ex_t (fst (walk_des_safe (std_cfg true) ex_t dflt (bits_of_bytes [3; 170; 1; 2; 1; 0; 0]%N)))
  = obs_res ex_t (fst (walk_des_safe (std_cfg true) ex_t
        (CStruct [CPrim (VBool true); CVar 77 [CPrim (VInt 9)]; CUnion 5 (CVar 3 [])]) (bits_of_bytes [3; 170; 1; 2; 1; 0; 0]%N)))
  /\ exists v k, obs_res ex_t (fst (walk_des_safe (std_cfg true) ex_t dflt (bits_of_bytes [3; 170; 1; 2; 1; 0; 0]%N))) = Ok (v, k).
Proof. split; [apply des_prior_indep; reflexivity | vm_compute; eexists; eexists; reflexivity]. Qed.
Example c04_ex_ser : wf_ty ex_t = true /\ align ex_t = 8 /\ bmax ex_t <= 8 * 8 /\
  exists n, fst (walk_ser_safe (std_cfg true) ex_t (CStruct [CPrim (VBool true); CVar 2 [CPrim (VInt 1); CPrim (VInt 2); CPrim (VInt 3)];
                                                              CUnion 1 (CVar 3 [CPrim (VBool true)])]) 8) = Ok n.
Proof. vm_compute. repeat split; repeat constructor. eexists; reflexivity. Qed.
