(* C01: generated serializers emit exactly the DSDL wire representation.
   Statements only; proofs in Spec/WireThm*.v (specification level) and Codec/Refine.v (code-shaped walker). *)
From Verif Require Import Wire WireThm WireThmRt WireThmValid Walker.
Local Open Scope nat_scope.

(* every encoding of every well-formed type lies within the exported bounds; composites are whole bytes *)
Theorem c01_enc_len_bounds : forall t v b, wf_ty t = true -> enc_body t v = Ok b ->
  bmin t <= length b <= bmax t /\ (align t = 8 -> length b mod 8 = 0).
Proof. exact enc_len_bounds. Qed.
Print Assumptions c01_enc_len_bounds.

Theorem c01_max_le_extent : forall t, wf_ty t = true -> bmax t <= extent t.
Proof. exact max_le_extent. Qed.
Print Assumptions c01_max_le_extent.

(* a buffer that passes the up-front capacity check always suffices *)
Theorem c01_ser_fits_buffer : forall t v cap b, wf_ty t = true -> ser_spec t v cap = Ok b ->
  length b <= 8 * cap /\ bmin t <= length b <= bmax t.
Proof. exact ser_spec_ok_size. Qed.
Print Assumptions c01_ser_fits_buffer.

(* values without a representation (array longer than its capacity, invalid union tag, wrong shape) are rejected, all others encoded *)
Theorem c01_rejected_iff_invalid : forall t v, (exists b, enc_body t v = Ok b) <-> valid_val t v = true.
Proof. exact enc_ok_iff_valid. Qed.
Print Assumptions c01_rejected_iff_invalid.

(* the emitted bits carry the value exactly up to the cast mode: decoding them (whatever follows) returns cast(v) and consumes
   exactly the encoding *)
Theorem c01_encoding_decodes_to_cast : forall t v b r, wf_ty t = true -> enc_body t v = Ok b ->
  dec_body t (b ++ r) = Ok (cast_val t v, length b).
Proof. exact dec_enc. Qed.
Print Assumptions c01_encoding_decodes_to_cast.

(* non-vacuity: a well-formed type with a union, a delimited nested type, a saturated non-standard integer and a float16 *)
Definition ex_inner : ty := TComp false [TPrim (PU 3 true); TPrim (PS 13 true); TPrim (PF 16 true)] (Some 64).
Definition ex_union : ty := TComp true [TPrim (PU 8 true); ex_inner; TVar (TPrim PBool) 9] None.
Example c01_example_wf : wf_ty ex_union = true.
Proof. vm_compute. reflexivity. Qed.
(* the code-shaped walker (Codec/Walker.v; serialization direction tied by correspondence, see Codec/Refine.v) on the same value,
   into a 0xFF-filled buffer: same bytes *)
Example c01_example_walker :
  walk_ser_obs ex_union (VUnion 1 (VStruct [VInt 9; VInt (-5000); VFlt 1065357312%N])) (repeat true 104) 13 =
  ser_spec ex_union (VUnion 1 (VStruct [VInt 9; VInt (-5000); VFlt 1065357312%N])) 13.
Proof. vm_compute. reflexivity. Qed.
Example c01_example_enc :
  enc_body ex_union (VUnion 1 (VStruct [VInt 9; VInt (-5000); VFlt 1065357312%N])) =
  Ok (bits_of_N 8 1 ++ bits_of_N 32 4 ++ bits_of_N 3 7 ++ bits_of_N 13 4096 ++ bits_of_N 16 15361).
Proof. vm_compute. reflexivity. Qed.
