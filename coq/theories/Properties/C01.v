(* C01: generated serializers emit exactly the DSDL wire representation.
   Statements only; proofs in Spec/WireThm*.v (specification level) and Codec/Refine.v, Codec/RefineSer*.v (code-shaped walker). *)
From Verif Require Import Wire WireThm WireThmRt WireThmValid Walker Refine RefineSerBits PrimsOn RefineSerBase RefineSer Gen_C01 GenC01Thm InstancesC InstancesCpp InstancesPy InstancesTyped BulkArrays BulkArraysTie TargetPre TargetPreThm PyWalker PyWalkerThm PyWalkerPre InstancesPySer InstancesOpt WalkerX RefineSerX InstancesX WireThmCast CppWalker CppWalkerThm CppWalkerInst PrimsCur F16SatCode PyAccept InstancesCW WidthArith.
Local Open Scope nat_scope.

(* every encoding of every well-formed type lies within the exported bounds; composites are whole bytes *)
Theorem c01_enc_len_bounds : forall t v b, wf_ty t = true -> enc_body t v = Ok b ->
  bmin t <= length b <= bmax t /\ (align t = 8 -> length b mod 8 = 0).
Proof. exact enc_len_bounds. Qed.
Print Assumptions c01_enc_len_bounds.

Theorem c01_max_le_extent : forall t, wf_ty t = true -> bmax t <= extent t.
Proof. exact max_le_extent. Qed.
Print Assumptions c01_max_le_extent.

(* a buffer that passes the up-front capacity check always suffices *)
Theorem c01_ser_fits_buffer : forall t v cap b, wf_ty t = true -> ser_spec t v cap = Ok b ->
  length b <= 8 * cap /\ bmin t <= length b <= bmax t.
Proof. exact ser_spec_ok_size. Qed.
Print Assumptions c01_ser_fits_buffer.

(* values without a representation (array longer than its capacity, invalid union tag, wrong shape) are rejected, all others encoded *)
Theorem c01_rejected_iff_invalid : forall t v, (exists b, enc_body t v = Ok b) <-> valid_val t v = true.
Proof. exact enc_ok_iff_valid. Qed.
Print Assumptions c01_rejected_iff_invalid.

(* the emitted bits carry the value exactly up to the cast mode: decoding them (whatever follows) returns cast(v) and consumes
   exactly the encoding *)
Theorem c01_encoding_decodes_to_cast : forall t v b r, wf_ty t = true -> enc_body t v = Ok b ->
  dec_body t (b ++ r) = Ok (cast_val t v, length b).
Proof. exact dec_enc. Qed.
Print Assumptions c01_encoding_decodes_to_cast.

(* SERIALIZATION REFINEMENT (Codec/RefineSer.v): for every primitive record satisfying the laws, every well-formed composite
   type (primitives of every kind/width at arbitrary bit offsets incl. the aligned whole-byte fast path, arrays of anything,
   alignment padding, nested sealed and delimited composites with the header written after the body, unions), every value that
   fits the storage types of the generated fields, EVERY initial buffer content and every capacity, the code-shaped walker
   returns exactly what the contract prescribes: too-small iff 8*cap < max, the specification's error, or the specification's
   bits. *)
Theorem c01_walker_ser_refines : forall P u fs ext v buf cap, prims_ok P ->
  wf_ty (TComp u fs ext) = true -> length buf = 8 * cap -> storage_ok (TComp u fs ext) v = true ->
  walk_ser P (TComp u fs ext) v buf cap = ser_spec (TComp u fs ext) v cap.
Proof. exact walk_ser_refines_composite. Qed.
Print Assumptions c01_walker_ser_refines.

Theorem c01_walker_ser_obs_refines : forall u fs ext v buf cap,
  wf_ty (TComp u fs ext) = true -> length buf = 8 * cap -> storage_ok (TComp u fs ext) v = true ->
  walk_ser_obs (TComp u fs ext) v buf cap = ser_obs_spec (TComp u fs ext) v cap.
Proof. exact walk_ser_obs_refines. Qed.
Print Assumptions c01_walker_ser_obs_refines.

(* the whole effect on the buffer, for EVERY initial content: the emitted bits followed by the untouched rest of the buffer *)
Theorem c01_walker_ser_buffer_effect : forall P u fs ext v buf cap bits, prims_ok P ->
  wf_ty (TComp u fs ext) = true -> length buf = 8 * cap -> storage_ok (TComp u fs ext) v = true ->
  bmax (TComp u fs ext) <= 8 * cap -> enc_body (TComp u fs ext) v = Ok bits ->
  ws_body P (TComp u fs ext) v buf 0 = Ok (bits ++ skipn (length bits) buf, length bits).
Proof. exact ws_body_effect_composite. Qed.
Print Assumptions c01_walker_ser_buffer_effect.

(* the invariant behind it, at every node of the type and every cursor the up-front capacity check allows: the walker fails
   with the specification's error or advances the cursor by |bits| and leaves `old prefix ++ bits` in the buffer *)
Theorem c01_walker_ser_invariant : forall P L t, prims_ok P -> L mod 8 = 0 -> wf_ty t = true ->
  forall v buf off, storage_ok t v = true -> length buf = L -> off mod align t = 0 -> off + bmax t <= L ->
  ser_sim buf off (enc_body t v) (ws_body P t v buf off).
Proof. intros P L t HP HL. exact (ser_all P L HL (prims_ok_set_law P HP L) t). Qed.
Print Assumptions c01_walker_ser_invariant.

(* the storage proviso is necessary, and the statement left open by the first round (proviso True, any top-level type) is false *)
Theorem c01_walker_ser_unrestricted_refuted : ~ walk_ser_refines_statement.
Proof. exact walk_ser_refines_statement_refuted. Qed.
Print Assumptions c01_walker_ser_unrestricted_refuted.

(* THE SAME ABOUT THE SHIPPED PRIMITIVES (Codec/Instances*.v; composition with the C14 theorems).
   - from the restricted store law (stores of at most 64 bits into the buffer of the up-front capacity check): *)
Theorem c01_walker_ser_refines_from_store_law : forall P u fs ext v buf cap, set_law P (8 * cap) ->
  wf_ty (TComp u fs ext) = true -> length buf = 8 * cap -> storage_ok (TComp u fs ext) v = true ->
  walk_ser P (TComp u fs ext) v buf cap = ser_spec (TComp u fs ext) v cap.
Proof. exact walk_ser_refines_on. Qed.
Print Assumptions c01_walker_ser_refines_from_store_law.

(* - C: nunavutSetUxx of serialization.h (both target_endianness renderings); side condition: the buffer is addressable in bits by a
     size_t *)
Theorem c01_c_walk_ser_refines : forall (little : bool) u fs ext v buf cap,
  wf_ty (TComp u fs ext) = true -> length buf = 8 * cap -> (N.of_nat (8 * cap) < CPrims.two64)%N ->
  storage_ok (TComp u fs ext) v = true ->
  walk_ser (c_prims little) (TComp u fs ext) v buf cap = ser_spec (TComp u fs ext) v cap.
Proof. exact c_walk_ser_refines. Qed.
Print Assumptions c01_c_walk_ser_refines.

Theorem c01_c_buffer_effect : forall (little : bool) u fs ext v buf cap bits,
  wf_ty (TComp u fs ext) = true -> length buf = 8 * cap -> (N.of_nat (8 * cap) < CPrims.two64)%N ->
  storage_ok (TComp u fs ext) v = true -> bmax (TComp u fs ext) <= 8 * cap -> enc_body (TComp u fs ext) v = Ok bits ->
  ws_body (c_prims little) (TComp u fs ext) v buf 0 = Ok (bits ++ skipn (length bits) buf, length bits).
Proof. exact c_ws_body_effect. Qed.
Print Assumptions c01_c_buffer_effect.

(* - C++: bitspan::setUxx, and (zv = true) bitspan::setZeros for all-zero bits such as padding and void fields *)
Theorem c01_cpp_walk_ser_refines : forall (zv : bool) u fs ext v buf cap,
  wf_ty (TComp u fs ext) = true -> length buf = 8 * cap -> (N.of_nat (8 * cap) < CPrims.two64)%N ->
  storage_ok (TComp u fs ext) v = true ->
  walk_ser (cpp_prims zv) (TComp u fs ext) v buf cap = ser_spec (TComp u fs ext) v cap.
Proof. exact cpp_walk_ser_refines. Qed.
Print Assumptions c01_cpp_walk_ser_refines.

(* bitspan::padAndMoveToAlignment(8) is the walker's padding step (same bits, same new offset) *)
Theorem c01_cpp_pad_is_walker_pad : forall buf off, c_dom buf -> off + pad8 off <= length buf ->
  exists r, CppPrims.padAndMoveToAlignment (cpp_span buf (length (InstancesBase.bytes_of_bits buf)) off) 8 =
              Some (inl (r, N.of_nat (off + pad8 off))) /\
            bits_of_bytes r = firstn off buf ++ repeat false (pad8 off) ++ skipn (off + pad8 off) buf.
Proof. exact cpp_pad_is_w_pad. Qed.
Print Assumptions c01_cpp_pad_is_walker_pad.

(* - Python: only the leaf law.  Serializer.add_(un)aligned_unsigned is the store law UNDER the Serializer's invariant (all zero
     from the cursor on) and re-establishes it; the walker's C-shaped whole-byte store and header back-patch do not keep that
     invariant, so the Python serialization templates are tied to the specification by correspondence only (see InstancesPy.v) *)
Theorem c01_py_store_leaf : forall buf off v, length buf mod 8 = 0 -> 1 <= length v -> off + length v <= length buf ->
  zero_from buf off ->
  exists buf', set_bits py_prims buf off v = Some buf' /\
               buf' = firstn off buf ++ v ++ skipn (off + length v) buf /\ zero_from buf' (off + length v).
Proof. exact py_store_inv. Qed.
Print Assumptions c01_py_store_leaf.

(* append-only composition of that leaf law: handing the bit strings c1, c2, ... in order to add_(un)aligned_unsigned of a
   zero-filled Serializer leaves their concatenation in the buffer (the shape of the Python templates without nested delimited
   objects, with c_i the specification's field encodings) *)
Theorem c01_py_append_only : forall chunks buf off, length buf mod 8 = 0 -> Forall (fun c => 1 <= length c) chunks ->
  off + length (concat chunks) <= length buf -> zero_from buf off ->
  py_emit chunks buf off =
    Some (firstn off buf ++ concat chunks ++ skipn (off + length (concat chunks)) buf, off + length (concat chunks)).
Proof. exact py_emit_appends. Qed.
Print Assumptions c01_py_append_only.

Example c01_instances_run :
  set_bits (c_prims false) (repeat true 24) 3 (bits_of_N 13 4096) =
    Some (firstn 3 (repeat true 24) ++ bits_of_N 13 4096 ++ skipn 16 (repeat true 24)) /\
  set_bits (cpp_prims true) (repeat true 24) 6 (repeat false 5) =
    Some (firstn 6 (repeat true 24) ++ repeat false 5 ++ skipn 11 (repeat true 24)) /\
  set_bits py_prims (repeat false 24) 3 (bits_of_N 13 4097) = Some (repeat false 3 ++ bits_of_N 13 4097 ++ repeat false 8).
Proof. vm_compute. repeat split; reflexivity. Qed.

(* ROUND 3: the links that were tied by correspondence only.
   (a) TYPED MEMBERS (Codec/InstancesTyped.v; C14 set_ixx_is_set_uxx, set_bit_is_set_uxx, c_float_members_are_integer_members,
       cpp_float_members_are_c): what the generated code calls for signed / boolean / float fields is the walker's raw store of
       the walker's bit vector, so c01_c_walk_ser_refines / c01_cpp_walk_ser_refines cover those fields as executed. *)
Theorem c01_c_SetIxx_is_walker_store : forall little buf off (z : Z) w, c_dom buf -> w <= 64 -> off + w <= length buf ->
  c_view (CPrims.set_ixx little (InstancesBase.bytes_of_bits buf) (CPrims.blen (InstancesBase.bytes_of_bits buf)) (N.of_nat off) z (N.of_nat w)) =
    set_bits (c_prims little) buf off (bits_of_N w (Z.to_N (z mod pow2 w))).
Proof. exact c_SetIxx_is_walker_store. Qed.
Print Assumptions c01_c_SetIxx_is_walker_store.

(* NOTE (audit C01 #10): no C template calls nunavutSetBit - `_serialize_boolean` inlines `buffer[..] |= / &= ~` (serialization.j2
   183-198); the statement is kept as a fact about the support library's API (used by hand-written code and by the C++ setBit
   member), not as a link of the generated-code chain. *)
Theorem c01_c_SetBit_is_walker_store : forall little buf off (b : bool), c_dom buf -> off + 1 <= length buf ->
  c_view (CPrims.set_bit (InstancesBase.bytes_of_bits buf) (CPrims.blen (InstancesBase.bytes_of_bits buf)) (N.of_nat off) b) =
    set_bits (c_prims little) buf off [b].
Proof. exact c_SetBit_is_walker_store. Qed.
Print Assumptions c01_c_SetBit_is_walker_store.

Theorem c01_c_SetF_is_walker_store : forall little buf off sat x, c_dom buf ->
  let b := InstancesBase.bytes_of_bits buf in
  (off + 16 <= length buf ->
     c_view (CPrims.set_f16 little b (CPrims.blen b) (N.of_nat off) (float_arg 16 sat x)) = set_bits (c_prims little) buf off (bits_of_N 16 (cast_f 16 sat x))) /\
  (off + 32 <= length buf ->
     c_view (CPrims.set_f32 little b (CPrims.blen b) (N.of_nat off) x) = set_bits (c_prims little) buf off (bits_of_N 32 (cast_f 32 sat x))) /\
  (off + 64 <= length buf ->
     c_view (CPrims.set_f64 little b (CPrims.blen b) (N.of_nat off) x) = set_bits (c_prims little) buf off (bits_of_N 64 (cast_f 64 sat x))).
Proof. exact c_SetF_is_walker_store. Qed.
Print Assumptions c01_c_SetF_is_walker_store.

(* (b) BULK ARRAY PATHS (Codec/BulkArrays.v; C14 copy_bits_exact_b, le_image_bit).  TplTie.c_array_paths shows the templates emit
       ONE nunavutCopyBits exactly for bool / zero-cost primitive elements; here that call is the walker's element loop. *)
Theorem c01_array_loop_is_one_store : forall P L, set_law P L -> forall p, prim_wf p = true -> std_prim p = true -> forall l buf off B,
  forallb (prim_storage_ok p) l = true -> enc_list (enc_field (TPrim p)) l = Ok B ->
  length buf = L -> off + length l * prim_bits p <= L ->
  ws_list (ws_field P (ws_body P) (TPrim p)) l buf off = Ok (firstn off buf ++ B ++ skipn (off + length B) buf, off + length B).
Proof. exact loop_is_one_store. Qed.
Print Assumptions c01_array_loop_is_one_store.

Theorem c01_c_bulk_ser_equals_element_loop : forall little p l (xs : list N) buf off cap,
  prim_wf p = true -> std_prim p = true -> forallb (prim_storage_ok p) l = true ->
  enc_list (enc_field (TPrim p)) l = Ok (concat (map (bits_of_N (prim_bits p)) xs)) -> length xs = length l ->
  length buf = 8 * cap -> (N.of_nat (8 * cap) < CPrims.two64)%N -> off + length l * prim_bits p <= 8 * cap ->
  let nbits := length l * prim_bits p in
  match CPrims.copy_bits (InstancesBase.bytes_of_bits buf) (N.of_nat off) (N.of_nat nbits) (PrimsExt.le_image (prim_bits p / 8) xs) 0 with
  | Some r => Ok (bits_of_bytes r, off + nbits)
  | None => Err ETooSmall
  end = ws_list (ws_field (c_prims little) (ws_body (c_prims little)) (TPrim p)) l buf off.
Proof. exact c_bulk_ser_equals_element_loop. Qed.
Print Assumptions c01_c_bulk_ser_equals_element_loop.

Theorem c01_c_bulk_bool_ser : forall (bs : list bool) buf off, c_dom buf -> off + length bs <= length buf ->
  c_copy_view (CPrims.copy_bits (InstancesBase.bytes_of_bits buf) (N.of_nat off) (N.of_nat (length bs)) (InstancesBase.bytes_of_bits bs) 0) =
    Some (firstn off buf ++ bs ++ skipn (off + length bs) buf).
Proof. exact c_bulk_bool_ser. Qed.
Print Assumptions c01_c_bulk_bool_ser.

Theorem c01_c_bulk_bool_vs_loop : forall little (bs : list bool) buf off cap,
  length buf = 8 * cap -> (N.of_nat (8 * cap) < CPrims.two64)%N -> off + length bs <= 8 * cap ->
  let bulk := firstn off buf ++ bs ++ skipn (off + length bs) buf in
  exists buf', ws_list (ws_field (c_prims little) (ws_body (c_prims little)) (TPrim PBool)) (map VBool bs) buf off
                 = Ok (buf', off + length bs) /\
               firstn (off + length bs) buf' = firstn (off + length bs) bulk /\
               skipn (r8 (off + length bs)) buf' = skipn (r8 (off + length bs)) bulk.
Proof. exact c_bulk_bool_vs_loop. Qed.
Print Assumptions c01_c_bulk_bool_vs_loop.

(* the connector between TplTie.c_array_paths (bulk call emitted iff bool or `is zero_cost_primitive`) and the bulk theorems: the
   TRANSLATED zero-cost predicate holds only for standard-width integer / float elements on a little-endian target *)
Theorem c01_zero_cost_is_std_prim : forall e p,
  is_zero_cost_primitive e (desc_of_prim p) = Some true -> std_prim p = true /\ e = endian_little.
Proof. exact zero_cost_is_std_prim. Qed.
Print Assumptions c01_zero_cost_is_std_prim.

(* (c) PYTHON SERIALIZATION (Codec/PyWalker.v: a walker shaped after py/templates/serialization.j2 - append-only Serializer,
       skips instead of zero writes, nested delimited objects in a fork 32 bits on and the header written by the parent afterwards;
       PyWalkerThm.v, PyWalkerPre.v, InstancesPySer.v).  The leaf - what is handed to the Serializer for a primitive field - is the
       EXPLICIT Python model `TargetPre.py_enc_prim` shared with C03 (max(min()) saturation, two's complement and masking by the
       support functions, struct.pack with round-half-EVEN float16), NOT the specification's `enc_prim`.  Over the shipped
       Serializer members the walker emits, for every well-formed composite type and every value, the specification's encoding of
       the PRE-ADJUSTED value `py_pre t v` (= C03 `target_pre TgPy`; differs from v only on exact float16 ties, finding F-F16-TIE). *)
Theorem c01_py_walk_ser_refines : forall u fs ext v cap,
  wf_ty (TComp u fs ext) = true -> bmax (TComp u fs ext) <= 8 * cap ->
  py_walk_ser py_pyprims py_enc_prim (TComp u fs ext) v cap = ser_spec (TComp u fs ext) (py_pre (TComp u fs ext) v) cap.
Proof. exact py_walk_ser_refines. Qed.
Print Assumptions c01_py_walk_ser_refines.

Theorem c01_py_walk_ser_refines_tie_free : forall u fs ext v cap,
  wf_ty (TComp u fs ext) = true -> bmax (TComp u fs ext) <= 8 * cap -> no_f16_tie (TComp u fs ext) v = true ->
  py_walk_ser py_pyprims py_enc_prim (TComp u fs ext) v cap = ser_spec (TComp u fs ext) v cap.
Proof. exact py_walk_ser_refines_tie_free. Qed.
Print Assumptions c01_py_walk_ser_refines_tie_free.

Theorem c01_py_walk_ser_refines_from_laws : forall Q u fs ext v cap, add_law Q (8 * cap) -> hdr_law Q (8 * cap) ->
  bulk_law Q (8 * cap) -> wf_ty (TComp u fs ext) = true -> bmax (TComp u fs ext) <= 8 * cap ->
  py_walk_ser Q py_enc_prim (TComp u fs ext) v cap = ser_spec (TComp u fs ext) (py_pre (TComp u fs ext) v) cap.
Proof. exact py_walk_ser_pre_refines_on. Qed.
Print Assumptions c01_py_walk_ser_refines_from_laws.

(* the explicit Python leaf is the specification's leaf on the pre-adjusted value (b-c03's Spec/TargetPreThm.v) *)
Theorem c01_py_leaf_spec : forall p v, py_enc_prim p v = enc_prim p (py_leaf p v).
Proof. exact py_enc_prim_spec. Qed.
Print Assumptions c01_py_leaf_spec.

(* add_aligned_u32 of the delimiter header is a plain 4-byte store (proved without the Serializer invariant) *)
Theorem c01_py_header_store_plain : forall L, L mod 8 = 0 -> hdr_law py_pyprims L.
Proof. exact py_hdr_plain. Qed.
Print Assumptions c01_py_header_store_plain.

(* the float16 field holds the exact tie 0x3F801000: the Python walker emits 0x3C00 (15360, round-half-even, what the real code and
   C03's target_ser TgPy give); the ties-away specification on the unadjusted value would give 0x3C01 *)
Definition ex_union_r3 : ty :=
  TComp true [TPrim (PU 8 true); TComp false [TPrim (PU 3 true); TPrim (PS 13 true); TPrim (PF 16 true)] (Some 64);
              TVar (TPrim PBool) 9] None.
Example c01_py_walker_runs :
  py_walk_ser py_pyprims py_enc_prim ex_union_r3 (VUnion 1 (VStruct [VInt 9; VInt (-5000); VFlt 1065357312%N])) 13 =
  Ok (bits_of_N 8 1 ++ bits_of_N 32 4 ++ bits_of_N 3 7 ++ bits_of_N 13 4096 ++ bits_of_N 16 15360).
Proof. vm_compute. reflexivity. Qed.

(* ROUND 4 (audit follow-up).
   (B) DE-TOTALISED stores: under the walker's store law the nunavutSetUxx call returns `Some (inl _)` - neither `None` (undefined
       behaviour in the CPrims model) nor `TooSmall`; and the adapter `c_set_bits` reports success only for `Some (inl _)`. *)
Theorem c01_c_store_defined : forall little buf off v, c_dom buf -> length v <= 64 -> off + length v <= length buf ->
  exists r, set_uxx_cur little (InstancesBase.bytes_of_bits buf) (CPrims.blen (InstancesBase.bytes_of_bits buf)) (N.of_nat off)
              (N_of_bits v) (N.of_nat (length v)) = Some (inl r) /\
            bits_of_bytes r = firstn off buf ++ v ++ skipn (off + length v) buf.
Proof. exact c_store_defined. Qed.
Print Assumptions c01_c_store_defined.

Theorem c01_c_set_bits_some_iff : forall little buf off v r,
  set_bits (c_prims little) buf off v = Some r <->
  exists r', set_uxx_cur little (InstancesBase.bytes_of_bits buf) (CPrims.blen (InstancesBase.bytes_of_bits buf)) (N.of_nat off)
               (N_of_bits v) (N.of_nat (length v)) = Some (inl r') /\ r = bits_of_bytes r'.
Proof. exact c_set_bits_some_iff. Qed.
Print Assumptions c01_c_set_bits_some_iff.

(* (C)+(D) THE FAST PATHS OF THE C TEMPLATES AS PART OF THE ROUTINE (Codec/WalkerX.v, RefineSerX.v, InstancesX.v): `walk_ser_x` takes
       the little-endian memmove path of `_serialize_integer` (byte-aligned, w > 8: a store of the first 8*ceil(w/8) STORAGE bits,
       cursor += w - the surplus bits up to the next byte boundary are overwritten by what follows, the invariant `wrote` already
       allowed that slack for the whole-byte store) and, for every array whose element type satisfies `WalkerSafe.bulk` (bool, or the
       TRANSLATED `is_zero_cost_primitive`), ONE nunavutCopyBits call over the whole array object instead of the element loop.  It
       emits the specification's bytes for every well-formed composite type, every value in the storage ranges and every initial
       buffer; hence it agrees with the plain walker. *)
Theorem c01_walker_x_refines_from_laws : forall P copy c u fs ext v buf cap, set_law P (8 * cap) -> copy_law copy (8 * cap) ->
  wf_ty (TComp u fs ext) = true -> length buf = 8 * cap -> storage_ok (TComp u fs ext) v = true ->
  walk_ser_x P copy c (TComp u fs ext) v buf cap = ser_spec (TComp u fs ext) v cap.
Proof. exact walk_ser_x_refines_on. Qed.
Print Assumptions c01_walker_x_refines_from_laws.

Theorem c01_c_walk_ser_x_refines : forall (little : bool) u fs ext v buf cap,
  wf_ty (TComp u fs ext) = true -> length buf = 8 * cap -> (N.of_nat (8 * cap) < CPrims.two64)%N ->
  storage_ok (TComp u fs ext) v = true ->
  walk_ser_x (c_prims little) c_copy (WalkerSafe.std_cfg little) (TComp u fs ext) v buf cap = ser_spec (TComp u fs ext) v cap.
Proof. exact c_walk_ser_x_refines. Qed.
Print Assumptions c01_c_walk_ser_x_refines.

Theorem c01_c_walk_ser_x_equals_walk_ser : forall (little : bool) u fs ext v buf cap,
  wf_ty (TComp u fs ext) = true -> length buf = 8 * cap -> (N.of_nat (8 * cap) < CPrims.two64)%N ->
  storage_ok (TComp u fs ext) v = true ->
  walk_ser_x (c_prims little) c_copy (WalkerSafe.std_cfg little) (TComp u fs ext) v buf cap =
  walk_ser (c_prims little) (TComp u fs ext) v buf cap.
Proof. exact c_walk_ser_x_equals_walk_ser. Qed.
Print Assumptions c01_c_walk_ser_x_equals_walk_ser.

(* the audit's witness: truncated uint13 holding 0xFFFF, byte-aligned, little-endian: the memmove path stores 16 ones (bits 13-15
   are surplus storage bits); in a routine they are overwritten and the result is the specification's; arrays of bool and of uint16 go
   through one CopyBits call each *)
Example c01_c_walk_ser_x_example :
  let t := TComp false [TPrim (PU 13 false); TPrim (PU 3 true); TFix (TPrim PBool) 5; TFix (TPrim (PU 16 true)) 2] None in
  let v := VStruct [VInt 65535; VInt 2; VArr [VBool true; VBool false; VBool true; VBool true; VBool false]; VArr [VInt 258; VInt 772]] in
  wx_prim (c_prims true) (WalkerSafe.std_cfg true) (PU 13 false) (VInt 65535) (repeat false 64) 0 = Ok (repeat true 16 ++ repeat false 48, 13) /\
  walk_ser_x (c_prims true) c_copy (WalkerSafe.std_cfg true) t v (repeat true 64) 8 = ser_spec t v 8 /\
  WalkerSafe.bulk (WalkerSafe.std_cfg true) (TPrim (PU 16 true)) = Some 16 /\ WalkerSafe.bulk (WalkerSafe.std_cfg true) (TPrim PBool) = Some 1.
Proof. exact c_walk_ser_x_example. Qed.

(* (E) A C++-SHAPED serialization walker (Codec/CppWalker.v, mirroring lang/cpp/templates/serialization.j2: NO whole-byte fast path -
       integers always through setUxx/setIxx + add_offset, bool through setBit, void and padding through setZeros /
       padAndMoveToAlignment, nested composites through `subspan(..)` with the nested routine's own capacity check and a cursor
       counted from 0, the delimiter header written at the saved cursor afterwards) instead of the C walker run over C++ primitives
       (audit C01 #4).  The invariant is EXACT (no slack bits), for every initial buffer content. *)
Theorem c01_cpp_shaped_walk_ser_refines_from_laws : forall Q u fs ext v buf cap,
  cset_law Q (8 * cap) -> czero_law Q (8 * cap) -> wf_ty (TComp u fs ext) = true -> length buf = 8 * cap ->
  storage_ok (TComp u fs ext) v = true ->
  cpp_walk_ser Q (TComp u fs ext) v buf cap = ser_spec (TComp u fs ext) v cap.
Proof. exact cpp_walk_ser_refines_on. Qed.
Print Assumptions c01_cpp_shaped_walk_ser_refines_from_laws.

Theorem c01_cpp_shaped_walk_ser_refines : forall u fs ext v buf cap,
  wf_ty (TComp u fs ext) = true -> length buf = 8 * cap -> (N.of_nat (8 * cap) < CPrims.two64)%N ->
  storage_ok (TComp u fs ext) v = true ->
  cpp_walk_ser cppw_prims (TComp u fs ext) v buf cap = ser_spec (TComp u fs ext) v cap.
Proof. exact cppw_walk_ser_refines. Qed.
Print Assumptions c01_cpp_shaped_walk_ser_refines.

Theorem c01_cpp_shaped_buffer_effect : forall u fs ext v buf cap bits,
  wf_ty (TComp u fs ext) = true -> length buf = 8 * cap -> (N.of_nat (8 * cap) < CPrims.two64)%N ->
  storage_ok (TComp u fs ext) v = true -> bmax (TComp u fs ext) <= 8 * cap -> enc_body (TComp u fs ext) v = Ok bits ->
  cw_body cppw_prims (TComp u fs ext) v buf 0 (8 * cap) 0 = Ok (bits ++ skipn (length bits) buf, length bits).
Proof. exact cppw_cw_body_effect. Qed.
Print Assumptions c01_cpp_shaped_buffer_effect.

(* CURRENT SOURCE (/repo ba46e0a, 939fc9d).  The instance records are built on the CURRENT texts: `c_prims` stores through
   `PrimsCur.set_uxx_cur` (= CPrimsW.set_uxx_satM at the 64-bit size_t: nunavutSetUxx with the saturating capacity check),
   `cpp_prims` / `cppw_prims` through `PrimsCur.cpp_set_uxx_cur` (bitspan::setUxx with the same check), and the C++-shaped walker's
   sub-spans are `PrimsExt.subspan_clamped` / `subspan_bytes_clamped` (pointer clamped to one past the end; CppWalker.cd_subspan,
   bridge CppWalkerInst.cd_subspan_is_subspan).  On every call whose offset + length does not wrap - every call the walkers issue -
   the current and the previous texts coincide, so the C14 theorems about `set_uxx` / `cpp_set_uxx` (and the typed-member theorems
   above, which are stated on C14's `set_ixx`, `set_bit`, `set_f*` whose bodies call that store) apply to the current functions. *)
Theorem c01_set_uxx_cur_is_old : forall little buf size off value len, (size * 8 < CPrims.two64)%N -> (off + len < CPrims.two64)%N ->
  set_uxx_cur little buf size off value len = CPrims.set_uxx little buf size off value len.
Proof. exact set_uxx_cur_is_old. Qed.
Print Assumptions c01_set_uxx_cur_is_old.

Theorem c01_cpp_set_uxx_cur_is_old : forall s value len,
  (CppPrims.sp_size s * 8 < CPrims.two64)%N -> (CppPrims.sp_off s + len < CPrims.two64)%N ->
  cpp_set_uxx_cur s value len = CppPrims.cpp_set_uxx s value len.
Proof. exact cpp_set_uxx_cur_is_old. Qed.
Print Assumptions c01_cpp_set_uxx_cur_is_old.

(* float16 SATURATION CODE (audit C01 #7; Codec/F16SatCode.v): the template's `if (isfinite(v)) { if (v < -65504.0f) v = -65504.0f;
   if (v > 65504.0f) v = 65504.0f; }` modelled as IEEE-754 comparisons on binary32 patterns computes exactly `Wire.sat16`, the
   function `Walker.storage_bits` / `float_arg` use - for every pattern incl. signed zeros, subnormals, infinities and NaNs *)
Theorem c01_f16_sat_code_is_sat16 : forall x, sat_code x = sat16 x.
Proof. exact sat_code_is_sat16. Qed.
Print Assumptions c01_f16_sat_code_is_sat16.

Theorem c01_float_arg_is_sat_code : forall x, float_arg 16 true x = sat_code (x mod 2 ^ 32)%N.
Proof. exact float_arg_is_sat_code. Qed.
Print Assumptions c01_float_arg_is_sat_code.

(* AUDIT 2 (Python coverage).  The routine now takes the array paths the templates emit (serialization.j2 l.70-110): ONE
   add_(un)aligned_array_of_bits call for bool arrays, ONE add_(un)aligned_array_of_standard_bit_length_primitives call for
   primitive elements of standard bit length (the NumPy array's memory image), the element loop otherwise (`PyWalker.pw_array`);
   `c01_py_walk_ser_refines` above is about that routine.  The shipped bulk adders satisfy the law it needs: *)
Theorem c01_py_bulk_law : forall L, L mod 8 = 0 -> bulk_law py_pyprims L.
Proof. exact py_bulk_law. Qed.
Print Assumptions c01_py_bulk_law.

(* what the generated classes ACCEPT (`PyAccept.py_accepts`; the integer ranges are literally C18's model of the setters,
   `c01_py_in_range_is_c18`): on accepted values the saturation code of the serialization templates is dead - the cast mode does not
   influence the Python bytes - and an accepted, tie-free object is serialized successfully to the specification's bytes.
   `err rejected` of the harness is the complement of `py_accepts`.  CORRECTION (audit 3): `py_accepts` holds at ASSIGNMENT, it is not
   an invariant: array fields alias the caller's ndarray, an in-place write can put any value of the NumPy dtype into an element, so
   for arrays of non-standard width the saturating / truncating branch IS reachable (`c01_py_saturation_live_example`);
   `c01_py_saturation_dead` is about scalar fields and about arrays right after assignment.  `c01_py_walk_ser_refines` has no value
   proviso and covers the wider domain. *)
Theorem c01_py_saturation_dead : forall p v, py_in_range p v = true -> py_enc_prim p v = py_enc_prim (unsat p) v.
Proof. exact py_saturation_dead. Qed.
Print Assumptions c01_py_saturation_dead.

Theorem c01_py_accepted_serializes : forall Q u fs ext v cap, add_law Q (8 * cap) -> hdr_law Q (8 * cap) -> bulk_law Q (8 * cap) ->
  wf_ty (TComp u fs ext) = true -> bmax (TComp u fs ext) <= 8 * cap ->
  py_accepts (TComp u fs ext) v = true -> no_f16_tie (TComp u fs ext) v = true ->
  exists bits, py_walk_ser Q py_enc_prim (TComp u fs ext) v cap = Ok bits /\ enc_body (TComp u fs ext) v = Ok bits.
Proof. exact py_accepted_serializes. Qed.
Print Assumptions c01_py_accepted_serializes.

Example c01_py_saturation_live_example :
  py_elem_reachable (PU 7 true) (VInt 200) = true /\ py_in_range (PU 7 true) (VInt 200) = false /\
  py_enc_prim (PU 7 true) (VInt 200) = Ok (bits_of_N 7 127) /\ py_enc_prim (PU 7 false) (VInt 200) = Ok (bits_of_N 7 72) /\
  py_enc_prim (PS 5 true) (VInt (-100)) = Ok (bits_of_N 5 16) /\
  enc_prim (PU 7 true) (VInt 200) = Ok (bits_of_N 7 127) /\ enc_prim (PU 7 false) (VInt 200) = Ok (bits_of_N 7 72).
Proof. exact py_saturation_live_example. Qed.

Theorem c01_py_in_range_is_c18 : forall w s z, 1 <= w ->
  py_in_range (PU w s) (VInt z) = PyObj.int_in_range (PyObj.KU (Z.of_nat w)) z /\
  py_in_range (PS w s) (VInt z) = PyObj.int_in_range (PyObj.KS (Z.of_nat w)) z.
Proof. exact py_in_range_is_c18. Qed.
Print Assumptions c01_py_in_range_is_c18.

Example c01_py_bulk_paths_run :
  let t := TComp false [TFix (TPrim PBool) 5; TVar (TPrim (PU 16 true)) 3; TFix (TPrim (PS 13 true)) 2] None in
  let v := VStruct [VArr [VBool true; VBool false; VBool true; VBool true; VBool false]; VArr [VInt 258; VInt 772];
                    VArr [VInt (-1); VInt 7]] in
  py_walk_ser py_pyprims py_enc_prim t v 12 = enc_body t v /\
  py_array_kind (TPrim PBool) = PABits /\ py_array_kind (TPrim (PU 16 true)) = PAStd (PU 16 true) /\
  py_array_kind (TPrim (PS 13 true)) = PALoop.
Proof. vm_compute. repeat split; reflexivity. Qed.

(* AUDIT 2/3 (size_t width).  The C instance with the PRIMITIVE CALLS at every width M >= 2^16 of size_t (Codec/InstancesCW.v over
   b-c14's width-parametric support header Prims/CPrimsW.v, current nunavutSetUxx text); `c_prims` above is M = 2^64.  The walker's own
   arithmetic is in nat: what carries it to a width W is only the side condition (8*cap < 2^W: every serialization cursor is <= 8*cap)
   - see Codec/WidthArith.v and C02.v `c02_c_cursor_bounded`; this is NOT a routine whose arithmetic is performed modulo 2^W, and there
   is NO such statement for the C++ walkers (64-bit only; defect D1, C02.v `c02_cpp_hdr_check_32_refuted`). *)
Theorem c01_c_walk_ser_refines_W : forall M, (65536 <= M)%N -> forall (little : bool) u fs ext v buf cap,
  wf_ty (TComp u fs ext) = true -> length buf = 8 * cap -> (N.of_nat (8 * cap) < M)%N ->
  storage_ok (TComp u fs ext) v = true ->
  walk_ser (c_primsW M little) (TComp u fs ext) v buf cap = ser_spec (TComp u fs ext) v cap.
Proof. exact c_walk_ser_refines_W. Qed.
Print Assumptions c01_c_walk_ser_refines_W.

Theorem c01_c_walk_ser_refines_32 : forall little u fs ext v buf cap,
  wf_ty (TComp u fs ext) = true -> length buf = 8 * cap -> (N.of_nat (8 * cap) < 2 ^ 32)%N -> storage_ok (TComp u fs ext) v = true ->
  walk_ser (c_primsW (2 ^ 32) little) (TComp u fs ext) v buf cap = ser_spec (TComp u fs ext) v cap.
Proof. exact c_walk_ser_refines_32. Qed.
Print Assumptions c01_c_walk_ser_refines_32.

(* (F) closed forms of what round-tripping does to a primitive (so that c01_encoding_decodes_to_cast is not circular at the leaves):
       saturated = clamp, truncated unsigned = mod 2^w, truncated signed = the wrapped representative, floats = pattern / f16
       pack-unpack, wrong shape = unchanged (Spec/WireThmCast.v `cast_closed`) *)
Theorem c01_cast_prim_closed_form : forall p v, prim_wf p = true -> cast_prim p v = cast_closed p v.
Proof. exact cast_prim_closed_form. Qed.
Print Assumptions c01_cast_prim_closed_form.

(* TRANSLATOR TIE (Generated/Gen_C01.v is rewritten from /repo's Python source on every run; Codec/GenC01Thm.v): the helper
   functions the serialization templates call are what the walker assumes.  filter_bits2bytes_ceil is ceil(n/8) and agrees with
   the walker's size arithmetic; filter_to_standard_bit_length is Walker.std_width and its fixed points are Walker.is_std; the
   walker's storage image / saturation decision expressed through the translated functions; is_zero_cost_primitive. *)
Theorem c01_tie_bits2bytes_ceil : forall n : Z,
  (0 <= n -> exists c, filter_bits2bytes_ceil n = Some c /\ n <= 8 * c /\ 8 * (c - 1) < n)%Z /\
  (n < 0 -> filter_bits2bytes_ceil n = None)%Z.
Proof. exact bits2bytes_ceil_spec. Qed.
Print Assumptions c01_tie_bits2bytes_ceil.

Theorem c01_tie_bits2bytes_walker_size : forall n : nat, n mod 8 = 0 ->
  filter_bits2bytes_ceil (Z.of_nat n) = Some (Z.of_nat (n / 8)).
Proof. exact bits2bytes_ceil_nat_aligned. Qed.
Print Assumptions c01_tie_bits2bytes_walker_size.

Theorem c01_tie_std_width : forall w : nat, w <= 64 ->
  filter_to_standard_bit_length (Z.of_nat w) = Some (Z.of_nat (std_width w)).
Proof. exact to_standard_bit_length_is_std_width. Qed.
Print Assumptions c01_tie_std_width.

Theorem c01_tie_is_std : forall w : nat, is_std w = true <-> filter_to_standard_bit_length (Z.of_nat w) = Some (Z.of_nat w).
Proof. exact is_std_iff_fixed_point. Qed.
Print Assumptions c01_tie_is_std.

Theorem c01_tie_saturation_decision : forall (w : nat) (sat : bool) (z : Z), w <= 64 ->
  filter_to_standard_bit_length (Z.of_nat w) = Some (Z.of_nat (std_width w)) /\
  storage_bits (PU w sat) (VInt z) =
    Some (bits_of_N (std_width w)
            (Z.to_N ((if sat && negb (translated_is_std w) then clampZ 0 (pow2 w - 1) z else z) mod pow2 (std_width w)))).
Proof. exact walker_storage_decision_unsigned. Qed.
Print Assumptions c01_tie_saturation_decision.

Theorem c01_tie_zero_cost : forall e t,
  is_zero_cost_primitive e t = Some true <->
  e = endian_little /\
  ((pd_kind t = KInteger /\ pd_standard_bit_length t = true) \/
   (pd_kind t = KFloat /\ (pd_bit_length t = 32 \/ pd_bit_length t = 64)%Z)).
Proof. exact zero_cost_spec. Qed.
Print Assumptions c01_tie_zero_cost.

Theorem c01_tie_zero_cost_plain_copy : forall e w sat,
  is_zero_cost_primitive e (desc_of_prim (PU w sat)) = Some true ->
  e = endian_little /\ std_width w = w /\ sat && negb (is_std w) = false.
Proof. exact zero_cost_means_plain_copy. Qed.
Print Assumptions c01_tie_zero_cost_plain_copy.

(* non-vacuity of the hypotheses of c01_walker_ser_refines (ex_union is defined below in the examples) *)
Example c01_storage_ok_example :
  storage_ok (TComp true [TPrim (PU 8 true); TComp false [TPrim (PU 3 true); TPrim (PS 13 true); TPrim (PF 16 true)] (Some 64);
                          TVar (TPrim PBool) 9] None)
             (VUnion 1 (VStruct [VInt 9; VInt (-5000); VFlt 1065357312%N])) = true.
Proof. vm_compute. reflexivity. Qed.

(* non-vacuity: a well-formed type with a union, a delimited nested type, a saturated non-standard integer and a float16 *)
Definition ex_inner : ty := TComp false [TPrim (PU 3 true); TPrim (PS 13 true); TPrim (PF 16 true)] (Some 64).
Definition ex_union : ty := TComp true [TPrim (PU 8 true); ex_inner; TVar (TPrim PBool) 9] None.
Example c01_example_wf : wf_ty ex_union = true.
Proof. vm_compute. reflexivity. Qed.
(* the code-shaped walker (Codec/Walker.v; serialization direction tied by correspondence, see Codec/Refine.v) on the same value,
   into a 0xFF-filled buffer: same bytes *)
Example c01_example_walker :
  walk_ser_obs ex_union (VUnion 1 (VStruct [VInt 9; VInt (-5000); VFlt 1065357312%N])) (repeat true 104) 13 =
  ser_spec ex_union (VUnion 1 (VStruct [VInt 9; VInt (-5000); VFlt 1065357312%N])) 13.
Proof. vm_compute. reflexivity. Qed.
Example c01_example_enc :
  enc_body ex_union (VUnion 1 (VStruct [VInt 9; VInt (-5000); VFlt 1065357312%N])) =
  Ok (bits_of_N 8 1 ++ bits_of_N 32 4 ++ bits_of_N 3 7 ++ bits_of_N 13 4096 ++ bits_of_N 16 15361).
Proof. vm_compute. reflexivity. Qed.

(* ---- source tie of the template bodies (Codec/TplTie.v; Generated/Gen_CodecTpl.v is rescanned from the .j2 files on every run) ---- *)
From Verif Require TplTieBase TplTieData Gen_CodecTpl TplTie.

(* the macro structure of the C / C++ / Python codec templates (dispatch order, static decisions, classified emitted statements:
   primitive calls with width/offset expressions, cursor updates, bounds checks and error codes, padding) is the reviewed one *)
Theorem c01_c_templates_match_walker :
  Gen_CodecTpl.gen_c_ser_dispatch = TplTieData.walker_c_ser_dispatch /\ Gen_CodecTpl.gen_c_ser_macros = TplTieData.walker_c_ser_macros /\
  Gen_CodecTpl.gen_c_des_dispatch = TplTieData.walker_c_des_dispatch /\ Gen_CodecTpl.gen_c_des_macros = TplTieData.walker_c_des_macros.
Proof. exact TplTie.c_templates_match_walker. Qed.
Print Assumptions c01_c_templates_match_walker.

Theorem c01_cpp_templates_match_walker :
  Gen_CodecTpl.gen_cpp_ser_dispatch = TplTieData.walker_cpp_ser_dispatch /\ Gen_CodecTpl.gen_cpp_ser_macros = TplTieData.walker_cpp_ser_macros /\
  Gen_CodecTpl.gen_cpp_des_dispatch = TplTieData.walker_cpp_des_dispatch /\ Gen_CodecTpl.gen_cpp_des_macros = TplTieData.walker_cpp_des_macros.
Proof. exact TplTie.cpp_templates_match_walker. Qed.
Print Assumptions c01_cpp_templates_match_walker.

Theorem c01_py_templates_match_walker :
  Gen_CodecTpl.gen_py_ser_dispatch = TplTieData.walker_py_ser_dispatch /\ Gen_CodecTpl.gen_py_ser_macros = TplTieData.walker_py_ser_macros /\
  Gen_CodecTpl.gen_py_des_dispatch = TplTieData.walker_py_des_dispatch /\ Gen_CodecTpl.gen_py_des_macros = TplTieData.walker_py_des_macros.
Proof. exact TplTie.py_templates_match_walker. Qed.
Print Assumptions c01_py_templates_match_walker.

(* every type constructor is dispatched by the regenerated C table to the macro the corresponding walker arm models *)
Theorem c01_c_dispatch_routes_like_walker : forall t,
  TplTie.first_match (TplTie.type_test t) Gen_CodecTpl.gen_c_ser_dispatch = Some [TplTie.walker_arm true t] /\
  TplTie.first_match (TplTie.type_test t) Gen_CodecTpl.gen_c_des_dispatch = Some [TplTie.walker_arm false t].
Proof. exact TplTie.c_dispatch_routes_like_walker. Qed.
Print Assumptions c01_c_dispatch_routes_like_walker.

(* the regenerated `_serialize_integer` tree, instantiated under every combination of the static facts it tests, picks the
   whole-byte store iff aligned /\ width <= 8 and emits saturation code iff saturated /\ non-standard width - the walker's split *)
Theorem c01_c_int_ser_split_matches_walker : forall f,
  TplTie.abs_ser_path (TplTie.c_int_ser f) = Some (TplTie.walker_ser_path (TplTie.f_al f) (TplTie.f_le8 f)) /\
  TplTie.emits TplTieBase.KGuard TplTie.pat0 (TplTie.c_int_ser f) = (TplTie.f_sat f && negb (TplTie.f_std f))%bool /\
  TplTie.emits TplTieBase.KCursor TplTie.pat1 (TplTie.c_int_ser f) = true.
Proof. exact TplTie.c_int_ser_split_matches_walker. Qed.
Print Assumptions c01_c_int_ser_split_matches_walker.

(* the C tables on the default option set (what Walker.v models) - insensitive to option-only template fixes *)
Theorem c01_c_default_templates_match_walker :
  Gen_CodecTpl.gen_c_ser_macros_default = TplTieData.walker_c_ser_macros_default /\
  Gen_CodecTpl.gen_c_des_macros_default = TplTieData.walker_c_des_macros_default.
Proof. exact TplTie.c_default_templates_match_walker. Qed.
Print Assumptions c01_c_default_templates_match_walker.

(* with enable_override_variable_array_capacity every store that bypasses the checked primitives is preceded by `_guard` *)
Theorem c01_c_override_stores_guarded : TplTie.c_ser_guarded = true.
Proof. exact TplTie.c_override_stores_guarded. Qed.
Print Assumptions c01_c_override_stores_guarded.

(* ---- DERIVED tie of the C serialization templates (Codec/TplSem.v): the regenerated macro trees, interpreted under every
   assignment of the static facts and abstracted by the rule table, are the walker's plans - for every node kind ---- *)
From Verif Require TplSem TplTieDecl.
Theorem c01_c_ser_templates_are_walker_plans :
  (forall f, TplSem.sem_c_ser TplSem.m_ser_int (TplSem.rho_int f) = TplSem.plan_ser_int f /\
             TplSem.sem_c_ser TplSem.m_ser_bool (TplSem.rho_int f) = TplSem.plan_ser_bool f /\
             TplSem.sem_c_ser TplSem.m_ser_void (TplSem.rho_int f) = TplSem.plan_ser_void f) /\
  (forall f, TplSem.sem_c_ser TplSem.m_ser_float (TplSem.rho_float f) = TplSem.plan_ser_float f) /\
  (forall f, flat_map TplSem.bulk_is_loop (TplSem.sem_c_ser TplSem.m_ser_farr (TplSem.rho_arr f)) = TplSem.walker_ser_farr /\
             flat_map TplSem.bulk_is_loop (TplSem.sem_c_ser TplSem.m_ser_varr (TplSem.rho_arr f)) = TplSem.walker_ser_varr) /\
  (forall f, TplSem.sem_c_ser TplSem.m_ser_comp (TplSem.rho_comp f) = TplSem.plan_ser_comp f /\
             TplSem.sem_c_ser TplSem.m_ser_impl (TplSem.rho_loop f) = TplSem.plan_ser_impl f /\
             TplSem.sem_c_ser TplSem.m_pad (TplSem.rho_comp f) = TplSem.plan_ser_pad).
Proof. exact TplSem.c_ser_templates_are_walker_plans. Qed.
Print Assumptions c01_c_ser_templates_are_walker_plans.

(* the integer plan IS Walker.w_prim (not a description of it) *)
Theorem c01_w_prim_is_plan_uint : forall P w sat z buf off little, w <= 64 ->
  w_prim P (PU w sat) (VInt z) buf off =
  TplSem.exec_ser_prim P (TplSem.plan_ser_int (TplSem.facts_int true sat w off little)) w (TplSem.int_image true w z) false buf off off.
Proof. exact TplSem.w_prim_is_plan_uint. Qed.
Print Assumptions c01_w_prim_is_plan_uint.

Theorem c01_w_prim_is_plan_sint : forall P w sat z buf off little, w <= 64 ->
  w_prim P (PS w sat) (VInt z) buf off =
  TplSem.exec_ser_prim P (TplSem.plan_ser_int (TplSem.facts_int false sat w off little)) w (TplSem.int_image false w z) false buf off off.
Proof. exact TplSem.w_prim_is_plan_sint. Qed.
Print Assumptions c01_w_prim_is_plan_sint.

(* every statement of every C codec macro is known to the rule table (nothing is silently ignored) *)
Theorem c01_c_rules_total : TplSem.every_macro_known = true.
Proof. exact TplSem.c_rules_total. Qed.
Print Assumptions c01_c_rules_total.

(* declaration templates (storage types, member shapes): structural tie for the three targets + the C rules derived from the tree *)
Theorem c01_decl_templates_match_reviewed :
  Gen_CodecTpl.gen_c_decl_definitions = TplTieData.walker_c_decl_definitions /\
  Gen_CodecTpl.gen_cpp_decl_composite_type = TplTieData.walker_cpp_decl_composite_type /\
  Gen_CodecTpl.gen_cpp_decl_fields = TplTieData.walker_cpp_decl_fields /\
  Gen_CodecTpl.gen_cpp_decl_fields_as_union = TplTieData.walker_cpp_decl_fields_as_union /\
  Gen_CodecTpl.gen_cpp_decl_fields_as_variant = TplTieData.walker_cpp_decl_fields_as_variant /\
  Gen_CodecTpl.gen_py_decl_base = TplTieData.walker_py_decl_base.
Proof. exact TplTieDecl.decl_templates_match_reviewed. Qed.
Print Assumptions c01_decl_templates_match_reviewed.

Theorem c01_decl_base_templates_match_reviewed :
  Gen_CodecTpl.gen_c_decl_base = TplTieData.walker_c_decl_base /\ Gen_CodecTpl.gen_cpp_decl_base = TplTieData.walker_cpp_decl_base.
Proof. exact TplTieDecl.decl_base_templates_match_reviewed. Qed.
Print Assumptions c01_decl_base_templates_match_reviewed.

(* ---- round 7: the rule table fails closed; structural plans are executable; C++ derived tie ---- *)
From Verif Require TplSemCpp.
(* the serialization plans of the structural nodes, EXECUTED over the walker state, are the walker's arms *)
Theorem c01_ws_var_is_exec : forall P e cap l buf off,
  ws_body P (TVar e cap) (VArr l) buf off = TplSem.exec_ser_node P TplSem.walker_ser_varr (TplSem.cx_arr P cap e l) buf 0 off.
Proof. exact TplSem.ws_var_is_exec. Qed.
Print Assumptions c01_ws_var_is_exec.
Theorem c01_ws_field_delimited_is_exec : forall P u fs x v buf off,
  ws_field P (ws_body P) (TComp u fs (Some x)) v buf off =
  TplSem.exec_ser_node P (TplSem.walker_ser_field true) (TplSem.cx_field P (TComp u fs (Some x)) v) buf 0 off.
Proof. exact TplSem.ws_field_delimited_is_exec. Qed.
Print Assumptions c01_ws_field_delimited_is_exec.
Theorem c01_ws_union_is_exec : forall P fs ext k x buf off, k < length fs ->
  ws_body P (TComp true fs ext) (VUnion k x) buf off =
  TplSem.exec_ser_node P [TplSem.WTag; TplSem.WTagCase; TplSem.WAny; TplSem.WBadTag; TplSem.WPad] (TplSem.cx_union P fs k x) buf 0 off.
Proof. exact TplSem.ws_union_is_exec. Qed.
Print Assumptions c01_ws_union_is_exec.
(* C++: regenerated serialization macro trees = CppWalker's plans, every node kind; rule table closed *)
Theorem c01_cpp_ser_templates_are_walker_plans : TplSemCpp.cpp_ser_templates_are_walker_plans_statement.
Proof. exact TplSemCpp.cpp_ser_templates_are_walker_plans. Qed.
Print Assumptions c01_cpp_ser_templates_are_walker_plans.
Theorem c01_cw_prim_is_plan_uint : forall Q w sat z buf base cap off little, w <= 64 ->
  CppWalker.cw_prim Q (PU w sat) (VInt z) buf base cap off =
  TplSemCpp.exec_cpp_prim Q (TplSemCpp.plan_cpp_ser_int (TplSem.facts_int true sat w off little)) w (TplSem.int_image true w z) false buf base cap off off.
Proof. exact TplSemCpp.cw_prim_is_plan_uint. Qed.
Print Assumptions c01_cw_prim_is_plan_uint.
