(* C08 -- listing and dry-run modes tell the build system the truth.
   Statements only; every proof is `exact <lemma>`.
   Model: Gen/Listing.v  run : code -> cfg -> inputs -> fs -> fs * listing * result.
   `the_code` (Generated/Gen_Listing.v) is re-translated from /repo on every run: the statement structure of
   ArgparseRunner.run/_list_outputs_only/_list_inputs_only/_generate with the argument expressions of every generator call,
   _should_generate_support, the argparse rejection rule, the namespace-type decision, SupportGenerator.get_templates and the
   dry-run guards of the leaf functions.  What the generators enumerate is hand-modelled and tied by correspondence. *)
From Coq Require Import List Bool.
From Verif Require Import Str Listing ListingThm Gen_Listing ListingInst Gen_Pin_c08_enum.
Import ListNotations.
Open Scope N_scope.

(* (0) Tie of the hand-modelled enumeration (listed_templates, chain, resolve_name, support_resources in Gen/Listing.v) to the
   source: the shape pin regenerates Gen_Pin_c08_enum.v from /repo on every run; `pin_c08_enum_ok` is only defined while the
   normalised AST of DSDLTemplateLoader.__init__/get_source/get_templates/_filter_template_list_by_suffix,
   CodeGenerator.get_templates, SupportGenerator.get_templates/_get_templates_by_support_type, Language.get_support_files and
   iter_package_resources is the one the model was written for. *)
Example C08_enumeration_shape_pinned : pin_c08_enum_ok = true.
Proof. reflexivity. Qed.

(* (1) For ALL configurations (language data, flags, overrides, template directories), ALL input sets and ALL file systems:
   if the real run (same options, no listing/dry-run flag) succeeds from an empty output tree, then --list-outputs with the same
   options succeeds, changes nothing, and prints exactly the set of files the real run creates. *)
Theorem C08_list_outputs_exact :
  forall (c : cfg) (i : inputs), f_lc (c_flags c) = false ->
  forall f' out', run the_code (real_of c) i fs_empty = (f', out', Ok) ->
  forall f, exists out, run the_code (lo_of c) i f = (f, out, Ok) /\ (forall p, In p out <-> f' p = true).
Proof. exact list_outputs_exact_thm. Qed.
Print Assumptions C08_list_outputs_exact.

(* (2) --list-outputs, --list-inputs, --list-configuration and --dry-run leave every file system exactly as it was
   (whatever else is on the command line, whether or not the run succeeds). *)
Theorem C08_list_modes_pure :
  forall (c : cfg) (i : inputs) (f : fs), any_mode c = true -> fst (fst (run the_code c i f)) = f.
Proof. exact list_modes_pure_thm. Qed.
Print Assumptions C08_list_modes_pure.

(* (3) --list-inputs names every input that influences the real run's output (templates the generators' environments load,
   resolved through the active loader chain; DSDL sources of the dependency closure of every generated type), PROVIDED
   no root-namespace type uses a type from a lookup directory, every loaded template file has the .j2 suffix, and
   --support-templates does not shadow a packaged support template.
   The three triggers are the EFFECTIVE ones for the tree under test (the eff_trig definitions in Gen/Listing.v): a trigger whose repair
   (design_notes/C08_fix_lookup/nonj2/suptpl.patch, recognised by the translator as the k_fix flags) is present is identically false;
   with the non-.j2 repair the remaining trigger is "a Python package file is loaded as a template". *)
Theorem C08_list_inputs_complete_partial :
  forall (c : cfg) (i : inputs), f_lc (c_flags c) = false -> rejected c = false ->
  eff_trig_lookup the_code i = false -> eff_trig_tpl the_code c i = false -> eff_trig_sup the_code c = false ->
  (k_fix_suptpl the_code || support_consistent c) = true ->
  forall x, In x (influence_set the_code c i) ->
  forall f, exists out, run the_code (li_of c) i f = (f, out, Ok) /\ In x out.
Proof. exact list_inputs_partial_thm. Qed.
Print Assumptions C08_list_inputs_complete_partial.

(* (3') The full statement, live as soon as the tree has the three repairs. *)
Theorem C08_list_inputs_complete :
  k_fix_lookup the_code = true -> k_fix_nonj2 the_code = true -> k_fix_suptpl the_code = true ->
  forall (c : cfg) (i : inputs), f_lc (c_flags c) = false -> rejected c = false -> trig_py c i = false ->
  forall x, In x (influence_set the_code c i) ->
  forall f, exists out, run the_code (li_of c) i f = (f, out, Ok) /\ In x out.
Proof. exact list_inputs_complete_thm. Qed.
Print Assumptions C08_list_inputs_complete.

(* On a tree without the respective repair the full statement is false of the faithful model; each witness violates exactly one
   trigger.  (With the repair the premise is false and the finding is gone: the check then prints no KNOWN-FINDING line.) *)
(* F-LIST-INPUTS-LOOKUP *)
Theorem C08_list_inputs_lookup_refuted : k_fix_lookup the_code = false ->
  exists (c : cfg) (i : inputs) (x : list (list N)),
    trig_lookup i = true /\ trig_nonj2 c i = false /\ trig_support_override the_code c = false
    /\ path_in x (influence_set the_code c i) = true /\ path_in x (listed c i) = false.
Proof. intros H. exists (w_cfg SAsNeeded false None None), w_inputs_lookup, [[108]; [68]]. exact (list_inputs_lookup_refuted_w H). Qed.
Print Assumptions C08_list_inputs_lookup_refuted.

(* F-LIST-INPUTS-NONJ2 *)
Theorem C08_list_inputs_nonj2_refuted : k_fix_nonj2 the_code = false ->
  exists (c : cfg) (i : inputs) (x : list (list N)),
    trig_lookup i = false /\ trig_nonj2 c i = true /\ trig_support_override the_code c = false
    /\ path_in x (influence_set the_code c i) = true /\ path_in x (listed c i) = false.
Proof. intros H. exists (w_cfg SAsNeeded false (Some w_tpl_nonj2) None), w_inputs_nonj2, [[112]; [120]]. exact (list_inputs_nonj2_refuted_w H). Qed.
Print Assumptions C08_list_inputs_nonj2_refuted.

(* F-LIST-INPUTS-SUPTPL *)
Theorem C08_list_inputs_support_override_refuted : k_fix_suptpl the_code = false ->
  exists (c : cfg) (i : inputs) (x : list (list N)),
    trig_lookup i = false /\ trig_nonj2 c i = false /\ trig_support_override the_code c = true
    /\ path_in x (influence_set the_code c i) = true /\ path_in x (listed c i) = false.
Proof. intros H. exists (w_cfg SAsNeeded false None (Some w_sup_dir)), w_inputs_plain, [[100]; [115]]. exact (list_inputs_support_override_refuted_w H). Qed.
Print Assumptions C08_list_inputs_support_override_refuted.

(* (3b) What --list-inputs prints for the type generator is the set of PATHS of the files with the template suffix that its
   loader chain can serve (not names: the same basename in two directories gives two entries); for the support generator the
   paths of the packaged resources SupportGenerator.get_templates enumerates. *)
Theorem C08_listed_templates_are_servable_paths :
  forall (c : cfg) (o : bool) (p : list (list N)),
  In p (listed_templates the_code c GTypes o) <-> exists d f, In d (chain c GTypes) /\ In f d /\ listable the_code f = true /\ tf_path f = p.
Proof. exact (listed_templates_servable_gen the_code). Qed.
Print Assumptions C08_listed_templates_are_servable_paths.

Theorem C08_listed_support_templates_are_resource_paths :
  forall (c : cfg) (o : bool) (p : list (list N)),
  In p (listed_templates the_code c GSupport o) <-> exists r, In r (support_resources the_code c o) /\ sup_listed_path the_code c r = p.
Proof. exact (listed_support_resources_gen the_code). Qed.
Print Assumptions C08_listed_support_templates_are_resource_paths.

Example C08_same_basename_both_listed :
  let c := w_cfg SNever false (Some w_nested_dir) None in
  path_in [[112]; [109]; [98]] (listed c w_inputs_plain) = true /\ path_in [[112]; [115]; [98]] (listed c w_inputs_plain) = true.
Proof. exact example_same_basename_both_listed. Qed.

(* (4) The option combination argparse refuses (--omit-serialization-support with --generate-support always) does nothing. *)
Theorem C08_rejected_does_nothing :
  forall (c : cfg) (i : inputs) (f : fs), rejected c = true -> run the_code c i f = (f, [], Rejected).
Proof. exact rejected_does_nothing. Qed.
Print Assumptions C08_rejected_does_nothing.

(* non-vacuity *)
Example C08_real_run_succeeds_and_is_listed :
  let c := w_cfg SAsNeeded false None None in
  snd (run the_code (real_of c) w_inputs_plain fs_empty) = Ok
  /\ created c w_inputs_plain [[111]; [114]; [65; 46; 104]] = true
  /\ created c w_inputs_plain [[111]; [110]; [115; 46; 104]] = true
  /\ forallb (fun p => path_in p (snd (fst (run the_code (lo_of c) w_inputs_plain fs_empty))))
             [[[111]; [114]; [65; 46; 104]]; [[111]; [114]; [66; 46; 104]]; [[111]; [110]; [115; 46; 104]]] = true
  /\ length (snd (fst (run the_code (lo_of c) w_inputs_plain fs_empty))) = 3%nat.
Proof. exact example_real_run. Qed.

Example C08_partial_hypotheses_satisfiable :
  let c := w_cfg SAsNeeded false None None in
  rejected c = false /\ eff_trig_lookup the_code w_inputs_plain = false /\ eff_trig_tpl the_code c w_inputs_plain = false
  /\ eff_trig_sup the_code c = false /\ support_consistent c = true /\ trig_py c w_inputs_plain = false
  /\ path_in [[114]; [66]] (influence_set the_code c w_inputs_plain) = true.
Proof. exact example_partial_hyps. Qed.

(* the repaired F-LIST-ONLY-POD stays repaired: `only` + `-pod` lists nothing and creates nothing *)
Example C08_only_pod_lists_nothing :
  let c := w_cfg SOnly true None None in
  snd (fst (run the_code (lo_of c) w_inputs_plain fs_empty)) = []
  /\ snd (run the_code (real_of c) w_inputs_plain fs_empty) = Ok
  /\ created c w_inputs_plain [[111]; [110]; [115; 46; 104]] = false.
Proof. exact example_only_pod. Qed.

Example C08_rejection_reachable : rejected (w_cfg SAlways true None None) = true.
Proof. exact example_rejected. Qed.
