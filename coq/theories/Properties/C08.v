(* C08 -- listing and dry-run modes tell the build system the truth.
   Statements only; every proof is `exact <lemma>`.
   Model: Gen/Listing.v  run : code -> cfg -> inputs -> fs -> fs * listing * result   (fs: directories, files with content and mode).
   `the_code` (Generated/Gen_Listing.v) is re-translated from /repo on every run: the statement structure of
   ArgparseRunner.run/_list_outputs_only/_list_inputs_only/_generate with the argument expressions of every generator call,
   _should_generate_support, the argparse rejection rule, the namespace-type decision, SupportGenerator.get_templates, the
   dry-run guards of the leaf functions, the effect scan of the whole listing/dry-run call path (k_path_pure), the shape variants
   of the enumeration functions (k_fix flags) and, per language, the template reference graph (include/import/from/extends).
   What the generators enumerate is hand-modelled, shape-pinned and tied by correspondence.
   History (what the code did before the three --list-inputs repairs): coq/theories/History/C08_history.v. *)
From Coq Require Import List Bool.
From Verif Require Import Str Listing ListingThm Gen_Listing ListingInst Gen_Pin_c08_enum.
Import ListNotations.
Open Scope N_scope.

(* obligation, not a theorem: the shape pin regenerates Gen_Pin_c08_enum.v from /repo on every run; `pin_c08_enum_ok` is only
   defined while the normalised AST of the enumeration functions (tools/translators/gen_c08.py PIN_COMMON/PIN_VARIANTS) is one the
   hand model was written for. *)
Definition C08_enumeration_shape_pinned : pin_c08_enum_ok = true := eq_refl.

(* which branch is live on the tree under test: (lookup, constant-reference, non-.j2, support-templates) repairs recognised,
   call path effect-free, namespace/type file clash check present *)
Eval vm_compute in (k_fix_lookup the_code, k_fix_constref the_code, k_fix_nonj2 the_code, k_fix_suptpl the_code, k_path_pure the_code, k_ns_check the_code, k_stem_check the_code, k_fix_pyres the_code, k_fix_linkdir the_code).

(* obligation: the four --list-inputs repairs (lookup dependencies, constant-only references, non-.j2 template resources,
   --support-templates overrides) are recognised in the tree under test; (3) below is therefore the live statement.  A tree that
   loses one of them breaks here and the check's falsifier looks for the input (the findings are recorded as fixed). *)
Example C08_list_inputs_repairs_present :
  k_fix_lookup the_code = true /\ k_fix_constref the_code = true /\ k_fix_nonj2 the_code = true /\ k_fix_suptpl the_code = true.
Proof. exact the_repairs_present. Qed.
(* likewise the closure repairs (.py resources, symbolically linked sub-directories): `eff_trig_tpl` in (3) is then only
   "__init__.py or byte code is in the template closure" *)
Example C08_list_inputs_closure_repairs_present : k_fix_pyres the_code = true /\ k_fix_linkdir the_code = true.
Proof. exact the_closure_repairs_present. Qed.
Example C08_py_resource_and_linked_template_listed :
  path_in [[112]; [120]] (listed (w_cfg SNever false (Some w_tpl_pyres) None) w_inputs_plain) = true
  /\ path_in [[112]; [120]] (listed (w_cfg SNever false (Some w_tpl_linked) None) w_inputs_plain) = true
  /\ eff_trig_tpl the_code (w_cfg SNever false (Some w_tpl_pyres) None) w_inputs_plain = false
  /\ eff_trig_tpl the_code (w_cfg SNever false (Some w_tpl_linked) None) w_inputs_plain = false.
Proof. exact example_pyres_and_linked_listed. Qed.

(* (1) For ALL configurations (language data, flags, overrides, template directories), ALL input sets and ALL file systems:
   if the real run (same options, no listing/dry-run flag) succeeds from an empty output tree, then --list-outputs with the same
   options succeeds, changes nothing, and prints exactly the set of FILES the real run creates; every directory the real run
   creates is a parent of a listed file. *)
Theorem C08_list_outputs_exact :
  forall (c : cfg) (i : inputs), f_lc (c_flags c) = false ->
  forall f' out', run the_code (real_of c) i fs_empty = (f', out', Ok) ->
  forall f, exists out, run the_code (lo_of c) i f = (f, out, Ok)
    /\ (forall p, In p out <-> is_file (f' p) = true)
    /\ (forall q, is_dir (f' q) = true -> exists p, In p out /\ path_in q (parents p) = true).
Proof. exact list_outputs_exact_thm. Qed.
Print Assumptions C08_list_outputs_exact.

(* (2) --list-outputs, --list-inputs, --list-configuration and --dry-run leave every file system exactly as it was: no path
   changes kind, content or mode, none appears, none disappears (whatever else is on the command line, whether or not the run
   succeeds).  Rests on guards_ok the_code: the dry-run guards of the three leaf functions AND the effect scan of every function
   on the call path (runner, constructors, loaders, namespace tree, generate_all prologues; _handle_overwrite/_generate_code/
   post-processors reachable only from inside `if not is_dryrun:`). *)
Theorem C08_list_modes_pure :
  forall (c : cfg) (i : inputs) (f : fs), any_mode c = true -> fst (fst (run the_code c i f)) = f.
Proof. exact list_modes_pure_thm. Qed.
Print Assumptions C08_list_modes_pure.

(* (3) --list-inputs names every template and every DSDL file that influences the real run's output.  The influence set is
   DERIVED in the model: the include/import/from/extends closure (through the active loader chain) of every class template that
   can be selected for a generated item and of every support template that is rendered, the support resources copied verbatim,
   and the DSDL sources of every definition the DSDL front end reads while building a generated type (the types of its
   fields AND the definitions referred to only inside expressions, transitively).  Configuration inputs (lang/properties.yaml and
   --configuration files) also influence the output; they are neither templates nor DSDL files, --list-inputs does not name
   them (Example C08_config_inputs_not_listed), and the statement excludes them explicitly.
   `ns_clash` (an invalid namespace file stem, or a namespace file whose path is a type's file: ValueError before anything is
   listed) and `rejected`
   are the two configurations in which no mode does anything at all.
   The two remaining hypotheses:
   `eff_trig_tpl` -- some template of the closure is a file get_templates does not enumerate: with the closure repairs in the
   tree (obligation C08_list_inputs_closure_repairs_present; F-LIST-INPUTS-PYRES and -SYMLINKDIR are history) that is only
   `__init__.py` or byte code of a templates package -- an explicit exclusion;
   `trig_sup_refs` -- a rendered support template (a --support-templates override) refers to further templates
   (F-LIST-INPUTS-SUPREFS: the support listing names the rendered resources only). *)
Theorem C08_list_inputs_complete :
  forall (c : cfg) (i : inputs), f_lc (c_flags c) = false -> rejected c = false -> ns_clash the_code c i = false ->
  eff_trig_tpl the_code c i = false -> trig_sup_refs the_code c = false ->
  forall x, In x (all_influences the_code c i) -> is_config_input c x = false ->
  forall f, exists out, run the_code (li_of c) i f = (f, out, Ok) /\ In x out.
Proof. exact list_inputs_complete_live. Qed.
Print Assumptions C08_list_inputs_complete.

(* (3') The same for a tree that lacks some of the repairs: the EFFECTIVE triggers (the eff_trig definitions in Gen/Listing.v) are
   identically false for a repair the translator recognises; otherwise they are the triggers of the historical findings. *)
Theorem C08_list_inputs_complete_partial :
  forall (c : cfg) (i : inputs), f_lc (c_flags c) = false -> rejected c = false -> ns_clash the_code c i = false ->
  eff_trig_lookup the_code i = false -> eff_trig_tpl the_code c i = false -> eff_trig_sup the_code c = false ->
  (k_fix_suptpl the_code || support_consistent c) = true ->
  forall x, In x (influence_set the_code c i) ->
  forall f, exists out, run the_code (li_of c) i f = (f, out, Ok) /\ In x out.
Proof. exact list_inputs_partial_thm. Qed.
Print Assumptions C08_list_inputs_complete_partial.

Theorem C08_list_inputs_suprefs_refuted :
  let c := w_cfg SAsNeeded false None (Some w_sup_dir_refs) in let x := [[100]; [104]] in
  trig_sup_refs the_code c = true /\ eff_trig_lookup the_code w_inputs_plain = false /\ eff_trig_tpl the_code c w_inputs_plain = false
  /\ path_in x (influence_set the_code c w_inputs_plain) = true /\ path_in x (listed c w_inputs_plain) = false.
Proof. exact list_inputs_suprefs_refuted_w. Qed.
Print Assumptions C08_list_inputs_suprefs_refuted.

(* (3b) What --list-inputs prints for the type generator is the set of PATHS of the listable files that its loader chain can
   serve (not names: the same basename in two directories gives two entries); for the support generator the path
   sup_listed_path gives for each packaged resource SupportGenerator.get_templates enumerates. *)
Theorem C08_listed_templates_are_servable_paths :
  forall (c : cfg) (o : bool) (p : list (list N)),
  In p (listed_templates the_code c GTypes o) <-> exists d f, In d (chain c GTypes) /\ In f d /\ listable the_code f = true /\ tf_path f = p.
Proof. exact (listed_templates_servable_gen the_code). Qed.
Print Assumptions C08_listed_templates_are_servable_paths.

Theorem C08_listed_support_templates_are_resource_paths :
  forall (c : cfg) (o : bool) (p : list (list N)),
  In p (listed_templates the_code c GSupport o) <-> exists r, In r (support_resources the_code c o) /\ sup_listed_path the_code c r = p.
Proof. exact (listed_support_resources_gen the_code). Qed.
Print Assumptions C08_listed_support_templates_are_resource_paths.

(* (4) The option combination argparse refuses (--omit-serialization-support with --generate-support always) does nothing. *)
Theorem C08_rejected_does_nothing :
  forall (c : cfg) (i : inputs) (f : fs), rejected c = true -> run the_code c i f = (f, [], Rejected).
Proof. exact rejected_does_nothing. Qed.
Print Assumptions C08_rejected_does_nothing.

(* non-vacuity *)
Example C08_real_run_succeeds_and_is_listed :
  let c := w_cfg SAsNeeded false None None in
  snd (run the_code (real_of c) w_inputs_plain fs_empty) = Ok
  /\ is_file (created c w_inputs_plain [[111]; [114]; [65; 46; 104]]) = true
  /\ is_file (created c w_inputs_plain [[111]; [110]; [115; 46; 104]]) = true
  /\ is_dir (created c w_inputs_plain [[111]; [114]]) = true
  /\ forallb (fun p => path_in p (snd (fst (run the_code (lo_of c) w_inputs_plain fs_empty))))
             [[[111]; [114]; [65; 46; 104]]; [[111]; [114]; [66; 46; 104]]; [[111]; [110]; [115; 46; 104]]] = true
  /\ length (snd (fst (run the_code (lo_of c) w_inputs_plain fs_empty))) = 3%nat.
Proof. exact example_real_run. Qed.

Example C08_completeness_hypotheses_satisfiable :
  let c := w_cfg SAsNeeded false None None in
  rejected c = false /\ ns_clash the_code c w_inputs_plain = false /\ eff_trig_lookup the_code w_inputs_plain = false /\ eff_trig_tpl the_code c w_inputs_plain = false
  /\ eff_trig_sup the_code c = false /\ support_consistent c = true /\ trig_py the_code c w_inputs_plain = false
  /\ trig_sup_refs the_code c = false
  /\ path_in [[114]; [66]] (influence_set the_code c w_inputs_plain) = true
  /\ path_in [[112]; [98]] (influence_set the_code c w_inputs_plain) = true
  /\ path_in [[112]; [117]] (influence_set the_code c w_inputs_plain) = false.
Proof. exact example_partial_hyps. Qed.

Example C08_config_inputs_not_listed :
  let c := w_cfg SAsNeeded false None None in
  is_config_input c [[99]] = true /\ is_config_input c [[121]] = true
  /\ path_in [[99]] (all_influences the_code c w_inputs_plain) = true
  /\ path_in [[99]] (listed c w_inputs_plain) = false /\ path_in [[121]] (listed c w_inputs_plain) = false.
Proof. exact example_config_not_listed. Qed.

Example C08_same_basename_both_listed :
  let c := w_cfg SNever false (Some w_nested_dir) None in
  path_in [[112]; [109]; [98]] (listed c w_inputs_plain) = true /\ path_in [[112]; [115]; [98]] (listed c w_inputs_plain) = true.
Proof. exact example_same_basename_both_listed. Qed.

(* the repaired F-LIST-ONLY-POD stays repaired: `only` + `-pod` lists nothing and creates nothing *)
Example C08_only_pod_lists_nothing :
  let c := w_cfg SOnly true None None in
  snd (fst (run the_code (lo_of c) w_inputs_plain fs_empty)) = []
  /\ snd (run the_code (real_of c) w_inputs_plain fs_empty) = Ok
  /\ created c w_inputs_plain [[111]; [110]; [115; 46; 104]] = None.
Proof. exact example_only_pod. Qed.

Example C08_invalid_namespace_stem_refused : k_stem_check the_code = true ->
  run the_code (real_of w_cfg_badstem) w_inputs_plain fs_empty = (fs_empty, [], NsClash)
  /\ snd (run the_code (lo_of w_cfg_badstem) w_inputs_plain fs_empty) = NsClash
  /\ snd (fst (run the_code (li_of w_cfg_badstem) w_inputs_plain fs_empty)) = [].
Proof. exact example_bad_stem. Qed.

Example C08_namespace_clash_refused : k_ns_check the_code = true ->
  run the_code (real_of w_cfg_clash) w_inputs_plain fs_empty = (fs_empty, [], NsClash)
  /\ snd (run the_code (lo_of w_cfg_clash) w_inputs_plain fs_empty) = NsClash
  /\ snd (fst (run the_code (li_of w_cfg_clash) w_inputs_plain fs_empty)) = [].
Proof. exact example_ns_clash. Qed.

Example C08_rejection_reachable : rejected (w_cfg SAlways true None None) = true.
Proof. exact example_rejected. Qed.

(* failing runs exist (outside the premise of (1)): no template, --no-overwrite over existing output, parent is a file *)
Example C08_failing_runs :
  let c1 := with_flags (w_cfg SNever false (Some [w_tf 98 true (Some CStructure)]) None) (w_flags_x true false) in
  let c2 := with_flags (w_cfg SNever false None None) (w_flags_x false true) in
  let f2 := fst (fst (run the_code c2 w_inputs_plain fs_empty)) in
  let f3 : fs := fun q => if path_eqb q [[111]; [114]] then Some (EFile 7 420) else None in
  snd (run the_code c1 w_inputs_plain fs_empty) = NoTemplate
  /\ snd (run the_code c2 w_inputs_plain fs_empty) = Ok /\ snd (run the_code c2 w_inputs_plain f2) = Exists
  /\ snd (run the_code c2 w_inputs_plain f3) = IoError.
Proof. exact example_failures. Qed.
