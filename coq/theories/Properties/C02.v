(* C02: generated deserializers decode every byte string as the specification prescribes.
   Statements only; proofs in Spec/WireThm*.v, Codec/Refine.v and Codec/RefineDes*.v. *)
From Verif Require Import Wire WireThm WireThmRt WireThmExt WireThmValid Walker Refine RefineDesBase PrimsOn RefineDes WalkerBound InstancesC InstancesCpp InstancesPy InstancesTyped BulkArrays BulkArraysDes WireThmErr WalkerOpt WalkerOptThm InstancesOpt CppWalker CppWalkerThm CppWalkerInst PyDesWalker PyDesWalkerThm PyDesWalkerInst WalkerXDes RefineDesX WalkerXBound InstancesXDes CppWalkerConsumed InstancesCW AlignSets WidthArith.
Local Open Scope nat_scope.

(* the reported number of consumed bytes never exceeds the number supplied *)
Theorem c02_consumed_le_supplied : forall t bs v c, des_spec t bs = Ok (v, c) -> 8 * c <= length bs.
Proof. exact des_consumed_le. Qed.
Print Assumptions c02_consumed_le_supplied.

(* round trip through the two contracts *)
Theorem c02_des_inverts_ser : forall t v cap b r, wf_ty t = true -> align t = 8 -> ser_spec t v cap = Ok b ->
  des_spec t (b ++ r) = Ok (cast_val t v, length b / 8).
Proof. exact des_ser_roundtrip. Qed.
Print Assumptions c02_des_inverts_ser.

(* the decoder looks only at the zero-extended bits it consumes, plus enough real data behind delimiter headers *)
Theorem c02_depends_only_on_consumed : forall t bs bs' v n, dec_body t bs = Ok (v, n) ->
  take_ze n bs = take_ze n bs' -> (length bs <= length bs' \/ n <= length bs') -> dec_body t bs' = Ok (v, n).
Proof. exact dec_ext. Qed.
Print Assumptions c02_depends_only_on_consumed.

(* implicit zero extension (also inside delimited nested objects: their decoder runs on exactly header*8 bits) *)
Theorem c02_zero_extension : forall t bs k v n, dec_body t bs = Ok (v, n) -> dec_body t (bs ++ repeat false k) = Ok (v, n).
Proof. exact dec_zero_ext. Qed.
Print Assumptions c02_zero_extension.

(* implicit truncation: surplus data is ignored *)
Theorem c02_truncation : forall t p g g' v n, dec_body t (p ++ g) = Ok (v, n) -> n <= length p -> dec_body t (p ++ g') = Ok (v, n).
Proof. exact dec_prefix_indep. Qed.
Print Assumptions c02_truncation.

(* no invalid representation is ever accepted: decoded values are valid and re-encodable *)
Theorem c02_decoded_values_valid : forall t bs v n, dec_body t bs = Ok (v, n) -> valid_val t v = true.
Proof. exact dec_ok_valid. Qed.
Print Assumptions c02_decoded_values_valid.

Theorem c02_bad_length : forall e cap bs, (N.of_nat cap < read_N (prefix_bits cap) bs)%N -> dec_body (TVar e cap) bs = Err EBadLen.
Proof. exact dec_bad_length. Qed.
Print Assumptions c02_bad_length.

Theorem c02_bad_tag : forall fs ext bs, (N.of_nat (length fs) <= read_N (tag_bits (length fs)) bs)%N ->
  dec_body (TComp true fs ext) bs = Err EBadTag.
Proof. exact dec_bad_tag. Qed.
Print Assumptions c02_bad_tag.

Theorem c02_bad_header : forall u fs x bs, (N.of_nat (length (skipn header_bits bs)) < 8 * read_N header_bits bs)%N ->
  dec_field (TComp u fs (Some x)) bs = Err EBadHdr.
Proof. exact dec_bad_header. Qed.
Print Assumptions c02_bad_header.


(* FULL deserialization refinement (Codec/RefineDes.v): for every primitive record satisfying the laws, EVERY type - nested sealed
   and delimited composites at any depth, arrays of composites, unions with composite members - and every whole-byte bit string,
   the code-shaped walker returns exactly what the specification prescribes (value, error, reported size).  No well-formedness
   hypothesis is needed.  This is Refine.walk_des_refines_statement. *)
Theorem c02_walker_des_refines : forall P t bits, prims_ok P -> length bits mod 8 = 0 -> walk_des P t bits = des_spec t bits.
Proof. exact walk_des_refines_all. Qed.
Print Assumptions c02_walker_des_refines.

Theorem c02_walker_des_refines_statement : walk_des_refines_statement.
Proof. exact walk_des_refines_statement_holds. Qed.
Print Assumptions c02_walker_des_refines_statement.

Theorem c02_walker_des_refines_bytes : forall t bytes, walk_des_obs t bytes = des_spec t (bits_of_bytes bytes).
Proof. exact walk_des_refines_bytes. Qed.
Print Assumptions c02_walker_des_refines_bytes.

(* the walker's reported size never exceeds what was supplied (transferred from the specification through the refinement) *)
Theorem c02_walker_consumed_le : forall P t bits v c, prims_ok P -> length bits mod 8 = 0 ->
  walk_des P t bits = Ok (v, c) -> 8 * c <= length bits.
Proof. exact walk_des_consumed_le. Qed.
Print Assumptions c02_walker_consumed_le.

(* the cursor relation used by the proof is not the identity: a nested sealed object that runs past the end of the data leaves
   the walker's cursor AT the capacity (clamped size) while the specification's is beyond it - same observable result *)
Example c02_clamped_cursor_example :
  let inner := TComp false [TPrim (PU 32 true)] None in
  let t := TComp false [inner; TPrim (PU 8 true)] None in
  wd_body ref_prims t (bits_of_bytes [1; 2]%N) 16 0 = Ok (VStruct [VStruct [VInt 513]; VInt 0], 24) /\
  dec_body t (bits_of_bytes [1; 2]%N) = Ok (VStruct [VStruct [VInt 513]; VInt 0], 40) /\
  walk_des ref_prims t (bits_of_bytes [1; 2]%N) = des_spec t (bits_of_bytes [1; 2]%N).
Proof. vm_compute. repeat split; reflexivity. Qed.

(* THE SAME ABOUT THE SHIPPED PRIMITIVES (Codec/Instances*.v; composition with the C14 theorems): the abstract `prims_ok` record
   is replaced by the models of the support libraries themselves.
   - from the restricted read law (reads of 1..64 bits, capacity a multiple of 8 within the buffer): *)
Theorem c02_walker_des_refines_from_read_law : forall P (Wd : nat -> Prop) t bits,
  (forall w, 1 <= w <= 64 -> Wd w) -> get_law P Wd bits -> ((forall w, Wd w) \/ wf_ty t = true) ->
  length bits mod 8 = 0 -> walk_des P t bits = des_spec t bits.
Proof. exact walk_des_refines_on. Qed.
Print Assumptions c02_walker_des_refines_from_read_law.

(* - the walker never reads at a bit offset above |buffer| + tsz t (this is how the `size_t offset_bits` side condition of the C
     contracts is established): a record that is only trusted up to B may be used whenever |buffer| + tsz t <= B *)
Theorem c02_walker_des_cursor_bounded : forall P B t bits, length bits + tsz t <= B ->
  walk_des (guard B P) t bits = walk_des P t bits.
Proof. exact walk_des_guard. Qed.
Print Assumptions c02_walker_des_cursor_bounded.

(* - C: nunavutGetU8/16/32/64 of serialization.h, both target_endianness renderings, on the byte view of the buffer *)
Theorem c02_c_walk_des_refines : forall (little : bool) t bits, wf_ty t = true -> length bits mod 8 = 0 ->
  (N.of_nat (length bits + tsz t) < CPrims.two64)%N ->
  walk_des (c_prims little) t bits = des_spec t bits.
Proof. exact c_walk_des_refines. Qed.
Print Assumptions c02_c_walk_des_refines.

(* the typed getter the generated C code calls for a signed field, nunavutGetI<N>, is what the walker computes from the raw field
   (`signed_of w (N_of_bits (get_bits ...))`), for every width 1..64, offset, capacity and both renderings *)
Theorem c02_c_signed_getter : forall little buf cap off w, c_dom buf -> 1 <= w <= 64 -> cap <= length buf -> cap mod 8 = 0 ->
  (N.of_nat off < CPrims.two64)%N ->
  CPrims.get_ixx little (N.of_nat (std_width w)) (InstancesBase.bytes_of_bits buf) (N.of_nat (cap / 8)) (N.of_nat off) (N.of_nat w) =
    Some (signed_of w (N_of_bits (get_bits (c_prims little) buf cap off w))).
Proof. exact c_get_signed_is_GetI. Qed.
Print Assumptions c02_c_signed_getter.

(* - C++: const_bitspan::getU8/16/32/64 of serialization.hpp *)
Theorem c02_cpp_walk_des_refines : forall (zv : bool) t bits, wf_ty t = true -> length bits mod 8 = 0 ->
  (N.of_nat (length bits + tsz t) < CPrims.two64)%N ->
  walk_des (cpp_prims zv) t bits = des_spec t bits.
Proof. exact cpp_walk_des_refines. Qed.
Print Assumptions c02_cpp_walk_des_refines.

(* - Python: Deserializer.fetch_aligned_unsigned / fetch_unaligned_unsigned of nunavut_support.py, selected by the cursor's
     alignment as the templates do; unbounded integers, so no size side condition at all *)
Theorem c02_py_walk_des_refines : forall t bits, wf_ty t = true -> length bits mod 8 = 0 ->
  walk_des py_prims t bits = des_spec t bits.
Proof. exact py_walk_des_refines. Qed.
Print Assumptions c02_py_walk_des_refines.

(* non-vacuity: the instances execute the primitive models (13 bits at bit offset 3 / 16 bits at byte 1 of ff 01 07) *)
Example c02_instances_run :
  get_bits (c_prims true) (bits_of_bytes [255; 1; 7]%N) 16 3 13 = bits_of_N 13 63 /\
  get_bits (cpp_prims false) (bits_of_bytes [255; 1; 7]%N) 16 3 13 = bits_of_N 13 63 /\
  get_bits py_prims (bits_of_bytes [255; 1; 7]%N) 16 8 16 = bits_of_N 16 1.
Proof. vm_compute. repeat split; reflexivity. Qed.

(* ROUND 3.  (a) TYPED GETTERS (Codec/InstancesTyped.v): nunavutGetF16/32/64, nunavutGetI<N> and nunavutGetBit return what
   Walker.r_prim computes (C14: c_float_members_are_integer_members, get_ixx_sign_ext_b, get_uxx_spec_b), so
   c02_c_walk_des_refines covers float, signed and boolean fields as the generated code reads them; the C++ members are these
   functions (c02_cpp_typed_members_are_c: cpp_members_are_c_b, cpp_float_members_are_c). *)
Theorem c02_c_typed_getters_are_r_prim : forall little buf cap off sat, c_dom buf -> cap <= length buf -> cap mod 8 = 0 ->
  (N.of_nat off < CPrims.two64)%N ->
  let b := InstancesBase.bytes_of_bits buf in let size := N.of_nat (cap / 8) in let o := N.of_nat off in
  let P := c_prims little in
  (match CPrims.get_f16 little b size o with Some x => r_prim P (PF 16 sat) buf cap off = VFlt x | None => False end) /\
  (match CPrims.get_f32 little b size o with Some x => r_prim P (PF 32 sat) buf cap off = VFlt x | None => False end) /\
  (match CPrims.get_f64 little b size o with Some x => r_prim P (PF 64 sat) buf cap off = VFlt x | None => False end) /\
  (forall w, 1 <= w <= 64 ->
     match CPrims.get_ixx little (N.of_nat (std_width w)) b size o (N.of_nat w) with
     | Some z => r_prim P (PS w sat) buf cap off = VInt z | None => False end) /\
  (match CPrims.get_bit little b size o with Some x => r_prim P PBool buf cap off = VBool x | None => False end).
Proof. exact c_typed_getters_are_r_prim. Qed.
Print Assumptions c02_c_typed_getters_are_r_prim.

Theorem c02_cpp_typed_members_are_c : forall buf size off, c_dom buf -> size <= length buf / 8 -> (N.of_nat off + 64 < CPrims.two64)%N ->
  let s := cpp_span buf size off in let b := InstancesBase.bytes_of_bits buf in let sz := N.of_nat size in let o := N.of_nat off in
  (forall (z : Z) len, (len <= 64)%N -> CppPrims.cpp_set_ixx s z len = CPrims.set_ixx false b sz o z len) /\
  (forall v, CppPrims.cpp_set_bit s v = CPrims.set_bit b sz o v) /\
  (forall x, CppPrims.cpp_set_f16 s x = CPrims.set_f16 false b sz o x /\ CppPrims.cpp_set_f32 s x = CPrims.set_f32 false b sz o x /\
             CppPrims.cpp_set_f64 s x = CPrims.set_f64 false b sz o x) /\
  CppPrims.cpp_get_f16 s = CPrims.get_f16 false b sz o /\ CppPrims.cpp_get_f32 s = CPrims.get_f32 false b sz o /\
  CppPrims.cpp_get_f64 s = CPrims.get_f64 false b sz o /\
  (forall w len, ((w =? 8) || (w =? 16) || (w =? 32) || (w =? 64))%N = true ->
     CppPrims.cpp_get_ixx w s len = CPrims.get_ixx false w b sz o len) /\
  CppPrims.cpp_get_bit s = CPrims.get_bit false b sz o.
Proof. exact cpp_typed_members_are_c. Qed.
Print Assumptions c02_cpp_typed_members_are_c.

(* (b) BULK ARRAY PATHS (Codec/BulkArraysDes.v; C14 get_bits_zero_ext, le_elems_bit): ONE nunavutGetBits into the array object, then
   the elements are the little-endian fields of the image.  Element i = the raw field the walker reads at off + i*w, for EVERY
   capacity (a partially available array is zero-extended: saturated fragment) and whatever the destination held before. *)
Theorem c02_c_bulk_des_elements : forall buf cap off k n (output : list N),
  c_dom buf -> cap <= length buf -> cap mod 8 = 0 -> 0 < k -> (N.of_nat (off + n * (8 * k)) < CPrims.two64)%N ->
  Bits.bytes_ok output -> k * n <= length output -> (8 * CPrims.blen output < CPrims.two64)%N ->
  exists r, CPrims.get_bits output (InstancesBase.bytes_of_bits buf) (N.of_nat (cap / 8)) (N.of_nat off) (N.of_nat (n * (8 * k))) = Some r /\
            length r = length output /\
            forall i, i < n -> nth i (PrimsExt.le_elems n k r) 0%N = raw_field buf cap (off + i * (8 * k)) (8 * k).
Proof. exact c_bulk_des_elements. Qed.
Print Assumptions c02_c_bulk_des_elements.

Theorem c02_c_bulk_des_equals_element_loop : forall little p buf cap off n (output : list N),
  prim_wf p = true -> std_prim p = true -> c_dom buf -> cap <= length buf -> cap mod 8 = 0 ->
  (N.of_nat (off + n * prim_bits p) < CPrims.two64)%N ->
  Bits.bytes_ok output -> prim_bits p / 8 * n <= length output -> (8 * CPrims.blen output < CPrims.two64)%N ->
  exists r, CPrims.get_bits output (InstancesBase.bytes_of_bits buf) (N.of_nat (cap / 8)) (N.of_nat off) (N.of_nat (n * prim_bits p)) = Some r /\
            wd_list (wd_field (c_prims little) (wd_body (c_prims little)) (TPrim p)) n buf cap off =
              Ok (map (fun x => dec_prim p (bits_of_N (prim_bits p) x)) (PrimsExt.le_elems n (prim_bits p / 8) r), off + n * prim_bits p).
Proof. exact c_bulk_des_equals_element_loop. Qed.
Print Assumptions c02_c_bulk_des_equals_element_loop.

Theorem c02_c_bulk_bool_des : forall buf cap off n (output : list N),
  c_dom buf -> cap <= length buf -> cap mod 8 = 0 -> (N.of_nat (off + n) < CPrims.two64)%N ->
  (n + 7) / 8 <= length output -> (8 * CPrims.blen output < CPrims.two64)%N ->
  exists r, CPrims.get_bits output (InstancesBase.bytes_of_bits buf) (N.of_nat (cap / 8)) (N.of_nat off) (N.of_nat n) = Some r /\
            forall i, i < 8 * ((n + 7) / 8) ->
              Bits.bit r (N.of_nat i) = if i <? n then nth (off + i) (firstn cap buf) false else false.
Proof. exact c_bulk_bool_des. Qed.
Print Assumptions c02_c_bulk_bool_des.

(* ROUND 4 (audit follow-up).
   (B) DE-TOTALISED reads (Codec/WalkerOpt.v: the walker over OPTION-valued reads, a `None` - C: access outside the allocation /
       undefined behaviour, Python: raised exception - aborts with EAssert, which `dec_body` never produces): every read the walker
       issues on the primitive models is defined, so the functional instance theorems are not satisfied through the zero default of
       the total adapters. *)
Theorem c02_walk_des_reads_defined : forall O P B t bits,
  (forall cap off w, cap <= length bits -> off + w <= B -> 1 <= w -> o_get O bits cap off w = Some (get_bits P bits cap off w)) ->
  wf_ty t = true -> length bits + tsz t <= B -> walk_des_o O t bits = walk_des P t bits.
Proof. exact walk_des_o_defined. Qed.
Print Assumptions c02_walk_des_reads_defined.

Theorem c02_c_walk_des_defined : forall (little : bool) t bits, wf_ty t = true -> length bits mod 8 = 0 ->
  (N.of_nat (length bits + tsz t) < CPrims.two64)%N ->
  walk_des_o (c_oprims little) t bits = des_spec t bits.
Proof. exact c_walk_des_defined. Qed.
Print Assumptions c02_c_walk_des_defined.

Theorem c02_cpp_walk_des_defined : forall t bits, wf_ty t = true -> length bits mod 8 = 0 ->
  (N.of_nat (length bits + tsz t) < CPrims.two64)%N ->
  walk_des_o cpp_oprims t bits = des_spec t bits.
Proof. exact cpp_walk_des_defined. Qed.
Print Assumptions c02_cpp_walk_des_defined.

Theorem c02_py_walk_des_defined : forall t bits, wf_ty t = true -> length bits mod 8 = 0 ->
  walk_des_o py_oprims t bits = des_spec t bits.
Proof. exact py_walk_des_defined. Qed.
Print Assumptions c02_py_walk_des_defined.

Example c02_undefined_read_is_detected :
  walk_des_o {| o_get := fun _ _ _ _ => None |} (TComp false [TPrim (PU 8 true)] None) (repeat false 8) = Err EAssert.
Proof. reflexivity. Qed.

(* (D) THE BULK ARRAY PATH AS PART OF THE ROUTINE (Codec/WalkerXDes.v, RefineDesX.v): `walk_des_x` reads every array whose element
       type satisfies `WalkerSafe.bulk` (bool, or the TRANSLATED `is_zero_cost_primitive`) by ONE nunavutGetBits call (`getl`: the
       n*w bits at the cursor, zero-extended past the capacity) and takes the elements from the object; it decodes exactly as the
       specification prescribes, from the read law plus the GetBits law; `c02_c_walk_des_x_refines` is the instance with the shipped
       C functions (CPrims.get_bits into a zeroed object; the `size_t offset_bits` side condition is discharged by the cursor bound
       of Codec/WalkerXBound.v for `wd_body_x`). *)
Theorem c02_walker_x_des_refines_from_laws : forall P getl cf (Wd : nat -> Prop) t bits,
  (forall w, 1 <= w <= 64 -> Wd w) -> get_law P Wd bits ->
  (forall cap off m, cap <= length bits -> cap mod 8 = 0 -> getl bits cap off m = take_ze m (skipn off (firstn cap bits))) ->
  ((forall w, Wd w) \/ wf_ty t = true) -> length bits mod 8 = 0 ->
  walk_des_x P getl cf t bits = des_spec t bits.
Proof. exact walk_des_x_refines_on. Qed.
Print Assumptions c02_walker_x_des_refines_from_laws.

Theorem c02_c_walk_des_x_refines : forall (little : bool) t bits, wf_ty t = true -> length bits mod 8 = 0 ->
  (N.of_nat (length bits + tsz t + 8) < CPrims.two64)%N ->
  walk_des_x (c_prims little) c_getl (WalkerSafe.std_cfg little) t bits = des_spec t bits.
Proof. exact c_walk_des_x_refines. Qed.
Print Assumptions c02_c_walk_des_x_refines.

Theorem c02_c_walk_des_x_equals_walk_des : forall (little : bool) t bits, wf_ty t = true -> length bits mod 8 = 0 ->
  (N.of_nat (length bits + tsz t + 8) < CPrims.two64)%N ->
  walk_des_x (c_prims little) c_getl (WalkerSafe.std_cfg little) t bits = walk_des (c_prims little) t bits.
Proof. exact c_walk_des_x_equals_walk_des. Qed.
Print Assumptions c02_c_walk_des_x_equals_walk_des.

(* consumed <= supplied for the cursor-returning C++-shaped model (audit C02 #4): the generated routine itself returns
   min(offset, capacity_bits) / 8, so the bound holds for ANY behaviour of the bitspan members; and when the specification's cursor
   stays inside the data the routine reports exactly that cursor *)
Theorem c02_cpp_shaped_consumed_le : forall Q t bits v c, cpp_walk_des Q t bits = Ok (v, c) -> 8 * c <= length bits.
Proof. exact cpp_walk_des_consumed_le. Qed.
Print Assumptions c02_cpp_shaped_consumed_le.

Theorem c02_cpp_shaped_consumed_exact : forall Q (Wd : nat -> Prop) t bits v k,
  (forall w, 1 <= w <= 64 -> Wd w) -> cget_law Q Wd bits -> wf_ty t = true -> length bits mod 8 = 0 ->
  dec_body t bits = Ok (v, k) -> k <= length bits -> cpp_walk_des Q t bits = Ok (v, k / 8).
Proof. exact cpp_walk_des_consumed_exact. Qed.
Print Assumptions c02_cpp_shaped_consumed_exact.

(* AUDIT 2/3 (size_t width): PRIMITIVE CALLS of the C deserializer at every width M >= 2^16 of size_t (Codec/InstancesCW.v over
   Prims/CPrimsW.v).  The walker's own arithmetic is in nat; Codec/WidthArith.v supplies what the side condition buys at routine level:
   every cursor stays <= max(cap, start) + tsz t (no `offset_bits +=` wraps when |bits| + tsz t < 2^W), and the C delimiter-header check
   compares BYTES (no product of an unvalidated header).  The C++ template multiplies first: the check stated with the product wrapped
   at the width of std::size_t equals the model's at W = 64 and is REFUTED at W = 32 (defect D1) - every C++ theorem is 64-bit only. *)
Theorem c02_c_cursor_bounded : forall P t buf cap off v o, wd_body P t buf cap off = Ok (v, o) -> o <= Nat.max cap off + tsz t.
Proof. exact c_cursor_bounded. Qed.
Print Assumptions c02_c_cursor_bounded.

Theorem c02_cpp_hdr_check_64_ok : forall remaining header, (header < 2 ^ 32)%N ->
  cpp_hdr_check_W (2 ^ 64) remaining header = cpp_hdr_check_nat remaining header.
Proof. exact cpp_hdr_check_64_ok. Qed.
Print Assumptions c02_cpp_hdr_check_64_ok.

Theorem c02_cpp_hdr_check_32_refuted : exists remaining header, (header < 2 ^ 32)%N /\
  cpp_hdr_check_nat remaining header = true /\ cpp_hdr_check_W (2 ^ 32) remaining header = false.
Proof. exact cpp_hdr_check_32_refuted. Qed.
Print Assumptions c02_cpp_hdr_check_32_refuted.

Theorem c02_cpp_hdr_check_bytes_ok : forall remaining header, (remaining mod 8 = 0)%N ->
  cpp_hdr_check_bytes remaining header = cpp_hdr_check_nat remaining header.
Proof. exact cpp_hdr_check_bytes_ok. Qed.
Print Assumptions c02_cpp_hdr_check_bytes_ok.

Theorem c02_c_walk_des_refines_W : forall M, (65536 <= M)%N -> forall (little : bool) t bits, wf_ty t = true ->
  length bits mod 8 = 0 -> (N.of_nat (length bits + tsz t) < M)%N ->
  walk_des (c_primsW M little) t bits = des_spec t bits.
Proof. exact c_walk_des_refines_W. Qed.
Print Assumptions c02_c_walk_des_refines_W.

Theorem c02_c_walk_des_refines_32 : forall little t bits, wf_ty t = true -> length bits mod 8 = 0 ->
  (N.of_nat (length bits + tsz t) < 2 ^ 32)%N -> walk_des (c_primsW (2 ^ 32) little) t bits = des_spec t bits.
Proof. exact c_walk_des_refines_32. Qed.
Print Assumptions c02_c_walk_des_refines_32.

(* (E) TARGET-SHAPED deserialization walkers (audit C02 #3, C01 #4) instead of the C walker run over foreign primitives.
   C++ (Codec/CppWalker.v, lang/cpp/templates/deserialization.j2: reads always through getU*/getI*/getBit/getF*, `align_offset_to<8>`,
   nested sealed objects through `subspan()` advancing by the reported (clamped) size, delimited ones through
   `subspan_bytes(header)`, result min(offset, capacity)/8): *)
Theorem c02_cpp_shaped_walk_des_refines_from_laws : forall Q (Wd : nat -> Prop) t bits,
  (forall w, 1 <= w <= 64 -> Wd w) -> cget_law Q Wd bits -> wf_ty t = true -> length bits mod 8 = 0 ->
  cpp_walk_des Q t bits = des_spec t bits.
Proof. exact cpp_walk_des_refines_on. Qed.
Print Assumptions c02_cpp_shaped_walk_des_refines_from_laws.

Theorem c02_cpp_shaped_walk_des_refines : forall t bits, wf_ty t = true -> length bits mod 8 = 0 ->
  (N.of_nat (length bits + tsz t) < CPrims.two64)%N ->
  cpp_walk_des cppw_prims t bits = des_spec t bits.
Proof. exact cppw_walk_des_refines. Qed.
Print Assumptions c02_cpp_shaped_walk_des_refines.

(* Python (Codec/PyDesWalker.v, lang/py/templates/deserialization.j2: ONE shared Deserializer - nested sealed objects continue on the
   same cursor, so the walker's cursor always equals the specification's; fetch_aligned_{u,i}N when standard width and statically
   aligned, else fetch_{aligned,unaligned}_{unsigned,signed}; fetch_unaligned_bit; float fetchers; the NumPy array fetchers
   array_of_bits / array_of_standard_bit_length_primitives; delimited objects through fork_bytes(header) + skip_bits).  The static
   alignment analysis is a parameter `sa`: the theorem holds for every sound annotation.  nunavut_support.deserialize reports no
   consumed size, so the statement is on the value / error (`res_val`). *)
Theorem c02_py_shaped_walk_des_refines : forall sa t bs, sa_sound sa -> wf_ty t = true -> length bs mod 8 = 0 ->
  py_walk_des pyd_prims sa t bs = res_val (des_spec t bs).
Proof. exact pyd_walk_des_refines_sa. Qed.
Print Assumptions c02_py_shaped_walk_des_refines.

Theorem c02_py_shaped_walk_body_refines : forall sa t bs, sa_sound sa -> wf_ty t = true -> length bs mod 8 = 0 ->
  pdw_body pyd_prims sa t nil bs 0 = dec_body t bs.
Proof. exact pyd_walk_body_refines. Qed.
Print Assumptions c02_py_shaped_walk_body_refines.

Theorem c02_py_shaped_walk_des_refines_from_laws : forall Q sa t bs, pyd_laws Q -> sa_sound sa -> wf_ty t = true ->
  length bs mod 8 = 0 -> py_walk_des Q sa t bs = res_val (des_spec t bs).
Proof. exact py_walk_des_refines_on. Qed.
Print Assumptions c02_py_shaped_walk_des_refines_from_laws.

(* AUDIT 2 (C02 #2): the static alignment analysis behind `offset.is_aligned_at_byte()` / `alignment_prefix` as a Coq abstract
   interpretation over residue sets (Codec/AlignSets.v) with soundness against the specification's cursor - which the Python-shaped
   walker's cursor equals: whenever the analysis says "aligned", the actual offset is a multiple of 8, for every input and every
   array length.  (Not done: building `sa : path -> nat -> bool` of PyDesWalker from `aft` by a path lookup.) *)
Theorem c02_alignment_analysis_sound : forall t bs v k s r, dec_body t bs = Ok (v, k) -> r mod align t = 0 -> In (r mod 8) s ->
  In ((r + k) mod 8) (aft t s).
Proof. exact aft_sound. Qed.
Print Assumptions c02_alignment_analysis_sound.

Theorem c02_aligned_after_sound : forall t bs v k s r, dec_body t bs = Ok (v, k) -> r mod align t = 0 -> In (r mod 8) s ->
  rs_aligned (aft t s) = true -> (r + k) mod 8 = 0.
Proof. exact aligned_after_sound. Qed.
Print Assumptions c02_aligned_after_sound.

(* (F) ERROR CHARACTERISATION (Spec/WireThmErr.v): a decode fails only with one of the three wire errors; WHICH one is the first
       offending node in decoding order (`first_bad`: a length prefix above its capacity, a union tag >= the number of variants, a
       delimiter header above the remaining bytes of the current (sub)stream, all earlier siblings decoding fine); errors other than
       EBadHdr are stable under zero extension, and a result other than EBadHdr does not change at all. *)
Theorem c02_dec_err_set : forall t bs e, dec_body t bs = Err e -> e = EBadLen \/ e = EBadTag \/ e = EBadHdr.
Proof. exact dec_err_set. Qed.
Print Assumptions c02_dec_err_set.

Theorem c02_dec_err_iff_first_bad : forall t bs e, dec_body t bs = Err e <-> first_bad t bs e.
Proof. exact dec_body_err_iff. Qed.
Print Assumptions c02_dec_err_iff_first_bad.

Theorem c02_dec_err_zero_ext : forall t bs e k, dec_body t bs = Err e -> e <> EBadHdr ->
  dec_body t (bs ++ repeat false k) = Err e.
Proof. exact dec_err_zero_ext. Qed.
Print Assumptions c02_dec_err_zero_ext.

Theorem c02_dec_zero_ext_settles : forall t bs k, dec_body t bs <> Err EBadHdr ->
  dec_body t (bs ++ repeat false k) = dec_body t bs.
Proof. exact dec_zero_ext_settles. Qed.
Print Assumptions c02_dec_zero_ext_settles.

Theorem c02_dec_err_zero_ext_unrestricted_refuted :
  ~ (forall t bs e k, dec_body t bs = Err e -> dec_body t (bs ++ repeat false k) = Err e).
Proof. exact dec_err_zero_ext_unrestricted_refuted. Qed.
Print Assumptions c02_dec_err_zero_ext_unrestricted_refuted.

(* (the quirk model of the removed Python assertion `consumed <= bit_length_set.max` - `Wire.dec_body_pa`, theorem
   c02_py_assert_refuted - and the superseded fragment theorems c02_walker_des_refines_partial / _bytes_partial live in
   coq/theories/History/C01_C02_history.v: /repo removed the assertion in 657d6ac, so they describe historical behaviour only) *)
Definition ex_bar : ty := TComp false [TPrim (PU 8 true); TPrim (PU 8 true)] (Some 64).
Definition ex_outer : ty := TComp false [ex_bar; TPrim (PU 8 true)] None.

Example c02_example_zero_ext : des_spec ex_outer [] = Ok (VStruct [VStruct [VInt 0; VInt 0]; VInt 0], 0).
Proof. vm_compute. reflexivity. Qed.
Example c02_example_bad_header : des_spec ex_outer (bits_of_bytes [3; 0; 0; 0; 5]%N) = Err EBadHdr.
Proof. vm_compute. reflexivity. Qed.

(* ---- source tie of the template bodies (Codec/TplTie.v; Generated/Gen_CodecTpl.v is rescanned from the .j2 files on every run) ---- *)
From Verif Require TplTieBase TplTieData Gen_CodecTpl TplTie.

Theorem c02_c_templates_match_walker :
  Gen_CodecTpl.gen_c_ser_dispatch = TplTieData.walker_c_ser_dispatch /\ Gen_CodecTpl.gen_c_ser_macros = TplTieData.walker_c_ser_macros /\
  Gen_CodecTpl.gen_c_des_dispatch = TplTieData.walker_c_des_dispatch /\ Gen_CodecTpl.gen_c_des_macros = TplTieData.walker_c_des_macros.
Proof. exact TplTie.c_templates_match_walker. Qed.
Print Assumptions c02_c_templates_match_walker.

Theorem c02_cpp_templates_match_walker :
  Gen_CodecTpl.gen_cpp_ser_dispatch = TplTieData.walker_cpp_ser_dispatch /\ Gen_CodecTpl.gen_cpp_ser_macros = TplTieData.walker_cpp_ser_macros /\
  Gen_CodecTpl.gen_cpp_des_dispatch = TplTieData.walker_cpp_des_dispatch /\ Gen_CodecTpl.gen_cpp_des_macros = TplTieData.walker_cpp_des_macros.
Proof. exact TplTie.cpp_templates_match_walker. Qed.
Print Assumptions c02_cpp_templates_match_walker.

Theorem c02_py_templates_match_walker :
  Gen_CodecTpl.gen_py_ser_dispatch = TplTieData.walker_py_ser_dispatch /\ Gen_CodecTpl.gen_py_ser_macros = TplTieData.walker_py_ser_macros /\
  Gen_CodecTpl.gen_py_des_dispatch = TplTieData.walker_py_des_dispatch /\ Gen_CodecTpl.gen_py_des_macros = TplTieData.walker_py_des_macros.
Proof. exact TplTie.py_templates_match_walker. Qed.
Print Assumptions c02_py_templates_match_walker.

(* the regenerated `_deserialize_integer` / `_deserialize_boolean` trees: capacity-guarded byte load iff aligned /\ unsigned /\
   width <= 8, getter otherwise, bool always guarded by `offset_bits < capacity_bits` - Walker.r_prim's split *)
Theorem c02_c_int_des_split_matches_walker : forall f,
  TplTie.emits TplTieBase.KGuard TplTie.pat2 (TplTie.c_int_des f) = (TplTie.f_al f && TplTie.f_uns f && TplTie.f_le8 f)%bool /\
  TplTie.emits TplTieBase.KCall TplTie.pat3 (TplTie.c_int_des f)
    = negb (TplTie.f_al f && TplTie.f_uns f && TplTie.f_le8 f) /\
  TplTie.emits TplTieBase.KGuard TplTie.pat4 (TplTie.c_bool_des f) = true.
Proof. exact TplTie.c_int_des_split_matches_walker. Qed.
Print Assumptions c02_c_int_des_split_matches_walker.

(* arrays: bulk copy (nunavutCopyBits / nunavutGetBits) exactly for bool and zero-cost primitive elements, element loop otherwise;
   the walker models all of them as the element loop (abstraction `TplTie.abs_array_path`) *)
Theorem c02_c_array_paths : forall b p w z,
  let f := TplTie.Build_aflags b p w z in
  TplTie.emits TplTieBase.KCall TplTie.pat5 (TplTie.c_farr_ser f) = (b || (p && z))%bool /\
  TplTie.emits TplTieBase.KMacro TplTie.pat6 (TplTie.c_farr_ser f) = negb (b || (p && z)) /\
  TplTie.emits TplTieBase.KMacro TplTie.pat7 (TplTie.c_farr_des f) = negb (b || (p && z)) /\
  TplTie.emits TplTieBase.KCall TplTie.pat8 (TplTie.c_farr_des f) = (b || (p && z))%bool.
Proof. exact TplTie.c_array_paths. Qed.
Print Assumptions c02_c_array_paths.

(* ---- DERIVED tie of the C deserialization templates (Codec/TplSem.v) ---- *)
From Verif Require TplSem.
Theorem c02_c_des_templates_are_walker_plans :
  (forall f, TplSem.sem_c_des TplSem.m_des_int (TplSem.rho_int f) = TplSem.plan_des_int f /\
             TplSem.sem_c_des TplSem.m_des_bool (TplSem.rho_int f) = TplSem.plan_des_bool f /\
             TplSem.sem_c_des TplSem.m_des_void (TplSem.rho_int f) = TplSem.plan_des_void) /\
  (forall f, TplSem.sem_c_des TplSem.m_des_float (TplSem.rho_float f) = TplSem.plan_des_float) /\
  (forall f, flat_map TplSem.bulk_is_loop (TplSem.sem_c_des TplSem.m_des_farr (TplSem.rho_arr f)) = TplSem.walker_ser_farr /\
             flat_map TplSem.bulk_is_loop (TplSem.sem_c_des TplSem.m_des_varr (TplSem.rho_arr f)) = TplSem.walker_des_varr) /\
  (forall f, TplSem.sem_c_des TplSem.m_des_comp (TplSem.rho_comp f) = TplSem.plan_des_comp f /\
             TplSem.sem_c_des TplSem.m_des_impl (TplSem.rho_loop f) = TplSem.plan_des_impl f /\
             TplSem.sem_c_des TplSem.m_pad (TplSem.rho_comp f) = TplSem.plan_des_pad).
Proof. exact TplSem.c_des_templates_are_walker_plans. Qed.
Print Assumptions c02_c_des_templates_are_walker_plans.

(* the integer / bool plans ARE Walker.r_prim *)
Theorem c02_r_prim_is_plan : forall P w sat buf cap off little,
  r_prim P (PU w sat) buf cap off = TplSem.exec_des_uint P (TplSem.plan_des_int (TplSem.facts_int true sat w off little)) w buf cap off /\
  r_prim P (PS w sat) buf cap off = TplSem.exec_des_sint P (TplSem.plan_des_int (TplSem.facts_int false sat w off little)) w buf cap off /\
  r_prim P PBool buf cap off = TplSem.exec_des_bool P (TplSem.plan_des_bool (TplSem.facts_int true sat w off little)) buf cap off.
Proof. exact TplSem.r_prim_is_plan. Qed.
Print Assumptions c02_r_prim_is_plan.

(* ---- round 7: executable structural plans (the plan derived from the template IS the walker's composite field); C++ ---- *)
From Verif Require TplSemCpp.
Theorem c02_wd_field_delimited_is_exec : forall P f u fs x buf cap off, TplSem.c_delim f = true ->
  wd_field P (wd_body P) (TComp u fs (Some x)) buf cap off =
  TplSem.exec_des_field P (TplSem.plan_des_comp f) (wd_body P (TComp u fs (Some x))) buf cap off (TplSem.d_init off).
Proof. exact TplSem.wd_field_delimited_is_exec. Qed.
Print Assumptions c02_wd_field_delimited_is_exec.
Theorem c02_wd_field_sealed_is_exec : forall P f u fs buf cap off, TplSem.c_delim f = false ->
  wd_field P (wd_body P) (TComp u fs None) buf cap off =
  TplSem.exec_des_field P (TplSem.plan_des_comp f) (wd_body P (TComp u fs None)) buf cap off (TplSem.d_init off).
Proof. exact TplSem.wd_field_sealed_is_exec. Qed.
Print Assumptions c02_wd_field_sealed_is_exec.
Theorem c02_cpp_des_templates_are_walker_plans : TplSemCpp.cpp_des_templates_are_walker_plans_statement.
Proof. exact TplSemCpp.cpp_des_templates_are_walker_plans. Qed.
Print Assumptions c02_cpp_des_templates_are_walker_plans.
