(* C13 — configuration sources are merged with a fixed, order-insensitive precedence.
   Statements only; proofs in Gen/ConfigThm.v, ConfigThm2.v, ConfigThmAlias.v.  The leaf rule
   (DefaultValue.assign_to_if_not_default), the body of deep_update, cpp _validate_language_options,
   the cpp option groups and the CLI wiring are regenerated from /repo into Generated/Gen_C13.v. *)
From Verif Require Import Config ConfigAlias ConfigThm ConfigThm2 ConfigThm3 ConfigThm4 ConfigThm5 ConfigThmProc ConfigThmAlias.
Require Import List Bool.
Import ListNotations.
Open Scope N_scope.

(* the model of deep_update solves the recursion equation translated from the Python source *)
Theorem c13_model_is_translated_deep_update : forall t s, wf s = true -> du t s = deep_update_step du t s.
Proof. exact du_satisfies_translated_equation. Qed.
Print Assumptions c13_model_is_translated_deep_update.

(* per-key law of one merge, for every shape (leaf/mapping, default/explicit, present/absent) *)
Theorem c13_merge_one_key : forall tm sm k, wf (Node sm) = true ->
  dget k (cv_items (du (Node tm) (Node sm))) = merge1 (dget k tm) (dget k sm).
Proof. exact merge_one_key. Qed.
Print Assumptions c13_merge_one_key.

(* closed form after merging any list of sources: fold of `pick` over the mentions of the path *)
Theorem c13_lookup_after_merge : forall p srcs base, p <> [] -> is_mapping base = true ->
  Forall (fun s => is_doc s = true) srcs ->
  leafy_on p base = true -> Forall (fun s => leafy_on p s = true) srcs ->
  lookup p (du_all base srcs) = fold_left pick (map (lookup p) srcs) (lookup p base).
Proof. exact lookup_after_merge. Qed.
Print Assumptions c13_lookup_after_merge.

Theorem c13_last_explicit_wins : forall p base before s after a,
  p <> [] -> is_mapping base = true ->
  Forall (fun x => is_doc x = true) (before ++ s :: after) ->
  leafy_on p base = true -> Forall (fun x => leafy_on p x = true) (before ++ s :: after) ->
  lookup p s = Some (Leaf false a) ->
  Forall (fun x => silent_or_default (lookup p x)) after ->
  lookup p (du_all base (before ++ s :: after)) = Some (Leaf false a).
Proof. exact last_explicit_wins. Qed.
Print Assumptions c13_last_explicit_wins.

Theorem c13_default_never_displaces_explicit : forall p t s a b,
  p <> [] -> is_mapping t = true -> is_doc s = true ->
  leafy_on p t = true -> leafy_on p s = true ->
  lookup p t = Some (Leaf false a) -> lookup p s = Some (Leaf true b) ->
  lookup p (du t s) = Some (Leaf false a).
Proof. exact default_never_displaces_explicit. Qed.
Print Assumptions c13_default_never_displaces_explicit.

Theorem c13_later_default_replaces_earlier_default : forall p base srcs s b,
  p <> [] -> is_mapping base = true ->
  Forall (fun x => is_doc x = true) (srcs ++ [s]) ->
  leafy_on p base = true -> Forall (fun x => leafy_on p x = true) (srcs ++ [s]) ->
  lookup p s = Some (Leaf true b) ->
  silent_or_default (lookup p (du_all base srcs)) ->
  lookup p (du_all base (srcs ++ [s])) = Some (Leaf true b).
Proof. exact later_default_replaces_earlier_default. Qed.
Print Assumptions c13_later_default_replaces_earlier_default.

(* keys a later source does not mention keep their value *)
Theorem c13_untouched_keys_kept : forall p srcs base, is_mapping base = true ->
  Forall (fun s => is_doc s = true /\ untouched p s = true) srcs ->
  lookup p (du_all base srcs) = lookup p base.
Proof. exact untouched_keys_kept_all. Qed.
Print Assumptions c13_untouched_keys_kept.

(* deep union: key sets are united and nested mappings are merged key-wise, at every depth *)
Theorem c13_deep_union_keys : forall tm sm k, wf (Node sm) = true ->
  dmem k (cv_items (du (Node tm) (Node sm))) = dmem k tm || dmem k sm.
Proof. exact deep_union_keys. Qed.
Print Assumptions c13_deep_union_keys.

Theorem c13_deep_union_nested : forall p t s a b, is_mapping t = true -> is_doc s = true ->
  lookup p t = Some (Node a) -> lookup p s = Some (Node b) ->
  lookup p (du t s) = Some (du (Node a) (Node b)).
Proof. exact deep_union_nested. Qed.
Print Assumptions c13_deep_union_nested.

Theorem c13_new_subtree_is_copied : forall s, wf s = true -> is_mapping s = true -> du (Node []) s = s.
Proof. exact du_into_empty_is_copy. Qed.
Print Assumptions c13_new_subtree_is_copied.

(* builder: create() depends only on (ordered files, final override map, last language) ... *)
Theorem c13_builder_canonical : forall builtin ops,
  bcreate (fold_left bapply ops (new_builder builtin))
  = bcreate (canonical_builder builtin (files_of ops) (overrides_of ops []) (language_of ops None)).
Proof. exact builder_canonical. Qed.
Print Assumptions c13_builder_canonical.

(* ... hence any two interleavings with the same files (in order), language and override map agree *)
Theorem c13_builder_order_insensitive : forall builtin ops1 ops2,
  files_of ops1 = files_of ops2 ->
  language_of ops1 None = language_of ops2 None ->
  (forall k, dget k (overrides_of ops1 []) = dget k (overrides_of ops2 [])) ->
  match bcreate (fold_left bapply ops1 (new_builder builtin)), bcreate (fold_left bapply ops2 (new_builder builtin)) with
  | Some s1, Some s2 => sections_equiv s1 s2
  | None, None => True
  | _, _ => False
  end.
Proof. exact builder_order_insensitive. Qed.
Print Assumptions c13_builder_order_insensitive.

(* CLI: the translated _create_language_context; defaults of the command line never displace file values *)
Theorem c13_cli_defaults_never_displace : forall arg files builtin s l k v s',
  merge_files (Some builtin) files = Some s ->
  language_of (cli_ops arg files) None = Some l ->
  bcreate (fold_left bapply (cli_ops arg files) (new_builder builtin)) = Some s' ->
  lookup [section_of l; key_options; k] (Node s) = Some v -> is_default v = false ->
  match dget k (cli_language_options arg) with None => True | Some o => is_default o = true end ->
  lookup [section_of l; key_options; k] (Node s') = Some v.
Proof. exact cli_defaults_never_displace. Qed.
Print Assumptions c13_cli_defaults_never_displace.

(* the same over the REGENERATED argparse table: `given` is what is literally on the command line, the parsed Namespace is
   cli_args given (defaults read from the add_argument calls of cli/__init__.py); a flag that is not given never displaces a
   file value.  Breaks when a default becomes explicit (default="any", a DefaultValue wrapper removed, ...). *)
Theorem c13_cli_flag_not_given_never_displaces : forall given files builtin s l k d v s',
  In (k, d) cli_option_sources -> given d = None ->
  merge_files (Some builtin) files = Some s ->
  language_of (cli_ops (cli_args given) files) None = Some l ->
  bcreate (fold_left bapply (cli_ops (cli_args given) files) (new_builder builtin)) = Some s' ->
  lookup [section_of l; key_options; k] (Node s) = Some v -> is_default v = false ->
  lookup [section_of l; key_options; k] (Node s') = Some v.
Proof. exact cli_flag_not_given_never_displaces. Qed.
Print Assumptions c13_cli_flag_not_given_never_displaces.

Theorem c13_explicit_override_wins : forall s name over opts k a,
  dnodup over = true -> dnodup opts = true ->
  dget key_options over = Some (Node opts) ->
  dget k opts = Some (Leaf false a) ->
  lookup [name; key_options; k] (Node (update_section s name (Node over))) = Some (Leaf false a).
Proof. exact explicit_override_wins. Qed.
Print Assumptions c13_explicit_override_wins.

(* END-TO-END chain: for every sequence of builder calls, create() = deep_update folded over
   built-in, file_1 .. file_n (in the order added), and last the override map *)
Theorem c13_end_to_end_chain : forall builtin ops s',
  bcreate (fold_left bapply ops (new_builder builtin)) = Some s' ->
  exists l, resolve_language (canonical_builder builtin (files_of ops) (overrides_of ops []) (language_of ops None)) = Some l
            /\ Node s' = du_all (Node builtin) (files_of ops ++ [override_doc l (overrides_of ops [])]).
Proof. exact end_to_end_chain. Qed.
Print Assumptions c13_end_to_end_chain.

(* ... hence one precedence for every key path: built-in < file_1 < .. < file_n < overrides, as the fold of `pick`
   (later explicit wins; a DefaultValue never displaces an explicit value; a later default replaces an earlier default) *)
Theorem c13_end_to_end_precedence : forall builtin ops s' p,
  bcreate (fold_left bapply ops (new_builder builtin)) = Some s' ->
  p <> [] ->
  Forall (fun d => is_doc d = true) (files_of ops) -> wf (Node (overrides_of ops [])) = true ->
  leafy_on p (Node builtin) = true -> Forall (fun d => leafy_on p d = true) (files_of ops) ->
  (forall l, leafy_on p (override_doc l (overrides_of ops [])) = true) ->
  exists l,
    lookup p (Node s') =
    pick (fold_left pick (map (lookup p) (files_of ops)) (lookup p (Node builtin)))
         (lookup p (override_doc l (overrides_of ops []))).
Proof. exact end_to_end_precedence. Qed.
Print Assumptions c13_end_to_end_precedence.

Theorem c13_merge_files_is_du_all : forall files b s,
  merge_files (Some b) files = Some s -> Node s = du_all (Node b) files.
Proof. exact merge_files_is_du_all. Qed.
Print Assumptions c13_merge_files_is_du_all.

(* EFFECTIVE option = what Language.get_option / `options.k` in a template is after Language.__init__, for every key:
   the merged value of the chain above, EXCEPT (cpp) the keys of the group selected by the merged `std`, which take the
   group's value whatever any source said explicitly, and (py) enable_serialization_asserts, forced to True.
   So c13_last_explicit_wins & co. describe the effective value exactly for the keys outside these exceptions. *)
Theorem c13_effective_option : forall lk sections sec opts,
  fst (language_init lk sections sec) = Some opts ->
  (forall g, selected_group sections sec = Some g -> dnodup g = true) ->
  forall k, dget k opts = effective_option lk sections sec k.
Proof. exact effective_option_after_init. Qed.
Print Assumptions c13_effective_option.

Theorem c13_effective_option_is_chain_or_exception : forall lk sections sec k,
  effective_option lk sections sec k = lookup [sec; key_options; k] (Node sections)
  \/ (lk = LkCpp /\ exists g v, selected_group sections sec = Some g /\ dget k g = Some v /\ effective_option lk sections sec k = Some v)
  \/ (lk = LkPy /\ k = key_esa /\ effective_option lk sections sec k = Some (Leaf false (ABool true))).
Proof. exact effective_option_is_chain_or_exception. Qed.
Print Assumptions c13_effective_option_is_chain_or_exception.

(* cpp: the translated _validate_language_options applies the group selected by `std` as a unit *)
Theorem c13_cpp_std_shorthand_unit : forall defaults options options' stdv std g,
  dget cpp_key_std options = Some stdv -> cv_str stdv = Some std ->
  dget std defaults = Some (Node g) -> dnodup g = true ->
  cpp_validate_language_options defaults options = Some options' ->
  forall k, dget k options' = match dget k g with Some v => Some v | None => dget k options end.
Proof. exact cpp_std_shorthand_unit. Qed.
Print Assumptions c13_cpp_std_shorthand_unit.

Theorem c13_cpp_documented_groups_covered : documented_groups_covered = true.
Proof. exact documented_groups_covered_ok. Qed.
Print Assumptions c13_cpp_documented_groups_covered.

(* values, not only keys: every documented (shorthand, key, value) of docs/languages.rst is what the group regenerated from
   properties.yaml applies (F-DOC-STDGROUP was fixed in 544e429, no exemption is left); every
   shorthand of properties.yaml is documented and vice versa *)
Theorem c13_cpp_documented_group_values : 
  doc_value_mismatches = []
  /\ length cpp_documented_groups = length cpp_std_groups
  /\ forallb (fun ng => dmem (fst ng) cpp_documented_groups) cpp_std_groups = true.
Proof. exact documented_group_values_agree. Qed.
Print Assumptions c13_cpp_documented_group_values.

(* KNOWN AND DELIBERATE boundary of "later/explicit wins" (stated reading of the property: a std shorthand sets its group
   "as a unit"): the group selected by the merged `std` overrides an explicit value of a group key even when that value
   comes from a LATER / higher-precedence source than the one that selected the shorthand (earlier file `std: c++17-pmr`,
   later file `allocator_type: m`: the chain says m, get_option says the group's allocator).  Reproduced on /repo; recorded
   in DESIGN as the stated reading, not a finding. *)
Theorem c13_shorthand_group_overrides_even_later_explicit :
  let merged := du_all (Node sh_builtin) [sh_file1; sh_file2] in
  lookup [sh_sec; key_options; cpp_key_alloc] sh_file2 = Some (Leaf false (AStr [109]))
  /\ untouched [sh_sec; key_options; cpp_key_std] sh_file2 = true
  /\ lookup [sh_sec; key_options; cpp_key_alloc] merged = Some (Leaf false (AStr [109]))
  /\ exists v, effective_option LkCpp (cv_items merged) sh_sec cpp_key_alloc = Some v /\ v <> Leaf false (AStr [109]).
Proof. exact shorthand_group_overrides_even_later_explicit. Qed.
Print Assumptions c13_shorthand_group_overrides_even_later_explicit.

Theorem c13_cpp_builtin_shorthands_apply : forallb (fun ng => shorthand_applies (fst ng)) cpp_std_groups = true.
Proof. exact builtin_shorthands_apply. Qed.
Print Assumptions c13_cpp_builtin_shorthands_apply.

(* source documents.  ABSTRACTION: this is a statement about OWNERSHIP/REACHABILITY, not about heap contents: dict nodes of
   the sources are tagged, and with the copy function the code uses NOW (regenerated flag) no tagged dict object is reachable
   from the merged configuration, for all bases and source lists.  That an unreachable dict cannot be modified by later merges
   is argued (all writes of deep_update go through objects reachable from the target), not proved.  NOT covered: list objects
   (atoms `AList`): `target[key] = value` stores the source's list by reference; YAML anchors/aliases.  The implementation side
   is checked on every run by deep-comparing every source document object (yaml-loaded dicts incl. nested lists, API
   documents, override values) before and after all builder operations and observations (tools/harness/c13_impl.py). *)
Theorem c13_sources_unmodified : forall base srcs,
  has_src (tmerge_all deep_update_copies_deeply base srcs) = false.
Proof. intros. apply sources_unmodified_ownership. reflexivity. Qed.
Print Assumptions c13_sources_unmodified.

Theorem c13_ownership_model_is_du : forall deep s t, erase (tdu deep t s) = du (erase t) (erase s).
Proof. exact tdu_erase. Qed.
Print Assumptions c13_ownership_model_is_du.

(* contexts.  LanguageConfig objects have identity (heap locations); builders and contexts hold locations.
   Obligation on the code as it is NOW (regenerated from the shape of create()/_detached_builder): create() gives the new
   context a fresh deep copy.  A regression to sharing the builder's object makes this `reflexivity` fail. *)
Theorem c13_create_detaches_config : create_detaches_config = true.
Proof. reflexivity. Qed.
Print Assumptions c13_create_detaches_config.

(* NON-INTERFERENCE for every history of the process: nothing but the context's own lazy construction of its non-target
   languages changes what an existing context reports -- not other builders, not the same builder, not further create()s,
   not other contexts.  (Stated with the regenerated flag: does not type-check unless the flag is `true`.) *)
Theorem c13_context_noninterference : forall builtin ops1 ops2 c,
  (c < length (p_ctxs (prun create_detaches_config builtin ops1 empty_proc)))%nat ->
  forallb (fun o => negb (pop_observes c o)) ops2 = true ->
  ctx_report (prun create_detaches_config builtin ops2 (prun create_detaches_config builtin ops1 empty_proc)) c
  = ctx_report (prun create_detaches_config builtin ops1 empty_proc) c.
Proof. exact context_noninterference_from_start. Qed.
Print Assumptions c13_context_noninterference.

(* the invariant behind it: no context holds a builder's LanguageConfig object, no two contexts hold the same object *)
Theorem c13_separation_invariant : forall builtin ops, sep (prun create_detaches_config builtin ops empty_proc).
Proof. intros. apply prun_sep, sep_empty. Qed.
Print Assumptions c13_separation_invariant.

(* getters of LanguageConfig: _get_config_value_raw (@no_default_value), get_config_value, get_config_value_as_bool,
   get_config_value_as_dict and get_config_value_as_list are TRANSLATED from the source (Gen_C13.LanguageConfig_...);
   Config.config_value* are typed views of the translated functions.  What they return, for every configuration whose
   sections are mappings, every section, key and default: *)
Theorem c13_as_bool_truth_table : forall sections section k dflt, section_ok sections section = true ->
  config_value_as_bool sections section k dflt =
  match config_lookup sections section k with
  | None => CfgOk dflt
  | Some (Leaf _ a) => match bool_table a with Some b => CfgOk b | None => CfgUnmodelled end
  | Some (Node _) => CfgUnmodelled
  end.
Proof. exact as_bool_truth_table. Qed.
Print Assumptions c13_as_bool_truth_table.

Theorem c13_config_value_spec : forall sections section k dflt, section_ok sections section = true ->
  config_value sections section k dflt =
  match config_lookup sections section k with
  | None => match dflt with Some d => CfgOk d | None => CfgKeyError end
  | Some (Leaf _ ANone) => CfgOk []
  | Some (Leaf _ a) => match py_str a with Some s => CfgOk s | None => CfgUnmodelled end
  | Some (Node _) => CfgUnmodelled
  end.
Proof. exact config_value_spec. Qed.
Print Assumptions c13_config_value_spec.

Theorem c13_config_value_as_dict_spec : forall sections section k dflt, section_ok sections section = true ->
  config_value_as_dict sections section k dflt =
  match config_lookup sections section k with
  | Some (Node m) => CfgOk m
  | Some (Leaf _ _) => match dflt with Some d => CfgOk d | None => CfgTypeError end
  | None => match dflt with Some d => CfgOk d | None => CfgKeyError end
  end.
Proof. exact config_value_as_dict_spec. Qed.
Print Assumptions c13_config_value_as_dict_spec.

Theorem c13_config_value_as_list_spec : forall sections section k dflt, section_ok sections section = true ->
  config_value_as_list sections section k dflt =
  match config_lookup sections section k with
  | Some (Leaf _ (AList i)) => CfgOk i
  | Some _ => match dflt with Some d => CfgOk d | None => CfgTypeError end
  | None => match dflt with Some d => CfgOk d | None => CfgKeyError end
  end.
Proof. exact config_value_as_list_spec. Qed.
Print Assumptions c13_config_value_as_list_spec.

(* the raw getter under @no_default_value: the stored entry without its DefaultValue wrapper; the default (also unwrapped)
   only when the section or the key is missing; KeyError when it is _UNSET *)
Theorem c13_raw_getter_spec : forall sections section k d, section_ok sections section = true ->
  LanguageConfig__get_config_value_raw sections (pv_str section) (pv_str k) d =
  match config_lookup sections section k with
  | Some v => CfgOk (PV (unwrap_default v))
  | None => match d with PUnset => CfgKeyError | PV x => CfgOk (PV (unwrap_default x)) end
  end.
Proof. exact raw_spec. Qed.
Print Assumptions c13_raw_getter_spec.

(* sub-maps that are ONE object inside a source (YAML anchors, one dict under two keys): the heap model expresses them (dcv,
   hload_dag, memo-faithful hdeepcopy).  The code rebuilds the deep copy key by key (regenerated fact deep_update_rebuilds_copy, obligation
   below), so a later source cannot change a key it never mentions through a shared sub-map; what the plain deepcopy did
   (F-CFG-ALIASMAP, fixed) is in History/C13_history.v.  A universally quantified statement for the rebuilt
   copy on the heap model is NOT proved; the correspondence run compares the heap model with deep_update on random shared documents. *)
Theorem c13_rebuilt_copy_keeps_unmentioned_key :
  lookup [[101]; [98]; [107]] (fst (hmerge_dag_scenario true true am_base [am_src1; am_src2])) = Some (Leaf false (AInt 1))
  /\ lookup [[101]; [97]; [107]] (fst (hmerge_dag_scenario true true am_base [am_src1; am_src2])) = Some (Leaf false (AInt 2))
  /\ snd (hmerge_dag_scenario true true am_base [am_src1; am_src2])
     = [dag_expand 8 [(1, DNode 1 [([107], DLeaf false (AInt 1))])] am_src1; dag_expand 8 [] am_src2].
Proof. exact rebuilt_copy_keeps_unmentioned_key. Qed.
Print Assumptions c13_rebuilt_copy_keeps_unmentioned_key.

(* `_strip_default_markers` (F-CFG-WRAPPER fix): afterwards no DefaultValue marker is left at any depth of what the context
   holds, and every lookup gives the same value without its marking *)
Theorem c13_stripped_sections_have_no_markers : forall s, all_explicit (Node (strip_sections s)) = true.
Proof. exact stripped_sections_have_no_markers. Qed.
Print Assumptions c13_stripped_sections_have_no_markers.

Theorem c13_strip_markers_lookup : forall p v, lookup p (strip_markers v) = option_map strip_markers (lookup p v).
Proof. exact strip_markers_lookup. Qed.
Print Assumptions c13_strip_markers_lookup.

(* ---- fix state: obligations on the regenerated facts (reflexivity; a regression or an unannounced landing fails here) ---- *)
Example c13_fix_F_CFG_ALIAS_landed : deep_update_copies_deeply = true.            Proof. reflexivity. Qed.
Example c13_fix_F_CFG_REUSE_landed : create_detaches_config = true.               Proof. reflexivity. Qed.
Example c13_fix_F_CFG_ALIASMAP_landed : deep_update_rebuilds_copy = true.        Proof. reflexivity. Qed.
Example c13_fix_F_CFG_WRAPPER_landed : create_strips_default_markers = true.     Proof. reflexivity. Qed.
Example c13_fix_F_CFG_EMPTYDOC_landed : yaml_empty_document_is_identity = true.  Proof. reflexivity. Qed.
Example c13_fix_F_CFG_REPEATC_landed : cli_configuration_accumulates = true.     Proof. reflexivity. Qed.

(* ---- non-vacuity: the hypotheses are satisfiable and the conclusions discriminate ---------------- *)
Definition ex_base : cv := Node [([97], Leaf true (AInt 1)); ([98], Leaf false (AInt 2)); ([110], Node [([120], Leaf false (AInt 0))])].
Definition ex_s1 : cv := Node [([97], Leaf false (AInt 3)); ([98], Leaf true (AInt 4))].
Definition ex_s2 : cv := Node [([97], Leaf true (AInt 5)); ([98], Leaf false (AInt 6)); ([110], Node [([121], Leaf false (AInt 9))])].

Example c13_ex_docstring :   (* the DefaultValue docstring of _utilities.py: merged = {a: 3, b: 6} *)
  lookup [[97]] (du_all ex_base [ex_s1; ex_s2]) = Some (Leaf false (AInt 3))
  /\ lookup [[98]] (du_all ex_base [ex_s1; ex_s2]) = Some (Leaf false (AInt 6))
  /\ lookup [[110]; [120]] (du_all ex_base [ex_s1; ex_s2]) = Some (Leaf false (AInt 0))
  /\ lookup [[110]; [121]] (du_all ex_base [ex_s1; ex_s2]) = Some (Leaf false (AInt 9)).
Proof. vm_compute. auto. Qed.

Example c13_ex_hypotheses_hold :
  is_mapping ex_base = true /\ forallb is_doc [ex_s1; ex_s2] = true
  /\ leafy_on [[97]] ex_base = true /\ forallb (leafy_on [[97]]) [ex_s1; ex_s2] = true
  /\ untouched [[110]; [120]] ex_s2 = true /\ untouched [[110]; [120]] ex_s1 = true
  /\ leafy_on [[110]; [121]] ex_base = true /\ forallb (leafy_on [[110]; [121]]) [ex_s1; ex_s2] = true     (* a nested path *)
  /\ lookup [[110]; [121]] (du_all ex_base [ex_s1; ex_s2])
     = fold_left pick (map (lookup [[110]; [121]]) [ex_s1; ex_s2]) (lookup [[110]; [121]] ex_base).
Proof. vm_compute. auto 12. Qed.

Example c13_ex_shape_conflicts :   (* mapping replaces leaf; explicit leaf replaces mapping; default leaf does not *)
  du (Node [([97], Leaf false (AInt 1))]) (Node [([97], Node [([120], Leaf false (AInt 2))])]) = Node [([97], Node [([120], Leaf false (AInt 2))])]
  /\ du (Node [([97], Node [([120], Leaf false (AInt 2))])]) (Node [([97], Leaf false (AInt 1))]) = Node [([97], Leaf false (AInt 1))]
  /\ du (Node [([97], Node [([120], Leaf false (AInt 2))])]) (Node [([97], Leaf true (AInt 1))]) = Node [([97], Node [([120], Leaf false (AInt 2))])].
Proof. vm_compute. auto. Qed.

Example c13_ex_cpp_pmr :   (* -std c++17-pmr on the built-in tables: std becomes c++17, the allocator group is set *)
  match cpp_validate_language_options builtin_defaults
          (dset cpp_key_std (Leaf false (AStr [99; 43; 43; 49; 55; 45; 112; 109; 114])) cpp_builtin_options) with
  | Some o => dget cpp_key_std o = Some (Leaf false (AStr [99; 43; 43; 49; 55]))
              /\ dget cpp_key_ctor o = Some (Leaf false (AStr [117; 115; 101; 115; 45; 116; 114; 97; 105; 108; 105; 110; 103; 45; 97; 108; 108; 111; 99; 97; 116; 111; 114]))
  | None => False
  end.
Proof. vm_compute. auto. Qed.

Example c13_ex_cli_default_kept :   (* file says enable_serialization_asserts: true, flag not given -> stays true *)
  let k := [101; 110; 97; 98; 108; 101; 95; 115; 101; 114; 105; 97; 108; 105; 122; 97; 116; 105; 111; 110; 95; 97; 115; 115; 101; 114; 116; 115] in
  let builtin := [(section_of [99], Node [(key_options, Node [(k, Leaf false (ABool false))])])] in
  let file := Node [(section_of [99], Node [(key_options, Node [(k, Leaf false (ABool true))])])] in
  match bcreate (fold_left bapply (cli_ops (fun _ => None) [file]) (new_builder builtin)) with
  | Some s' => lookup [section_of [99]; key_options; k] (Node s') = Some (Leaf false (ABool true))
  | None => False
  end.
Proof. vm_compute. reflexivity. Qed.

Example c13_ex_bool_table :   (* true, "False", "FALSE", "0", 0, "", None, "no" (truthy!), 12, -3, DefaultValue(True) *)
  map bool_table [ABool true; AStr [70; 97; 108; 115; 101]; AStr [70; 65; 76; 83; 69]; AStr [48]; AInt 0; AStr []; ANone;
                  AStr [110; 111]; AInt 12; AInt (-3)]
  = [Some true; Some false; Some false; Some false; Some false; Some false; Some false; Some true; Some true; Some true]
  /\ config_value_as_bool [([115], Node [([107], Leaf true (ABool true))])] [115] [107] false = CfgOk true
  /\ config_value [([115], Node [([107], Leaf false (AInt (-305)))])] [115] [107] None = CfgOk [45; 51; 48; 53].
Proof. vm_compute. auto. Qed.

Example c13_ex_effective_option :   (* file says std: c++17-pmr and allocator_type: mine -> the group value is effective *)
  let sec := section_of [99; 112; 112] in
  let sections := [(sec, Node [(key_options, Node (dset cpp_key_alloc (Leaf false (AStr [109]))
                                                   (dset cpp_key_std (Leaf false (AStr [99; 43; 43; 49; 55; 45; 112; 109; 114])) cpp_builtin_options)));
                               (key_defaults, Node builtin_defaults)])] in
  effective_option LkCpp sections sec cpp_key_alloc <> merged_option sections sec cpp_key_alloc
  /\ merged_option sections sec cpp_key_alloc = Some (Leaf false (AStr [109]))
  /\ effective_option LkCpp sections sec [99; 97; 115; 116; 95; 102; 111; 114; 109; 97; 116]
     = merged_option sections sec [99; 97; 115; 116; 95; 102; 111; 114; 109; 97; 116].
Proof. vm_compute. repeat split; congruence. Qed.

Example c13_ex_null_is_an_explicit_value :   (* `options:` with no value is YAML null = an explicit scalar: it replaces the sub-map (stated
                                                reading, shape conflicts "as the code does"); an empty document (yaml None) is the identity *)
  du (Node [([111], Node [([97], Leaf false (AInt 1))])]) (Node [([111], Leaf false ANone)]) = Node [([111], Leaf false ANone)]
  /\ merge_files (Some [([111], Node [([97], Leaf false (AInt 1))])]) [Leaf false ANone] = Some [([111], Node [([97], Leaf false (AInt 1))])].
Proof. vm_compute. auto. Qed.
