(* C10 -- per-type output ignores sibling types, processing order and earlier runs in the same interpreter.
   Statements only; every proof is `exact <lemma>` or a short composition.  Theorems about code that is no longer in /repo
   (the shared LimitEmptyLines counter, F-LEL-LEAK) live in History/C10_history.v.
   Models: Gen/GenState.v (hand model of the generator process: unique-name singleton, memo tables looked up through the key
   projection the site inventory dictates, a scratch state visible exactly when the store inventory has an inadmissible
   entry, per-generator line post-processor objects and loader memo, _generate_code, generate_all with per-call arguments,
   dry runs, histories; tied by correspondence), Generated/Gen_Uniq.v (T2 translation of UniqueNameGenerator, LimitEmptyLines.reset
   and the translated reset facts), Generated/Gen_LinePP.v, Generated/Gen_Sites.v (inventories regenerated from src/nunavut:
   memoisation sites, stores on long-lived objects with their phase, unique-name filters), Gen/Lookup.v + Generated/Gen_Lookup.v
   (C16's lookup model and the regenerated pydsdl class forest, imported).
   `log ... h` = the files written by history h started in a new interpreter. *)
From Verif Require Import GenState GenStateThm GenStateSites Gen_Sites GenStateThmSites GenStateThmSubset.
From Verif Require Lookup LookupThm LookupInst LookupInstThm.
Open Scope N_scope.

(* ---------------------------------------------------------------------------------------------------------------------- *)
(* (1) the unique-name generator                                                                                          *)
(* (1) uniq_reset: after UniqueNameGenerator.reset() the names handed out are a function of THIS file's call sequence only:
   the number in the i-th name is the number of earlier calls of this file with the same (key, base token). *)
Theorem C10_uniq_reset :
  forall calls : list ucall, uniq_run UniqueNameGenerator_init calls = names_spec [] calls.
Proof. exact uniq_reset_lemma. Qed.
Print Assumptions C10_uniq_reset.

(* ... and _generate_code does call reset() before the template generator is consumed (fact translated from the source) *)
Theorem C10_generate_code_resets : generate_code_resets_uniq = true /\ generate_code_uses_generator_pps = true.
Proof. split; reflexivity. Qed.
Print Assumptions C10_generate_code_resets.

(* the line processors: _generate_code tells every line processor that a new file begins (translated facts: the call
   `line_pps.append(_reset_line_pp(pp))` precedes the consumption of the template generator, _reset_line_pp calls reset(),
   and the translated LimitEmptyLines.reset restores the constructed state).  With that the statement holds with NO side
   condition.  `negb generate_code_resets_line_pps` is the model's lel_shared: if the reset call disappears from the source
   this theorem no longer type-checks. *)
Theorem C10_line_pps_reset :
  generate_code_resets_line_pps = true /\
  forall s : LimitEmptyLines_state,
    pp_fresh (PLimit s) = PLimit (LimitEmptyLines_reset s) /\
    LimitEmptyLines_reset s = LimitEmptyLines_init (LimitEmptyLines_max_empty_lines s).
Proof. split; [reflexivity | exact lel_reset_fresh]. Qed.
Print Assumptions C10_line_pps_reset.

(* ---------------------------------------------------------------------------------------------------------------------- *)
(* (2) memo tables                                                                                                        *)
(* (2) cache transparency: a call through an lru_cache/dict memo whose entries were all produced by the function returns what
   the function returns and keeps the table valid -- any maxsize, any eviction, any history of calls. *)
Theorem C10_cache_transparent :
  forall (f : ckey -> str) (maxsize : option nat) (c : cache) (k : ckey),
    cache_ok f c -> snd (lru_call f maxsize c k) = f k /\ cache_ok f (fst (lru_call f maxsize c k)).
Proof. exact lru_call_transparent. Qed.
Print Assumptions C10_cache_transparent.

(* (2') why the key matters: a memo looked up through a projection of the arguments is transparent when the memoised function
   reads only what the projection keeps, and NOT otherwise (second call returns the first call's value). *)
Theorem C10_keyed_cache_transparent :
  forall (proj : ckey -> ckey) (g : ckey -> str) (maxsize : option nat) (c : cache) (k : ckey),
    cache_ok g c ->
    snd (proj_call proj (fun k => g (proj k)) maxsize c k) = g (proj k) /\
    cache_ok g (fst (proj_call proj (fun k => g (proj k)) maxsize c k)).
Proof. exact proj_cache_transparent. Qed.
Print Assumptions C10_keyed_cache_transparent.

Theorem C10_coarse_key_refuted :
  exists (proj : ckey -> ckey) (f : ckey -> str) (k1 k2 : ckey),
    let c1 := fst (proj_call proj f None [] k1) in
    snd (proj_call proj f None c1 k2) = f k1 /\ f k1 <> f k2.
Proof. exact coarse_key_refuted_lemma. Qed.
Print Assumptions C10_coarse_key_refuted.

(* ---------------------------------------------------------------------------------------------------------------------- *)
(* (3) the inventories regenerated from the source on every run (facts by vm_compute; they are PREMISES of (5))           *)

(* every memoisation site (lru_cache/cache, cached_property, instance memos, lazy fields, singletons, mutable containers,
   global) is keyed by the identity of self and by-value arguments / is per instance / is never written / is replaced per
   file, and no caller modifies a memoised value.  No exception is listed at present. *)
Theorem C10_all_caches_keyed_by_identity_or_value : forallb site_ok g_sites = true.
Proof. exact sites_admissible_strict_lemma. Qed.
Print Assumptions C10_all_caches_keyed_by_identity_or_value.

(* ... and every site is in the committed, reviewed inventory (a new cache, a cache moved to module level or to another class,
   a changed kind must be reviewed and added to GenStateSites.expected_sites) *)
Theorem C10_sites_in_inventory : forallb in_inventory g_sites = true.
Proof. exact sites_in_inventory_lemma. Qed.
Print Assumptions C10_sites_in_inventory.

(* every STORE on an object that outlives a file (attribute / item store, augmented assignment, del, setattr, mutating method
   call on self, cls, a module global, a closed-over variable or an alias of something reached from them; outside __init__;
   every module of src/nunavut) that lies in the render phase (reachable from generate_all, a post-processor's __call__, any
   filter / test / uses-query) is classified: reset per file (needs the translated reset facts), overwritten per
   generate_all call, memo of a pure function, or reviewed setup code.  An unclassified store -- e.g. a counter on a
   post-processor, which is what F-LEL-LEAK was -- makes this false. *)
Theorem C10_stores_classified : forallb (store_ok reset_facts) g_stores = true.
Proof. exact stores_classified_lemma. Qed.
Print Assumptions C10_stores_classified.

(* every unique-name filter is registered (decorator, or module-level re-binding through the decorator) so that it runs at render
   time; no exception *)
Theorem C10_uniq_filters_render_time :
  forallb filter_ok g_uniq_filters = true.
Proof. exact uniq_filters_lemma. Qed.
Print Assumptions C10_uniq_filters_render_time.

(* THE SIBLING CLAUSE, static part: every READ that spans more than a type and its dependency closure -- any use of the Namespace API
   (public names regenerated from class Namespace), of the generator's namespace attribute, of environment globals, of the language
   context, of get_includes / get_dependency_builder -- in render-phase Python code and in every template a TYPE file can be made of
   (include/import/extends graph from the templates the lookup can select for a type) is on the reviewed list: the API's own
   implementation, generate_all deciding which files to write, a lookup by the referenced type, a constant of the run.  Templates
   reachable only from Namespace.j2 may list their namespace's types.  An unaccounted read makes the model hand the run's INPUT SET
   to `render` (reads_leak), and C10_file_indep / C10_subset are no longer derivable. *)
Theorem C10_sibling_reads_classified : forallb read_ok g_wide_reads = true.
Proof. exact wide_reads_classified_lemma. Qed.
Print Assumptions C10_sibling_reads_classified.

(* the hand classifications were made for particular function bodies: every function that has a render-phase store or a wide read
   has the shape (shape_pin-normalised digest) it had when it was reviewed *)
Theorem C10_classified_functions_unchanged : forallb digest_reviewed g_fn_digests = true.
Proof. exact fn_digests_reviewed_lemma. Qed.
Print Assumptions C10_classified_functions_unchanged.

(* what backs render_pure for the BUILT-IN templates: a template imported without context is evaluated once per environment and its
   module is kept; no packaged template that is imported that way creates a mutable object (namespace(), list/dict display, ...) or
   runs a {% do %} at its top level *)
Theorem C10_builtin_templates_keep_no_state : tpl_toplevel_immutable g_tpl_toplevel = true.
Proof. exact builtin_templates_stateless_lemma. Qed.
Print Assumptions C10_builtin_templates_keep_no_state.

(* no stale exception: every hand-written classification row (stores, reads) and review row (module objects) still matches an item
   of the regenerated tables; a row whose code is gone or has changed must be removed *)
Theorem C10_no_stale_classification_rows :
  forallb (store_class_used g_stores) store_classes = true /\ forallb (read_class_used g_wide_reads) read_classes = true /\
  forallb (modobj_review_used g_modobjs) modobj_reviewed = true.
Proof. exact no_stale_rows_lemma. Qed.
Print Assumptions C10_no_stale_classification_rows.

(* every object bound at module or class scope of src/nunavut (literal containers AND results of calls, i.e. instances of any
   class) is never written and never handed to code that could keep or fill it -- or has been reviewed; this is what a process-wide
   cache object passed to the bundled jinja2 fails *)
Theorem C10_module_objects_constant : forallb modobj_ok g_modobjs = true.
Proof. exact modobjs_ok_lemma. Qed.
Print Assumptions C10_module_objects_constant.

(* every keyword argument handed to the bundled jinja2 Environment constructor is on the allow-list of per-environment settings
   (no bytecode_cache) and its value is a constructor parameter, a literal, an imported class or a fresh object *)
Theorem C10_engine_constructed_per_environment : forallb envkw_ok g_env_kwargs = true /\ (0 < length g_env_kwargs)%nat.
Proof. exact env_kwargs_ok_lemma. Qed.
Print Assumptions C10_engine_constructed_per_environment.

(* the bundled engine keeps one process-wide cache of Lexer objects; its key contains every environment attribute the Lexer reads *)
Theorem C10_engine_lexer_cache_keyed_completely : lexer_key_complete g_lexer_key g_lexer_reads = true.
Proof. exact lexer_key_complete_lemma. Qed.
Print Assumptions C10_engine_lexer_cache_keyed_completely.

(* ---------------------------------------------------------------------------------------------------------------------- *)
(* (4) closure and template selection                                                                                     *)
(* (3) the object a generator builds for type k is the same for every input set that contains k's dependency closure *)
Theorem C10_closure_indep :
  forall (U : universe) (f1 f2 : nat) (I1 I2 : list (list N)) (k : list N) (o1 o2 : tyobj),
    resolve f1 U I1 k = Some o1 -> resolve f2 U I2 k = Some o2 -> o1 = o2.
Proof. exact resolve_indep_lemma. Qed.
Print Assumptions C10_closure_indep.

Definition forest (bases : N -> list N) (rank : N -> nat) (fuel : nat) : Prop :=
  (forall c, (length (bases c) <= 1)%nat) /\ (forall c p, In p (bases c) -> (rank p < rank c)%nat) /\ (forall c, (rank c < fuel)%nat).

(* the regenerated pydsdl class table IS such a forest (C16's lemmas over Generated/Gen_Lookup.v) *)
Theorem C10_real_forest : forest LookupInst.p_bases LookupInst.p_rank LookupInst.p_fuel.
Proof. exact (conj LookupInstThm.p_single (conj LookupInstThm.p_rank_ok LookupInstThm.p_rank_fuel)). Qed.
Print Assumptions C10_real_forest.

(* THE NAMED PREMISE about the template engine: which program (sequence of emit / unique-name / memoised-call / peek
   operations) a template is for a type does not depend on the process state.  BOUNDARY: this holds for templates WITHOUT cross-file
   state -- no top-level namespace()/mutable object in a file that is imported without context ({% from 'm.j2' import f %}: Jinja keeps
   the imported module for the life of the generator's environment).  For the built-in templates that is the scanned fact
   C10_builtin_templates_keep_no_state; for user templates it is FALSE in general as long as finding F-TPL-MODULE-STATE is open
   (witness: a counting macro file; proposed fix design_notes/C10_template_state_fix.patch drops the kept modules per file).  Backed -- outside Coq -- by the scanned facts
   (3): every registered callable that keeps state is an inventoried site or store. *)
Definition render_pure (render : ambient -> list (list N) -> N -> option str -> tyobj -> prog) : Prop :=
  forall (a1 a2 : ambient) I cf tmpl o, render a1 I cf tmpl o = render a2 I cf tmpl o.

(* in EVERY history the template chosen for a file is the nearest class of the type's inheritance chain that the generator's
   listing has: a function of (class, listing) only; the loader memo cannot change it.  Real class forest. *)
Theorem C10_template_selection_indep :
  forall (U : universe) (sites : list site) (stores : list store) (rfacts : bool),
    forallb site_ok sites = true -> forallb (store_ok rfacts) stores = true ->
  forall (reads : list wread), forallb read_ok reads = true ->
  forall (render : ambient -> list (list N) -> N -> option str -> tyobj -> prog), render_pure render ->
  forall (cfun : ckey -> str) (lel_shared : bool) (m : option nat) (h : list op) (e : entry),
    In e (log U LookupInst.p_bases LookupInst.p_name LookupInst.p_fuel sites stores rfacts reads render cfun m generate_code_resets_uniq lel_shared h) ->
    e_tmpl e = Lookup.nearest (Lookup.tmap LookupInst.p_name (e_tset e))
                 (Lookup.chain_n LookupInst.p_bases (LookupInst.p_rank (obj_cls (e_obj e))) (obj_cls (e_obj e))).
Proof.
  intros U sites stores rfacts Hs Hst reads Hrd render Hr cfun lel m h e Hin.
  exact (template_selection_lemma U _ _ _ _ LookupInstThm.p_single LookupInstThm.p_rank_ok LookupInstThm.p_rank_fuel
           sites stores rfacts Hs Hst reads Hrd render Hr cfun lel m h e Hin).
Qed.
Print Assumptions C10_template_selection_indep.

(* ---------------------------------------------------------------------------------------------------------------------- *)
(* (5) per-type independence                                                                                              *)

(* GENERAL FORM.  Premises: the class graph is a forest; the memoisation-site table the model looks its memo keys up in is
   admissible; the store table the model's per-file step consults has no inadmissible render-phase store; the table of reads
   beyond a type's closure is accounted for (otherwise `render` is handed the input set of the run); render_pure.
   Then two files of the same type written under the same effective configuration (generator options + per-call arguments),
   template listing and constructed processors -- in ANY two histories (input sets, orders, earlier runs, other generators,
   repeated generate_all calls with other arguments, dry runs, cache clearing, cache sizes) -- come from the same template and
   are equal.  `negb generate_code_resets_line_pps` is the model's lel_shared: without the translated per-file reset of the line
   processors this does not type-check. *)
Theorem C10_file_indep :
  forall (U : universe) (bases : N -> list N) (cname : N -> str) (fuel : nat) (rank : N -> nat), forest bases rank fuel ->
  forall (sites : list site) (stores : list store) (rfacts : bool),
    forallb site_ok sites = true -> forallb (store_ok rfacts) stores = true ->
  forall (reads : list wread), forallb read_ok reads = true ->
  forall (render : ambient -> list (list N) -> N -> option str -> tyobj -> prog), render_pure render ->
  forall (cfun : ckey -> str) (m1 m2 : option nat) (h1 h2 : list op) (e1 e2 : entry),
    In e1 (log U bases cname fuel sites stores rfacts reads render cfun m1 generate_code_resets_uniq (negb generate_code_resets_line_pps) h1) ->
    In e2 (log U bases cname fuel sites stores rfacts reads render cfun m2 generate_code_resets_uniq (negb generate_code_resets_line_pps) h2) ->
    e_cfg e1 = e_cfg e2 -> e_tset e1 = e_tset e2 -> e_pps0 e1 = e_pps0 e2 -> e_key e1 = e_key e2 ->
    e_tmpl e1 = e_tmpl e2 /\ e_text e1 = e_text e2.
Proof.
  intros U bases cname fuel rank (F1 & F2 & F3) sites stores rfacts Hs Hst reads Hrd render Hr cfun m1 m2 h1 h2 e1 e2 H1 H2 Hc Ht Hp Hk.
  exact (file_indep_lemma U bases cname fuel rank F1 F2 F3 sites stores rfacts Hs Hst reads Hrd render Hr cfun false m1 m2 h1 h2 e1 e2
           H1 H2 Hc Ht Hp Hk (or_introl eq_refl)).
Qed.
Print Assumptions C10_file_indep.

(* THE INSTANCE THE PROPERTY IS ABOUT: the regenerated inventories and the regenerated pydsdl class forest; the only premise left
   is the named one about the template engine. *)
Theorem C10_file_indep_real :
  forall (U : universe) (render : ambient -> list (list N) -> N -> option str -> tyobj -> prog), render_pure render ->
  forall (cfun : ckey -> str) (m1 m2 : option nat) (h1 h2 : list op) (e1 e2 : entry),
    In e1 (log U LookupInst.p_bases LookupInst.p_name LookupInst.p_fuel g_sites g_stores reset_facts g_wide_reads render cfun m1
               generate_code_resets_uniq (negb generate_code_resets_line_pps) h1) ->
    In e2 (log U LookupInst.p_bases LookupInst.p_name LookupInst.p_fuel g_sites g_stores reset_facts g_wide_reads render cfun m2
               generate_code_resets_uniq (negb generate_code_resets_line_pps) h2) ->
    e_cfg e1 = e_cfg e2 -> e_tset e1 = e_tset e2 -> e_pps0 e1 = e_pps0 e2 -> e_key e1 = e_key e2 ->
    e_tmpl e1 = e_tmpl e2 /\ e_text e1 = e_text e2.
Proof.
  intros U render Hr cfun m1 m2 h1 h2 e1 e2.
  exact (C10_file_indep U _ _ _ _ C10_real_forest g_sites g_stores reset_facts C10_all_caches_keyed_by_identity_or_value
           C10_stores_classified g_wide_reads C10_sibling_reads_classified render Hr cfun m1 m2 h1 h2 e1 e2).
Qed.
Print Assumptions C10_file_indep_real.

(* SUBSET.  S ⊆ W are two input sets (a dependency-closed subset of the namespace and the whole namespace, say), k is
   processed in both runs (any two orders), the dependency closure of k lies inside S (resolve_in succeeds).  Then the file for
   k EXISTS in the run over S and in the run over W, comes from the same template and is byte-identical.  Runs: one new
   interpreter each, one generator, one generate_all (single_run), with the regenerated reset facts (if a reset disappears from
   the source this statement no longer type-checks). *)
Theorem C10_subset :
  forall (U : universe) (render : ambient -> list (list N) -> N -> option str -> tyobj -> prog), render_pure render ->
  forall (cfun : ckey -> str) (m1 m2 : option nat) (cf : N) (ts : list (str * str)) (pps : list pp) (args : N)
         (S W ordS ordW : list (list N)) (k : list N) (o : tyobj),
    incl S W -> In k ordS -> In k ordW -> resolve_in U S k = Some o ->
    exists eS eW,
      In eS (log U LookupInst.p_bases LookupInst.p_name LookupInst.p_fuel g_sites g_stores reset_facts g_wide_reads render cfun m1
                 generate_code_resets_uniq (negb generate_code_resets_line_pps) (single_run cf ts pps S ordS args)) /\
      In eW (log U LookupInst.p_bases LookupInst.p_name LookupInst.p_fuel g_sites g_stores reset_facts g_wide_reads render cfun m2
                 generate_code_resets_uniq (negb generate_code_resets_line_pps) (single_run cf ts pps W ordW args)) /\
      e_key eS = k /\ e_key eW = k /\ e_tmpl eS = e_tmpl eW /\ e_text eS = e_text eW.
Proof.
  intros U render Hr cfun m1 m2 cf ts pps args S W ordS ordW k o.
  exact (subset_lemma U _ _ _ _ LookupInstThm.p_single LookupInstThm.p_rank_ok LookupInstThm.p_rank_fuel g_sites g_stores reset_facts
           C10_all_caches_keyed_by_identity_or_value C10_stores_classified g_wide_reads C10_sibling_reads_classified render Hr cfun
           m1 m2 cf ts pps args S W ordS ordW k o).
Qed.
Print Assumptions C10_subset.


(* the premises are not decoration: with an inadmissible site in the table the model's memo returns a stale value, with an
   unclassified render-phase store the model lets a file see what earlier files left *)
Theorem C10_premises_are_consulted :
  (let bad := {| s_file := []; s_name := []; s_kind := KModuleGlobal; s_params := []; s_flag := false; s_key := [];
                 s_value_mutable := false; s_value_mutated := false |} in
   let c1 := fst (proj_call (memo_proj [bad] 0) snd None [] (1, [65])) in
   snd (proj_call (memo_proj [bad] 0) snd None c1 (1, [66])) = [65]) /\
  (let bad := {| st_file := []; st_fn := []; st_target := [120]; st_root := RSelf; st_phase := SRender |} in
   stores_leak true [bad] = true /\ stores_leak true g_stores = false) /\
  (let bad := {| w_file := [120]; w_where := [121]; w_name := [122]; w_kind := WTemplateType |} in
   reads_leak [bad] = true /\ reads_leak g_wide_reads = false).
Proof. exact (conj inadmissible_site_is_observable (conj unclassified_store_leaks unclassified_read_shows_the_input_set)). Qed.
Print Assumptions C10_premises_are_consulted.

(* ---------------------------------------------------------------------------------------------------------------------- *)
(* (6) per-call arguments and dry runs: e_cfg of a file is ecfg cfg args (the generator's configuration together with the
   arguments of the generate_all that wrote it), so (5) covers repeated calls; a dry run writes nothing and leaves unique
   names, memo tables, scratch state and line processors untouched.                                                        *)
Theorem C10_dry_run_inert :
  forall U bases cname fuel sites stores rfacts reads render cfun maxsize resets lel (s : pstate) (gid : nat) (args : N) (order : list (list N)),
    let r := op_step U bases cname fuel sites stores rfacts reads render cfun maxsize resets lel s (ORun gid args true order) in
    snd r = [] /\ p_uniq (fst r) = p_uniq s /\ p_cache (fst r) = p_cache s /\ p_scratch (fst r) = p_scratch s /\
    map go_pps (p_gens (fst r)) = map go_pps (p_gens s).
Proof. exact dry_run_lemma. Qed.
Print Assumptions C10_dry_run_inert.

(* non-vacuity: class forest C <- S, C <- U; listing {C.j2, U.j2}; struct A, union B depending on A.  Two generators, a subset,
   permuted order, a dry run, a second run, cache clearing, maxsize 1: the union always gets U.j2 and the struct C.j2 (marker
   at the start of the text), the shared type gets the same text every time. *)
Example C10_histories_exist :
  let ts := [([67], [67; 46; 106; 50]); ([85], [85; 46; 106; 50])] in
  let U := [([65], {| d_cls := 1; d_body := [120]; d_deps := [] |}); ([66], {| d_cls := 2; d_body := [121]; d_deps := [[65]] |})] in
  let tab := [((16, [65]), [IText [97; 10]; IUniq [99] [102] [95] [95]; IText [10]]);
              ((16, [66]), [IUniq [99] [102] [95] [95]; IUniq [99] [102] [95] [95]; IText [10; 10; 98; 10]])] in
  let h := [ONew 1 ts [PLimit (LimitEmptyLines_init 1); PTrim] [[65]; [66]]; ORun 0 0 false [[65]; [66]];
            ONew 1 ts [PLimit (LimitEmptyLines_init 1); PTrim] [[65]]; ORun 1 0 true [[65]]; ORun 1 0 false [[65]]; OClear;
            ORun 0 0 false [[66]; [65]]] in
  map (fun e => (e_key e, e_tmpl e)) (exec_table w_ct U true tab (Some 1%nat) true false h) =
    [([65], Some [67; 46; 106; 50]); ([66], Some [85; 46; 106; 50]); ([65], Some [67; 46; 106; 50]);
     ([66], Some [85; 46; 106; 50]); ([65], Some [67; 46; 106; 50])] /\
  map e_text (filter (fun e => str_eqb (e_key e) [65]) (exec_table w_ct U true tab (Some 1%nat) true false h)) =
    [[60; 67; 46; 106; 50; 62; 97; 10; 95; 102; 48; 95; 10]; [60; 67; 46; 106; 50; 62; 97; 10; 95; 102; 48; 95; 10];
     [60; 67; 46; 106; 50; 62; 97; 10; 95; 102; 48; 95; 10]].
Proof. vm_compute. split; reflexivity. Qed.
