(* C10 -- per-type output ignores sibling types, processing order and earlier runs in the same interpreter.
   Statements only; every proof is `exact <lemma>`.
   Models: Gen/GenState.v (hand model of the generator process: unique-name singleton, memo tables, per-generator line
   post-processor objects, _generate_code, generate_all, histories; tied by correspondence), Generated/Gen_Uniq.v (T2
   translation of UniqueNameGenerator and the translated fact generate_code_resets_uniq), Generated/Gen_LinePP.v (T2
   translation of LimitEmptyLines / TrimTrailingWhitespace), Gen/Lookup.v (C16's model of the template lookup walk and its memo,
   imported).  `log ... h` is the list of files written by history h started in
   a new interpreter; `alone ... cf pps o` is the file of type object o written as the first and only file of a new interpreter. *)
From Verif Require Import GenState GenStateThm.
From Verif Require Lookup LookupThm.
Open Scope N_scope.

(* (1) uniq_reset: after UniqueNameGenerator.reset() the names handed out are a function of THIS file's call sequence only:
   the number in the i-th name is the number of earlier calls of this file with the same (key, base token). *)
Theorem C10_uniq_reset :
  forall calls : list ucall, uniq_run UniqueNameGenerator_init calls = names_spec [] calls.
Proof. exact uniq_reset_lemma. Qed.
Print Assumptions C10_uniq_reset.

(* ... and _generate_code does call reset() before the template generator is consumed (fact translated from the source) *)
Theorem C10_generate_code_resets : generate_code_resets_uniq = true /\ generate_code_uses_generator_pps = true.
Proof. split; reflexivity. Qed.
Print Assumptions C10_generate_code_resets.

(* (2) cache transparency: a call through an lru_cache/dict memo whose entries were all produced by the function returns what
   the function returns and keeps the table valid -- any maxsize, any eviction, any history of calls. *)
Theorem C10_cache_transparent :
  forall (f : ckey -> str) (maxsize : option nat) (c : cache) (k : ckey),
    cache_ok f c -> snd (lru_call f maxsize c k) = f k /\ cache_ok f (fst (lru_call f maxsize c k)).
Proof. exact lru_call_transparent. Qed.
Print Assumptions C10_cache_transparent.

(* rendering through any valid memo table = rendering without one *)
Theorem C10_render_cache_transparent :
  forall (cfun : ckey -> str) (maxsize : option nat) (self : N) (p : prog) (u : UniqueNameGenerator_state) (c : cache),
    cache_ok cfun c ->
    (fst (fst (run_prog cfun maxsize self p u c)), snd (run_prog cfun maxsize self p u c)) = prog_out cfun self p u /\
    cache_ok cfun (snd (fst (run_prog cfun maxsize self p u c))).
Proof. exact run_prog_transparent. Qed.
Print Assumptions C10_render_cache_transparent.

(* (3) the object a generator builds for type k is the same for every input set that contains k's dependency closure *)
Theorem C10_closure_indep :
  forall (U : universe) (f1 f2 : nat) (I1 I2 : list (list N)) (k : list N) (o1 o2 : tyobj),
    resolve f1 U I1 k = Some o1 -> resolve f2 U I2 k = Some o2 -> o1 = o2.
Proof. exact resolve_indep_lemma. Qed.
Print Assumptions C10_closure_indep.

(* The pydsdl class graph: single inheritance below `object`, depth below the loop bound.  (C16_real_forest_hypotheses proves
   this of the regenerated class table; the C10 check tests it on the table it hands to the extracted model.) *)
Definition forest (bases : N -> list N) (rank : N -> nat) (fuel : nat) : Prop :=
  (forall c, (length (bases c) <= 1)%nat) /\ (forall c p, In p (bases c) -> (rank p < rank c)%nat) /\ (forall c, (rank c < fuel)%nat).

(* (4a) template selection: in EVERY history the template chosen for a file is the template of the nearest class of the type's
   inheritance chain that the generator's listing has -- a function of (class of the type, template listing) only; the loader
   memo (kept across files and generate_all calls) cannot change it. *)
Theorem C10_template_selection_indep :
  forall (U : universe) (bases : N -> list N) (cname : N -> str) (fuel : nat) (rank : N -> nat), forest bases rank fuel ->
  forall (render : N -> option str -> tyobj -> prog) (cfun : ckey -> str) (lel_shared : bool) (m : option nat) (h : list op) (e : entry),
    In e (log U bases cname fuel render cfun m generate_code_resets_uniq lel_shared h) ->
    e_tmpl e = Lookup.nearest (Lookup.tmap cname (e_tset e)) (Lookup.chain_n bases (rank (obj_cls (e_obj e))) (obj_cls (e_obj e))).
Proof.
  intros U bases cname fuel rank (H1 & H2 & H3) render cfun lel m h e Hin.
  exact (template_selection_lemma U bases cname fuel rank H1 H2 H3 render cfun lel m h e Hin).
Qed.
Print Assumptions C10_template_selection_indep.

(* (4) file_indep for the variant with processor objects shared across files (lel_shared = true, the code before 88d3c81): two files of the same type written under the same
   configuration and template listing with identically constructed processors -- in ANY two histories (input sets, processing
   orders, earlier runs, other generators, cache clearing, cache sizes) -- come from the same template and are equal, PROVIDED
   the LimitEmptyLines counters of the writing generator were 0 when each file was started (e_clean; computed by the model,
   excluded trigger of F-LEL-LEAK). *)
Theorem C10_file_indep_partial :
  forall (U : universe) (bases : N -> list N) (cname : N -> str) (fuel : nat) (rank : N -> nat), forest bases rank fuel ->
  forall (render : N -> option str -> tyobj -> prog) (cfun : ckey -> str) (m1 m2 : option nat) (h1 h2 : list op) (e1 e2 : entry),
    In e1 (log U bases cname fuel render cfun m1 generate_code_resets_uniq true h1) ->
    In e2 (log U bases cname fuel render cfun m2 generate_code_resets_uniq true h2) ->
    e_cfg e1 = e_cfg e2 -> e_tset e1 = e_tset e2 -> e_pps0 e1 = e_pps0 e2 -> e_key e1 = e_key e2 ->
    e_clean e1 = true -> e_clean e2 = true ->
    e_tmpl e1 = e_tmpl e2 /\ e_text e1 = e_text e2.
Proof.
  intros U bases cname fuel rank (F1 & F2 & F3) render cfun m1 m2 h1 h2 e1 e2 H1 H2 Hc Ht Hp Hk C1 C2.
  exact (file_indep_lemma U bases cname fuel rank F1 F2 F3 render cfun true m1 m2 h1 h2 e1 e2 H1 H2 Hc Ht Hp Hk
           (or_intror (conj C1 C2))).
Qed.
Print Assumptions C10_file_indep_partial.

(* ... and each such file is the file the type gets as the first and only file of a new interpreter *)
Theorem C10_file_alone_partial :
  forall (U : universe) (bases : N -> list N) (cname : N -> str) (fuel : nat) (rank : N -> nat), forest bases rank fuel ->
  forall (render : N -> option str -> tyobj -> prog) (cfun : ckey -> str) (m : option nat) (h : list op) (e : entry),
    In e (log U bases cname fuel render cfun m generate_code_resets_uniq true h) -> e_clean e = true ->
    (e_tmpl e, e_text e) =
      alone bases cname fuel render cfun m generate_code_resets_uniq true (e_cfg e) (e_tset e) (e_pps0 e) (e_obj e).
Proof.
  intros U bases cname fuel rank (F1 & F2 & F3) render cfun m h e Hin Hc.
  pose proof (log_entries_ok U bases cname fuel rank F1 F2 F3 render cfun m true h) as F. rewrite Forall_forall in F.
  exact (proj2 (proj2 (F e Hin)) (or_intror Hc)).
Qed.
Print Assumptions C10_file_alone_partial.

(* (4') the code as it is NOW: _generate_code tells every line processor that a new file begins (translated facts: the call
   `line_pps.append(_reset_line_pp(pp))` precedes the consumption of the template generator, _reset_line_pp calls reset(),
   and the translated LimitEmptyLines.reset restores the constructed state).  With that the statement holds with NO side
   condition.  `negb generate_code_resets_line_pps` is the model's lel_shared: if the reset call disappears from the source
   this theorem no longer type-checks. *)
Theorem C10_line_pps_reset :
  generate_code_resets_line_pps = true /\
  forall s : LimitEmptyLines_state,
    pp_fresh (PLimit s) = PLimit (LimitEmptyLines_reset s) /\
    LimitEmptyLines_reset s = LimitEmptyLines_init (LimitEmptyLines_max_empty_lines s).
Proof. split; [reflexivity | exact lel_reset_fresh]. Qed.
Print Assumptions C10_line_pps_reset.

Theorem C10_file_indep :
  forall (U : universe) (bases : N -> list N) (cname : N -> str) (fuel : nat) (rank : N -> nat), forest bases rank fuel ->
  forall (render : N -> option str -> tyobj -> prog) (cfun : ckey -> str) (m1 m2 : option nat) (h1 h2 : list op) (e1 e2 : entry),
    In e1 (log U bases cname fuel render cfun m1 generate_code_resets_uniq (negb generate_code_resets_line_pps) h1) ->
    In e2 (log U bases cname fuel render cfun m2 generate_code_resets_uniq (negb generate_code_resets_line_pps) h2) ->
    e_cfg e1 = e_cfg e2 -> e_tset e1 = e_tset e2 -> e_pps0 e1 = e_pps0 e2 -> e_key e1 = e_key e2 ->
    e_tmpl e1 = e_tmpl e2 /\ e_text e1 = e_text e2.
Proof.
  intros U bases cname fuel rank (F1 & F2 & F3) render cfun m1 m2 h1 h2 e1 e2 H1 H2 Hc Ht Hp Hk.
  exact (file_indep_lemma U bases cname fuel rank F1 F2 F3 render cfun false m1 m2 h1 h2 e1 e2 H1 H2 Hc Ht Hp Hk
           (or_introl eq_refl)).
Qed.
Print Assumptions C10_file_indep.

(* (5) WITHOUT that reset (lel_shared = true: the code before commit 88d3c81, finding F-LEL-LEAK, now fixed) the unrestricted
   statement is FALSE: this is what the check looks for if the leak ever returns.
   the unrestricted statement is FALSE of the model of the code as it was: known finding F-LEL-LEAK.  Witness: limit 1, file
   of A = "a\n\n", file of B = "\nb"; whole namespace: B = "b"; subset {B}: B = "\nb". *)
Theorem C10_lel_leak_refuted :
  exists (U : universe) (render : N -> option str -> tyobj -> prog) (cfun : ckey -> str) (h1 h2 : list op) (e1 e2 : entry),
    In e1 (log U (ct_bases w_ct) (ct_name w_ct) 4 render cfun None true true h1) /\
    In e2 (log U (ct_bases w_ct) (ct_name w_ct) 4 render cfun None true true h2) /\
    e_cfg e1 = e_cfg e2 /\ e_tset e1 = e_tset e2 /\ e_pps0 e1 = e_pps0 e2 /\ e_key e1 = e_key e2 /\ e_text e1 <> e_text e2.
Proof. exact lel_leak_refuted_lemma. Qed.
Print Assumptions C10_lel_leak_refuted.

Theorem C10_lel_leak_witness :
  map e_text (exec_table w_ct w_U false w_tab None true true w_hist_whole) = [[97; 10; 10]; [98]] /\
  map e_text (exec_table w_ct w_U false w_tab None true true w_hist_subset) = [[10; 98]].
Proof. exact lel_leak_witness. Qed.
Print Assumptions C10_lel_leak_witness.

(* the witness lives in a class forest that satisfies the hypotheses of (4) *)
Theorem C10_witness_forest : forest (ct_bases w_ct) w_rank 4.
Proof. exact w_forest_ok. Qed.
Print Assumptions C10_witness_forest.

(* (6) the same as (4') with lel_shared written out as false *)
Theorem C10_file_indep_noleak :
  forall (U : universe) (bases : N -> list N) (cname : N -> str) (fuel : nat) (rank : N -> nat), forest bases rank fuel ->
  forall (render : N -> option str -> tyobj -> prog) (cfun : ckey -> str) (m1 m2 : option nat) (h1 h2 : list op) (e1 e2 : entry),
    In e1 (log U bases cname fuel render cfun m1 generate_code_resets_uniq false h1) ->
    In e2 (log U bases cname fuel render cfun m2 generate_code_resets_uniq false h2) ->
    e_cfg e1 = e_cfg e2 -> e_tset e1 = e_tset e2 -> e_pps0 e1 = e_pps0 e2 -> e_key e1 = e_key e2 ->
    e_tmpl e1 = e_tmpl e2 /\ e_text e1 = e_text e2.
Proof.
  intros U bases cname fuel rank (F1 & F2 & F3) render cfun m1 m2 h1 h2 e1 e2 H1 H2 Hc Ht Hp Hk.
  exact (file_indep_lemma U bases cname fuel rank F1 F2 F3 render cfun false m1 m2 h1 h2 e1 e2 H1 H2 Hc Ht Hp Hk
           (or_introl eq_refl)).
Qed.
Print Assumptions C10_file_indep_noleak.

(* non-vacuity: class forest C <- S, C <- U; listing {C.j2, U.j2}; struct A, union B depending on A.  Two generators, a subset,
   permuted order, a second run, cache clearing, maxsize 1: every file starts with zeroed counters, the union always gets
   U.j2 and the struct C.j2 (marker at the start of the text), the shared type gets the same text every time. *)
Example C10_partial_premise_satisfiable :
  let ts := [([67], [67; 46; 106; 50]); ([85], [85; 46; 106; 50])] in
  let U := [([65], {| d_cls := 1; d_body := [120]; d_deps := [] |}); ([66], {| d_cls := 2; d_body := [121]; d_deps := [[65]] |})] in
  let tab := [((1, [65]), [IText [97; 10]; IUniq [99] [102] [95] [95]; IText [10]]);
              ((1, [66]), [IUniq [99] [102] [95] [95]; IUniq [99] [102] [95] [95]; IText [10; 10; 98; 10]])] in
  let h := [ONew 1 ts [PLimit (LimitEmptyLines_init 1); PTrim] [[65]; [66]]; ORun 0 [[65]; [66]];
            ONew 1 ts [PLimit (LimitEmptyLines_init 1); PTrim] [[65]]; ORun 1 [[65]]; OClear; ORun 0 [[66]; [65]]] in
  map (fun e => (e_key e, e_tmpl e, e_clean e)) (exec_table w_ct U true tab (Some 1%nat) true true h) =
    [([65], Some [67; 46; 106; 50], true); ([66], Some [85; 46; 106; 50], true); ([65], Some [67; 46; 106; 50], true);
     ([66], Some [85; 46; 106; 50], true); ([65], Some [67; 46; 106; 50], true)] /\
  map e_text (filter (fun e => str_eqb (e_key e) [65]) (exec_table w_ct U true tab (Some 1%nat) true true h)) =
    [[60; 67; 46; 106; 50; 62; 97; 10; 95; 102; 48; 95; 10]; [60; 67; 46; 106; 50; 62; 97; 10; 95; 102; 48; 95; 10];
     [60; 67; 46; 106; 50; 62; 97; 10; 95; 102; 48; 95; 10]].
Proof. vm_compute. split; reflexivity. Qed.
