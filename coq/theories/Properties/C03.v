(* C03: round trip, cross-target and cross-option agreement of generated codecs.
   Statements only; proofs in Spec/WireThmC03.v; the per-target observables are defined in Spec/TargetsC03.v. *)
From Verif Require Import Wire WireThm WireThmRt WireThmExt WireThmValid Walker Refine TargetsC03 WireThmC03.
Local Open Scope nat_scope.

Theorem c03_roundtrip : forall tg o t v cap b r, wf_ty t = true -> align t = 8 ->
  target_ser tg o t v cap = Ok b ->
  target_des tg o t (b ++ r) = Ok (cast_val t (target_pre tg t v), length b / 8).
Proof. exact target_roundtrip. Qed.
Print Assumptions c03_roundtrip.
