(* C03: round trip, cross-target and cross-option agreement of generated codecs.
   Statements only.  The observable of the generated code of target tg under option set o is
       obs_ser tg o t v buf cap   /   obs_des tg o t bits                                  (Codec/ObsC03.v)
   = the TARGET-SHAPED walker run over the SHIPPED primitive models:
       C       WalkerX.walk_ser_x / WalkerXDes.walk_des_x with WalkerSafe.std_cfg (is_little o) - the C templates INCLUDING the paths
               that target_endianness = little switches (memmove of ceil(w/8) storage bytes; one nunavutCopyBits / nunavutGetBits call
               for arrays of bool / zero-cost primitives, decided by the TRANSLATED is_zero_cost_primitive of Generated/Gen_C01.v) -
               over c_prims (is_little o), c_copy, c_getl (Prims/CPrims.v);
       C++     CppWalker.cpp_walk_ser / cpp_walk_des (bitspan sub-spans, setZeros padding, tag-first unions) over cppw_prims;
       Python  PyWalker.py_walk_ser over py_pyprims with the explicit leaf py_enc_prim (clamp, two's complement, mask,
               struct.pack('<e') = round half to even); PyDesWalker.py_walk_des over pyd_prims (value only: no consumed size);
   wrapped (C, C++) in the build gate of omit_float_serialization_support and in the epilogue assertions when
   enable_serialization_asserts is set (Python: always).  None of these definitions mentions the wire specification.  Every equality
   below is derived (Codec/ObsC03Thm.v) from the refinement theorems c_walk_ser_x_refines / c_walk_des_x_refines /
   cppw_walk_{ser,des}_refines / py_walk_ser_refines / pyd_walk_des_refines_sa under their side conditions:
       ser_side tg o t v buf cap :=  C, C++: buildable tg o t /\ buf_ok buf cap (|buf| = 8*cap < 2^64) /\ storage_ok t v
                                     Python: bmax t <= 8*cap (the Serializer's own buffer suffices)
       input_ok t bits           :=  whole bytes, |bits| + tsz t + 8 < 2^64
       buildable tg o t          :=  C, C++: not (omit_float_serialization_support /\ t has a float field).
   OPTIONS (Spec/TargetsC03.v `c_option_coverage` / `cpp_option_coverage`): the rows are tied to the regenerated properties.yaml list
   (names, order) AND to the regenerated scan of the codec templates (Generated/Gen_C03Opt.v): a row says `reaches_codec` exactly when
   the scan finds the option in the (de)serialization code - whether an option has codec influence is derived, not claimed by hand.
     reaches the codec, proved here     target_endianness (C), enable_serialization_asserts (C, C++), omit_float_serialization_support (gate)
     reaches the codec, pairwise runs   enable_override_variable_array_capacity (C, C++; no capacity macro defined), target_endianness (C++
                                        support rendering), ctor_convention (default / uses-trailing-allocator / uses-leading-allocator)
     reaches the codec, default only    cast_format (renders the saturation bounds / casts through the `literal` filter; a custom string is never built)
     declarations only, pairwise runs   std, std_flavor (std, pmr), variable_array_type_include/_template (std::vector and a harness stub container),
                                        allocator_include/_type, allocator_is_default_constructible (true only)
     declarations only, not exercised   variable_array_type_constructor_args; cetl++14-17 / allocator_is_default_constructible = false (no CETL headers offline).
   DOMAIN of the assertion statements: override off or without a capacity macro (`c03_assertion_domain`); the reduced-capacity
   configuration (audit3 D3, fixed in /repo f2f61d1) is covered by Properties/C04.v `c04_asserts_option`.
   Superseded first-round statements: History/C03_history.v. *)
From Verif Require Import Wire WireThm WireThmRt WireThmExt WireThmValid F16 TargetsC03 TargetPreThm WireThmC03.
From Verif Require Import Walker RefineSerBits ObsC03 ObsC03Thm ObsC03Tie.
Local Open Scope nat_scope.

(* ---- the observables are the specification: C and C++ of the value itself, Python of the value with float16 ties pre-rounded to
   even (target_pre, Spec/TargetPre.v; spec_ser tg t v cap = ser_spec t (target_pre tg t v) cap) ---- *)
Theorem c03_obs_ser_is_spec : forall tg o u fs ext v buf cap, wf_ty (TComp u fs ext) = true ->
  ser_side tg o (TComp u fs ext) v buf cap ->
  obs_ser tg o (TComp u fs ext) v buf cap = spec_ser tg (TComp u fs ext) v cap.
Proof. exact obs_ser_is_spec. Qed.
Print Assumptions c03_obs_ser_is_spec.

Theorem c03_obs_des_is_spec : forall tg o t bits, wf_ty t = true -> buildable tg o t = true -> input_ok t bits ->
  obs_des tg o t bits = spec_des tg t bits.
Proof. exact obs_des_is_spec. Qed.
Print Assumptions c03_obs_des_is_spec.

(* the compiled-in EPILOGUE assertions never fire (option domain: see c03_assertion_domain below) *)
Theorem c03_ser_asserts_never_fire : forall on t v cap, wf_ty t = true -> align t = 8 ->
  ser_asserts on t (ser_spec t v cap) = ser_spec t v cap.
Proof. exact ser_asserts_spec. Qed.
Print Assumptions c03_ser_asserts_never_fire.

Theorem c03_des_asserts_never_fire : forall on t bits, des_asserts on (length bits) (des_spec t bits) = des_spec t bits.
Proof. exact des_asserts_spec. Qed.
Print Assumptions c03_des_asserts_never_fire.

(* DOMAIN of the two statements above and of every observable of this file (audit3 D3): the observables are built on
   WalkerSafe.std_cfg - the up-front capacity test of _serialize_impl is compiled in and no array capacity is overridden, i.e.
   enable_override_variable_array_capacity is OFF, or on without any -D..._ARRAY_CAPACITY_ macro (the only way this check builds it).
   Inside that domain the inner assertion of _serialize_any never fires either (C04's WalkerSafeThm.ser_asserts_never_fire_checked,
   instantiated with the configuration the C03 observables use).  OUTSIDE the domain (override + asserts + a REDUCED capacity macro) the
   pre-f2f61d1 tree aborted on a valid call (defect D3, History/C04_history.override_assert_refuted); since /repo f2f61d1 that assertion
   is not emitted under the override option and Properties/C04.v `c04_asserts_option` proves it cannot fire for ANY option combination -
   that configuration remains C04's subject, C03 states nothing about it. *)
Theorem c03_assertion_domain : forall l,
  WalkerSafe.up_front (WalkerSafe.std_cfg l) = true /\ (forall e n, WalkerSafe.ov (WalkerSafe.std_cfg l) e n = n) /\
  WalkerSafe.little (WalkerSafe.std_cfg l) = l.
Proof. exact obs_cfg_domain. Qed.
Print Assumptions c03_assertion_domain.

Theorem c03_inner_ser_assert_never_fires_in_domain : forall l t o capB, wf_ty t = true -> align t = 8 ->
  fst (WalkerSafe.walk_ser_safe (WalkerSafe.std_cfg l) t o capB) <> Err EAssert.
Proof. exact inner_ser_assert_never_fires. Qed.
Print Assumptions c03_inner_ser_assert_never_fires_in_domain.

(* ---- round trip through generated code: what target tg's serializer emitted (whatever follows in the buffer) is decoded by the
   deserializer of ANY target under ANY option set to the value after its cast-mode adjustment, consuming exactly those bytes ---- *)
Theorem c03_roundtrip : forall tg tg' o o' u fs ext v buf cap b r, wf_ty (TComp u fs ext) = true ->
  ser_side tg o (TComp u fs ext) v buf cap -> obs_ser tg o (TComp u fs ext) v buf cap = Ok b ->
  buildable tg' o' (TComp u fs ext) = true -> input_ok (TComp u fs ext) (b ++ r) ->
  obs_des tg' o' (TComp u fs ext) (b ++ r) =
    Ok (cast_val (TComp u fs ext) (target_pre tg (TComp u fs ext) v), consumed_of tg' (length b / 8)).
Proof. exact obs_roundtrip. Qed.
Print Assumptions c03_roundtrip.

(* ---- serializing the deserialized value again yields the identical bytes (any option sets, any initial buffer contents) ---- *)
Theorem c03_reser : forall tg o o' o'' u fs ext v buf buf' cap b v' k, wf_ty (TComp u fs ext) = true ->
  ser_side tg o (TComp u fs ext) v buf cap -> obs_ser tg o (TComp u fs ext) v buf cap = Ok b ->
  buildable tg o' (TComp u fs ext) = true -> input_ok (TComp u fs ext) b -> obs_des tg o' (TComp u fs ext) b = Ok (v', k) ->
  (tg <> TgPy -> buildable tg o'' (TComp u fs ext) = true /\ buf_ok buf' cap) ->
  obs_ser tg o'' (TComp u fs ext) v' buf' cap = Ok b.
Proof. exact obs_reser. Qed.
Print Assumptions c03_reser.

(* ---- des . ser . des = des at the VALUE level through generated code of any three targets; the excluded trigger is a decoded
   float16 NaN with a non-canonical payload (boolean predicate f16_nans_canonical) ---- *)
Theorem c03_des_ser_des_partial : forall tg1 tg2 tg3 o1 o2 o3 u fs ext bits v k buf cap b, wf_ty (TComp u fs ext) = true ->
  buildable tg1 o1 (TComp u fs ext) = true -> input_ok (TComp u fs ext) bits -> obs_des tg1 o1 (TComp u fs ext) bits = Ok (v, k) ->
  f16_nans_canonical (TComp u fs ext) v = true ->
  (tg2 <> TgPy -> buildable tg2 o2 (TComp u fs ext) = true /\ buf_ok buf cap) -> (tg2 = TgPy -> bmax (TComp u fs ext) <= 8 * cap) ->
  obs_ser tg2 o2 (TComp u fs ext) v buf cap = Ok b ->
  buildable tg3 o3 (TComp u fs ext) = true -> input_ok (TComp u fs ext) b ->
  obs_des tg3 o3 (TComp u fs ext) b = Ok (v, consumed_of tg3 (length b / 8)).
Proof. exact obs_des_ser_des. Qed.
Print Assumptions c03_des_ser_des_partial.

(* the unrestricted value-level statement is false: float16 NaN payloads are canonicalised by the pack function (DSDL does not
   promise payload preservation; the harness compares NaNs as one class) *)
Theorem c03_des_ser_des_value_refuted : exists t bs v k b v' k', wf_ty t = true /\
  des_spec t bs = Ok (v, k) /\ ser_spec t v 2 = Ok b /\ des_spec t b = Ok (v', k') /\ v' <> v /\ f16_nans_canonical t v = false.
Proof. exact des_ser_des_value_refuted. Qed.
Print Assumptions c03_des_ser_des_value_refuted.

(* ---- cross target ---- *)
(* C and C++ (same float16 pack function) agree on EVERY storable value, ties included, under every pair of option sets and initial
   buffer contents *)
Theorem c03_cross_target_ser_c_family : forall tg1 tg2 o1 o2 u fs ext v buf1 buf2 cap, tg1 <> TgPy -> tg2 <> TgPy ->
  wf_ty (TComp u fs ext) = true -> ser_side tg1 o1 (TComp u fs ext) v buf1 cap -> ser_side tg2 o2 (TComp u fs ext) v buf2 cap ->
  obs_ser tg1 o1 (TComp u fs ext) v buf1 cap = obs_ser tg2 o2 (TComp u fs ext) v buf2 cap.
Proof. exact cross_target_ser_c_family. Qed.
Print Assumptions c03_cross_target_ser_c_family.

(* "all three targets emit the same bytes" is FALSE of the models of the shipped code: finding F-F16-TIE, witness binary32
   0x3F801000 = 1 + 2^-11 in a truncated float16 field, computed through the shipped primitive models: C, C++ 0x3C01, Python 0x3C00 *)
Theorem c03_f16_tie_cross_target_refuted :
  obs_ser TgC default_options tie_ty tie_val (repeat true 16) 2 = Ok (bits_of_N 16 15361) /\
  obs_ser TgCpp default_options tie_ty tie_val (repeat true 16) 2 = Ok (bits_of_N 16 15361) /\
  obs_ser TgPy default_options tie_ty tie_val (repeat true 16) 2 = Ok (bits_of_N 16 15360) /\
  no_f16_tie tie_ty tie_val = false.
Proof. exact obs_f16_tie_refuted. Qed.
Print Assumptions c03_f16_tie_cross_target_refuted.

(* the strongest true statement: any two targets, option sets and initial buffers give the same bytes (or the same error) whenever no
   float16 field of the value holds an exact rounding tie *)
Theorem c03_cross_target_ser_partial : forall tg1 tg2 o1 o2 u fs ext v buf1 buf2 cap, wf_ty (TComp u fs ext) = true ->
  ser_side tg1 o1 (TComp u fs ext) v buf1 cap -> ser_side tg2 o2 (TComp u fs ext) v buf2 cap ->
  no_f16_tie (TComp u fs ext) v = true ->
  obs_ser tg1 o1 (TComp u fs ext) v buf1 cap = obs_ser tg2 o2 (TComp u fs ext) v buf2 cap.
Proof. exact cross_target_ser. Qed.
Print Assumptions c03_cross_target_ser_partial.

(* decoded VALUES agree across all three targets; C and C++ also agree on the consumed size (Python reports none) *)
Theorem c03_cross_target_des : forall tg1 tg2 o1 o2 t bits, wf_ty t = true -> buildable tg1 o1 t = true -> buildable tg2 o2 t = true ->
  input_ok t bits -> dobs_val (obs_des tg1 o1 t bits) = dobs_val (obs_des tg2 o2 t bits).
Proof. exact cross_target_des. Qed.
Print Assumptions c03_cross_target_des.

Theorem c03_cross_target_des_c_family : forall tg1 tg2 o1 o2 t bits, tg1 <> TgPy -> tg2 <> TgPy -> wf_ty t = true ->
  buildable tg1 o1 t = true -> buildable tg2 o2 t = true -> input_ok t bits -> obs_des tg1 o1 t bits = obs_des tg2 o2 t bits.
Proof. exact cross_target_des_c_family. Qed.
Print Assumptions c03_cross_target_des_c_family.

(* ---- options that reach the codec models: target_endianness (for C: the memmove and bulk-copy TEMPLATE paths and the support
   rendering), enable_serialization_asserts, omit_float_serialization_support (wherever the program exists); and the initial buffer ---- *)
Theorem c03_option_indep_ser : forall tg o1 o2 u fs ext v buf1 buf2 cap, wf_ty (TComp u fs ext) = true ->
  ser_side tg o1 (TComp u fs ext) v buf1 cap -> ser_side tg o2 (TComp u fs ext) v buf2 cap ->
  obs_ser tg o1 (TComp u fs ext) v buf1 cap = obs_ser tg o2 (TComp u fs ext) v buf2 cap.
Proof. exact option_indep_ser. Qed.
Print Assumptions c03_option_indep_ser.

Theorem c03_option_indep_des : forall tg o1 o2 t bits, wf_ty t = true -> buildable tg o1 t = true -> buildable tg o2 t = true ->
  input_ok t bits -> obs_des tg o1 t bits = obs_des tg o2 t bits.
Proof. exact option_indep_des. Qed.
Print Assumptions c03_option_indep_des.

Theorem c03_float_free_types_always_build : forall tg o t, uses_float t = false -> buildable tg o t = true.
Proof. exact float_free_buildable. Qed.
Print Assumptions c03_float_free_types_always_build.

(* ---- SOURCE TIES (regenerated on every run by the translators `optguard`, `c03opt`, `c01`, `codec_tpl`) ---- *)
From Verif Require OptGuard Gen_OptGuard Gen_C03Opt Gen_C01 GenC01Thm TplTieBase TplTieData Gen_CodecTpl TplTie.

(* the option classification above lists exactly the language options properties.yaml declares, in file order *)
Theorem c03_c_options_classified :
  map (fun x => s2n (fst x)) c_option_coverage = map fst Gen_OptGuard.c_defaults.
Proof. exact c_options_classified. Qed.
Print Assumptions c03_c_options_classified.

Theorem c03_cpp_options_classified :
  map (fun x => s2n (fst x)) cpp_option_coverage = map fst Gen_OptGuard.cpp_defaults.
Proof. exact cpp_options_classified. Qed.
Print Assumptions c03_cpp_options_classified.

(* whether an option reaches the (de)serialization code is DERIVED from the regenerated scan of the codec templates (translator `c03opt`):
   `reaches_codec` of every row = "the scan found a direct mention or a filter/test reading the option" *)
Theorem c03_c_coverage_matches_scan : rows_agree c_option_coverage Gen_C03Opt.c_codec_option_uses = true.
Proof. exact c_coverage_matches_scan. Qed.
Print Assumptions c03_c_coverage_matches_scan.

Theorem c03_cpp_coverage_matches_scan : rows_agree cpp_option_coverage Gen_C03Opt.cpp_codec_option_uses = true.
Proof. exact cpp_coverage_matches_scan. Qed.
Print Assumptions c03_cpp_coverage_matches_scan.

(* which array path a C build takes is decided by nunavut.lang.c.is_zero_cost_primitive - TRANSLATED from the source on every run
   (Generated/Gen_C01.v) and used by the C observable through WalkerSafe.bulk: it is true exactly on a little-endian target for
   standard-width integers and float32/64 *)
Theorem c03_zero_cost_rule : forall e t, Gen_C01.is_zero_cost_primitive e t = GenC01Thm.zero_cost_ref e t.
Proof. exact GenC01Thm.zero_cost_exact. Qed.
Print Assumptions c03_zero_cost_rule.

(* the C array templates emit the bulk copy exactly for bool / zero-cost primitive elements, the element loop otherwise *)
Theorem c03_c_array_paths : c_array_paths_statement.      (* spelled out in Codec/ObsC03Tie.v: nunavutCopyBits / nunavutGetBits emitted iff b || (p && z) *)
Proof. exact TplTie.c_array_paths. Qed.
Print Assumptions c03_c_array_paths.

(* the macro structure of the C / C++ / Python codec templates, rescanned from the .j2 files, is the reviewed one the three
   target-shaped walkers were written against: a template edit breaks C03's obligations until the walkers are reviewed *)
Theorem c03_templates_match_walkers :
  (Gen_CodecTpl.gen_c_ser_dispatch = TplTieData.walker_c_ser_dispatch /\ Gen_CodecTpl.gen_c_ser_macros = TplTieData.walker_c_ser_macros /\
   Gen_CodecTpl.gen_c_des_dispatch = TplTieData.walker_c_des_dispatch /\ Gen_CodecTpl.gen_c_des_macros = TplTieData.walker_c_des_macros) /\
  (Gen_CodecTpl.gen_cpp_ser_dispatch = TplTieData.walker_cpp_ser_dispatch /\ Gen_CodecTpl.gen_cpp_ser_macros = TplTieData.walker_cpp_ser_macros /\
   Gen_CodecTpl.gen_cpp_des_dispatch = TplTieData.walker_cpp_des_dispatch /\ Gen_CodecTpl.gen_cpp_des_macros = TplTieData.walker_cpp_des_macros) /\
  (Gen_CodecTpl.gen_py_ser_dispatch = TplTieData.walker_py_ser_dispatch /\ Gen_CodecTpl.gen_py_ser_macros = TplTieData.walker_py_ser_macros /\
   Gen_CodecTpl.gen_py_des_dispatch = TplTieData.walker_py_des_dispatch /\ Gen_CodecTpl.gen_py_des_macros = TplTieData.walker_py_des_macros).
Proof. exact (conj TplTie.c_templates_match_walker (conj TplTie.cpp_templates_match_walker TplTie.py_templates_match_walker)). Qed.
Print Assumptions c03_templates_match_walkers.

(* ---- supporting specification-level facts ---- *)
(* the cast is idempotent on encodings (float16: pack (unpack h) = h on the image of pack, Prims/F16Thm.v) *)
Theorem c03_enc_cast_idem : forall t v b, wf_ty t = true -> enc_body t v = Ok b -> enc_body t (cast_val t v) = Ok b.
Proof. exact enc_cast_idem. Qed.
Print Assumptions c03_enc_cast_idem.

(* values that went through a round trip hold no tie (all targets agree on them) and fit the generated storage types *)
Theorem c03_cast_values_hold_no_tie : forall t v, no_f16_tie t (cast_val t v) = true.
Proof. exact cast_no_tie. Qed.
Print Assumptions c03_cast_values_hold_no_tie.

Theorem c03_cast_values_fit_storage : forall t, wf_ty t = true -> forall v, storage_ok t (cast_val t v) = true.
Proof. exact cast_storage_ok. Qed.
Print Assumptions c03_cast_values_fit_storage.

(* decoded values are fixed points of the cast (NaN payloads aside) and can always be encoded again *)
Theorem c03_decoded_values_cast_fixed : forall t bs v n, wf_ty t = true -> dec_body t bs = Ok (v, n) ->
  f16_nans_canonical t v = true -> cast_val t v = v.
Proof. exact dec_cast_fix. Qed.
Print Assumptions c03_decoded_values_cast_fixed.

Theorem c03_decoded_values_reencode : forall t bs v k cap, des_spec t bs = Ok (v, k) -> bmax t <= 8 * cap ->
  exists b, ser_spec t v cap = Ok b.
Proof. exact des_then_ser_ok. Qed.
Print Assumptions c03_decoded_values_reencode.

(* the explicit Python leaf (the one Codec/PyWalker.v runs) is the specification's encoding of the pre-adjusted value ... *)
Theorem c03_py_leaf_is_spec : forall p v, py_enc_prim p v = enc_prim p (py_leaf p v).
Proof. exact py_enc_prim_spec. Qed.
Print Assumptions c03_py_leaf_is_spec.

(* ... and its float16 rule is round-half-to-even: on the exact midpoint between the halves h and h+1 (every finite h) the C rule gives
   h+1 (away from zero) and the Python rule the even one of the two *)
Theorem c03_f16_rne_on_ties : forall h, (h < 31744)%N ->
  (val32 (mid16 h) * 2 = N.shiftl (val16 h + val16 (h + 1)) 125)%N /\
  is_tie16 (mid16 h) = true /\ pack_mag (mid16 h) = (h + 1)%N /\ f16_pack_rne (mid16 h) = (if N.even h then h else h + 1)%N.
Proof. exact f16_rne_on_ties. Qed.
Print Assumptions c03_f16_rne_on_ties.

(* ---- non-vacuity: the side conditions are satisfiable and the observables run the shipped primitive models ---- *)
Definition ex_inner : ty := TComp false [TPrim (PU 3 true); TPrim (PS 13 true); TPrim (PF 16 true)] (Some 64).
Definition ex_union : ty := TComp true [TPrim (PU 8 true); ex_inner; TVar (TPrim (PF 16 false)) 9] None.
Definition ex_val : val := VUnion 1 (VStruct [VInt 9; VInt (-5000); VFlt 1065357312%N]).     (* saturates 9 -> 7, -5000 -> -4096; tie *)
Example c03_example_side_conditions :
  wf_ty ex_union = true /\ storage_ok ex_union ex_val = true /\ (bmax ex_union <=? 8 * 20) = true /\ no_f16_tie ex_union ex_val = false /\
  no_f16_tie ex_union (VUnion 2 (VArr [VFlt 1065357313%N; VFlt 0%N])) = true.
Proof. vm_compute. repeat split; reflexivity. Qed.
Example c03_example_roundtrip_c :      (* C serializer (little: memmove paths, asserts on, 0xFF buffer), C++ deserializer *)
  bind (obs_ser TgC (mk_options EndLittle false true) ex_union ex_val (repeat true 160) 20)
       (fun b => obs_des TgCpp default_options ex_union b)
  = Ok (VUnion 1 (VStruct [VInt 7; VInt (-4096); VFlt 1065361408%N]), Some 9).
Proof. vm_compute. reflexivity. Qed.
Example c03_example_roundtrip_py :     (* the same value through the Python serializer: the tie goes to even, 0x3C00 = 1.0 *)
  bind (obs_ser TgPy default_options ex_union ex_val [] 20) (fun b => obs_des TgPy default_options ex_union b)
  = Ok (VUnion 1 (VStruct [VInt 7; VInt (-4096); VFlt 1065353216%N]), None).
Proof. vm_compute. reflexivity. Qed.
Example c03_example_options :          (* memmove (truncated uint13 = 0xFFFF, aligned) and bulk (uint16[2]) paths vs. portable paths vs. C++ vs. Python *)
  let t := TComp false [TPrim (PU 13 false); TPrim (PU 3 true); TFix (TPrim (PU 16 true)) 2; TPrim (PVoid 7); TPrim (PS 13 true);
                        TPrim (PF 16 false)] None in
  let v := VStruct [VInt 65535; VInt 9; VArr [VInt 258; VInt 772]; VVoid; VInt (-5000); VFlt 1065357313%N] in
  obs_ser TgC (mk_options EndLittle false true) t v (repeat true 88) 11 = obs_ser TgC (mk_options EndBig false false) t v (repeat false 88) 11 /\
  obs_ser TgC (mk_options EndLittle false true) t v (repeat true 88) 11 = obs_ser TgCpp (mk_options EndAny false true) t v (repeat true 88) 11 /\
  obs_ser TgCpp default_options t v (repeat true 88) 11 = obs_ser TgPy default_options t v [] 11 /\
  obs_ser TgC (mk_options EndAny true false) t v (repeat true 88) 11 = Err EShape /\
  uses_float t = true.
Proof. vm_compute. repeat split; reflexivity. Qed.
