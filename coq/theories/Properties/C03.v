(* C03: round trip, cross-target and cross-option agreement of generated codecs.
   Statements only; proofs in Spec/WireThmC03.v.  The observable of a target under an option set is
     target_ser tg o t v cap  /  target_des tg o t bits          (Spec/TargetsC03.v)
   = the ONE DSDL wire specification (Spec/Wire.v, tied to the generated code by C01/C02 and by this check's own
   correspondence runs) composed with the target's documented float16 rounding rule: C and C++ share
   nunavutFloat16Pack (nearest, ties away from zero: Prims/F16.v, C14), Python uses struct.pack('<e') (nearest, ties to even).
   `target_pre tg t v` is the value the specification is applied to (v itself for C and C++). *)
From Verif Require Import Wire WireThm WireThmRt WireThmExt WireThmValid Walker Refine F16 TargetsC03 WireThmC03.
Local Open Scope nat_scope.

(* ---- round trip: deserializing what was serialized (whatever follows in the buffer) returns the value after its cast-mode
   adjustment and consumes exactly the serialized bytes; every target, every option set, every type, every value ---- *)
Theorem c03_roundtrip : forall tg o t v cap b r, wf_ty t = true -> align t = 8 ->
  target_ser tg o t v cap = Ok b ->
  target_des tg o t (b ++ r) = Ok (cast_val t (target_pre tg t v), length b / 8).
Proof. exact target_roundtrip. Qed.
Print Assumptions c03_roundtrip.

(* ---- the cast is idempotent on encodings (needs pack (unpack h) = h on float16 images: Prims/F16Thm.v) ---- *)
Theorem c03_enc_cast_idem : forall t v b, wf_ty t = true -> enc_body t v = Ok b -> enc_body t (cast_val t v) = Ok b.
Proof. exact enc_cast_idem. Qed.
Print Assumptions c03_enc_cast_idem.

(* ---- serializing the deserialized value again yields the identical bytes ---- *)
Theorem c03_reser : forall tg o t v cap b v' k, wf_ty t = true -> align t = 8 ->
  target_ser tg o t v cap = Ok b -> target_des tg o t b = Ok (v', k) -> target_ser tg o t v' cap = Ok b.
Proof. exact target_reser. Qed.
Print Assumptions c03_reser.

(* ---- decoding re-encoded decoded data is stable: whatever bytes v was decoded from, its encoding b decodes to cast v and
   that re-encodes to b again (so bytes and values are fixed from the first re-encoding on) ---- *)
Theorem c03_des_ser_des : forall tg o t bs cap v k b, wf_ty t = true -> align t = 8 ->
  target_des tg o t bs = Ok (v, k) -> target_ser tg o t v cap = Ok b ->
  target_des tg o t b = Ok (cast_val t (target_pre tg t v), length b / 8) /\
  target_ser tg o t (cast_val t (target_pre tg t v)) cap = Ok b.
Proof. exact target_des_ser_des. Qed.
Print Assumptions c03_des_ser_des.

Theorem c03_decoded_values_reencode : forall o t bs v k cap, target_des TgC o t bs = Ok (v, k) -> bmax t <= 8 * cap ->
  exists b, target_ser TgC o t v cap = Ok b.
Proof. exact des_then_ser_ok. Qed.
Print Assumptions c03_decoded_values_reencode.

(* at the value level des-ser-des is NOT the identity on arbitrary input: float16 NaN payloads are canonicalised by the pack
   function (DSDL does not promise payload preservation; the harness compares NaNs as one class) *)
Theorem c03_des_ser_des_value_refuted : exists t bs v k b v' k', wf_ty t = true /\
  des_spec t bs = Ok (v, k) /\ ser_spec t v 2 = Ok b /\ des_spec t b = Ok (v', k') /\ v' <> v.
Proof. exact des_ser_des_value_refuted. Qed.
Print Assumptions c03_des_ser_des_value_refuted.

(* ---- cross target ---- *)
Theorem c03_cross_target_ser_c_cpp : forall o1 o2 t v cap, target_ser TgC o1 t v cap = target_ser TgCpp o2 t v cap.
Proof. exact cross_target_ser_c_cpp. Qed.
Print Assumptions c03_cross_target_ser_c_cpp.

Theorem c03_cross_target_des : forall tg1 tg2 o1 o2 t bs, target_des tg1 o1 t bs = target_des tg2 o2 t bs.
Proof. exact cross_target_des_all. Qed.
Print Assumptions c03_cross_target_des.

(* the full statement "all three targets emit the same bytes" is FALSE of the faithful model: finding F-F16-TIE,
   witness binary32 0x3F801000 = 1 + 2^-11 in a truncated float16 field: C/C++ 0x3C01, Python 0x3C00 *)
Theorem c03_f16_tie_cross_target_refuted : exists t v cap bc bp, wf_ty t = true /\
  target_ser TgC default_options t v cap = Ok bc /\ target_ser TgPy default_options t v cap = Ok bp /\ bc <> bp.
Proof. exact f16_tie_refuted. Qed.
Print Assumptions c03_f16_tie_cross_target_refuted.

(* the strongest true statement: any two targets under any two option sets emit the same bytes (or the same error) whenever no
   float16 field of the value holds an exact rounding tie *)
Theorem c03_cross_target_ser_partial : forall tg1 tg2 o1 o2 t v cap, no_f16_tie t v = true ->
  target_ser tg1 o1 t v cap = target_ser tg2 o2 t v cap.
Proof. exact cross_target_ser_partial. Qed.
Print Assumptions c03_cross_target_ser_partial.

(* values that went through a round trip or came out of a deserializer of any target hold no tie: all targets agree on them *)
Theorem c03_cast_values_hold_no_tie : forall t v, no_f16_tie t (cast_val t v) = true.
Proof. exact cast_no_tie. Qed.
Print Assumptions c03_cast_values_hold_no_tie.

Theorem c03_cross_target_on_cast_values : forall tg1 tg2 o1 o2 t v cap,
  target_ser tg1 o1 t (cast_val t v) cap = target_ser tg2 o2 t (cast_val t v) cap.
Proof. exact cross_target_on_cast_values. Qed.
Print Assumptions c03_cross_target_on_cast_values.

(* the Python rule of the model is round-half-to-even: on the exact midpoint between the halves h and h+1 (every finite h) the C
   rule gives h+1 (away from zero) and the Python rule the even one of the two *)
Theorem c03_f16_rne_on_ties : forall h, (h < 31744)%N ->
  (val32 (mid16 h) * 2 = N.shiftl (val16 h + val16 (h + 1)) 125)%N /\
  is_tie16 (mid16 h) = true /\ pack_mag (mid16 h) = (h + 1)%N /\ f16_pack_rne (mid16 h) = (if N.even h then h else h + 1)%N.
Proof. exact f16_rne_on_ties. Qed.
Print Assumptions c03_f16_rne_on_ties.

(* ---- options documented as optimisation / packaging choices (target_endianness on a little-endian host, assertion generation,
   C++ standard and allocator flavour, variable-array capacity override): the observables carry the option record and do not
   depend on it - the specification they are made of takes no option argument ---- *)
Theorem c03_option_indep_ser : forall tg o1 o2 t v cap, target_ser tg o1 t v cap = target_ser tg o2 t v cap.
Proof. exact option_indep_ser. Qed.
Print Assumptions c03_option_indep_ser.

Theorem c03_option_indep_des : forall tg o1 o2 t bs, target_des tg o1 t bs = target_des tg o2 t bs.
Proof. exact option_indep_des. Qed.
Print Assumptions c03_option_indep_des.

(* on the code-shaped walker (Codec/Walker.v) the option-dependent part is the record of buffer primitives (memmove fast path vs.
   byte assembly, bitspan, Python Serializer): any two records satisfying the primitive laws give the same observable (fragment
   of Codec/Refine.v: top-level composites of primitives and arrays of primitives) *)
Theorem c03_walker_des_prims_indep_partial : forall P1 P2 t bits, prims_ok P1 -> prims_ok P2 -> walk_fragment t = true ->
  length bits mod 8 = 0 -> walk_des P1 t bits = walk_des P2 t bits.
Proof. exact walker_des_prims_indep. Qed.
Print Assumptions c03_walker_des_prims_indep_partial.

(* ---- non-vacuity ---- *)
Definition ex_inner : ty := TComp false [TPrim (PU 3 true); TPrim (PS 13 true); TPrim (PF 16 true)] (Some 64).
Definition ex_union : ty := TComp true [TPrim (PU 8 true); ex_inner; TVar (TPrim (PF 16 false)) 9] None.
Definition ex_val : val := VUnion 1 (VStruct [VInt 9; VInt (-5000); VFlt 1065357312%N]).     (* saturates 9 -> 7, -5000 -> -4096; tie *)
Example c03_example_wf : wf_ty ex_union = true /\ align ex_union = 8.
Proof. vm_compute. split; reflexivity. Qed.
Example c03_example_roundtrip_c :
  bind (target_ser TgC default_options ex_union ex_val 20) (fun b => target_des TgC default_options ex_union b)
  = Ok (VUnion 1 (VStruct [VInt 7; VInt (-4096); VFlt 1065361408%N]), 9).
Proof. vm_compute. reflexivity. Qed.
Example c03_example_roundtrip_py :      (* the same value through the Python observable: the tie goes to even, 0x3C00 = 1.0 *)
  bind (target_ser TgPy default_options ex_union ex_val 20) (fun b => target_des TgPy default_options ex_union b)
  = Ok (VUnion 1 (VStruct [VInt 7; VInt (-4096); VFlt 1065353216%N]), 9).
Proof. vm_compute. reflexivity. Qed.
Example c03_example_tie_free : no_f16_tie ex_union (VUnion 2 (VArr [VFlt 1065357313%N; VFlt 0%N])) = true /\ no_f16_tie ex_union ex_val = false.
Proof. vm_compute. split; reflexivity. Qed.
